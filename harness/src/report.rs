//! Uniform result file of every harness lane: counts, mismatches (each with a class key for
//! known-finding matching and the concrete failing case), and a few samples.

use serde_json::{json, Value};
use std::collections::BTreeMap;

pub struct Report {
    pub lane: String,
    pub evaluations: u64,
    pub nontrivial: std::collections::HashSet<u64>,
    pub counters: BTreeMap<String, u64>,
    pub mismatches: Vec<Value>,
    pub mismatch_total: u64,
    pub by_key: BTreeMap<String, u64>,
    pub samples: Vec<Value>,
    pub notes: Vec<String>,
    max_keep: usize,
}

impl Report {
    pub fn new(lane: &str) -> Self {
        Report {
            lane: lane.to_string(),
            evaluations: 0,
            nontrivial: Default::default(),
            counters: BTreeMap::new(),
            mismatches: vec![],
            mismatch_total: 0,
            by_key: BTreeMap::new(),
            samples: vec![],
            notes: vec![],
            max_keep: 40,
        }
    }
    pub fn count(&mut self, name: &str) {
        *self.counters.entry(name.to_string()).or_insert(0) += 1;
    }
    pub fn add(&mut self, name: &str, n: u64) {
        *self.counters.entry(name.to_string()).or_insert(0) += n;
    }
    /// Record one evaluated case; `distinct_hash` identifies it for the distinct count when it is non-trivial.
    pub fn eval(&mut self, nontrivial: bool, distinct_hash: u64) {
        self.evaluations += 1;
        if nontrivial {
            self.nontrivial.insert(distinct_hash);
        }
    }
    pub fn sample(&mut self, v: Value) {
        if self.samples.len() < 5 {
            self.samples.push(v);
        }
    }
    /// `key`: class of the failure (stable, used to match known findings); `case`: the concrete input and outputs.
    pub fn mismatch(&mut self, key: &str, case: Value) {
        self.mismatch_total += 1;
        let n = self.by_key.entry(key.to_string()).or_insert(0);
        *n += 1;
        if *n <= 3 && self.mismatches.len() < self.max_keep {
            self.mismatches.push(json!({"key": key, "case": case}));
        }
    }
    pub fn write(&self, path: &str) {
        let v = json!({
            "lane": self.lane,
            "evaluations": self.evaluations,
            "distinct_nontrivial": self.nontrivial.len(),
            "counters": self.counters,
            "mismatch_total": self.mismatch_total,
            "mismatch_by_key": self.by_key,
            "mismatches": self.mismatches,
            "samples": self.samples,
            "notes": self.notes,
        });
        std::fs::write(path, serde_json::to_string_pretty(&v).unwrap()).expect("write report");
    }
}

pub fn hash_of<T: std::hash::Hash>(t: &T) -> u64 {
    use std::hash::Hasher;
    let mut h = std::collections::hash_map::DefaultHasher::new();
    t.hash(&mut h);
    h.finish()
}
