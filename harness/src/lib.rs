//! Shared pieces of the conformance harness: TLC output reader, hex helpers, reporting,
//! a scriptable in-process transport and a tiny BER writer for the scripted server
//! (independent of `lber`: the server side must not share a bug with the code under test).

pub mod ber;
pub mod lanes;
pub mod mockio;
pub mod report;
pub mod tlcout;

pub fn hex(b: &[u8]) -> String {
    const H: &[u8; 16] = b"0123456789abcdef";
    let mut s = Vec::with_capacity(b.len() * 2);
    for x in b {
        s.push(H[(x >> 4) as usize]);
        s.push(H[(x & 15) as usize]);
    }
    String::from_utf8(s).expect("hex digits")
}

pub fn unhex(s: &str) -> Vec<u8> {
    let b = s.as_bytes();
    let mut v = Vec::with_capacity(b.len() / 2);
    let mut i = 0;
    while i + 1 < b.len() {
        let h = (b[i] as char).to_digit(16).unwrap() as u8;
        let l = (b[i + 1] as char).to_digit(16).unwrap() as u8;
        v.push(h * 16 + l);
        i += 2;
    }
    v
}

/// JSON array of integers -> bytes.
pub fn bytes_of(v: &serde_json::Value) -> Vec<u8> {
    match v {
        serde_json::Value::Array(a) => a.iter().map(|x| x.as_u64().unwrap_or(0) as u8).collect(),
        serde_json::Value::String(s) => unhex(s),
        _ => Vec::new(),
    }
}

pub fn seed_from_env() -> u64 {
    std::env::var("VERIF_SEED").ok().and_then(|s| s.parse().ok()).unwrap_or(1)
}

/// Run `f`, turning a panic into `Err(message)`. The default panic hook is silenced while `f` runs.
pub fn catch<T>(f: impl FnOnce() -> T + std::panic::UnwindSafe) -> Result<T, String> {
    std::panic::catch_unwind(f).map_err(|e| {
        if let Some(s) = e.downcast_ref::<&str>() {
            s.to_string()
        } else if let Some(s) = e.downcast_ref::<String>() {
            s.clone()
        } else {
            "panic".to_string()
        }
    })
}

/// Breadcrumb: the input about to be handed to the code under test, written to the file named by VERIF_CRUMB. A panic is
/// caught and reported by the harness itself; an abort (allocation failure, stack overflow) kills the process - the check then
/// reads the breadcrumb to say which input did it.
pub fn crumb(what: &str, bytes: &[u8]) {
    use std::io::Write;
    thread_local! {
        static F: std::cell::RefCell<Option<std::fs::File>> = std::cell::RefCell::new(
            std::env::var("VERIF_CRUMB").ok().and_then(|p| std::fs::OpenOptions::new().create(true).write(true).truncate(true).open(p).ok()));
    }
    F.with(|f| {
        if let Some(f) = f.borrow_mut().as_mut() {
            use std::io::Seek;
            let hexs: String = bytes.iter().take(4096).map(|b| format!("{:02x}", b)).collect();
            let line = format!("{{\"what\":\"{}\",\"len\":{},\"hex\":\"{}\"}}\n", what, bytes.len(), hexs);
            let _ = f.seek(std::io::SeekFrom::Start(0));
            let _ = f.write_all(line.as_bytes());
            let _ = f.set_len(line.len() as u64);
        }
    });
}

/// As `crumb`, for a textual input (a TLC vector): one positioned write of a fixed-size record per call, nothing else
/// (this runs once per vector, millions of times in the codec lanes).
pub fn crumb_text(_what: &str, text: &str) {
    use std::os::unix::fs::FileExt;
    thread_local! {
        static F: Option<std::fs::File> = std::env::var("VERIF_CRUMB").ok()
            .and_then(|p| std::fs::OpenOptions::new().create(true).write(true).truncate(true).open(p + ".txt").ok());
    }
    F.with(|f| {
        if let Some(f) = f {
            let mut rec = [b' '; 1024];
            let b = text.as_bytes();
            let n = b.len().min(1023);
            rec[..n].copy_from_slice(&b[..n]);
            rec[1023] = b'\n';
            let _ = f.write_at(&rec, 0);
        }
    });
}

pub fn silence_panics() {
    std::panic::set_hook(Box::new(|_| {}));
}
