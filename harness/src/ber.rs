//! Minimal, independent BER writer/reader used by the scripted server and the harness oracles.
//! Deliberately does not use `lber`.

pub fn len_octets(n: usize) -> Vec<u8> {
    if n < 128 {
        vec![n as u8]
    } else {
        let mut d = vec![];
        let mut x = n;
        while x > 0 {
            d.insert(0, (x & 0xff) as u8);
            x >>= 8;
        }
        let mut v = vec![0x80 | d.len() as u8];
        v.extend(d);
        v
    }
}

/// Length octets in long form padded to exactly `k` length bytes (k >= minimal).
pub fn len_octets_padded(n: usize, k: usize) -> Vec<u8> {
    let mut d = vec![];
    let mut x = n;
    while x > 0 {
        d.insert(0, (x & 0xff) as u8);
        x >>= 8;
    }
    while d.len() < k {
        d.insert(0, 0);
    }
    let mut v = vec![0x80 | d.len() as u8];
    v.extend(d);
    v
}

pub fn tlv(tag: u8, content: &[u8]) -> Vec<u8> {
    let mut v = vec![tag];
    v.extend(len_octets(content.len()));
    v.extend_from_slice(content);
    v
}

pub fn cat(parts: &[Vec<u8>]) -> Vec<u8> {
    parts.iter().flat_map(|p| p.iter().copied()).collect()
}

/// Shortest two's-complement content octets of a signed integer.
pub fn int_content(v: i64) -> Vec<u8> {
    let b = v.to_be_bytes();
    let mut i = 0;
    while i < 7 && ((b[i] == 0 && b[i + 1] < 0x80) || (b[i] == 0xff && b[i + 1] >= 0x80)) {
        i += 1;
    }
    b[i..].to_vec()
}

pub fn int(v: i64) -> Vec<u8> {
    tlv(2, &int_content(v))
}
pub fn enumerated(v: i64) -> Vec<u8> {
    tlv(10, &int_content(v))
}
pub fn octets(b: &[u8]) -> Vec<u8> {
    tlv(4, b)
}
pub fn boolean(b: bool) -> Vec<u8> {
    tlv(1, &[if b { 0xff } else { 0 }])
}
pub fn seq(parts: &[Vec<u8>]) -> Vec<u8> {
    tlv(0x30, &cat(parts))
}

/// LDAPMessage envelope.
pub fn message(id: i64, op: Vec<u8>, controls: Option<Vec<u8>>) -> Vec<u8> {
    let mut c = int(id);
    c.extend(op);
    if let Some(ct) = controls {
        c.extend(ct);
    }
    tlv(0x30, &c)
}

/// LDAPResult-shaped protocolOp with the given application tag (constructed).
pub fn ldap_result(app: u8, rc: i64, matched: &[u8], text: &[u8], extra: &[Vec<u8>]) -> Vec<u8> {
    let mut c = cat(&[enumerated(rc), octets(matched), octets(text)]);
    for e in extra {
        c.extend_from_slice(e);
    }
    tlv(0x60 | app, &c)
}

pub fn control(oid: &str, crit: Option<bool>, val: Option<&[u8]>) -> Vec<u8> {
    let mut c = octets(oid.as_bytes());
    if let Some(cr) = crit {
        c.extend(boolean(cr));
    }
    if let Some(v) = val {
        c.extend(octets(v));
    }
    tlv(0x30, &c)
}

pub fn controls(list: &[Vec<u8>]) -> Vec<u8> {
    tlv(0xa0, &cat(list))
}

/// Generic decoded element (definite lengths only, tag numbers <= 30).
#[derive(Clone, Debug, PartialEq, Eq)]
pub struct El {
    pub class: u8,
    pub cons: bool,
    pub num: u8,
    pub val: Vec<u8>,
    pub kids: Vec<El>,
}

/// Decode one element at the front of `b`; returns (element, bytes consumed).
pub fn decode(b: &[u8]) -> Option<(El, usize)> {
    if b.len() < 2 {
        return None;
    }
    let id = b[0];
    if id & 0x1f == 0x1f {
        return None;
    }
    let (len, hdr) = if b[1] < 0x80 {
        (b[1] as usize, 2)
    } else {
        let k = (b[1] & 0x7f) as usize;
        if k == 0 || k > 8 || b.len() < 2 + k {
            return None;
        }
        let mut l: usize = 0;
        for x in &b[2..2 + k] {
            l = l.checked_mul(256)?.checked_add(*x as usize)?;
        }
        (l, 2 + k)
    };
    if b.len() < hdr + len {
        return None;
    }
    let content = &b[hdr..hdr + len];
    let cons = id & 0x20 != 0;
    let mut kids = vec![];
    if cons {
        let mut p = 0;
        while p < content.len() {
            let (k, n) = decode(&content[p..])?;
            kids.push(k);
            p += n;
        }
    }
    Some((
        El {
            class: id >> 6,
            cons,
            num: id & 0x1f,
            val: if cons { vec![] } else { content.to_vec() },
            kids,
        },
        hdr + len,
    ))
}

/// Split a byte stream into complete top-level elements; returns (elements with their raw bytes, leftover).
pub fn split_messages(b: &[u8]) -> (Vec<(El, Vec<u8>)>, Vec<u8>) {
    let mut out = vec![];
    let mut p = 0;
    while p < b.len() {
        match decode(&b[p..]) {
            Some((el, n)) => {
                out.push((el, b[p..p + n].to_vec()));
                p += n;
            }
            None => break,
        }
    }
    (out, b[p..].to_vec())
}

pub fn uint_of(v: &[u8]) -> i64 {
    let mut r: i64 = if !v.is_empty() && v[0] >= 0x80 { -1 } else { 0 };
    for x in v {
        r = (r << 8) | *x as i64;
    }
    r
}
