//! Reader for lines that a TLC run printed with `PrintT(<<"TAG", ToJson(x)>>)`.
//! TLC prints the tuple as `<<"TAG", "json with \" escapes">>` on one line.

use std::io::{BufRead, BufReader};

fn unescape(s: &str) -> String {
    let mut out = String::with_capacity(s.len());
    let mut it = s.chars();
    while let Some(c) = it.next() {
        if c == '\\' {
            match it.next() {
                Some('"') => out.push('"'),
                Some('\\') => out.push('\\'),
                Some('n') => out.push('\n'),
                Some('t') => out.push('\t'),
                Some(o) => {
                    out.push('\\');
                    out.push(o)
                }
                None => out.push('\\'),
            }
        } else {
            out.push(c);
        }
    }
    out
}

/// Call `f(json)` for every `<<"tag", "...">>` line of the file; returns the number of lines seen.
pub fn for_each_tagged(path: &str, tag: &str, mut f: impl FnMut(serde_json::Value)) -> std::io::Result<u64> {
    let rd: Box<dyn BufRead> = if path == "-" {
        Box::new(BufReader::new(std::io::stdin()))
    } else {
        Box::new(BufReader::with_capacity(1 << 20, std::fs::File::open(path)?))
    };
    let prefix = format!("<<\"{}\", \"", tag);
    let mut n = 0;
    for line in rd.lines() {
        let line = line?;
        if let Some(rest) = line.strip_prefix(&prefix) {
            if let Some(body) = rest.strip_suffix("\">>") {
                let js = unescape(body);
                match serde_json::from_str::<serde_json::Value>(&js) {
                    Ok(v) => {
                        n += 1;
                        // should the code under test kill the process on this vector, the check names it
                        crate::crumb_text("vector", &js);
                        f(v)
                    }
                    Err(e) => {
                        eprintln!("harness: unparsable {} line: {} ({})", tag, js, e);
                        std::process::exit(2);
                    }
                }
            }
        }
    }
    Ok(n)
}
