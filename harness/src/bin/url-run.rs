//! url-run (C20): `ldap3::get_url_params` against the Url4516 specification.
//!
//!   url-run replay <tlc-output|-> <report.json>      S -> I: every VEC line of an MCUrl run
//!   url-run trace  <out.ndjson> <count> <report.json> I -> S: seeded random components, formatted by the
//!                                                    formatter in this file, observed output for TraceUrl
//!   url-run probe  <url-string>                      what the url crate and get_url_params make of one string
//!
//! The oracle is never computed here: replay compares with the `expect` record TLC printed, trace only
//! records (url bytes, implementation output); the `gen` field of a trace record (what the generator meant)
//! is used by lib/pC20.py to *name* a rejected record, never to judge it.

use ldap3::{get_url_params, LdapError, LdapUrlExt, Scope};
use rand::{rngs::StdRng, Rng, SeedableRng};
use serde_json::{json, Value};
use std::io::Write;
use verif_harness::report::{hash_of, Report};
use verif_harness::{bytes_of, catch, seed_from_env, tlcout};

/// Observable result of `Url::parse` + `get_url_params` on one URL string.
#[derive(Debug, Clone, Default)]
struct Out {
    ok: bool,
    err: String, // "", "utf8", "scope", "critical-extension", "url-crate", "other", "panic"
    detail: String,
    base: Vec<u8>,
    attrs: Vec<Vec<u8>>,
    scope: String,
    filter: Vec<u8>,
    exts: Vec<(String, Vec<u8>)>, // sorted by kind
    normalised: bool,             // the url crate's serialisation differs from the input string
}

impl Out {
    fn json(&self) -> Value {
        json!({
            "ok": self.ok, "err": self.err, "base": self.base, "attrs": self.attrs, "scope": self.scope,
            "filter": self.filter,
            "exts": self.exts.iter().map(|(k, v)| json!({"kind": k, "val": v})).collect::<Vec<_>>(),
        })
    }
}

fn ext_pair(e: &LdapUrlExt) -> (String, Vec<u8>) {
    match e {
        LdapUrlExt::Bindname(v) => ("bindname".into(), v.as_bytes().to_vec()),
        LdapUrlExt::XBindpw(v) => ("xbindpw".into(), v.as_bytes().to_vec()),
        LdapUrlExt::Credentials(v) => ("credentials".into(), v.as_bytes().to_vec()),
        LdapUrlExt::SaslMech(v) => ("saslmech".into(), v.as_bytes().to_vec()),
        LdapUrlExt::StartTLS => ("starttls".into(), vec![]),
        LdapUrlExt::Unknown(v) => ("unknown".into(), v.as_bytes().to_vec()),
        #[allow(unreachable_patterns)]
        _ => ("other".into(), vec![]),
    }
}

fn observe(s: &str) -> Out {
    let owned = s.to_string();
    let r = catch(move || {
        let url = match url::Url::parse(&owned) {
            Ok(u) => u,
            Err(e) => {
                return Out { err: "url-crate".into(), detail: e.to_string(), ..Default::default() };
            }
        };
        let normalised = url.as_str() != owned;
        match get_url_params(&url) {
            Ok(p) => {
                let mut exts: Vec<(String, Vec<u8>)> = p.extensions.iter().map(ext_pair).collect();
                exts.sort();
                // the documented way of reading a value out of the set must agree with iteration
                for (probe, kind) in [
                    (LdapUrlExt::Bindname("".into()), "bindname"),
                    (LdapUrlExt::XBindpw("".into()), "xbindpw"),
                    (LdapUrlExt::Credentials("".into()), "credentials"),
                    (LdapUrlExt::SaslMech("".into()), "saslmech"),
                    (LdapUrlExt::StartTLS, "starttls"),
                ] {
                    let got = p.extensions.get(&probe).map(ext_pair);
                    let listed = exts.iter().find(|(k, _)| k == kind).cloned();
                    if got != listed {
                        return Out { err: "other".into(), detail: format!("set lookup for {} gives {:?}, iteration {:?}", kind, got, listed), ..Default::default() };
                    }
                }
                Out {
                    ok: true,
                    base: p.base.as_bytes().to_vec(),
                    attrs: p.attrs.iter().map(|a| a.as_bytes().to_vec()).collect(),
                    scope: match p.scope {
                        Scope::Base => "base",
                        Scope::OneLevel => "one",
                        Scope::Subtree => "sub",
                    }
                    .into(),
                    filter: p.filter.as_bytes().to_vec(),
                    exts,
                    normalised,
                    ..Default::default()
                }
            }
            Err(e) => Out {
                err: match e {
                    LdapError::DecodingUTF8 => "utf8",
                    LdapError::InvalidScopeString(_) => "scope",
                    LdapError::UnrecognizedCriticalExtension(_) => "critical-extension",
                    _ => "other",
                }
                .into(),
                detail: e.to_string(),
                normalised,
                ..Default::default()
            },
        }
    });
    match r {
        Ok(o) => o,
        Err(p) => Out { err: "panic".into(), detail: p, ..Default::default() },
    }
}

fn lossy(b: &[u8]) -> String {
    String::from_utf8_lossy(b).into_owned()
}

/// Features of a byte string that matter to URL splitting/decoding; part of the class key of a field mismatch.
fn features(b: &[u8]) -> String {
    let mut f = vec![];
    if b.is_empty() {
        f.push("empty");
    }
    if b.contains(&b'%') {
        f.push("pct");
    }
    if b.contains(&b'?') {
        f.push("qmark");
    }
    if b.contains(&b',') {
        f.push("comma");
    }
    if b.contains(&b'=') {
        f.push("equals");
    }
    if b.contains(&b'#') {
        f.push("hash");
    }
    if b.contains(&b' ') || b.contains(&b'+') {
        f.push("space-plus");
    }
    if b.iter().any(|&x| x >= 0x80) {
        f.push("non-ascii");
    }
    if f.is_empty() {
        f.push("plain");
    }
    f.join("+")
}

fn replay(path: &str, rep: &mut Report) {
    let default_filter = b"(objectClass=*)".to_vec();
    let n = tlcout::for_each_tagged(path, "VEC", |v| {
        let url = bytes_of(&v["url"]);
        let e = &v["expect"];
        let id = &v["id"];
        let eok = e["ok"].as_str().unwrap_or("?").to_string();
        let why: Vec<String> = v["why"].as_array().map(|a| a.iter().map(|x| x.as_str().unwrap_or("").to_string()).collect()).unwrap_or_default();
        let ebase = bytes_of(&e["base"]);
        let eattrs: Vec<Vec<u8>> = e["attrs"].as_array().map(|a| a.iter().map(bytes_of).collect()).unwrap_or_default();
        let eraw: Vec<Vec<u8>> = e["attrs_raw"].as_array().map(|a| a.iter().map(bytes_of).collect()).unwrap_or_default();
        let escope = e["scope"].as_str().unwrap_or("").to_string();
        let efilter = bytes_of(&e["filter"]);
        let mut eexts: Vec<(String, Vec<u8>)> = e["exts"]
            .as_array()
            .map(|a| a.iter().map(|x| (x["kind"].as_str().unwrap_or("").to_string(), bytes_of(&x["val"]))).collect())
            .unwrap_or_default();
        eexts.sort();

        let us = match String::from_utf8(url.clone()) {
            Ok(s) => s,
            Err(_) => {
                rep.mismatch("replay:vector-not-ascii", json!({"url": url}));
                return;
            }
        };
        let npct = url.iter().filter(|&&b| b == b'%').count();
        let nq = url.iter().filter(|&&b| b == b'?').count();
        let n_ext = id["xs"].as_array().map(|a| a.len()).unwrap_or(0);
        rep.eval(npct > 0 || n_ext > 0 || us.contains("??"), hash_of(&url));
        // vacuity counters: what the model actually generated
        rep.count(&format!("expect_{}", eok));
        for w in &why {
            rep.count(&format!("error_{}", w));
        }
        rep.count(&format!("style_{}", id["st"].as_str().unwrap_or("?")));
        rep.count(&format!("qmarks_{}", nq));
        rep.count(&format!("exts_{}", n_ext));
        rep.count(&format!("family_{}", id["fam"].as_str().unwrap_or("?")));
        if eok != "no" {
            rep.count(&format!("scope_{}{}", escope, if id["s"].as_u64() == Some(1) { "_default" } else { "" }));
            if efilter == default_filter && id["f"].as_u64() == Some(1) {
                rep.count("filter_default");
            }
            if id["a"].as_u64() == Some(1) {
                rep.count("attrs_default");
            }
            if eattrs != eraw {
                rep.count("attrs_need_encoding");
            }
            for (k, _) in &eexts {
                rep.count(&format!("ext_{}", k));
            }
        }
        if rep.samples.len() < 3 && npct > 2 && n_ext > 0 {
            rep.sample(json!({"url": us, "expect_ok": eok, "why": why}));
        }

        let o = observe(&us);
        if o.normalised {
            rep.count("url_crate_changed_the_string");
        }
        let case = |what: &str| {
            json!({"url": us, "what": what, "expected": {"ok": eok, "why": why, "base": lossy(&ebase),
                   "attrs": eattrs.iter().map(|a| lossy(a)).collect::<Vec<_>>(), "scope": escope, "filter": lossy(&efilter),
                   "exts": eexts.iter().map(|(k, v)| format!("{}={}", k, lossy(v))).collect::<Vec<_>>()},
                   "got": {"ok": o.ok, "err": o.err, "detail": o.detail, "base": lossy(&o.base),
                   "attrs": o.attrs.iter().map(|a| lossy(a)).collect::<Vec<_>>(), "scope": o.scope, "filter": lossy(&o.filter),
                   "exts": o.exts.iter().map(|(k, v)| format!("{}={}", k, lossy(v))).collect::<Vec<_>>()},
                   "model_id": id})
        };
        if o.err == "panic" {
            rep.mismatch("replay:panic", case("get_url_params panicked"));
            return;
        }
        if o.err == "url-crate" {
            rep.mismatch("replay:url-crate-rejects-formatted-url", case("Url::parse failed"));
            return;
        }
        if !o.ok {
            if eok == "yes" {
                rep.mismatch(&format!("replay:rejected:{}", o.err), case("error returned for a URL with a documented result"));
            }
            return;
        }
        if eok == "no" {
            rep.mismatch(&format!("replay:accepted:{}", why.join("+")), case("result returned where the property demands an error"));
            return;
        }
        if o.base != ebase {
            rep.mismatch(&format!("replay:base-differs:{}", features(&ebase)), case("base"));
        }
        if o.attrs != eattrs && o.attrs != eraw {
            let all: Vec<u8> = eattrs.concat();
            let k = if id["a"].as_u64() == Some(1) { "default".to_string() } else { features(&all) };
            rep.mismatch(&format!("replay:attrs-differ:{}", k), case("attrs (neither the decoded nor the as-written list)"));
        }
        if o.scope != escope {
            let k = if id["s"].as_u64() == Some(1) { "default".to_string() } else { escope.clone() };
            rep.mismatch(&format!("replay:scope-differs:{}->{}", k, o.scope), case("scope"));
        }
        if o.filter != efilter {
            let k = if id["f"].as_u64() == Some(1) { "default".to_string() } else { features(&efilter) };
            rep.mismatch(&format!("replay:filter-differs:{}", k), case("filter"));
        }
        if o.exts != eexts {
            for (k, v) in &eexts {
                match o.exts.iter().find(|(k2, _)| k2 == k) {
                    None => rep.mismatch(&format!("replay:ext-missing:{}", k), case("extensions")),
                    Some((_, v2)) if v2 != v => rep.mismatch(&format!("replay:ext-value-differs:{}:{}", k, features(v)), case("extensions")),
                    _ => {}
                }
            }
            for (k, _) in &o.exts {
                if !eexts.iter().any(|(k2, _)| k2 == k) {
                    rep.mismatch(&format!("replay:ext-unexpected:{}", k), case("extensions"));
                }
            }
            if o.exts.len() != eexts.len() && o.exts.iter().map(|x| &x.0).collect::<std::collections::BTreeSet<_>>().len() != o.exts.len() {
                rep.mismatch("replay:ext-duplicate-kind", case("extensions"));
            }
        }
    })
    .expect("read vectors");
    rep.add("vectors", n);
}

// ---------------------------------------------------------------------------------------------
// I -> S generator.  The formatter below is the harness' own (RFC 4516 s.2.1), with random choices
// wherever the RFC leaves freedom: which optional characters are percent-encoded, hex digit case,
// how many trailing empty fields are cut, scheme and host.

fn unreserved(b: u8) -> bool {
    b.is_ascii_alphanumeric() || matches!(b, b'-' | b'.' | b'_' | b'~')
}
fn reserved(b: u8) -> bool {
    matches!(b, b':' | b'/' | b'?' | b'#' | b'[' | b']' | b'@' | b'!' | b'$' | b'&' | b'\'' | b'(' | b')' | b'*' | b'+' | b',' | b';' | b'=')
}

#[derive(Clone, Copy, PartialEq)]
enum Comp {
    Dn,
    Attr,
    Filter,
    ExVal,
}

fn pct(b: u8, rng: &mut StdRng, out: &mut String) {
    if rng.gen_bool(0.5) {
        out.push_str(&format!("%{:02X}", b));
    } else {
        out.push_str(&format!("%{:02x}", b));
    }
}

fn enc(comp: Comp, s: &[u8], rng: &mut StdRng, p_res: f64, p_unres: f64) -> String {
    let mut out = String::new();
    for &b in s {
        let own = b == b'?' || b == b'#' || (comp == Comp::Dn && b == b'/') || ((comp == Comp::Attr || comp == Comp::ExVal) && b == b',');
        let must = own || !(unreserved(b) || reserved(b));
        if must || (reserved(b) && rng.gen_bool(p_res)) || (unreserved(b) && rng.gen_bool(p_unres)) {
            pct(b, rng, &mut out);
        } else {
            out.push(b as char);
        }
    }
    out
}

fn rand_char(rng: &mut StdRng) -> char {
    const SPECIAL: &[u8] = b"?,=%#+ /!;&()*\\:@[]$'\"<>{}|^`~-._";
    loop {
        let c = match rng.gen_range(0..100) {
            0..=34 => SPECIAL[rng.gen_range(0..SPECIAL.len())] as u32,
            35..=64 => b"abcdefghijklmnopqrstuvwxyzABCDEFXYZ0123456789"[rng.gen_range(0..45)] as u32,
            65..=76 => rng.gen_range(0x80..0x800),
            77..=88 => rng.gen_range(0x800..0x10000),
            89..=94 => rng.gen_range(0x10000..0x110000),
            _ => *[0u32, 9, 10, 13, 0x1b, 0x7f, 0x1f].get(rng.gen_range(0..7)).unwrap(),
        };
        if let Some(ch) = char::from_u32(c) {
            return ch;
        }
    }
}

fn rand_string(rng: &mut StdRng, max: usize) -> String {
    let n = rng.gen_range(0..=max);
    (0..n).map(|_| rand_char(rng)).collect()
}

const BAD_UTF8: &[&str] = &["%FF", "%c3", "%ED%A0%80", "%C0%80", "%f5%80%80%80", "%E2%82", "%80"];
const OID_CRED: &str = "1.3.6.1.4.1.10094.1.5.1";
const OID_SASL: &str = "1.3.6.1.4.1.10094.1.5.2";
const OID_TLS: &str = "1.3.6.1.4.1.1466.20037";

fn rand_case(s: &str, rng: &mut StdRng) -> String {
    s.chars().map(|c| if rng.gen_bool(0.4) { c.to_ascii_uppercase() } else { c }).collect()
}

fn trace(out: &str, count: u64, rep: &mut Report) {
    let mut rng = StdRng::seed_from_u64(seed_from_env() ^ 0xC20);
    let mut f = std::io::BufWriter::new(std::fs::File::create(out).expect("create trace"));
    let mut i = 0;
    while i < count {
        let mut injected: Vec<&str> = vec![];
        // --- components
        let base = if rng.gen_bool(0.2) { String::new() } else { rand_string(&mut rng, 12) };
        if base == "." || base == ".." {
            // the url crate (trusted, in the path) removes dot segments: out of scope
            rep.count("skipped_dot_segment_dn");
            continue;
        }
        let attrs: Vec<String> = if rng.gen_bool(0.35) {
            vec![]
        } else {
            (0..rng.gen_range(1..=3))
                .map(|_| {
                    if rng.gen_bool(0.7) {
                        ["cn", "sn;lang-de", "2.5.4.3", "*", "+", "1.1", "mail", "userCertificate;binary"][rng.gen_range(0..8)].to_string()
                    } else {
                        let mut s = rand_string(&mut rng, 5);
                        if s.is_empty() {
                            s.push('a');
                        }
                        s
                    }
                })
                .collect()
        };
        let scope = match rng.gen_range(0..100) {
            0..=39 => "",
            40..=54 => "base",
            55..=69 => "one",
            70..=84 => "sub",
            _ => ["Base", "ONE", "subtree", "children", "Sub", "onelevel", "bas", "subb"][rng.gen_range(0..8)],
        };
        if !matches!(scope, "" | "base" | "one" | "sub") {
            // a case variant of a scope word is not an error the property decides (ABNF literals are case-insensitive)
            injected.push(if matches!(scope.to_ascii_lowercase().as_str(), "base" | "one" | "sub") { "scope-case-variant" } else { "scope" });
        }
        let filter = if rng.gen_bool(0.3) { String::new() } else { format!("({}={})", rand_string(&mut rng, 4), rand_string(&mut rng, 8)) };
        // extensions: at most one per recognised kind (the result is a set keyed by kind)
        let mut exts: Vec<(bool, String, Option<String>, &str)> = vec![]; // crit, name, value, kind
        if rng.gen_bool(0.6) {
            let mut used: Vec<&str> = vec![];
            for _ in 0..rng.gen_range(1..=3) {
                let (name, kind): (String, &str) = match rng.gen_range(0..9) {
                    0 | 1 => (rand_case("bindname", &mut rng), "bindname"),
                    2 => (rand_case("x-bindpw", &mut rng), "xbindpw"),
                    3 => (OID_CRED.into(), "credentials"),
                    4 => (OID_SASL.into(), "saslmech"),
                    5 => (OID_TLS.into(), "starttls"),
                    _ => (["x-foo", "e-bar", "bindnames", "1.2.3", "bind-name", "1.3.6.1.4.1.10094.1.5.3", "X-BINDPWD"][rng.gen_range(0..7)].to_string(), "unknown"),
                };
                if kind != "unknown" && used.contains(&kind) {
                    continue;
                }
                used.push(kind);
                let crit = rng.gen_bool(0.3);
                let val = if kind == "starttls" || rng.gen_bool(0.25) { None } else { Some(rand_string(&mut rng, 8)) };
                if crit && kind == "unknown" {
                    injected.push("critical-extension");
                }
                exts.push((crit, name, val, kind));
            }
        }
        // --- formatting
        let p_res = [0.0, 0.3, 1.0][rng.gen_range(0..3)];
        let p_unres = [0.0, 0.0, 0.08][rng.gen_range(0..3)];
        let mut dn_txt = enc(Comp::Dn, base.as_bytes(), &mut rng, p_res, p_unres);
        if dn_txt == "." || dn_txt == ".." || dn_txt.to_ascii_lowercase().replace("%2e", ".") == "." || dn_txt.to_ascii_lowercase().replace("%2e", ".") == ".." {
            rep.count("skipped_dot_segment_dn");
            continue;
        }
        if rng.gen_bool(0.05) {
            dn_txt.push_str(BAD_UTF8[rng.gen_range(0..BAD_UTF8.len())]);
            injected.push("utf8-base");
        }
        let attrs_txt = attrs.iter().map(|a| enc(Comp::Attr, a.as_bytes(), &mut rng, p_res, 0.0)).collect::<Vec<_>>().join(",");
        let mut filter_txt = enc(Comp::Filter, filter.as_bytes(), &mut rng, p_res, p_unres);
        if !filter_txt.is_empty() && rng.gen_bool(0.05) {
            let at = if rng.gen_bool(0.5) { 0 } else { filter_txt.len() };
            filter_txt.insert_str(at, BAD_UTF8[rng.gen_range(0..BAD_UTF8.len())]);
            injected.push("utf8-filter");
        }
        let mut gen_exts = vec![];
        let exts_txt = exts
            .iter()
            .map(|(crit, name, val, kind)| {
                let mut t = String::new();
                if *crit {
                    t.push('!');
                }
                t.push_str(name);
                let mut bad = false;
                if let Some(v) = val {
                    t.push('=');
                    t.push_str(&enc(Comp::ExVal, v.as_bytes(), &mut rng, p_res, p_unres));
                    if rng.gen_bool(0.06) {
                        t.push_str(BAD_UTF8[rng.gen_range(0..BAD_UTF8.len())]);
                        bad = true;
                        injected.push(if *kind == "unknown" || *kind == "starttls" { "utf8-ignored-extension" } else { "utf8-extension" });
                    }
                }
                gen_exts.push(json!({"kind": kind, "crit": crit, "name": name, "hasval": val.is_some(), "val": val.as_ref().map(|v| v.as_bytes().to_vec()).unwrap_or_default(), "bad": bad}));
                t
            })
            .collect::<Vec<_>>()
            .join(",");
        let fields = [attrs_txt, scope.to_string(), filter_txt, exts_txt];
        let minq = fields.iter().rposition(|x| !x.is_empty()).map(|p| p + 1).unwrap_or(0);
        let nq = rng.gen_range(minq..=4);
        let (scheme, host) = match rng.gen_range(0..8) {
            0 => ("ldap", ""),
            1 => ("ldaps", "ldap.example.com:636"),
            2 => ("ldapi", "%2Fvar%2Frun%2Fldapi"),
            3 => ("ldap", "[::1]:389"),
            4 => ("ldap", "192.0.2.7"),
            _ => ("ldap", "localhost"),
        };
        let mut u = format!("{}://{}", scheme, host);
        if !(nq == 0 && dn_txt.is_empty() && rng.gen_bool(0.3)) {
            u.push('/');
            u.push_str(&dn_txt);
            for fld in fields.iter().take(nq) {
                u.push('?');
                u.push_str(fld);
            }
        }
        // --- observe
        let o = observe(&u);
        if o.err == "url-crate" {
            rep.mismatch("trace:url-crate-rejects-formatted-url", json!({"url": u, "error": o.detail}));
            continue;
        }
        if o.normalised {
            rep.count("url_crate_changed_the_string");
        }
        i += 1;
        let npct = u.matches('%').count();
        rep.eval(npct > 0 || !exts.is_empty(), hash_of(&u));
        rep.count(if o.ok { "impl_ok" } else { "impl_error" });
        if !o.ok {
            rep.count(&format!("impl_error_{}", o.err));
        }
        for w in &injected {
            rep.count(&format!("injected_{}", w));
        }
        rep.count(&format!("qmarks_{}", nq));
        rep.count(&format!("exts_{}", exts.len()));
        if i <= 3 {
            rep.sample(json!({"url": u, "ok": o.ok, "err": o.err}));
        }
        let mut oj = o.json();
        if o.err == "panic" {
            oj["panic"] = json!(o.detail);
        }
        let rec = json!({
            "_url": u, // first key of the line: survives truncation in replay files
            "url": u.as_bytes(),
            "out": oj,
            "gen": {"base": base.as_bytes(), "attrs": attrs.iter().map(|a| a.as_bytes().to_vec()).collect::<Vec<_>>(),
                    "scope": scope, "filter": filter.as_bytes(), "exts": gen_exts, "injected": injected, "text": u},
        });
        writeln!(f, "{}", rec).unwrap();
    }
    f.flush().unwrap();
}

fn main() {
    verif_harness::silence_panics();
    let a: Vec<String> = std::env::args().collect();
    let mode = a.get(1).map(|s| s.as_str()).unwrap_or("");
    match (mode, a.len()) {
        ("replay", 4) => {
            let mut rep = Report::new("url-replay");
            replay(&a[2], &mut rep);
            rep.write(&a[3]);
        }
        ("trace", 5) => {
            let mut rep = Report::new("url-trace");
            trace(&a[2], a[3].parse().expect("count"), &mut rep);
            rep.write(&a[4]);
        }
        ("probe", 3) => {
            match url::Url::parse(&a[2]) {
                Ok(u) => println!("as_str={:?}\nhost={:?} path={:?} query={:?} fragment={:?}", u.as_str(), u.host_str(), u.path(), u.query(), u.fragment()),
                Err(e) => println!("Url::parse error: {}", e),
            }
            let o = observe(&a[2]);
            println!("{}", serde_json::to_string(&json!({"ok": o.ok, "err": o.err, "detail": o.detail, "base": lossy(&o.base),
                "attrs": o.attrs.iter().map(|x| lossy(x)).collect::<Vec<_>>(), "scope": o.scope, "filter": lossy(&o.filter),
                "exts": o.exts.iter().map(|(k, v)| format!("{}={}", k, lossy(v))).collect::<Vec<_>>()})).unwrap());
        }
        _ => {
            eprintln!("usage: url-run replay <vectors> <report> | trace <out> <count> <report> | probe <url>");
            std::process::exit(2);
        }
    }
}
