//! entry-run: C15, `ldap3::SearchEntry::construct` against spec/Entry.tla.
//!
//!   entry-run replay <tlc-output|-> <report.json>
//!       S -> I: every `VEC` line of an MCEntry run carries an entry, its SearchResultEntry BER bytes as
//!       computed by the specification, and the expected text / binary maps. The bytes are parsed with
//!       lber, handed to `SearchEntry::construct`, and the result is compared with the expectation:
//!       dn equal, text map equal with values in order, binary map equal as a multiset per attribute,
//!       every attribute in exactly one map.
//!   entry-run trace <out.ndjson> <count> <report.json>
//!       I -> S: seeded random entries (encoded with the harness's own BER writer, not lber's) are parsed
//!       and constructed; input and observed output are written as ndjson for spec/TraceEntry.tla.
//!
//! The expected values never come from ldap3/lber or from Rust's UTF-8 validation: in replay mode they are
//! the specification's, in trace mode TLC recomputes them. A panic is an observation, not a crash.

use ldap3::asn1::{parse_tag, StructureTag};
use ldap3::{ResultEntry, SearchEntry};
use rand::{rngs::StdRng, seq::SliceRandom, Rng, SeedableRng};
use serde_json::{json, Value};
use std::collections::BTreeMap;
use std::io::Write;
use verif_harness::report::{hash_of, Report};
use verif_harness::{ber, catch, hex, seed_from_env, tlcout};

type Bytes = Vec<u8>;

/// What `construct` returned, projected to bytes (map iteration order is not meaningful).
struct Out {
    dn: Bytes,
    text: Vec<(Bytes, Vec<Bytes>)>,
    bin: Vec<(Bytes, Vec<Bytes>)>,
}

enum Obs {
    Done(Out),
    ParseError(String),
    Trailing(usize),
    Panic(String),
}

fn observe(enc: &[u8]) -> Obs {
    let bytes = enc.to_vec();
    let parsed: Result<Result<(StructureTag, usize), String>, String> = catch(move || match parse_tag(&bytes) {
        Ok((rest, t)) => Ok((t, rest.len())),
        Err(e) => Err(format!("{:?}", e.map(|x| x.code))),
    });
    let st = match parsed {
        Ok(Ok((t, 0))) => t,
        Ok(Ok((_, n))) => return Obs::Trailing(n),
        Ok(Err(e)) => return Obs::ParseError(e),
        Err(p) => return Obs::ParseError(format!("panic: {}", p)),
    };
    match catch(move || SearchEntry::construct(ResultEntry::new(st))) {
        Ok(se) => {
            let mut text: Vec<(Bytes, Vec<Bytes>)> =
                se.attrs.into_iter().map(|(k, v)| (k.into_bytes(), v.into_iter().map(String::into_bytes).collect())).collect();
            let mut bin: Vec<(Bytes, Vec<Bytes>)> = se.bin_attrs.into_iter().map(|(k, v)| (k.into_bytes(), v)).collect();
            text.sort();
            bin.sort_by(|a, b| a.0.cmp(&b.0));
            Obs::Done(Out { dn: se.dn.into_bytes(), text, bin })
        }
        Err(p) => Obs::Panic(p),
    }
}

fn jbytes(v: &Value) -> Bytes {
    match v {
        Value::Array(a) => a.iter().map(|x| x.as_u64().unwrap_or(0) as u8).collect(),
        _ => Vec::new(), // an empty sequence may be printed as {} or null
    }
}

fn jlist(v: &Value) -> Vec<Value> {
    v.as_array().cloned().unwrap_or_default()
}

fn hexes(v: &[Bytes]) -> Vec<String> {
    v.iter().map(|b| hex(b)).collect()
}

fn bag(v: &[Bytes]) -> BTreeMap<Bytes, u64> {
    let mut m = BTreeMap::new();
    for x in v {
        *m.entry(x.clone()).or_insert(0) += 1;
    }
    m
}

/// How two multisets differ, most telling difference first.
fn bag_diff(expected: &BTreeMap<Bytes, u64>, got: &BTreeMap<Bytes, u64>) -> Option<&'static str> {
    if got.keys().any(|k| !expected.contains_key(k)) {
        return Some("value-altered");
    }
    if expected.iter().any(|(k, n)| got.get(k).copied().unwrap_or(0) < *n) {
        return Some("value-lost");
    }
    if expected.iter().any(|(k, n)| got.get(k).copied().unwrap_or(0) > *n) {
        return Some("value-duplicated");
    }
    None
}

struct ExpAttr {
    t: Bytes,
    kind: String,
    text: Option<Vec<Bytes>>,           // expected in the text map with these values in order
    bin: Option<BTreeMap<Bytes, u64>>,  // expected in the binary map with this multiset
}

/// Compare an observation with the specification's expectation; returns (class key, detail) per difference.
fn compare(dn: &[u8], exp: &[ExpAttr], out: &Out) -> Vec<(String, Value)> {
    let mut bad = vec![];
    if out.dn != dn {
        bad.push(("dn:differs".to_string(), json!({"expected": hex(dn), "got": hex(&out.dn)})));
    }
    for a in exp {
        let in_text = out.text.iter().find(|(t, _)| *t == a.t);
        let in_bin = out.bin.iter().find(|(t, _)| *t == a.t);
        let k = &a.kind;
        let at = String::from_utf8_lossy(&a.t).to_string();
        match (in_text, in_bin) {
            (None, None) => bad.push((format!("{}:missing", k), json!({"attr": at}))),
            (Some((_, tv)), Some((_, bv))) => bad.push((
                format!("{}:in-both-maps", k),
                json!({"attr": at, "text": hexes(tv), "bin": hexes(bv)}),
            )),
            (Some((_, tv)), None) => match &a.text {
                None => bad.push((format!("{}:wrong-map", k), json!({"attr": at, "expected": "binary", "text": hexes(tv)}))),
                Some(ev) => {
                    if tv != ev {
                        let what = bag_diff(&bag(ev), &bag(tv)).unwrap_or("order");
                        bad.push((format!("{}:{}", k, what), json!({"attr": at, "expected": hexes(ev), "got": hexes(tv)})));
                    }
                }
            },
            (None, Some((_, bv))) => match &a.bin {
                None => bad.push((format!("{}:wrong-map", k), json!({"attr": at, "expected": "text", "bin": hexes(bv)}))),
                Some(eb) => {
                    if let Some(what) = bag_diff(eb, &bag(bv)) {
                        let e: Vec<Value> = eb.iter().map(|(v, n)| json!({"v": hex(v), "n": n})).collect();
                        bad.push((format!("{}:{}", k, what), json!({"attr": at, "expected_bag": e, "got": hexes(bv)})));
                    }
                }
            },
        }
    }
    for (t, _) in out.text.iter().chain(out.bin.iter()) {
        if !exp.iter().any(|a| a.t == *t) {
            bad.push(("extra-attribute".to_string(), json!({"attr": hex(t)})));
        }
    }
    bad
}

fn replay(path: &str, rep: &mut Report) {
    let mut sampled: std::collections::HashSet<String> = Default::default();
    let n = tlcout::for_each_tagged(path, "VEC", |v| {
        let mode = v["m"].as_str().unwrap_or("?").to_string();
        let dn = jbytes(&v["dn"]);
        let enc = jbytes(&v["enc"]);
        let attrs = jlist(&v["attrs"]);
        let kinds = jlist(&v["kinds"]);
        // expectation, attribute by attribute
        let mut exp: Vec<ExpAttr> = vec![];
        let etext = jlist(&v["text"]);
        let ebin = jlist(&v["bin"]);
        let mut nontrivial = false;
        for (i, a) in attrs.iter().enumerate() {
            let t = jbytes(&a["t"]);
            let nvals = jlist(&a["vals"]).len();
            let kind = kinds.get(i).and_then(|k| k.as_str()).unwrap_or("?").to_string();
            let text = etext.iter().find(|e| jbytes(&e["t"]) == t).map(|e| jlist(&e["vals"]).iter().map(jbytes).collect::<Vec<_>>());
            let bin = ebin.iter().find(|e| jbytes(&e["t"]) == t).map(|e| {
                jlist(&e["vals"]).iter().map(|p| (jbytes(&p["v"]), p["n"].as_u64().unwrap_or(0))).collect::<BTreeMap<_, _>>()
            });
            if text.is_some() == bin.is_some() {
                eprintln!("harness: vector does not place attribute {} in exactly one expected map: {}", i + 1, v);
                std::process::exit(2);
            }
            rep.count(&format!("attrs_{}", kind));
            rep.count(&format!("attrs_with_{}_values", nvals));
            nontrivial |= nvals >= 2 || bin.is_some();
            exp.push(ExpAttr { t, kind, text, bin });
        }
        if etext.len() + ebin.len() != attrs.len() {
            eprintln!("harness: expected maps hold {} attributes, entry has {}", etext.len() + ebin.len(), attrs.len());
            std::process::exit(2);
        }
        rep.eval(nontrivial, hash_of(&enc));
        rep.count(&format!("mode_{}", mode));
        rep.count(&format!("entries_with_{}_attrs", attrs.len()));
        if dn.is_empty() {
            rep.count("dn_empty");
        } else if dn.iter().any(|b| *b >= 128) {
            rep.count("dn_non_ascii");
        }
        if enc.first() != Some(&0x64) {
            eprintln!("harness: vector bytes do not start with 0x64: {}", hex(&enc));
            std::process::exit(2);
        }
        let shape = format!("{}:{}", mode, exp.iter().map(|a| a.kind.as_str()).collect::<Vec<_>>().join("+"));
        let interesting = (exp.len() == 2 && (shape.contains("mixed") || shape.contains("binary+text"))) || (mode == "utf8" && enc.len() > 28);
        if interesting && sampled.len() < 5 && sampled.insert(shape.clone()) {
            rep.sample(json!({"shape": shape, "dn": hex(&dn), "attrs": attrs.iter().map(|a| json!({"t": String::from_utf8_lossy(&jbytes(&a["t"])), "vals": jlist(&a["vals"]).iter().map(|x| hex(&jbytes(x))).collect::<Vec<_>>()})).collect::<Vec<_>>(),
                "ber": hex(&enc), "expected_text": etext.len(), "expected_bin": ebin.len()}));
        }
        let case = |detail: Value| json!({"dn": hex(&dn), "ber": hex(&enc), "entry": attrs, "kinds": kinds, "detail": detail});
        match observe(&enc) {
            Obs::Done(out) => {
                for (key, detail) in compare(&dn, &exp, &out) {
                    rep.mismatch(&key, case(detail));
                }
            }
            Obs::ParseError(e) => rep.mismatch("ber:parse-error", case(json!({"error": e}))),
            Obs::Trailing(n) => rep.mismatch("ber:trailing-bytes", case(json!({"rest": n}))),
            Obs::Panic(p) => rep.mismatch("construct:panic", case(json!({"panic": p}))),
        }
    })
    .expect("read vectors");
    rep.add("vectors", n);
}

// ---------------------------------------------------------------------------------------------------
// I -> S generators
// ---------------------------------------------------------------------------------------------------

const TYPES: &[&str] = &[
    "cn", "sn", "objectClass", "jpegPhoto", "jpegPhoto;binary", "userCertificate;binary", "cn;lang-en", "CN;lang-de;x-1",
    "2.5.4.3", "1.3.6.1.4.1.1466.115.121.1.40", "0.9.2342.19200300.100.1.1;x-a", "description", "member", "uid", "o", "entryUUID",
];

fn rand_char(rng: &mut StdRng) -> char {
    let cp: u32 = match rng.gen_range(0..10) {
        0..=3 => rng.gen_range(0x20..0x7f),
        4 => rng.gen_range(0x80..0x800),
        5 => rng.gen_range(0x800..0xd800),
        6 => rng.gen_range(0xe000..0x10000),
        7 => rng.gen_range(0x10000..0x110000),
        _ => *[0u32, 0x7f, 0x80, 0x7ff, 0x800, 0xfff, 0x1000, 0xcfff, 0xd000, 0xd7ff, 0xe000, 0xfffd, 0xffff, 0x10000, 0x3ffff, 0x40000, 0xfffff, 0x100000, 0x10ffff]
            .choose(rng)
            .unwrap(),
    };
    char::from_u32(cp).unwrap_or('?')
}

/// Encoding of a random sequence of scalar values (the generator's label "text" is only a label:
/// whether the value is well-formed is decided by the specification).
fn rand_text(rng: &mut StdRng, maxchars: usize) -> Bytes {
    let n = rng.gen_range(0..=maxchars);
    let s: String = (0..n).map(|_| rand_char(rng)).collect();
    s.into_bytes()
}

const BAD_SEQS: &[&[u8]] = &[
    &[0x80], &[0xbf], &[0xc0, 0x80], &[0xc1, 0xbf], &[0xe0, 0x80, 0x80], &[0xe0, 0x9f, 0xbf], &[0xed, 0xa0, 0x80], &[0xed, 0xbf, 0xbf],
    &[0xf0, 0x80, 0x80, 0x80], &[0xf0, 0x8f, 0xbf, 0xbf], &[0xf4, 0x90, 0x80, 0x80], &[0xf5, 0x80, 0x80, 0x80], &[0xff], &[0xfe],
    &[0xc2], &[0xe2, 0x82], &[0xf0, 0x9f, 0x98], &[0xe2, 0x28, 0xa1], &[0xf8, 0x88, 0x80, 0x80, 0x80], &[0xc2, 0x41],
];

fn rand_binary(rng: &mut StdRng) -> Bytes {
    match rng.gen_range(0..6) {
        0 => (0..rng.gen_range(1..10)).map(|_| rng.gen()).collect(),
        1 => BAD_SEQS.choose(rng).unwrap().to_vec(),
        2 => {
            // well-formed text with an ill-formed piece spliced in
            let mut v = rand_text(rng, 5);
            let pos = rng.gen_range(0..=v.len());
            let piece = BAD_SEQS.choose(rng).unwrap();
            v.splice(pos..pos, piece.iter().copied());
            v
        }
        3 => {
            // a multi-byte character cut short at the end
            let mut v = rand_text(rng, 4);
            let mut c = [0u8; 4];
            let e = loop {
                let ch = rand_char(rng);
                if ch.len_utf8() > 1 {
                    break ch.encode_utf8(&mut c).as_bytes().to_vec();
                }
            };
            v.extend_from_slice(&e[..e.len() - 1]);
            v
        }
        4 => {
            // one byte of a well-formed text replaced (may stay well-formed: the label is only a label)
            let mut v = rand_text(rng, 6);
            if v.is_empty() {
                v.push(0x80);
            } else {
                let i = rng.gen_range(0..v.len());
                v[i] = rng.gen();
            }
            v
        }
        _ => (0..rng.gen_range(1..4)).map(|_| rng.gen_range(0x80..=0xff)).collect(),
    }
}

fn rand_long(rng: &mut StdRng, text: bool, big: bool) -> Bytes {
    let target = if big { rng.gen_range(65_500..66_000) } else { *[120usize, 127, 128, 129, 250, 255, 256, 300, 1000, 3000].choose(rng).unwrap() };
    let mut v = Vec::with_capacity(target + 8);
    while v.len() < target {
        let mut c = [0u8; 4];
        v.extend_from_slice(rand_char(rng).encode_utf8(&mut c).as_bytes());
    }
    if !text {
        let piece = BAD_SEQS.choose(rng).unwrap();
        let pos = match rng.gen_range(0..3) {
            0 => 0,
            1 => v.len(),
            _ => {
                // a character boundary in the middle
                let mut p = v.len() / 2;
                while p < v.len() && (v[p] & 0xc0) == 0x80 {
                    p += 1;
                }
                p
            }
        };
        v.splice(pos..pos, piece.iter().copied());
    }
    v
}

fn rand_dn(rng: &mut StdRng) -> Bytes {
    let n = rng.gen_range(0..4);
    let mut parts: Vec<String> = vec![];
    for _ in 0..n {
        let ty = ["cn", "ou", "dc", "o", "uid", "2.5.4.3"].choose(rng).unwrap();
        let len = rng.gen_range(1..6);
        let val: String = (0..len)
            .map(|_| loop {
                let c = rand_char(rng);
                if !c.is_control() && !" \"#+,;<=>\\".contains(c) {
                    break c;
                }
            })
            .collect();
        parts.push(format!("{}={}", ty, val));
    }
    parts.join(",").into_bytes()
}

fn encode_entry(dn: &[u8], attrs: &[(Bytes, Vec<Bytes>)]) -> Bytes {
    let pal: Vec<Bytes> = attrs
        .iter()
        .map(|(t, vals)| {
            let set: Vec<Bytes> = vals.iter().map(|v| ber::octets(v)).collect();
            ber::seq(&[ber::octets(t), ber::tlv(0x31, &ber::cat(&set))])
        })
        .collect();
    ber::tlv(0x64, &ber::cat(&[ber::octets(dn), ber::seq(&pal)]))
}

fn jb(b: &[u8]) -> Value {
    Value::Array(b.iter().map(|x| json!(*x)).collect())
}

fn jattrs(a: &[(Bytes, Vec<Bytes>)]) -> Value {
    Value::Array(a.iter().map(|(t, vals)| json!({"t": jb(t), "vals": vals.iter().map(|v| jb(v)).collect::<Vec<_>>()})).collect())
}

fn trace(out: &str, count: u64, rep: &mut Report) {
    let mut rng = StdRng::seed_from_u64(seed_from_env());
    let mut f = std::io::BufWriter::new(std::fs::File::create(out).expect("create trace"));
    let mut max_len = 0u64;
    for i in 0..count {
        // ---- entry
        let mut out_of_scope = None;
        let nattrs = match rng.gen_range(0..10) {
            0 => 0,
            1..=3 => 1,
            4..=7 => rng.gen_range(2..5),
            _ => rng.gen_range(5..9),
        };
        let mut types: Vec<&str> = TYPES.to_vec();
        types.shuffle(&mut rng);
        // descriptions are case-insensitive: keep them distinct after folding
        let mut seen: Vec<String> = vec![];
        types.retain(|t| {
            let l = t.to_ascii_lowercase();
            if seen.contains(&l) {
                false
            } else {
                seen.push(l);
                true
            }
        });
        let big_record = i % 400 == 199; // one value beyond 65535 bytes now and then
        let mut attrs: Vec<(Bytes, Vec<Bytes>)> = vec![];
        let mut labelled_binary = false;
        let mut multi = false;
        for k in 0..nattrs {
            let style = rng.gen_range(0..10); // 0..3 text, 4..5 binary, 6..9 mixed
            let nvals = match rng.gen_range(0..10) {
                0 => 0,
                1..=3 => 1,
                4..=7 => rng.gen_range(2..5),
                _ => rng.gen_range(5..10),
            };
            let mut vals = vec![];
            for j in 0..nvals {
                let text = match style {
                    0..=3 => true,
                    4..=5 => false,
                    _ => rng.gen_bool(0.6),
                };
                let long = rng.gen_range(0..40) == 0;
                let v = if big_record && k == 0 && j == 0 {
                    rand_long(&mut rng, text, true)
                } else if long {
                    rand_long(&mut rng, text, false)
                } else if text {
                    rand_text(&mut rng, 8)
                } else {
                    rand_binary(&mut rng)
                };
                labelled_binary |= !text;
                vals.push(v);
            }
            // repeat a value now and then: multisets, not sets
            if vals.len() >= 2 && rng.gen_range(0..4) == 0 {
                let a = rng.gen_range(0..vals.len());
                let b = rng.gen_range(0..vals.len());
                vals[b] = vals[a].clone();
            }
            multi |= vals.len() >= 2;
            attrs.push((types[k].as_bytes().to_vec(), vals));
        }
        let mut dn = rand_dn(&mut rng);
        // a few entries the property does not speak about: the specification accepts any behaviour there
        match rng.gen_range(0..60) {
            0 => {
                dn = vec![0x63, 0x6e, 0x3d, 0xff];
                out_of_scope = Some("dn-not-utf8");
            }
            1 if !attrs.is_empty() => {
                attrs[0].0 = vec![0x63, 0x80];
                out_of_scope = Some("type-not-utf8");
            }
            2 if attrs.len() >= 2 => {
                attrs[1].0 = attrs[0].0.to_ascii_uppercase();
                out_of_scope = Some("duplicate-type");
            }
            _ => {}
        }
        let enc = encode_entry(&dn, &attrs);
        // ---- implementation
        let (ok, odn, otext, obin, panic) = match observe(&enc) {
            Obs::Done(o) => (true, o.dn, o.text, o.bin, String::new()),
            Obs::Panic(p) => (false, vec![], vec![], vec![], p),
            Obs::ParseError(e) => (false, vec![], vec![], vec![], format!("ber parse error: {}", e)),
            Obs::Trailing(n) => (false, vec![], vec![], vec![], format!("ber parse left {} bytes", n)),
        };
        match out_of_scope {
            Some(w) => rep.count(&format!("out_of_scope_{}", w)),
            None => {
                rep.eval(multi || labelled_binary, hash_of(&enc));
                rep.count(&format!("entries_with_{}_attrs", nattrs.min(5)));
                if !ok {
                    rep.count("in_scope_panics");
                }
            }
        }
        if !ok {
            rep.count("panics");
        }
        rep.add("attrs_in_text_map", otext.len() as u64);
        rep.add("attrs_in_bin_map", obin.len() as u64);
        rep.add("values", attrs.iter().map(|a| a.1.len() as u64).sum());
        max_len = max_len.max(enc.len() as u64);
        if big_record {
            rep.count("records_with_value_over_65535_bytes");
        }
        if i < 3 && enc.len() < 400 {
            rep.sample(json!({"dn": String::from_utf8_lossy(&dn), "attrs": attrs.iter().map(|(t, v)| json!({"t": String::from_utf8_lossy(t), "vals": hexes(v)})).collect::<Vec<_>>(),
                "ber": hex(&enc), "ok": ok, "text_attrs": otext.len(), "bin_attrs": obin.len()}));
        }
        let rec = json!({
            "dn": jb(&dn), "attrs": jattrs(&attrs), "enc": jb(&enc), "scope": out_of_scope.unwrap_or("in"),
            "out": {"ok": ok, "dn": jb(&odn), "text": jattrs(&otext), "bin": jattrs(&obin), "panic": panic},
        });
        writeln!(f, "{}", rec).unwrap();
    }
    f.flush().unwrap();
    rep.add("records", count);
    rep.add("longest_entry_bytes", max_len);
}

fn main() {
    verif_harness::silence_panics();
    let a: Vec<String> = std::env::args().collect();
    let usage = || -> ! {
        eprintln!("usage: entry-run replay <vectors|-> <report.json> | trace <out.ndjson> <count> <report.json>");
        std::process::exit(2)
    };
    if a.len() < 4 {
        usage();
    }
    match a[1].as_str() {
        "replay" => {
            let mut rep = Report::new("entry-replay");
            replay(&a[2], &mut rep);
            rep.write(&a[3]);
        }
        "trace" if a.len() >= 5 => {
            let mut rep = Report::new("entry-trace");
            trace(&a[2], a[3].parse().unwrap_or_else(|_| usage()), &mut rep);
            rep.write(&a[4]);
        }
        _ => usage(),
    }
}
