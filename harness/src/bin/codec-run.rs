//! codec-run: replays TLC vectors into the pure codecs of ldap3/lber (S -> I) and emits
//! implementation input/output traces for TLC to validate (I -> S).
//!
//!   codec-run <lane> replay <tlc-output|-> <report.json> [tlc-log]
//!   codec-run <lane> trace  <out.ndjson> <count> <report.json>

use verif_harness::report::Report;

use verif_harness::lanes;

fn main() {
    verif_harness::silence_panics();
    let a: Vec<String> = std::env::args().collect();
    if a.len() < 5 {
        eprintln!("usage: codec-run <lane> replay <vectors> <report> | trace <out> <count> <report>");
        std::process::exit(2);
    }
    let lane = a[1].as_str();
    let mode = a[2].as_str();
    let mut rep = Report::new(&format!("{}-{}", lane, mode));
    match (lane, mode) {
        ("ber", "replay") => lanes::ber::replay(&a[3], &mut rep),
        ("ber", "trace") => lanes::ber::trace(&a[3], a[4].parse().unwrap(), &mut rep),
        _ => {
            eprintln!("unknown lane/mode {} {}", lane, mode);
            std::process::exit(2);
        }
    }
    let rp = if mode == "replay" { &a[4] } else { &a[5] };
    rep.write(rp);
}
