//! frame-run: the framing / hostile-input lanes (C06, C11).
//!
//!   frame-run replay-framing <tlc-out> <report.json>
//!       MCFraming vectors (POOL + VEC READ/DEC) through `ldap3::verif::decode`
//!   frame-run replay-hostile <tlc-out> <report.json>
//!       MCHostile vectors (VEC, VEC3) through `ldap3::verif::decode`
//!   frame-run driver <tlc-out> <max-scenarios> <report.json>
//!       a sampled subset of the MCHostile vectors through a live LdapConnAsync (two pending single
//!       operations, one active search) over the in-process transport
//!   frame-run e2e <out.ndjson> <tier> <report.json>
//!       C06 end to end: message sequences of 7 octets .. > 64 KiB (1 MiB in thorough) through the
//!       in-process transport in many chunkings; one record per stream for TraceFraming
//!   frame-run trace-hostile <out.ndjson> <count> <report.json>
//!       seeded random / multiply mutated byte strings through `decode`; records for TraceHostile
//!   frame-run stack <report.json>
//!       nesting-depth ladder; each depth in a child process whose exit status is the observation
//!   frame-run stack-child <depth> <variant>

use bytes::BytesMut;
use futures::FutureExt;
use ldap3::controls::Control;
use ldap3::{LdapConnAsync, LdapError, Scope};
use lber::structure::{StructureTag, PL};
use lber::structures::Tag;
use rand::{rngs::StdRng, Rng, SeedableRng};
use serde_json::{json, Value};
use std::collections::{BTreeMap, HashSet};
use std::io::Write;
use std::sync::{Arc, Mutex};
use std::time::Duration;
use tokio::runtime::{Builder, RngSeed};
use verif_harness::lanes::ber::{structure_to_json, tree_to_structure};
use verif_harness::mockio::{Item, MockIo};
use verif_harness::report::{hash_of, Report};
use verif_harness::{ber, bytes_of, hex, seed_from_env, tlcout};

// ---------------------------------------------------------------------------------------------
// panics are data: message + source location of the last panic
// ---------------------------------------------------------------------------------------------
static LAST_PANIC_LOC: Mutex<String> = Mutex::new(String::new());

fn install_panic_hook() {
    std::panic::set_hook(Box::new(|info| {
        let loc = info.location().map(|l| format!("{}:{}", l.file(), l.line())).unwrap_or_default();
        *LAST_PANIC_LOC.lock().unwrap_or_else(|e| e.into_inner()) = loc;
    }));
}

fn last_panic_loc() -> String {
    let s = LAST_PANIC_LOC.lock().unwrap_or_else(|e| e.into_inner()).clone();
    // keep the path inside the crate only
    match s.find("/src/") {
        Some(i) => s[i + 1..].to_string(),
        None => s,
    }
}

fn panic_msg(e: Box<dyn std::any::Any + Send>) -> String {
    if let Some(s) = e.downcast_ref::<&str>() {
        s.to_string()
    } else if let Some(s) = e.downcast_ref::<String>() {
        s.clone()
    } else {
        "panic".to_string()
    }
}

/// class of a panic inside the decoder, from its message
fn decode_panic_slug(msg: &str) -> String {
    if msg == "element" {
        "missing-element".into()
    } else if msg == "message id" {
        "msgid-not-integer".into()
    } else if msg == "components" {
        "control-not-constructed".into()
    } else if msg == "octet string" {
        "control-field-constructed".into()
    } else if msg.starts_with("control type") {
        "control-type-not-utf8".into()
    } else if msg == "decoding error" {
        "control-component-unexpected".into()
    } else if msg.starts_with("index out of bounds") {
        "empty-criticality".into()
    } else if msg == "result sequence" {
        "controls-not-constructed".into()
    } else {
        slug(msg)
    }
}

fn slug(s: &str) -> String {
    let mut o = String::new();
    for c in s.chars().take(40) {
        if c.is_ascii_alphanumeric() {
            o.push(c.to_ascii_lowercase());
        } else if !o.ends_with('-') {
            o.push('-');
        }
    }
    o.trim_matches('-').to_string()
}

// ---------------------------------------------------------------------------------------------
// one call of the decoder
// ---------------------------------------------------------------------------------------------
#[derive(Debug)]
enum Out {
    None,
    Some { id: i32, op: Option<StructureTag>, ctrls: Vec<Control> },
    Err(String),
    Panic(String, String),
}

impl Out {
    fn name(&self) -> &'static str {
        match self {
            Out::None => "none",
            Out::Some { .. } => "some",
            Out::Err(_) => "err",
            Out::Panic(..) => "panic",
        }
    }
    fn brief(&self) -> Value {
        match self {
            Out::None => json!("Ok(None)"),
            Out::Some { id, op, ctrls } => json!({"some": {"id": id, "op": op.as_ref().map(structure_to_json), "controls": ctrls.len()}}),
            Out::Err(e) => json!({"err": e}),
            Out::Panic(m, l) => json!({"panic": m, "at": l}),
        }
    }
}

/// decode once on `buf`; returns the outcome and the number of octets left in the buffer
fn decode_once(buf: &mut BytesMut) -> Out {
    verif_harness::crumb("ldap3::verif::decode", &buf[..]);
    let r = std::panic::catch_unwind(std::panic::AssertUnwindSafe(|| ldap3::verif::decode(buf)));
    match r {
        Err(e) => Out::Panic(panic_msg(e), last_panic_loc()),
        Ok(Ok(None)) => Out::None,
        Ok(Ok(Some((id, (tag, ctrls))))) => {
            let op = match tag {
                Tag::StructureTag(st) => Some(st),
                _ => None,
            };
            Out::Some { id, op, ctrls }
        }
        Ok(Err(e)) => Out::Err(e.to_string()),
    }
}

/// compare a delivered message with the reference decoder's reading `m` = {id, op (tree), ctrls}
fn content_diff(m: &Value, id: i32, op: &Option<StructureTag>, ctrls: &[Control]) -> Option<&'static str> {
    if m["id"].as_i64() != Some(id as i64) {
        return Some("message-id");
    }
    match op {
        Some(st) if *st == tree_to_structure(&m["op"]) => {}
        _ => return Some("protocol-op"),
    }
    let exp = m["ctrls"].as_array().cloned().unwrap_or_default();
    if exp.len() != ctrls.len() {
        return Some("controls");
    }
    for (e, c) in exp.iter().zip(ctrls.iter()) {
        let raw = &c.1;
        let hasval = e["hasval"].as_bool().unwrap_or(false);
        if raw.ctype.as_bytes() != bytes_of(&e["oid"]).as_slice()
            || Some(raw.crit) != e["crit"].as_bool()
            || raw.val.is_some() != hasval
            || (hasval && raw.val.as_deref() != Some(bytes_of(&e["val"]).as_slice()))
        {
            return Some("controls");
        }
    }
    None
}

// ---------------------------------------------------------------------------------------------
// replay-framing (C06, S -> I)
// ---------------------------------------------------------------------------------------------
struct PoolMsg {
    b: Vec<u8>,
    m: Value,
}

fn read_pool(path: &str) -> Vec<PoolMsg> {
    let mut pool = vec![];
    tlcout::for_each_tagged(path, "POOL", |v| {
        if let Some(a) = v.as_array() {
            for e in a {
                pool.push(PoolMsg { b: bytes_of(&e["b"]), m: e["m"].clone() });
            }
        }
    })
    .expect("read tlc output");
    pool
}

fn replay_framing(path: &str, rep: &mut Report) {
    let pool = read_pool(path);
    if pool.is_empty() {
        eprintln!("frame-run: no POOL line in {}", path);
        std::process::exit(2);
    }
    rep.add("pool_messages", pool.len() as u64);
    let mut streams: BTreeMap<Vec<u64>, Vec<u8>> = BTreeMap::new();
    let n = tlcout::for_each_tagged(path, "VEC", |v| {
        let ms: Vec<u64> = v["ms"].as_array().map(|a| a.iter().map(|x| x.as_u64().unwrap()).collect()).unwrap_or_default();
        let stream = streams
            .entry(ms.clone())
            .or_insert_with(|| ms.iter().flat_map(|i| pool[*i as usize - 1].b.iter().copied()).collect())
            .clone();
        let a = v["a"].as_u64().unwrap() as usize;
        let q = v["q"].as_u64().unwrap() as usize;
        let t = v["t"].as_str().unwrap_or("");
        let case = |got: Value| json!({"vector": v.clone(), "buffer": hex(&stream[a..q]), "got": got});
        match t {
            "DEC" => {
                rep.count("dec_vectors");
                let exp_v = v["v"].as_str().unwrap_or("");
                let mut buf = BytesMut::from(&stream[a..q]);
                let before = buf.len();
                let out = decode_once(&mut buf);
                rep.eval(q - a >= 2, hash_of(&(&stream[a..q], "d")));
                rep.count(if exp_v == "Msg" { "dec_expect_msg" } else { "dec_expect_needmore" });
                match (exp_v, &out) {
                    ("NeedMore", Out::None) => {
                        rep.count("dec_needmore");
                        if buf.len() != before {
                            rep.mismatch("c06:decode:consumed-on-incomplete", case(out.brief()));
                        }
                    }
                    ("NeedMore", Out::Some { .. }) => rep.mismatch("c06:decode:early-delivery", case(out.brief())),
                    ("NeedMore", Out::Err(_)) => rep.mismatch("c06:decode:prefix-rejected", case(out.brief())),
                    ("Msg", Out::Some { id, op, ctrls }) => {
                        rep.count("dec_msg");
                        let r = v["r"].as_u64().unwrap() as usize;
                        let nn = v["n"].as_u64().unwrap() as usize;
                        if let Some(what) = content_diff(&pool[r - 1].m, *id, op, ctrls) {
                            rep.mismatch(&format!("c06:decode:wrong-message:{}", what), case(out.brief()));
                        }
                        if before - buf.len() != nn {
                            rep.mismatch("c06:decode:consumed-wrong-length", case(json!({"consumed": before - buf.len(), "expected": nn})));
                        } else if buf[..] != stream[a + nn..q] {
                            rep.mismatch("c06:decode:buffer-not-the-unconsumed-suffix", case(json!({"left": hex(&buf)})));
                        }
                    }
                    ("Msg", Out::None) => rep.mismatch("c06:decode:late-delivery", case(out.brief())),
                    ("Msg", Out::Err(_)) => rep.mismatch("c06:decode:complete-frame-rejected", case(out.brief())),
                    (_, Out::Panic(m, _)) => rep.mismatch(&format!("c06:decode:panic:{}", decode_panic_slug(m)), case(out.brief())),
                    _ => rep.mismatch("c06:decode:unexpected-verdict-in-vector", case(out.brief())),
                }
            }
            "READ" => {
                rep.count("read_vectors");
                let p = v["p"].as_u64().unwrap() as usize;
                let exp: Vec<usize> = v["e"].as_array().map(|x| x.iter().map(|y| y.as_u64().unwrap() as usize).collect()).unwrap_or_default();
                let exp_rest = v["rest"].as_u64().unwrap() as usize;
                // the buffer as the transport would have left it: old contents, then the chunk appended
                let mut buf = BytesMut::with_capacity(8);
                buf.extend_from_slice(&stream[a..p]);
                buf.extend_from_slice(&stream[p..q]);
                rep.eval(!exp.is_empty() || q - a >= 2, hash_of(&(&stream[a..p], &stream[p..q])));
                if rep.samples.len() < 3 && exp.len() >= 2 {
                    rep.sample(json!({"t": "READ", "messages": ms, "buffer": hex(&stream[a..p]), "chunk": hex(&stream[p..q]), "emitted": exp, "rest": exp_rest}));
                }
                let mut got: Vec<usize> = vec![];
                let mut bad: Option<(String, Value)> = None;
                loop {
                    let out = decode_once(&mut buf);
                    match out {
                        Out::None => break,
                        Out::Some { id, ref op, ref ctrls } => {
                            let k = got.len();
                            if k >= exp.len() {
                                bad = Some(("c06:drain:early-or-extra-delivery".into(), out.brief()));
                                break;
                            }
                            if let Some(what) = content_diff(&pool[exp[k] - 1].m, id, op, ctrls) {
                                bad = Some((format!("c06:drain:wrong-message:{}", what), out.brief()));
                                break;
                            }
                            got.push(exp[k]);
                        }
                        Out::Err(_) => {
                            bad = Some(("c06:drain:rejected".into(), out.brief()));
                            break;
                        }
                        Out::Panic(ref m, _) => {
                            bad = Some((format!("c06:drain:panic:{}", decode_panic_slug(m)), out.brief()));
                            break;
                        }
                    }
                }
                if let Some((k, g)) = bad {
                    rep.mismatch(&k, case(g));
                } else if got.len() != exp.len() {
                    rep.mismatch("c06:drain:late-delivery", case(json!({"delivered": got.len(), "expected": exp.len()})));
                } else if buf.len() != exp_rest {
                    rep.mismatch("c06:drain:consumed-wrong-length", case(json!({"left": buf.len(), "expected": exp_rest})));
                } else if buf[..] != stream[q - exp_rest..q] {
                    rep.mismatch("c06:drain:buffer-not-the-unconsumed-suffix", case(json!({"left": hex(&buf)})));
                }
                rep.add("messages_emitted", exp.len() as u64);
                if exp.len() >= 2 {
                    rep.count("reads_emitting_2plus");
                }
            }
            _ => {}
        }
    })
    .expect("read tlc output");
    rep.add("vectors", n);
    rep.add("message_lists", streams.len() as u64);
}

// ---------------------------------------------------------------------------------------------
// replay-hostile (C11, S -> I)
// ---------------------------------------------------------------------------------------------
/// Compare one decoder outcome with the reference verdict. Returns a class key on disagreement.
fn judge(verdict: &str, why: &str, strict: bool, n: usize, m: Option<&Value>, total: usize, out: &Out, left: usize) -> Option<String> {
    if let Out::Panic(msg, _) = out {
        return Some(format!("c11:decode:panic:{}", decode_panic_slug(msg)));
    }
    match verdict {
        "NeedMore" => match out {
            Out::None => (left != total).then(|| "c11:decode:consumed-on-incomplete".to_string()),
            Out::Some { .. } => Some("c11:decode:delivered-incomplete-frame".into()),
            Out::Err(_) if strict => Some("c11:decode:rejected-prefix-of-valid".into()),
            _ => None,
        },
        "Any" => None,
        _ => {
            // the outer length is satisfied: waiting is never right
            if let Out::None = out {
                return Some(if why == "ber" { "c11:decode:inner-overrun-incomplete".to_string() } else { format!("c11:decode:incomplete-on-complete-frame:{}", if why.is_empty() { "well-formed" } else { why }) });
            }
            if let Out::Some { .. } = out {
                if total - left != n {
                    return Some("c11:decode:consumed-wrong-length".into());
                }
            }
            match (verdict, out) {
                ("Bad", Out::Some { .. }) => Some(match why {
                    "msgid-too-large" | "msgid-negative" => "c11:decode:msgid-out-of-range-aliased".to_string(),
                    w => format!("c11:decode:accepted:{}", w),
                }),
                ("Msg", Out::Err(_)) => Some("c11:decode:rejected-well-formed".into()),
                ("Msg", Out::Some { id, op, ctrls }) => m.and_then(|m| content_diff(m, *id, op, ctrls)).map(|w| format!("c11:decode:content-differs:{}", w)),
                _ => None,
            }
        }
    }
}

fn replay_hostile(path: &str, rep: &mut Report) {
    let mut sampled: HashSet<String> = HashSet::new();
    let n = tlcout::for_each_tagged(path, "VEC", |v| {
        let b = bytes_of(&v["b"]);
        let verdict = v["v"].as_str().unwrap_or("").to_string();
        let why = v["why"].as_str().unwrap_or("").to_string();
        let kind = v["k"].as_str().unwrap_or("").to_string();
        let strict = v["strict"].as_bool().unwrap_or(false);
        let nn = v["n"].as_u64().unwrap_or(0) as usize;
        let m = v["m"].as_array().and_then(|a| a.first()).cloned();
        let mut buf = BytesMut::from(&b[..]);
        let out = decode_once(&mut buf);
        rep.eval(kind != "str" || b.len() == 2, hash_of(&b));
        rep.count(if kind == "str" { "short_strings" } else { "mutants" });
        rep.count(&format!("verdict:{}", verdict));
        rep.count(&format!("impl:{}", out.name()));
        if kind != "str" {
            rep.count(&format!("kind:{}", kind.split('/').next().unwrap_or("")));
            if rep.samples.len() < 5 && sampled.insert(verdict.clone()) {
                rep.sample(json!({"kind": kind, "bytes": hex(&b), "verdict": verdict, "why": why, "impl": out.brief()}));
            }
        }
        if let Some(key) = judge(&verdict, &why, strict, nn, m.as_ref(), b.len(), &out, buf.len()) {
            rep.mismatch(&key, json!({"kind": kind, "src": v["src"], "bytes": hex(&b), "spec": {"verdict": verdict, "why": why, "n": nn}, "impl": out.brief()}));
        }
    })
    .expect("read tlc output");
    rep.add("vectors", n);
    // all one-octet extensions of every two-octet string
    let code = ["NeedMore", "Msg", "Bad", "Either", "Any"];
    let n3 = tlcout::for_each_tagged(path, "VEC3", |v| {
        let b2 = bytes_of(&v["b"]);
        let xs = v["x"].as_array().cloned().unwrap_or_default();
        for (c, x) in xs.iter().enumerate() {
            let mut b = b2.clone();
            b.push(c as u8);
            let verdict = code[x.as_u64().unwrap_or(4) as usize];
            let mut buf = BytesMut::from(&b[..]);
            let out = decode_once(&mut buf);
            rep.eval(true, hash_of(&b));
            rep.count("strings_len3");
            rep.count(&format!("verdict3:{}", verdict));
            // a complete three-octet frame is never a well-formed envelope: a constructed root cannot hold an element in
            // one octet of contents ("ber"), a primitive root is not a SEQUENCE
            let why = if verdict == "Bad" { if b[0] & 0x20 != 0 { "ber" } else { "root-not-sequence" } } else { "" };
            if let Some(key) = judge(verdict, why, false, 3, None, 3, &out, buf.len()) {
                rep.mismatch(&key, json!({"kind": "str3", "bytes": hex(&b), "spec": {"verdict": verdict}, "impl": out.brief()}));
            }
        }
    })
    .expect("read tlc output");
    rep.add("vec3_lines", n3);
}

// ---------------------------------------------------------------------------------------------
// trace-hostile (C11, I -> S): random and multiply mutated strings
// ---------------------------------------------------------------------------------------------
fn random_message(rng: &mut StdRng) -> Vec<u8> {
    let id = match rng.gen_range(0..6) {
        0 => 0,
        1 => i32::MAX as i64,
        2 => rng.gen_range(128..70000),
        _ => rng.gen_range(1..5),
    };
    let t: Vec<u8> = (0..rng.gen_range(0..6)).map(|_| rng.gen_range(b'a'..=b'z')).collect();
    let op = match rng.gen_range(0..5) {
        0 => ber::ldap_result(1, 0, &t, &t, &[]),
        1 => ber::ldap_result(5, rng.gen_range(0..60), b"", &t, &[]),
        2 => ber::tlv(0x64, &ber::cat(&[ber::octets(&t), ber::seq(&[ber::seq(&[ber::octets(b"cn"), ber::tlv(0x31, &ber::octets(&t))])])])),
        3 => ber::tlv(0x73, &ber::octets(&t)),
        _ => ber::ldap_result(24, 0, b"", b"", &[ber::tlv(0x8a, b"1.2.3")]),
    };
    let ctrls = match rng.gen_range(0..4) {
        0 => Some(ber::controls(&[ber::control("1.2.3.4", Some(rng.gen_bool(0.5)), Some(&t))])),
        1 => Some(ber::controls(&[ber::control("2.16", None, None), ber::control("1.2.840.113556.1.4.319", None, Some(&[0x30, 0x05, 0x02, 0x01, 0x00, 0x04, 0x00]))])),
        _ => None,
    };
    ber::message(id, op, ctrls)
}

fn mutate_bytes(b: &mut Vec<u8>, rng: &mut StdRng) {
    if b.is_empty() {
        b.push(rng.gen());
        return;
    }
    let i = rng.gen_range(0..b.len());
    match rng.gen_range(0..7) {
        0 => b[i] = rng.gen(),
        1 => b[i] = b[i].wrapping_add(1),
        2 => b[i] = b[i].wrapping_sub(1),
        3 => {
            b.remove(i);
        }
        4 => b.insert(i, [0u8, 0x30, 0x80, 0x81, 0xff, 0x04, 0x1f][rng.gen_range(0..7)]),
        5 => b.truncate(i),
        _ => b[i] ^= 1 << rng.gen_range(0..8),
    }
}

fn trace_hostile(out_path: &str, count: usize, rep: &mut Report) {
    let mut rng = StdRng::seed_from_u64(seed_from_env() ^ 0xc11);
    let mut f = std::io::BufWriter::new(std::fs::File::create(out_path).expect("create trace"));
    for i in 0..count {
        let b: Vec<u8> = match i % 4 {
            0 => {
                // short random strings that look like a frame start
                let n = rng.gen_range(0..14);
                let mut v: Vec<u8> = (0..n).map(|_| rng.gen()).collect();
                if n >= 2 && rng.gen_bool(0.8) {
                    v[0] = 0x30;
                    if rng.gen_bool(0.7) {
                        v[1] = rng.gen_range(0..(n as u8));
                    }
                }
                v
            }
            _ => {
                let mut v = random_message(&mut rng);
                for _ in 0..rng.gen_range(0..4) {
                    mutate_bytes(&mut v, &mut rng);
                }
                if rng.gen_bool(0.2) {
                    v.extend(random_message(&mut rng));
                }
                v
            }
        };
        let mut buf = BytesMut::from(&b[..]);
        let out = decode_once(&mut buf);
        rep.eval(b.len() >= 2, hash_of(&b));
        rep.count(&format!("impl:{}", out.name()));
        if rep.samples.len() < 3 && matches!(out, Out::Err(_)) {
            rep.sample(json!({"bytes": hex(&b), "impl": out.brief()}));
        }
        let rec = match &out {
            Out::None => json!({"b": b, "r": "none", "left": buf.len()}),
            Out::Err(_) => json!({"b": b, "r": "err", "left": buf.len()}),
            Out::Panic(m, l) => json!({"b": b, "r": "panic", "left": buf.len(), "panic": m, "at": l}),
            Out::Some { id, op, ctrls } => json!({"b": b, "r": "some", "left": buf.len(), "id": id,
                "op": op.as_ref().map(structure_to_json).unwrap_or(Value::Null),
                "ctrls": ctrls.iter().map(|c| json!({"oid": c.1.ctype.as_bytes(), "crit": c.1.crit, "hasval": c.1.val.is_some(), "val": c.1.val.clone().unwrap_or_default()})).collect::<Vec<_>>()}),
        };
        writeln!(f, "{}", rec).unwrap();
    }
    rep.add("records", count as u64);
}

// ---------------------------------------------------------------------------------------------
// live connection: shared pieces
// ---------------------------------------------------------------------------------------------
async fn settle() {
    let mut quiet = 0;
    let mut last = ldap3::verif::seq();
    for _ in 0..600 {
        tokio::task::yield_now().await;
        let s = ldap3::verif::seq();
        if s == last {
            quiet += 1;
            if quiet >= 8 {
                return;
            }
        } else {
            quiet = 0;
            last = s;
        }
    }
}

fn note(body: &str) {
    ldap3::verif::log(body);
}

fn err_class(e: &LdapError) -> String {
    let s = format!("{:?}", e);
    let head: String = s.chars().take_while(|c| c.is_ascii_alphanumeric()).collect();
    head
}

fn first_octets(st: &StructureTag) -> String {
    if let PL::C(kids) = &st.payload {
        if let Some(first) = kids.first() {
            if let PL::P(v) = &first.payload {
                return String::from_utf8_lossy(v).to_string();
            }
        }
    }
    String::new()
}

#[derive(Default, Debug, Clone)]
struct Obs {
    /// "running" | "exitOk" | "exitErr" | "panicked"
    drv: String,
    drv_panic: Option<(String, String)>,
    /// per operation: None = still pending
    ops: Vec<Option<String>>,
    caller_panics: Vec<(usize, String, String)>,
}

struct Live {
    drv: Arc<Mutex<(String, Option<(String, String)>)>>,
    ops: Arc<Mutex<Vec<Option<String>>>>,
    cpanics: Arc<Mutex<Vec<(usize, String, String)>>>,
    items: Arc<Mutex<Vec<String>>>,
}

impl Live {
    fn obs(&self) -> Obs {
        let d = self.drv.lock().unwrap().clone();
        Obs { drv: d.0, drv_panic: d.1, ops: self.ops.lock().unwrap().clone(), caller_panics: self.cpanics.lock().unwrap().clone() }
    }
}

/// driver + bind (id 1) + compare (id 2) + streaming search (id 3), each on its own task
async fn start_live(io: &MockIo) -> Result<(Live, ldap3::Ldap, Vec<tokio::task::JoinHandle<()>>), String> {
    let (conn, ldap) = LdapConnAsync::verif_from_io(Box::new(io.clone()));
    let live = Live {
        drv: Arc::new(Mutex::new(("running".to_string(), None))),
        ops: Arc::new(Mutex::new(vec![None, None, None])),
        cpanics: Default::default(),
        items: Default::default(),
    };
    let mut tasks = vec![];
    let d = live.drv.clone();
    tasks.push(tokio::spawn(async move {
        let r = std::panic::AssertUnwindSafe(conn.drive()).catch_unwind().await;
        let v = match r {
            Ok(Ok(())) => ("exitOk".to_string(), None),
            Ok(Err(_)) => ("exitErr".to_string(), None),
            Err(e) => ("panicked".to_string(), Some((panic_msg(e), last_panic_loc()))),
        };
        note(&format!("\"ev\":\"DrvExit\",\"how\":\"{}\"", v.0));
        *d.lock().unwrap() = v;
    }));
    // operation 0: bind
    {
        let mut l = ldap.clone();
        let (ops, cp) = (live.ops.clone(), live.cpanics.clone());
        tasks.push(tokio::spawn(async move {
            let r = std::panic::AssertUnwindSafe(l.simple_bind("cn=x", "pw")).catch_unwind().await;
            let s = match r {
                Ok(Ok(res)) => format!("val:rc={},text={}", res.rc, res.text),
                Ok(Err(e)) => format!("err:{}", err_class(&e)),
                Err(e) => {
                    let m = panic_msg(e);
                    cp.lock().unwrap().push((0, m.clone(), last_panic_loc()));
                    format!("panic:{}", m)
                }
            };
            note("\"ev\":\"OpDone\",\"o\":0");
            ops.lock().unwrap()[0] = Some(s);
        }));
    }
    settle().await;
    // operation 1: compare
    {
        let mut l = ldap.clone();
        let (ops, cp) = (live.ops.clone(), live.cpanics.clone());
        tasks.push(tokio::spawn(async move {
            let r = std::panic::AssertUnwindSafe(l.compare("cn=x", "cn", "x")).catch_unwind().await;
            let s = match r {
                Ok(Ok(res)) => format!("val:rc={},text={}", res.0.rc, res.0.text),
                Ok(Err(e)) => format!("err:{}", err_class(&e)),
                Err(e) => {
                    let m = panic_msg(e);
                    cp.lock().unwrap().push((1, m.clone(), last_panic_loc()));
                    format!("panic:{}", m)
                }
            };
            note("\"ev\":\"OpDone\",\"o\":1");
            ops.lock().unwrap()[1] = Some(s);
        }));
    }
    settle().await;
    // operation 2: streaming search, read to the end
    {
        let mut l = ldap.clone();
        let (ops, cp, items) = (live.ops.clone(), live.cpanics.clone(), live.items.clone());
        tasks.push(tokio::spawn(async move {
            let fut = async {
                let mut st = match l.streaming_search("dc=x", Scope::Subtree, "(a=b)", vec!["cn"]).await {
                    Ok(st) => st,
                    Err(e) => return format!("err:start:{}", err_class(&e)),
                };
                loop {
                    match st.next().await {
                        Ok(Some(re)) => {
                            items.lock().unwrap().push(first_octets(&re.0));
                            note("\"ev\":\"Item\"");
                        }
                        Ok(None) => {
                            let res = st.finish().await;
                            return format!("val:rc={},text={}", res.rc, res.text);
                        }
                        Err(e) => {
                            let _ = st.finish().await;
                            return format!("err:{}", err_class(&e));
                        }
                    }
                }
            };
            let r = std::panic::AssertUnwindSafe(fut).catch_unwind().await;
            let s = match r {
                Ok(s) => s,
                Err(e) => {
                    let m = panic_msg(e);
                    cp.lock().unwrap().push((2, m.clone(), last_panic_loc()));
                    format!("panic:{}", m)
                }
            };
            note("\"ev\":\"OpDone\",\"o\":2");
            ops.lock().unwrap()[2] = Some(s);
        }));
    }
    settle().await;
    // the scripted server checks what it received: ids 1, 2, 3 with bind / compare / search
    let (msgs, rest) = ber::split_messages(&io.take_written());
    let got: Vec<(i64, u8)> = msgs.iter().filter(|(el, _)| el.kids.len() >= 2).map(|(el, _)| (ber::uint_of(&el.kids[0].val), el.kids[1].num)).collect();
    if got != vec![(1, 0), (2, 14), (3, 3)] || !rest.is_empty() {
        return Err(format!("unexpected requests on the wire: {:?}", got));
    }
    Ok((live, ldap, tasks))
}

fn entry_bytes(id: i64, tok: &str, pad: usize) -> Vec<u8> {
    let val = vec![b'v'; pad];
    ber::message(
        id,
        ber::tlv(0x64, &ber::cat(&[ber::octets(tok.as_bytes()), ber::seq(&[ber::seq(&[ber::octets(b"cn"), ber::tlv(0x31, &ber::octets(&val))])])])),
        None,
    )
}

// ---------------------------------------------------------------------------------------------
// driver lane (C11)
// ---------------------------------------------------------------------------------------------
struct HVec {
    kind: String,
    b: Vec<u8>,
    verdict: String,
    why: String,
}

fn driver_panic_key(msg: &str, loc: &str) -> String {
    if msg.starts_with("unrecognized op id") {
        "c11:driver:panic:unexpected-op-for-search-id".into()
    } else if loc.contains("result.rs") || loc.contains("search.rs") {
        "c11:driver:panic:malformed-search-done".into()
    } else if loc.contains("protocol.rs") || loc.contains("controls_impl.rs") {
        format!("c11:driver:panic:decode-{}", decode_panic_slug(msg))
    } else {
        format!("c11:driver:panic:{}", slug(msg))
    }
}

fn caller_panic_key(msg: &str, loc: &str) -> String {
    let what = if msg == "element" {
        "missing-element".to_string()
    } else if msg == "result sequence" {
        "result-not-constructed".to_string()
    } else if msg == "result code" {
        "result-code-not-enumerated".to_string()
    } else if msg == "octet string" {
        "field-constructed".to_string()
    } else if msg.starts_with("matched dn") || msg.starts_with("diagnostic message") || msg.starts_with("uri") || msg.starts_with("exop name") {
        "text-not-utf8".to_string()
    } else if msg == "referrals" {
        "referral-not-constructed".to_string()
    } else {
        slug(msg)
    };
    let file = loc.rsplit('/').next().unwrap_or("").split(':').next().unwrap_or("");
    format!("c11:caller:panic:{}@{}", what, file)
}

/// One scenario. Returns (observation right after the hostile frame, after the good follow-ups, after EOF, items)
fn run_driver_scenario(v: &HVec, mode: usize, seed: u64) -> Result<(Obs, Obs, Obs, Vec<String>), String> {
    let rt = Builder::new_current_thread().enable_time().start_paused(true).rng_seed(RngSeed::from_bytes(&seed.to_le_bytes())).build().unwrap();
    ldap3::verif::install();
    let r = rt.block_on(async {
        let io = MockIo::new();
        let (live, ldap, tasks) = start_live(&io).await?;
        // the search is demonstrably active: one good entry first
        io.push_bytes(&entry_bytes(3, "k1", 3));
        settle().await;
        if live.items.lock().unwrap().as_slice() != ["k1".to_string()] {
            return Err("first entry was not delivered".to_string());
        }
        let follow = [
            ber::message(1, ber::ldap_result(1, 0, b"", b"after", &[]), None),
            ber::message(2, ber::ldap_result(15, 6, b"", b"after", &[]), None),
            ber::message(3, ber::ldap_result(5, 0, b"", b"after", &[]), None),
        ];
        match mode % 4 {
            0 => io.push_bytes(&v.b),
            1 => {
                for x in &v.b {
                    io.push_bytes(&[*x]);
                    settle().await;
                }
            }
            2 => {
                let k = 1.min(v.b.len());
                io.push_bytes(&v.b[..k]);
                settle().await;
                io.push_bytes(&v.b[k..]);
            }
            _ => {
                // the hostile frame shares a read with a perfectly good response
                let mut both = v.b.clone();
                both.extend_from_slice(&follow[0]);
                io.push_bytes(&both);
            }
        }
        settle().await;
        tokio::time::advance(Duration::from_secs(1)).await;
        settle().await;
        let a = live.obs();
        for (i, f) in follow.iter().enumerate() {
            if !(mode % 4 == 3 && i == 0) {
                io.push_bytes(f);
            }
            settle().await;
        }
        tokio::time::advance(Duration::from_secs(30)).await;
        settle().await;
        let b = live.obs();
        io.push(Item::Eof);
        settle().await;
        tokio::time::advance(Duration::from_secs(30)).await;
        settle().await;
        drop(ldap);
        settle().await;
        let c = live.obs();
        let items = live.items.lock().unwrap().clone();
        for t in tasks {
            if t.is_finished() {
                let _ = t.await;
            } else {
                t.abort();
            }
        }
        Ok((a, b, c, items))
    });
    let _ = ldap3::verif::take();
    r
}

fn driver_lane(path: &str, max: usize, rep: &mut Report) {
    // collect the candidates: complete frames only (a truncated frame legitimately waits)
    let mut all: Vec<HVec> = vec![];
    let mut seen: HashSet<Vec<u8>> = HashSet::new();
    tlcout::for_each_tagged(path, "VEC", |v| {
        let kind = v["k"].as_str().unwrap_or("").to_string();
        let verdict = v["v"].as_str().unwrap_or("").to_string();
        let b = bytes_of(&v["b"]);
        let n = v["n"].as_u64().unwrap_or(0) as usize;
        let complete = matches!(verdict.as_str(), "Msg" | "Bad" | "Either") && n == b.len();
        let short = kind == "str" && verdict == "Bad";
        if (kind != "str" && complete || short) && seen.insert(b.clone()) {
            all.push(HVec { kind, b, verdict, why: v["why"].as_str().unwrap_or("").to_string() });
        }
    })
    .expect("read tlc output");
    // the frames the design names, whatever the pool contains
    for (kind, b, verdict, why) in [
        ("named:extended-response-under-search-id", ber::message(3, ber::ldap_result(24, 0, b"", b"", &[]), None), "Msg", ""),
        ("named:search-done-empty-under-search-id", vec![0x30, 0x05, 0x02, 0x01, 0x03, 0x65, 0x00], "Msg", ""),
        ("named:search-done-primitive-under-search-id", vec![0x30, 0x06, 0x02, 0x01, 0x03, 0x45, 0x01, 0x00], "Msg", ""),
        ("named:search-done-bad-referral-under-search-id", ber::message(3, ber::ldap_result(5, 10, b"", b"", &[ber::tlv(0x83, b"x")]), None), "Msg", ""),
        ("named:bind-response-empty-under-bind-id", vec![0x30, 0x05, 0x02, 0x01, 0x01, 0x61, 0x00], "Msg", ""),
        ("named:envelope-empty", vec![0x30, 0x00], "Bad", "too-few-elements"),
        ("named:missing-msgid", vec![0x30, 0x09, 0x61, 0x07, 0x0a, 0x01, 0x00, 0x04, 0x00, 0x04, 0x00], "Bad", "too-few-elements"),
        ("named:inner-overrun", vec![0x30, 0x0c, 0x02, 0x01, 0x01, 0x61, 0x07, 0x0a, 0x01, 0x00, 0x04, 0x00, 0x04, 0x05], "Bad", "ber"),
        ("named:msgid-2^32+1", vec![0x30, 0x10, 0x02, 0x05, 0x01, 0x00, 0x00, 0x00, 0x01, 0x61, 0x07, 0x0a, 0x01, 0x00, 0x04, 0x00, 0x04, 0x00], "Bad", "msgid-too-large"),
        ("named:criticality-empty", vec![0x30, 0x17, 0x02, 0x01, 0x01, 0x61, 0x07, 0x0a, 0x01, 0x00, 0x04, 0x00, 0x04, 0x00, 0xa0, 0x09, 0x30, 0x07, 0x04, 0x03, 0x31, 0x2e, 0x32, 0x01, 0x00], "Bad", "criticality-empty"),
    ] {
        if seen.insert(b.clone()) {
            all.insert(0, HVec { kind: kind.to_string(), b, verdict: verdict.to_string(), why: why.to_string() });
        } else if let Some(p) = all.iter().position(|x| x.b == b) {
            let x = all.remove(p);
            all.insert(0, x);
        }
    }
    rep.add("candidates", all.len() as u64);
    // sample: the named ones, then one of every (kind, verdict), then a seeded stride
    let mut chosen: Vec<usize> = vec![];
    let mut have: HashSet<(String, String)> = HashSet::new();
    for (i, v) in all.iter().enumerate() {
        if v.kind.starts_with("named:") || have.insert((v.kind.clone(), v.verdict.clone())) {
            chosen.push(i);
        }
    }
    let mut rng = StdRng::seed_from_u64(seed_from_env() ^ 0xd11);
    let mut guard = 0;
    while chosen.len() < max.min(all.len()) && guard < 20 * max {
        guard += 1;
        let i = rng.gen_range(0..all.len());
        if !chosen.contains(&i) {
            chosen.push(i);
        }
    }
    chosen.truncate(max.max(10));
    let mut caller: BTreeMap<String, (u64, String)> = BTreeMap::new();
    for (k, i) in chosen.iter().enumerate() {
        let v = &all[*i];
        let mode = if v.kind.starts_with("named:") { 0 } else { k };
        let seed = seed_from_env().wrapping_mul(1000003).wrapping_add(k as u64);
        let chunking = ["whole", "octet-by-octet", "split-after-first-octet", "same-read-as-a-good-response"][mode % 4];
        let case = |a: &Obs, b: &Obs, c: &Obs| json!({"kind": v.kind, "bytes": hex(&v.b), "chunking": chunking,
            "spec": {"verdict": v.verdict, "why": v.why},
            "after_frame": {"driver": a.drv, "ops": a.ops}, "after_good_followups": {"driver": b.drv, "ops": b.ops}, "after_eof": {"driver": c.drv, "ops": c.ops},
            "driver_panic": b.drv_panic.as_ref().or(c.drv_panic.as_ref()).map(|p| json!({"msg": p.0, "at": p.1}))});
        let (a, b, c, items) = match run_driver_scenario(v, mode, seed) {
            Ok(x) => x,
            Err(e) => {
                rep.notes.push(format!("driver scenario could not be set up: {}", e));
                rep.count("setup_failures");
                continue;
            }
        };
        rep.eval(true, hash_of(&v.b));
        rep.count(&format!("driver-verdict:{}", v.verdict));
        rep.count(&format!("driver-outcome:{}", b.drv));
        if rep.samples.len() < 4 && (k < 2 || v.verdict == "Either") {
            rep.sample(case(&a, &b, &c));
        }
        for (o, m, l) in &c.caller_panics {
            let key = caller_panic_key(m, l);
            let e = caller.entry(key).or_insert((0, String::new()));
            e.0 += 1;
            if e.1.is_empty() {
                e.1 = format!("op {} got {} ({} at {})", o, hex(&v.b), m, l);
            }
        }
        // 1. nobody may panic in the driver
        if let Some((m, l)) = c.drv_panic.as_ref() {
            rep.mismatch(&driver_panic_key(m, l), case(&a, &b, &c));
            continue;
        }
        let all_done = |o: &Obs| o.ops.iter().all(|x| x.is_some());
        let all_err = |o: &Obs| o.ops.iter().all(|x| x.as_deref().map(|s| s.starts_with("err:")).unwrap_or(false));
        let _ = items;
        if v.verdict == "Bad" {
            // not a well-formed envelope: the connection ends with a decoding error that every pending operation observes,
            // as soon as the frame is complete, and nothing sent afterwards is delivered
            if a.drv == "exitErr" && all_err(&a) {
                rep.count("bad:connection-ended-everyone-saw-an-error");
                if b.ops != a.ops {
                    rep.mismatch("c11:driver:delivery-after-rejection", case(&a, &b, &c));
                }
            } else if a.drv == "running" {
                let key = if !all_done(&b) && b.drv == "running" {
                    if v.why == "ber" { "c11:driver:wedged:inner-overrun".to_string() } else { format!("c11:driver:wedged:{}", v.why) }
                } else if b.drv == "running" {
                    format!("c11:driver:accepted-bad-frame:{}", if v.why.starts_with("msgid-too") || v.why == "msgid-negative" { "msgid-out-of-range-aliased" } else { &v.why })
                } else {
                    format!("c11:driver:late-rejection:{}", v.why)
                };
                rep.mismatch(&key, case(&a, &b, &c));
            } else if a.drv == "exitErr" {
                rep.mismatch("c11:driver:pending-operation-did-not-observe-the-error", case(&a, &b, &c));
            } else {
                rep.mismatch(&format!("c11:driver:bad-frame-ended-with-{}", a.drv), case(&a, &b, &c));
            }
        } else {
            // well-formed envelope (or a form the specification leaves open): the driver may deliver it, ignore it or end the
            // connection with an error - but every caller must get an answer once good responses for all three have arrived
            if !all_done(&b) {
                let key = if v.why == "ber-out-of-domain" { "c11:driver:wedged:inner-length-out-of-domain" } else { "c11:driver:hang-after-well-formed-frame" };
                rep.mismatch(key, case(&a, &b, &c));
            } else {
                rep.count(if b.drv == "running" { "wellformed:connection-survived" } else { "wellformed:connection-ended-with-error" });
            }
        }
        if !all_done(&c) || c.drv == "running" {
            rep.mismatch("c11:driver:hang-after-eof", case(&a, &b, &c));
        }
    }
    for (k, (n, ex)) in &caller {
        rep.add(&format!("caller-panic:{}", k), *n);
        rep.notes.push(format!("caller-side panic (outside the driver, reported not counted): {} x{} e.g. {}", k, n, ex));
    }
    rep.add("scenarios", chosen.len() as u64);
}

// ---------------------------------------------------------------------------------------------
// C06 end to end
// ---------------------------------------------------------------------------------------------
struct E2eMsg {
    bytes: Vec<u8>,
    dest: &'static str,
    tok: String,
}

fn e2e_scenario(sc: usize, msgs: &[E2eMsg], chunks: &[usize], mode: &str, seed: u64) -> Result<Value, String> {
    let rt = Builder::new_current_thread().enable_time().start_paused(true).rng_seed(RngSeed::from_bytes(&seed.to_le_bytes())).build().unwrap();
    ldap3::verif::install();
    let stream: Vec<u8> = msgs.iter().flat_map(|m| m.bytes.iter().copied()).collect();
    let r = rt.block_on(async {
        let io = MockIo::new();
        let (conn, ldap) = LdapConnAsync::verif_from_io(Box::new(io.clone()));
        let delivered: Arc<Mutex<Vec<(&'static str, String)>>> = Default::default();
        let drv = tokio::spawn(async move {
            let r = std::panic::AssertUnwindSafe(conn.drive()).catch_unwind().await;
            note(&format!("\"ev\":\"DrvExit\",\"ok\":{}", matches!(r, Ok(Ok(())))));
        });
        // search first (id 1), then bind (id 2), then compare (id 3)
        let mut tasks = vec![];
        {
            let mut l = ldap.clone();
            let d = delivered.clone();
            tasks.push(tokio::spawn(async move {
                let mut st = match l.streaming_search("dc=x", Scope::Subtree, "(a=b)", vec!["cn"]).await {
                    Ok(s) => s,
                    Err(_) => return,
                };
                loop {
                    match st.next().await {
                        Ok(Some(re)) => {
                            d.lock().unwrap().push(("s", first_octets(&re.0)));
                            note("\"ev\":\"Item\"");
                        }
                        Ok(None) => {
                            let res = st.finish().await;
                            d.lock().unwrap().push(("s", res.text));
                            note("\"ev\":\"Item\"");
                            return;
                        }
                        Err(_) => return,
                    }
                }
            }));
        }
        settle().await;
        {
            let mut l = ldap.clone();
            let d = delivered.clone();
            tasks.push(tokio::spawn(async move {
                if let Ok(res) = l.simple_bind("cn=x", "pw").await {
                    d.lock().unwrap().push(("b", res.text));
                    note("\"ev\":\"Item\"");
                }
            }));
        }
        settle().await;
        {
            let mut l = ldap.clone();
            let d = delivered.clone();
            tasks.push(tokio::spawn(async move {
                if let Ok(res) = l.compare("cn=x", "cn", "x").await {
                    d.lock().unwrap().push(("c", res.0.text));
                    note("\"ev\":\"Item\"");
                }
            }));
        }
        settle().await;
        let (w, _) = ber::split_messages(&io.take_written());
        let got: Vec<(i64, u8)> = w.iter().filter(|(el, _)| el.kids.len() >= 2).map(|(el, _)| (ber::uint_of(&el.kids[0].val), el.kids[1].num)).collect();
        if got != vec![(1, 3), (2, 0), (3, 14)] {
            return Err(format!("unexpected requests on the wire: {:?}", got));
        }
        let mut steps: Vec<(usize, usize)> = vec![];
        let mut count = 0usize;
        let mut p = 0usize;
        for (j, c) in chunks.iter().enumerate() {
            io.push_bytes(&stream[p..p + c]);
            p += c;
            settle().await;
            let now = delivered.lock().unwrap().len();
            if now != count {
                count = now;
                steps.push((j + 1, now));
            }
        }
        // nothing may arrive later either
        tokio::time::advance(Duration::from_secs(5)).await;
        settle().await;
        let late = delivered.lock().unwrap().len() != count;
        drop(ldap);
        io.push(Item::Eof);
        settle().await;
        for t in tasks {
            t.abort();
        }
        drv.abort();
        let d = delivered.lock().unwrap().clone();
        let fin = |k: &str| d.iter().filter(|x| x.0 == k).map(|x| x.1.clone()).collect::<Vec<_>>();
        // run-length form of the chunk sizes
        let mut runs: Vec<(usize, usize)> = vec![];
        for c in chunks {
            match runs.last_mut() {
                Some(r) if r.0 == *c => r.1 += 1,
                _ => runs.push((*c, 1)),
            }
        }
        let (mut pos, mut idx) = (0usize, 0usize);
        let runs4: Vec<Value> = runs
            .iter()
            .map(|r| {
                let v = json!([r.0, r.1, pos, idx]);
                pos += r.0 * r.1;
                idx += r.1;
                v
            })
            .collect();
        Ok(json!({
            "sc": sc, "mode": mode, "len": stream.len(), "nchunks": chunks.len(), "late": late,
            "msgs": msgs.iter().map(|m| json!({"h": m.bytes[..m.bytes.len().min(6)].to_vec(), "n": m.bytes.len(), "d": m.dest, "tok": m.tok})).collect::<Vec<_>>(),
            "chunks": runs4,
            "steps": steps.iter().map(|s| json!([s.0, s.1])).collect::<Vec<_>>(),
            "fin": {"s": fin("s"), "b": fin("b"), "c": fin("c")},
        }))
    });
    let _ = ldap3::verif::take();
    r
}

fn e2e_messages(rng: &mut StdRng, sizes: &[usize], with_singles: bool) -> Vec<E2eMsg> {
    let mut v = vec![];
    let mut tok = 0;
    for s in sizes {
        tok += 1;
        if *s <= 7 {
            // the smallest frame there is: an entry with no contents
            v.push(E2eMsg { bytes: vec![0x30, 0x05, 0x02, 0x01, 0x01, 0x64, 0x00], dest: "s", tok: String::new() });
            continue;
        }
        let t = format!("k{}", tok);
        let kind = rng.gen_range(0..10);
        if kind == 0 {
            v.push(E2eMsg { bytes: ber::message(1, ber::tlv(0x73, &ber::octets(t.as_bytes())), None), dest: "s", tok: t });
            continue;
        }
        let base = entry_bytes(1, &t, 0).len();
        let pad = s.saturating_sub(base + 8);
        let mut b = entry_bytes(1, &t, pad);
        if kind == 1 {
            // same entry with a control attached
            b = ber::message(
                1,
                ber::tlv(0x64, &ber::cat(&[ber::octets(t.as_bytes()), ber::seq(&[ber::seq(&[ber::octets(b"cn"), ber::tlv(0x31, &ber::octets(&vec![b'v'; pad]))])])])),
                Some(ber::controls(&[ber::control("1.2.3.4", Some(true), Some(b"x"))])),
            );
        }
        v.push(E2eMsg { bytes: b, dest: "s", tok: t });
    }
    if with_singles && v.len() >= 2 {
        let i = rng.gen_range(0..v.len());
        v.insert(i, E2eMsg { bytes: ber::message(2, ber::ldap_result(1, 0, b"", b"bind", &[]), None), dest: "b", tok: "bind".into() });
        let i = rng.gen_range(0..v.len());
        v.insert(i, E2eMsg { bytes: ber::message(3, ber::ldap_result(15, 6, b"", b"cmp", &[]), None), dest: "c", tok: "cmp".into() });
    }
    v.push(E2eMsg { bytes: ber::message(1, ber::ldap_result(5, 0, b"", b"done", &[]), None), dest: "s", tok: "done".into() });
    // one message in four carries its outer length in the long form with three or four length octets (X.690 8.1.3.5 lets
    // the sender choose; Active Directory writes 30 84 .. for everything)
    for m in v.iter_mut() {
        if rng.gen_range(0..4) == 0 {
            let h = header_len(&m.bytes);
            let body = m.bytes.len() - h;
            let k = if body < (1 << 24) && rng.gen_bool(0.3) { 3 } else { 4 };
            let mut w = vec![0x30, 0x80 | k as u8];
            w.extend_from_slice(&(body as u32).to_be_bytes()[4 - k..]);
            w.extend_from_slice(&m.bytes[h..]);
            m.bytes = w;
        }
    }
    v
}

fn header_len(b: &[u8]) -> usize {
    if b[1] < 0x80 {
        2
    } else {
        2 + (b[1] & 0x7f) as usize
    }
}

fn e2e(out_path: &str, tier: &str, rep: &mut Report) {
    let thorough = tier == "thorough";
    let mut rng = StdRng::seed_from_u64(seed_from_env() ^ 0xc06);
    let mut f = std::io::BufWriter::new(std::fs::File::create(out_path).expect("create trace"));
    let mut sc = 0usize;
    let big: usize = if thorough { 1 << 20 } else { 70_000 };
    // size profiles: (sizes, number of random chunkings)
    let mut profiles: Vec<(Vec<usize>, usize)> = vec![
        (vec![7, 7, 7], 4),
        (vec![7, 20, 130, 7, 300, 40], 8),
        (vec![125, 126, 127, 128, 129, 130, 131, 132, 133, 134], 8),
        (vec![253, 254, 255, 256, 257, 258, 259, 260, 261, 262], 8),
        (vec![9000, 30, 8192, 8191, 8193, 7], 6),
        (vec![65534, 65535, 65536, 65537, 65538, 65539, 65540, 65541, 65542, 65543], 3),
        (vec![30, big, 7, 40], 3),
    ];
    let extra = if thorough { 300 } else { 30 };
    for _ in 0..extra {
        let n = rng.gen_range(1..12);
        let sizes: Vec<usize> = (0..n)
            .map(|_| match rng.gen_range(0..10) {
                0 => 7,
                1..=4 => rng.gen_range(20..140),
                5 | 6 => rng.gen_range(140..400),
                7 => rng.gen_range(8000..9000),
                8 => rng.gen_range(250..270),
                _ => rng.gen_range(400..3000),
            })
            .collect();
        profiles.push((sizes, if thorough { 6 } else { 3 }));
    }
    for (pi, (sizes, nrandom)) in profiles.iter().enumerate() {
        let msgs = e2e_messages(&mut rng, sizes, pi % 2 == 1);
        let total: usize = msgs.iter().map(|m| m.bytes.len()).sum();
        let mut plans: Vec<(String, Vec<usize>)> = vec![];
        // one octet at a time (the 1 MiB stream only in 7-octet steps and octet steps around the boundaries)
        if total <= 200_000 {
            plans.push(("octets".into(), vec![1; total]));
        }
        plans.push(("whole".into(), vec![total]));
        // one message per chunk, and chunks that straddle every boundary
        plans.push(("per-message".into(), msgs.iter().map(|m| m.bytes.len()).collect()));
        // split inside every header: a boundary k octets into each message
        let maxh = msgs.iter().map(|m| header_len(&m.bytes)).max().unwrap_or(2);
        for k in 1..=maxh {
            let mut cuts: Vec<usize> = vec![];
            let mut off = 0;
            for m in &msgs {
                cuts.push(off + k.min(m.bytes.len() - 1));
                off += m.bytes.len();
            }
            cuts.push(total);
            cuts.dedup();
            let mut chunks = vec![];
            let mut last = 0;
            for c in cuts {
                if c > last {
                    chunks.push(c - last);
                    last = c;
                }
            }
            plans.push((format!("header-split-{}", k), chunks));
        }
        // one octet short of / past every frame end
        for (name, d) in [("end-minus-1", -1i64), ("end-plus-1", 1)] {
            let mut chunks = vec![];
            let mut last = 0usize;
            let mut off = 0usize;
            for m in &msgs {
                off += m.bytes.len();
                let c = ((off as i64 + d).max(last as i64 + 1) as usize).min(total);
                if c > last {
                    chunks.push(c - last);
                    last = c;
                }
            }
            if last < total {
                chunks.push(total - last);
            }
            plans.push((name.into(), chunks));
        }
        for r in 0..*nrandom {
            // at most a few ten thousand chunks per stream
            let maxc = [3usize, 17, 300, 5000, 70000][r % 5].max(total / 20_000);
            let mut chunks = vec![];
            let mut left = total;
            while left > 0 {
                let c = rng.gen_range(1..=maxc.min(left));
                chunks.push(c);
                left -= c;
                if chunks.len() > 300_000 {
                    chunks.push(left);
                    left = 0;
                }
            }
            chunks.retain(|c| *c > 0);
            plans.push((format!("random-{}", maxc), chunks));
        }
        for (mode, chunks) in plans {
            sc += 1;
            match e2e_scenario(sc, &msgs, &chunks, &mode, seed_from_env().wrapping_add(sc as u64)) {
                Ok(rec) => {
                    rep.eval(chunks.len() > 1 || msgs.len() > 1, hash_of(&(sizes, &chunks)));
                    rep.count(&format!("mode:{}", mode.split('-').next().unwrap_or("")));
                    rep.add("chunks", chunks.len() as u64);
                    rep.add("messages", msgs.len() as u64);
                    rep.add("octets", total as u64);
                    if total > 65536 {
                        rep.count("streams_beyond_64k");
                    }
                    if rep.samples.len() < 3 && (mode.starts_with("header") || mode.starts_with("random")) && total < 1000 {
                        rep.sample(rec.clone());
                    }
                    writeln!(f, "{}", rec).unwrap();
                }
                Err(e) => {
                    rep.notes.push(format!("e2e scenario {} could not be set up: {}", sc, e));
                    rep.count("setup_failures");
                }
            }
        }
    }
    rep.add("streams", sc as u64);
}

// ---------------------------------------------------------------------------------------------
// stack lane
// ---------------------------------------------------------------------------------------------
/// Nest(d): d constructed elements inside each other, the innermost empty; the identifier octet of level i is tags[i % n]
/// (SEQUENCE 0x30, SET 0x31, context [0] 0xa0, application 0 0x60, private 0 0xe0: nesting is nesting whatever the class)
fn nest(depth: usize, tags: &[u8]) -> Vec<u8> {
    // built inside out, as a list of headers
    let mut len = 0usize;
    let mut headers: Vec<Vec<u8>> = Vec::with_capacity(depth);
    for i in 0..depth {
        let mut h = vec![tags[(depth - 1 - i) % tags.len()]];
        h.extend(ber::len_octets(len));
        len += h.len();
        headers.push(h);
    }
    let mut out = Vec::with_capacity(len);
    for h in headers.iter().rev() {
        out.extend_from_slice(h);
    }
    out
}

fn stack_child(depth: usize, variant: &str) {
    let tags: &[u8] = match variant.split(':').nth(1).unwrap_or("seq") {
        "seq" => &[0x30],
        "set" => &[0x31],
        "ctx" => &[0xa0],
        "app" => &[0x60],
        "priv" => &[0xe0],
        _ => &[0x30, 0xa0, 0x31, 0x60],
    };
    let inner = nest(depth, tags);
    let bytes = match variant.split(':').next().unwrap_or("bare") {
        "bare" => inner,
        // a well-formed envelope: SearchResultEntry under ID 3 whose contents are Nest(d)
        _ => ber::message(3, ber::tlv(0x64, &inner), None),
    };
    let total = bytes.len();
    // the driver runs wherever the application spawned it; Tokio's worker threads have 2 MiB stacks
    let h = std::thread::Builder::new()
        .stack_size(2 * 1024 * 1024)
        .spawn(move || {
            let mut buf = BytesMut::from(&bytes[..]);
            let r = ldap3::verif::decode(&mut buf);
            let s = match &r {
                Ok(None) => "none",
                Ok(Some(_)) => "some",
                Err(_) => "err",
            };
            let s = s.to_string();
            // the driver hands the message on (a move) and the caller eventually drops it
            let moved = r;
            drop(moved);
            (s, buf.len())
        })
        .unwrap();
    match h.join() {
        Ok((s, left)) => {
            println!("RESULT {} {} {}", s, total, left);
        }
        Err(e) => {
            println!("RESULT panic {} 0 {}", total, panic_msg(e));
        }
    }
}

fn stack_lane(rep: &mut Report) {
    let exe = std::env::current_exe().expect("own path");
    let depths = [10usize, 100, 1000, 10_000, 100_000, 1 << 19];
    let mut first_overflow: BTreeMap<&str, usize> = BTreeMap::new();
    for variant in ["bare:seq", "in-op:seq", "bare:ctx", "in-op:ctx", "in-op:set", "in-op:app", "in-op:priv", "in-op:mixed"] {
        for d in depths {
            if !variant.ends_with(":seq") && (d == 10 || d == 1 << 19) {
                continue;
            }
            let out = std::process::Command::new(&exe).args(["stack-child", &d.to_string(), variant]).output().expect("spawn child");
            let stdout = String::from_utf8_lossy(&out.stdout).to_string();
            let res = stdout.lines().find(|l| l.starts_with("RESULT")).unwrap_or("").to_string();
            use std::os::unix::process::ExitStatusExt;
            let status = match (out.status.code(), out.status.signal()) {
                (Some(c), _) => format!("exit:{}", c),
                (None, Some(s)) => format!("signal:{}", s),
                _ => "unknown".to_string(),
            };
            rep.eval(d >= 100, hash_of(&(d, variant)));
            let obs = json!({"nest_depth": d, "variant": variant, "status": status, "result": res,
                             "stderr": String::from_utf8_lossy(&out.stderr).lines().filter(|l| l.contains("overflow")).take(1).collect::<Vec<_>>()});
            rep.sample(obs.clone());
            rep.notes.push(format!("stack lane: Nest({}) {} -> {} {}", d, variant, status, res));
            if status != "exit:0" {
                rep.count("child_died");
                first_overflow.entry(variant).or_insert(d);
                continue;
            }
            let parts: Vec<&str> = res.split_whitespace().collect();
            match parts.get(1).copied() {
                Some("some") | Some("err") => rep.count(&format!("stack:{}", parts[1])),
                Some("none") => rep.mismatch("c11:stack:incomplete-on-complete-frame", obs),
                // the same defect class as in the replay lane
                Some("panic") => rep.mismatch(&format!("c11:decode:panic:{}", decode_panic_slug(&parts[4..].join(" "))), obs),
                _ => rep.mismatch("c11:stack:no-result", obs),
            }
        }
    }
    if let Some(d) = first_overflow.values().min() {
        rep.mismatch(&format!("c11:stack:overflow-depth-{}", d), json!({"smallest_depth_that_killed_the_process": d, "per_variant": first_overflow.iter().map(|(k, v)| json!({"variant": k, "depth": v})).collect::<Vec<_>>(),
            "stack": "2 MiB thread (Tokio worker default)", "input": "Nest(d) = d nested constructed elements (SEQUENCE, SET, context, application, private class or a mix), T L (T L (... T 00))"}));
    }
}

// ---------------------------------------------------------------------------------------------
fn main() {
    let args: Vec<String> = std::env::args().collect();
    let usage = || {
        eprintln!("usage: frame-run replay-framing|replay-hostile <tlc-out> <report> | driver <tlc-out> <max> <report> | e2e <out> <tier> <report> | trace-hostile <out> <count> <report> | stack <report> | stack-child <depth> <variant>");
        std::process::exit(2);
    };
    if args.len() < 3 {
        usage();
    }
    if args[1] == "stack-child" {
        // the default hook prints "thread ... has overflowed its stack" itself; nothing to install
        stack_child(args[2].parse().expect("depth"), args.get(3).map(|s| s.as_str()).unwrap_or("bare"));
        return;
    }
    install_panic_hook();
    match args[1].as_str() {
        "replay-framing" if args.len() == 4 => {
            let mut rep = Report::new("frame-run replay-framing");
            replay_framing(&args[2], &mut rep);
            rep.write(&args[3]);
        }
        "replay-hostile" if args.len() == 4 => {
            let mut rep = Report::new("frame-run replay-hostile");
            replay_hostile(&args[2], &mut rep);
            rep.write(&args[3]);
        }
        "driver" if args.len() == 5 => {
            let mut rep = Report::new("frame-run driver");
            driver_lane(&args[2], args[3].parse().expect("max"), &mut rep);
            rep.write(&args[4]);
        }
        "e2e" if args.len() == 5 => {
            let mut rep = Report::new("frame-run e2e");
            e2e(&args[2], &args[3], &mut rep);
            rep.write(&args[4]);
        }
        "trace-hostile" if args.len() == 5 => {
            let mut rep = Report::new("frame-run trace-hostile");
            trace_hostile(&args[2], args[3].parse().expect("count"), &mut rep);
            rep.write(&args[4]);
        }
        "stack" if args.len() == 3 => {
            let mut rep = Report::new("frame-run stack");
            stack_lane(&mut rep);
            rep.write(&args[2]);
        }
        _ => usage(),
    }
}
