//! escape-run (C09): hands values to ldap_escape / dn_escape / ldap_unescape / parse_filter and writes what they
//! returned as ndjson records for spec/TraceEscape.tla.  No expected value is computed here: the laws are
//! evaluated by TLC with the specification's own RFC 4515 / RFC 4514 parsers.
//!
//!   escape-run replay <tlc-output|-> <report.json> <out-prefix> <shards>   values = VEC lines of an MCEscape run
//!   escape-run trace  <out-prefix> <count> <report.json> [shards]          values = seeded random Unicode strings
//!
//! Records go round-robin to <out-prefix>-<k>.ndjson, k in 0..shards (one TLC run per shard):
//!   {"v":[..], "fe":[..ldap_escape(v)], "un_ok":bool, "un":[..ldap_unescape(fe)], "filt_ok":bool,
//!    "filt":[..BER of parse_filter("(a=" fe ")")], "de":[..dn_escape(v)]}
//! A panic in any of the four functions is reported as a mismatch (`<function>:panic`) and no record is written.

use bytes::BytesMut;
use lber::structures::ASNTag;
use rand::{rngs::StdRng, Rng, SeedableRng};
use serde_json::{json, Value};
use std::io::{BufWriter, Write};
use verif_harness::report::{hash_of, Report};
use verif_harness::{bytes_of, catch, seed_from_env, tlcout};

const FILTER_SPECIAL: &[u8] = &[0, b'(', b')', b'*', b'\\'];
const DN_SPECIAL: &[u8] = &[0, b'"', b'+', b',', b';', b'<', b'>', b'\\'];

struct Shards {
    w: Vec<BufWriter<std::fs::File>>,
    next: usize,
}

impl Shards {
    fn new(prefix: &str, n: usize) -> Self {
        let w = (0..n)
            .map(|k| BufWriter::with_capacity(1 << 20, std::fs::File::create(format!("{}-{}.ndjson", prefix, k)).expect("create shard")))
            .collect();
        Shards { w, next: 0 }
    }
    fn put(&mut self, v: &Value) {
        let k = self.next % self.w.len();
        self.next += 1;
        writeln!(self.w[k], "{}", v).expect("write record");
    }
    fn finish(mut self) {
        for w in self.w.iter_mut() {
            w.flush().expect("flush");
        }
    }
}

fn filter_ber(s: &str) -> Result<Option<Vec<u8>>, String> {
    let s = s.to_string();
    catch(move || match ldap3::parse_filter(&s) {
        Ok(tag) => {
            let mut buf = BytesMut::new();
            lber::write::encode_into(&mut buf, tag.into_structure()).expect("encode filter");
            Some(buf.to_vec())
        }
        Err(()) => None,
    })
}

/// Coverage classes of a value (for the vacuity counters only; the oracle is TLC).
fn classes(v: &[u8]) -> Vec<&'static str> {
    let mut c = vec![];
    if v.is_empty() {
        c.push("empty");
        return c;
    }
    if v.iter().any(|b| FILTER_SPECIAL.contains(b)) {
        c.push("has_filter_special");
    }
    if v.iter().any(|b| DN_SPECIAL.contains(b)) {
        c.push("has_dn_special");
    }
    if v.contains(&0) {
        c.push("has_nul");
    }
    if v[0] == b' ' {
        c.push("lead_space");
    }
    if v[0] == b'#' {
        c.push("lead_sharp");
    }
    if v[v.len() - 1] == b' ' {
        c.push("trail_space");
    }
    if v.len() > 2 && v[1..v.len() - 1].iter().any(|&b| b == b' ' || b == b'#') {
        c.push("inner_space_or_sharp");
    }
    if v.contains(&b'=') {
        c.push("has_equals");
    }
    if v.iter().any(|&b| b >= 0x80) {
        c.push("non_ascii");
    }
    if v.iter().any(|&b| b < 0x20 || b == 0x7f) {
        c.push("control");
    }
    if v.windows(3).any(|w| w[0] == b'\\' && w[1].is_ascii_hexdigit() && w[2].is_ascii_hexdigit()) {
        c.push("looks_like_escape");
    }
    c
}

fn one(v: &str, out: &mut Shards, rep: &mut Report) {
    let vb = v.as_bytes();
    let cls = classes(vb);
    let nontrivial = cls.iter().any(|c| *c != "empty" && *c != "has_equals" && *c != "inner_space_or_sharp");
    rep.eval(nontrivial, hash_of(&vb));
    rep.count("values");
    for c in &cls {
        rep.count(c);
    }
    let case = |what: &str, p: String| json!({"v": vb, "v_text": v, "function": what, "panic": p});
    let s = v.to_string();
    let fe = match catch(move || ldap3::ldap_escape(s).into_owned()) {
        Ok(x) => x,
        Err(p) => return rep.mismatch("ldap_escape:panic", case("ldap_escape", p)),
    };
    let s = v.to_string();
    let de = match catch(move || ldap3::dn_escape(s).into_owned()) {
        Ok(x) => x,
        Err(p) => return rep.mismatch("dn_escape:panic", case("dn_escape", p)),
    };
    let s = fe.clone();
    let un = match catch(move || ldap3::ldap_unescape(s).map(|c| c.into_owned()).ok()) {
        Ok(x) => x,
        Err(p) => return rep.mismatch("ldap_unescape:panic", case("ldap_unescape", p)),
    };
    let filt = match filter_ber(&format!("(a={})", fe)) {
        Ok(x) => x,
        Err(p) => return rep.mismatch("parse_filter:panic", case("parse_filter", p)),
    };
    // the borrowed-input form must behave the same (it is the one that can return the argument itself)
    if ldap3::ldap_escape(v) != fe.as_str() || ldap3::dn_escape(v) != de.as_str() {
        rep.mismatch("borrowed-vs-owned-differ", json!({"v": vb, "v_text": v}));
    }
    if fe.as_bytes() != vb {
        rep.count("filter_escaped");
    }
    if de.as_bytes() != vb {
        rep.count("dn_escaped");
    }
    let rec = json!({
        "v": vb,
        "fe": fe.as_bytes(),
        "un_ok": un.is_some(),
        "un": un.as_ref().map(|s| s.as_bytes().to_vec()).unwrap_or_default(),
        "filt_ok": filt.is_some(),
        "filt": filt.unwrap_or_default(),
        "de": de.as_bytes(),
    });
    if cls.len() >= 3 {
        rep.sample(json!({"v_text": v, "ldap_escape": fe, "dn_escape": de}));
    }
    out.put(&rec);
    rep.count("records");
}

fn replay(path: &str, prefix: &str, shards: usize, rep: &mut Report) {
    let mut out = Shards::new(prefix, shards);
    let n = tlcout::for_each_tagged(path, "VEC", |j| {
        let b = bytes_of(&j["v"]);
        rep.count("vectors");
        rep.count(&format!("symbols_{}", j["n"].as_u64().unwrap_or(99)));
        match String::from_utf8(b) {
            Ok(s) => one(&s, &mut out, rep),
            Err(e) => {
                eprintln!("escape-run: vector is not UTF-8: {:?}", e.as_bytes());
                std::process::exit(2);
            }
        }
    })
    .expect("read TLC output");
    if n == 0 {
        eprintln!("escape-run: no VEC lines in {}", path);
        std::process::exit(2);
    }
    out.finish();
}

const SPECIALS: &[char] = &['\0', ' ', '#', '"', '+', ',', ';', '<', '=', '>', '\\', '*', '(', ')'];
const EDGES: &[u32] = &[0x01, 0x1f, 0x7f, 0x80, 0x9f, 0xa0, 0xff, 0x7ff, 0x800, 0xd7ff, 0xe000, 0xfeff, 0xfffd, 0xffff, 0x10000, 0x10ffff, 0x5c, 0x30, 0x39, 0x41, 0x46, 0x61, 0x66];

fn any_scalar(r: &mut StdRng, lo: u32, hi: u32) -> char {
    loop {
        if let Some(c) = char::from_u32(r.gen_range(lo..=hi)) {
            return c;
        }
    }
}

fn random_char(r: &mut StdRng) -> char {
    match r.gen_range(0..100) {
        0..=29 => SPECIALS[r.gen_range(0..SPECIALS.len())],
        30..=44 => any_scalar(r, 0x20, 0x7e),
        45..=54 => any_scalar(r, 0x00, 0x1f),
        55..=64 => any_scalar(r, 0x80, 0x7ff),
        65..=74 => any_scalar(r, 0x800, 0xffff),
        75..=82 => any_scalar(r, 0x10000, 0x10ffff),
        83..=90 => char::from_u32(EDGES[r.gen_range(0..EDGES.len())]).unwrap(),
        _ => any_scalar(r, 0, 0x10ffff),
    }
}

fn random_value(r: &mut StdRng) -> String {
    let len = if r.gen_bool(0.1) { r.gen_range(13..=40) } else { r.gen_range(1..=12) };
    let mut cs: Vec<char> = (0..len).map(|_| random_char(r)).collect();
    {
        // specials at the first / last position, where the DN rules are positional
        if r.gen_bool(0.3) {
            cs[0] = SPECIALS[r.gen_range(0..SPECIALS.len())];
        }
        if r.gen_bool(0.3) {
            cs[len - 1] = SPECIALS[r.gen_range(0..SPECIALS.len())];
        }
        // something that already looks like an escape sequence
        if len >= 3 && r.gen_bool(0.1) {
            let p = r.gen_range(0..len - 2);
            cs[p] = '\\';
            cs[p + 1] = ['0', '2', '5', 'a', 'C', 'f'][r.gen_range(0..6)];
            cs[p + 2] = ['0', '8', '9', 'A', 'c', 'e'][r.gen_range(0..6)];
        }
    }
    // short strings over ASCII + {U+00E9, U+20AC, U+1F600} are enumerated exhaustively by MCEscape: make sure a random
    // value is not one of them (keeps the distinct-case counts of the two sources disjoint)
    let enumerated = |c: &char| c.is_ascii() || matches!(*c, '\u{e9}' | '\u{20ac}' | '\u{1f600}');
    if len < 6 && cs.iter().all(enumerated) {
        let p = if len >= 3 { r.gen_range(1..len - 1) } else { r.gen_range(0..len) };
        cs[p] = loop {
            let c = match r.gen_range(0..3) {
                0 => any_scalar(r, 0x80, 0x7ff),
                1 => any_scalar(r, 0x800, 0xffff),
                _ => any_scalar(r, 0x10000, 0x10ffff),
            };
            if !enumerated(&c) {
                break c;
            }
        };
    }
    cs.into_iter().collect()
}

fn trace(prefix: &str, count: u64, shards: usize, rep: &mut Report) {
    let seed = seed_from_env();
    let mut r = StdRng::seed_from_u64(seed ^ 0xC09_E5CA9E);
    let mut out = Shards::new(prefix, shards);
    for _ in 0..count {
        let v = random_value(&mut r);
        one(&v, &mut out, rep);
    }
    out.finish();
}

fn main() {
    verif_harness::silence_panics();
    let a: Vec<String> = std::env::args().collect();
    let usage = || -> ! {
        eprintln!("usage: escape-run replay <tlc-output|-> <report.json> <out-prefix> <shards> | trace <out-prefix> <count> <report.json> [shards]");
        std::process::exit(2)
    };
    if a.len() < 5 {
        usage();
    }
    match a[1].as_str() {
        "replay" => {
            if a.len() < 6 {
                usage();
            }
            let mut rep = Report::new("escape-replay");
            replay(&a[2], &a[4], a[5].parse().unwrap_or(1).max(1), &mut rep);
            rep.write(&a[3]);
        }
        "trace" => {
            let mut rep = Report::new("escape-trace");
            let shards = a.get(5).and_then(|s| s.parse().ok()).unwrap_or(1usize).max(1);
            trace(&a[2], a[3].parse().unwrap_or_else(|_| usage()), shards, &mut rep);
            rep.write(&a[4]);
        }
        _ => usage(),
    }
}
