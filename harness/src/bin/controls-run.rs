//! controls-run (C19): control / extended-operation codecs and the control envelope of ldap3 against
//! spec/Controls.tla.
//!
//!   controls-run replay <tlc-output|-> <report.json>      S -> I: VEC lines of MCControls
//!   controls-run trace  <out.ndjson> <count> <report.json> I -> S: seeded random values for TraceControls
//!
//! Expected values come from the TLA+ specification only. The small BER writer used by the trace generator to
//! build *inputs* for the response parsers is independent of lber; whatever it writes is re-decoded by the
//! specification, so it is not part of the oracle.

use bytes::BytesMut;
use ldap3::controls::{
    Assertion, Control, MakeCritical, ManageDsaIt, MatchedValues, PagedResults, PostRead, PostReadResp, PreRead,
    PreReadResp, ProxyAuth, RawControl, RefreshMode, RelaxRules, SyncDone, SyncInfo, SyncRequest, SyncState, TxnSpec,
};
use ldap3::exop::{EndTxn, Exop, PasswordModify, PasswordModifyResp, StartTxn, StartTxnResp, WhoAmI, WhoAmIResp};
use lber::common::TagClass;
use lber::structure::StructureTag;
use lber::structures::Tag;
use rand::{rngs::StdRng, Rng, SeedableRng};
use serde_json::{json, Value};
use std::io::Write;
use verif_harness::report::{hash_of, Report};
use verif_harness::{bytes_of, catch, hex, seed_from_env, tlcout};

// ------------------------------------------------------------------------------------------------
// helpers
// ------------------------------------------------------------------------------------------------

fn b8_to_i64(b: &[u8]) -> i64 {
    let mut a = [0u8; 8];
    if b.len() == 8 {
        a.copy_from_slice(b);
    }
    i64::from_be_bytes(a)
}

fn utf8(v: &Value) -> String {
    String::from_utf8(bytes_of(v)).expect("pool strings are UTF-8")
}

fn opt_utf8(has: &Value, v: &Value) -> Option<String> {
    if has.as_bool().unwrap_or(false) {
        Some(utf8(v))
    } else {
        None
    }
}

fn raw_json(rc: &RawControl) -> Value {
    json!({"oid": rc.ctype.as_bytes(), "crit": rc.crit, "hasval": rc.val.is_some(), "val": rc.val.clone().unwrap_or_default()})
}

fn exop_json(e: &Exop) -> Value {
    json!({"oid": e.name.clone().unwrap_or_default().as_bytes(), "hasname": e.name.is_some(),
           "hasval": e.val.is_some(), "val": e.val.clone().unwrap_or_default()})
}

/// Class of a request input, so that different defects get different keys.
fn input_class(kind: &str, f: &Value) -> String {
    match kind {
        "PagedResults" => {
            let s = b8_to_i64(&bytes_of(&f["size"]));
            format!("size{}", if s < 0 { "<0" } else { ">=0" })
        }
        "SyncRequest" => format!(
            "cookie={},reload={}",
            f["hascookie"].as_bool().unwrap_or(false),
            f["reload"].as_bool().unwrap_or(false)
        ),
        "PasswordModify" => format!(
            "user={},old={},new={}",
            f["hasuser"].as_bool().unwrap_or(false),
            f["hasold"].as_bool().unwrap_or(false),
            f["hasnew"].as_bool().unwrap_or(false)
        ),
        "EndTxn" => format!("commit={}", f["commit"].as_bool().unwrap_or(false)),
        _ => "any".to_string(),
    }
}

// ------------------------------------------------------------------------------------------------
// request side: fields -> RawControl / Exop through the public API
// ------------------------------------------------------------------------------------------------

fn build_control(kind: &str, f: &Value, critical: bool) -> Result<Vec<RawControl>, String> {
    let kind = kind.to_string();
    let f = f.clone();
    catch(move || -> Vec<RawControl> {
        match kind.as_str() {
            "PagedResults" => {
                let pr = PagedResults { size: b8_to_i64(&bytes_of(&f["size"])) as i32, cookie: bytes_of(&f["cookie"]) };
                if critical {
                    vec![pr.critical().into()]
                } else {
                    vec![pr.into()]
                }
            }
            "SyncRequest" => {
                let sr = SyncRequest {
                    mode: if f["mode"] == "RefreshOnly" { RefreshMode::RefreshOnly } else { RefreshMode::RefreshAndPersist },
                    cookie: if f["hascookie"].as_bool().unwrap() { Some(bytes_of(&f["cookie"])) } else { None },
                    reload_hint: f["reload"].as_bool().unwrap(),
                };
                if critical {
                    vec![sr.critical().into()]
                } else {
                    vec![sr.into()]
                }
            }
            "PreRead" => {
                let attrs: Vec<String> = f["attrs"].as_array().unwrap().iter().map(utf8).collect();
                vec![PreRead::new(attrs.clone()), PreRead::new(attrs.iter().map(|s| s.as_str()).collect::<Vec<&str>>())]
            }
            "PostRead" => {
                let attrs: Vec<String> = f["attrs"].as_array().unwrap().iter().map(utf8).collect();
                vec![PostRead::new(attrs.clone()), PostRead::new(attrs.iter().map(|s| s.as_str()).collect::<Vec<&str>>())]
            }
            "Assertion" => {
                let filter = utf8(&f["filter"]);
                if critical {
                    vec![Assertion { filter }.critical().into()]
                } else {
                    vec![Assertion::new(filter.clone()), Assertion { filter: filter.as_str() }.into()]
                }
            }
            "MatchedValues" => vec![MatchedValues::new(utf8(&f["filter"]))],
            "ProxyAuth" => vec![ProxyAuth { authzid: utf8(&f["authzid"]) }.into()],
            "TxnSpec" => {
                let id = utf8(&f["txn_id"]);
                vec![TxnSpec { txn_id: &id }.into()]
            }
            "ManageDsaIt" => {
                if critical {
                    vec![ManageDsaIt.critical().into()]
                } else {
                    vec![ManageDsaIt.into()]
                }
            }
            "RelaxRules" => {
                if critical {
                    vec![RelaxRules.critical().into()]
                } else {
                    vec![RelaxRules.into()]
                }
            }
            other => panic!("harness: unknown control kind {}", other),
        }
    })
}

fn build_exop(kind: &str, f: &Value) -> Result<Exop, String> {
    let kind = kind.to_string();
    let f = f.clone();
    catch(move || -> Exop {
        match kind.as_str() {
            "WhoAmI" => WhoAmI.into(),
            "StartTxn" => StartTxn.into(),
            "PasswordModify" => {
                let u = opt_utf8(&f["hasuser"], &f["user"]);
                let o = opt_utf8(&f["hasold"], &f["old"]);
                let n = opt_utf8(&f["hasnew"], &f["new"]);
                PasswordModify { user_id: u.as_deref(), old_pass: o.as_deref(), new_pass: n.as_deref() }.into()
            }
            "EndTxn" => {
                let id = utf8(&f["txn_id"]);
                EndTxn { txn_id: &id, commit: f["commit"].as_bool().unwrap() }.into()
            }
            other => panic!("harness: unknown exop kind {}", other),
        }
    })
}

fn check_req(v: &Value, rep: &mut Report) {
    let kind = v["kind"].as_str().unwrap();
    let f = &v["f"];
    let ex = &v["expect"];
    let critical = v["critical"].as_bool().unwrap_or(false);
    let cls = input_class(kind, f);
    rep.count(&format!("req:{}", kind));
    if critical {
        rep.count("req:critical");
    }
    let want_val = bytes_of(&ex["val"]);
    rep.eval(ex["hasval"].as_bool().unwrap() && want_val.len() > 2, hash_of(&(kind, &want_val, critical)));
    match build_control(kind, f, critical) {
        Err(p) => rep.mismatch(&format!("req:{}:panic:{}", kind, cls), json!({"kind": kind, "f": f, "critical": critical, "panic": p})),
        Ok(rcs) => {
            for rc in rcs {
                let got = raw_json(&rc);
                let case = || json!({"kind": kind, "f": f, "critical": critical, "expected": {"oid": String::from_utf8_lossy(&bytes_of(&ex["oid"])), "crit": ex["crit"], "hasval": ex["hasval"], "val": hex(&want_val)},
                                     "got": {"oid": rc.ctype, "crit": rc.crit, "val": rc.val.as_ref().map(|x| hex(x))}});
                if rc.ctype.as_bytes() != &bytes_of(&ex["oid"])[..] {
                    rep.mismatch(&format!("req:{}:oid", kind), case());
                }
                if got["crit"] != ex["crit"] {
                    rep.mismatch(&format!("req:{}:crit:critical={}", kind, critical), case());
                }
                if got["hasval"] != ex["hasval"] {
                    rep.mismatch(&format!("req:{}:value-presence:{}", kind, cls), case());
                } else if rc.val.clone().unwrap_or_default() != want_val {
                    rep.mismatch(&format!("req:{}:val:{}", kind, cls), case());
                }
            }
        }
    }
}

fn check_exop(v: &Value, rep: &mut Report) {
    let kind = v["kind"].as_str().unwrap();
    let f = &v["f"];
    let ex = &v["expect"];
    let cls = input_class(kind, f);
    rep.count(&format!("exop:{}", kind));
    let want_val = bytes_of(&ex["val"]);
    rep.eval(ex["hasval"].as_bool().unwrap(), hash_of(&(kind, &want_val)));
    match build_exop(kind, f) {
        Err(p) => rep.mismatch(&format!("exop:{}:panic:{}", kind, cls), json!({"kind": kind, "f": f, "panic": p})),
        Ok(e) => {
            let case = || json!({"kind": kind, "f": f, "expected": {"oid": String::from_utf8_lossy(&bytes_of(&ex["oid"])), "hasval": ex["hasval"], "val": hex(&want_val)},
                                 "got": {"name": e.name, "val": e.val.as_ref().map(|x| hex(x))}});
            if e.name.clone().unwrap_or_default().as_bytes() != &bytes_of(&ex["oid"])[..] || e.name.is_none() {
                rep.mismatch(&format!("exop:{}:oid", kind), case());
            }
            if e.val.is_some() != ex["hasval"].as_bool().unwrap() {
                rep.mismatch(&format!("exop:{}:value-presence:{}", kind, cls), case());
            } else if e.val.clone().unwrap_or_default() != want_val {
                rep.mismatch(&format!("exop:{}:val:{}", kind, cls), case());
            }
        }
    }
}

// ------------------------------------------------------------------------------------------------
// response side: bytes -> struct through the public parsers, rendered in the spec's field vocabulary
// ------------------------------------------------------------------------------------------------

fn rc_with(val: &[u8]) -> RawControl {
    RawControl { ctype: String::new(), crit: false, val: Some(val.to_vec()) }
}

fn opt_json(o: &Option<Vec<u8>>) -> (bool, Vec<u8>) {
    (o.is_some(), o.clone().unwrap_or_default())
}

/// Parse `bytes` as a response value of `kind` with the library and describe the struct.
fn parse_resp(kind: &str, bytes: &[u8]) -> Result<Value, String> {
    let kind = kind.to_string();
    let b = bytes.to_vec();
    catch(move || -> Value {
        match kind.as_str() {
            "PagedResults" => {
                let p: PagedResults = rc_with(&b).parse();
                json!({"size": (p.size as i64).to_be_bytes().to_vec(), "cookie": p.cookie})
            }
            "SyncState" => {
                let s: SyncState = rc_with(&b).parse();
                let (h, c) = opt_json(&s.cookie);
                json!({"state": format!("{:?}", s.state), "uuid": s.entry_uuid, "hascookie": h, "cookie": c})
            }
            "SyncDone" => {
                let s: SyncDone = rc_with(&b).parse();
                let (h, c) = opt_json(&s.cookie);
                json!({"hascookie": h, "cookie": c, "rd": s.refresh_deletes})
            }
            "SyncInfo" => {
                let st = match lber::parse::parse_tag(&b) {
                    Ok((_, t)) => t,
                    Err(_) => panic!("harness: lber could not parse the intermediate response"),
                };
                match ldap3::controls::parse_syncinfo(ldap3::ResultEntry::new(st)) {
                    SyncInfo::NewCookie(c) => json!({"choice": "NewCookie", "cookie": c}),
                    SyncInfo::RefreshDelete { cookie, refresh_done } => {
                        let (h, c) = opt_json(&cookie);
                        json!({"choice": "RefreshDelete", "hascookie": h, "cookie": c, "flag": refresh_done})
                    }
                    SyncInfo::RefreshPresent { cookie, refresh_done } => {
                        let (h, c) = opt_json(&cookie);
                        json!({"choice": "RefreshPresent", "hascookie": h, "cookie": c, "flag": refresh_done})
                    }
                    SyncInfo::SyncIdSet { cookie, refresh_deletes, sync_uuids } => {
                        let (h, c) = opt_json(&cookie);
                        let mut u: Vec<Vec<u8>> = sync_uuids.into_iter().collect();
                        u.sort();
                        json!({"choice": "SyncIdSet", "hascookie": h, "cookie": c, "flag": refresh_deletes, "uuidset": u})
                    }
                }
            }
            "PreReadResp" | "PostReadResp" => {
                let r = if kind == "PreReadResp" { rc_with(&b).parse::<PreReadResp>() } else { rc_with(&b).parse::<PostReadResp>() };
                let mut text: Vec<(String, Vec<String>)> = r.attrs.into_iter().collect();
                text.sort();
                let mut bin: Vec<(String, Vec<Vec<u8>>)> = r.bin_attrs.into_iter().collect();
                bin.sort();
                json!({
                    "text": text.iter().map(|(t, vs)| json!({"type": t.as_bytes(), "vals": vs.iter().map(|s| s.as_bytes().to_vec()).collect::<Vec<_>>()})).collect::<Vec<_>>(),
                    "bin": bin.iter().map(|(t, vs)| json!({"type": t.as_bytes(), "vals": vs})).collect::<Vec<_>>(),
                })
            }
            "WhoAmIResp" => {
                let w: WhoAmIResp = Exop { name: None, val: Some(b) }.parse();
                json!({"s": w.authzid.as_bytes()})
            }
            "StartTxnResp" => {
                let w: StartTxnResp = Exop { name: None, val: Some(b) }.parse();
                json!({"s": w.txn_id.as_bytes()})
            }
            "PasswordModifyResp" => {
                let w: PasswordModifyResp = Exop { name: None, val: Some(b) }.parse();
                json!({"gen": w.gen_pass.as_bytes()})
            }
            other => panic!("harness: unknown response kind {}", other),
        }
    })
}

fn sorted_arr(v: &Value) -> Vec<Vec<u8>> {
    let mut a: Vec<Vec<u8>> = v.as_array().map(|x| x.iter().map(bytes_of).collect()).unwrap_or_default();
    a.sort();
    a
}

/// type -> values; `multiset` sorts the values.
fn attr_map(v: &Value, multiset: bool) -> std::collections::BTreeMap<Vec<u8>, Vec<Vec<u8>>> {
    let mut m = std::collections::BTreeMap::new();
    for a in v.as_array().cloned().unwrap_or_default() {
        let mut vals: Vec<Vec<u8>> = a["vals"].as_array().map(|x| x.iter().map(bytes_of).collect()).unwrap_or_default();
        if multiset {
            vals.sort();
        }
        m.insert(bytes_of(&a["type"]), vals);
    }
    m
}

/// First field of the parsed struct that differs from the expected fields (None = equal).
fn resp_diff(kind: &str, expect: &Value, got: &Value) -> Option<String> {
    match kind {
        "SyncInfo" if expect["choice"] == "SyncIdSet" => {
            for k in ["choice", "hascookie", "cookie", "flag"] {
                if expect[k] != got[k] {
                    return Some(k.to_string());
                }
            }
            if sorted_arr(&expect["uuidset"]) != sorted_arr(&got["uuidset"]) {
                return Some("uuidset".into());
            }
            None
        }
        "PreReadResp" | "PostReadResp" => {
            if attr_map(&expect["text"], false) != attr_map(&got["text"], false) {
                return Some("text".into());
            }
            if attr_map(&expect["bin"], true) != attr_map(&got["bin"], true) {
                return Some("bin".into());
            }
            None
        }
        _ => {
            let eo = expect.as_object()?;
            for (k, ev) in eo {
                if &got[k] != ev {
                    return Some(k.clone());
                }
            }
            if got.as_object().map(|o| o.len()) != Some(eo.len()) {
                return Some("shape".into());
            }
            None
        }
    }
}

fn check_resp(v: &Value, rep: &mut Report) {
    let kind = v["kind"].as_str().unwrap();
    let strict = v["strict"].as_bool().unwrap_or(true);
    let expect = &v["expect"];
    rep.count(&format!("resp:{}", kind));
    let encs = v["encs"].as_array().cloned().unwrap_or_default();
    let mut first = true;
    for e in encs {
        let b = bytes_of(&e);
        rep.count("resp:encodings");
        if !strict {
            rep.count("resp:encodings-with-explicit-defaults");
        }
        rep.eval(b.len() > 2, hash_of(&(kind, &b)));
        if first && rep.samples.len() < 4 && kind != "WhoAmIResp" {
            rep.sample(json!({"d": "resp", "kind": kind, "bytes": hex(&b[..b.len().min(80)]), "expect": verif_harness_shrink(expect)}));
        }
        first = false;
        match parse_resp(kind, &b) {
            Err(p) => {
                if strict {
                    rep.mismatch(&format!("resp:{}:panic", kind), json!({"kind": kind, "bytes": hex(&b), "expected": expect, "panic": p}));
                } else {
                    rep.count("resp:lenient-rejected");
                }
            }
            Ok(got) => {
                if let Some(field) = resp_diff(kind, expect, &got) {
                    let choice = expect["choice"].as_str().map(|c| format!(":{}", c)).unwrap_or_default();
                    rep.mismatch(&format!("resp:{}{}:{}{}", kind, choice, field, if strict { "" } else { ":explicit-default" }),
                                 json!({"kind": kind, "bytes": hex(&b), "expected": expect, "got": got}));
                }
            }
        }
    }
}

fn verif_harness_shrink(v: &Value) -> Value {
    let s = v.to_string();
    if s.len() > 300 {
        json!({"truncated": &s[..300]})
    } else {
        v.clone()
    }
}

// ------------------------------------------------------------------------------------------------
// envelope
// ------------------------------------------------------------------------------------------------

fn ctl_of(c: &Value) -> RawControl {
    RawControl {
        ctype: utf8(&c["oid"]),
        crit: c["crit"].as_bool().unwrap(),
        val: if c["hasval"].as_bool().unwrap() { Some(bytes_of(&c["val"])) } else { None },
    }
}

fn control_json(c: &Control) -> Value {
    json!({"oid": c.1.ctype.as_bytes(), "crit": c.1.crit, "hasval": c.1.val.is_some(), "val": c.1.val.clone().unwrap_or_default(),
           "known": match c.0 { Some(t) => format!("{:?}", t), None => "None".to_string() }})
}

fn env_encode(id: i32, op: &Value, some: bool, ctrls: &[Value]) -> Result<Vec<u8>, String> {
    let st = verif_harness::lanes::ber::tree_to_structure(op);
    let list: Vec<RawControl> = ctrls.iter().map(ctl_of).collect();
    catch(move || ldap3::verif::encode(id, Tag::StructureTag(st), if some { Some(list) } else { None }).map(|b| b.to_vec()).map_err(|e| e.to_string()))
        .and_then(|r| r)
}

/// Decode one LDAPMessage with the library's codec: {id (8 octets), app, ctrls, rest}.
fn env_decode(bytes: &[u8]) -> Result<Value, String> {
    let b = bytes.to_vec();
    catch(move || -> Result<Value, String> {
        let mut buf = BytesMut::from(&b[..]);
        match ldap3::verif::decode(&mut buf) {
            Ok(Some((id, (tag, ctrls)))) => {
                let (app, class_ok) = match tag {
                    Tag::StructureTag(StructureTag { id, class, .. }) => (id as i64, class == TagClass::Application),
                    _ => (-1, false),
                };
                Ok(json!({"id": (id as i64).to_be_bytes().to_vec(), "app": app, "class_ok": class_ok,
                          "ctrls": ctrls.iter().map(control_json).collect::<Vec<_>>(), "rest": buf.len()}))
            }
            Ok(None) => Err("incomplete".into()),
            Err(e) => Err(format!("error: {}", e)),
        }
    })
    .map_err(|p| format!("panic: {}", p))
    .and_then(|r| r)
}

/// Which aspect of the decoded control list differs from the expected one.
fn ctrls_diff(expect: &Value, got: &Value) -> Option<String> {
    let (e, g) = (expect.as_array()?, got.as_array()?);
    if e.len() != g.len() {
        return Some("count".into());
    }
    for (x, y) in e.iter().zip(g.iter()) {
        for k in ["oid", "crit", "hasval", "val", "known"] {
            if x[k] != y[k] {
                let present = if x["crit"].as_bool() == Some(true) { "crit-encoded" } else { "crit-absent" };
                return Some(if k == "crit" { format!("crit:{}", present) } else { k.to_string() });
            }
        }
    }
    None
}

fn check_envenc(v: &Value, rep: &mut Report) {
    let id = v["id"].as_i64().unwrap() as i32;
    let some = v["some"].as_bool().unwrap();
    let ctrls = v["ctrls"].as_array().cloned().unwrap_or_default();
    let expect: Vec<Vec<u8>> = v["expect"].as_array().unwrap().iter().map(bytes_of).collect();
    rep.count("envenc:lists");
    rep.count(&format!("envenc:len{}", ctrls.len()));
    rep.eval(!ctrls.is_empty(), hash_of(&expect));
    match env_encode(id, &v["op"], some, &ctrls) {
        Err(e) => rep.mismatch("envenc:panic-or-error", json!({"ctrls": ctrls, "error": e})),
        Ok(b) => {
            if !expect.contains(&b) {
                rep.mismatch("envenc:bytes", json!({"id": id, "some": some, "ctrls": ctrls, "expected": expect.iter().map(|x| hex(x)).collect::<Vec<_>>(), "got": hex(&b)}));
            }
            // the library's own decoder must hand the same list back
            let want: Vec<Value> = ctrls.iter().map(|c| json!({"oid": c["oid"], "crit": c["crit"], "hasval": c["hasval"], "val": c["val"]})).collect();
            match env_decode(&b) {
                Err(e) => rep.mismatch("envelope:roundtrip:decode-failed", json!({"ctrls": ctrls, "bytes": hex(&b), "error": e})),
                Ok(d) => {
                    let got: Vec<Value> = d["ctrls"].as_array().unwrap().iter().map(|c| json!({"oid": c["oid"], "crit": c["crit"], "hasval": c["hasval"], "val": c["val"]})).collect();
                    if got != want || d["id"] != json!((id as i64).to_be_bytes().to_vec()) {
                        rep.mismatch("envelope:roundtrip:list-differs", json!({"ctrls": ctrls, "bytes": hex(&b), "decoded": d}));
                    }
                }
            }
        }
    }
}

fn check_envdec(v: &Value, rep: &mut Report) {
    let strict = v["strict"].as_bool().unwrap_or(true);
    let expect = &v["expect"];
    rep.count("envdec:lists");
    for e in v["encs"].as_array().cloned().unwrap_or_default() {
        let b = bytes_of(&e);
        rep.count("envdec:encodings");
        rep.eval(!expect["ctrls"].as_array().unwrap().is_empty(), hash_of(&b));
        match env_decode(&b) {
            Err(p) => {
                if strict {
                    rep.mismatch(&format!("envdec:{}", p.split(':').next().unwrap_or("error")), json!({"bytes": hex(&b), "expected": expect, "error": p}));
                } else {
                    rep.count("envdec:lenient-rejected");
                }
            }
            Ok(got) => {
                let sfx = if strict { "" } else { ":explicit-default" };
                if got["id"] != expect["id"] || got["app"] != expect["app"] || got["class_ok"] != json!(true) || got["rest"] != json!(0) {
                    rep.mismatch(&format!("envdec:message-fields{}", sfx), json!({"bytes": hex(&b), "expected": expect, "got": got}));
                }
                if let Some(what) = ctrls_diff(&expect["ctrls"], &got["ctrls"]) {
                    rep.mismatch(&format!("envdec:{}{}", what, sfx), json!({"bytes": hex(&b), "expected": expect, "got": got}));
                }
            }
        }
    }
}

fn replay(path: &str, rep: &mut Report) {
    let n = tlcout::for_each_tagged(path, "VEC", |v| {
        match v["d"].as_str().unwrap_or("") {
            "req" => {
                if rep.counters.get("req:PagedResults").copied().unwrap_or(0) == 3 && v["kind"] == "PagedResults" {
                    rep.sample(json!({"d": "req", "kind": v["kind"], "f": v["f"], "expect_val": hex(&bytes_of(&v["expect"]["val"]))}));
                }
                check_req(&v, rep)
            }
            "exop" => check_exop(&v, rep),
            "resp" => check_resp(&v, rep),
            "envenc" => check_envenc(&v, rep),
            "envdec" => check_envdec(&v, rep),
            other => {
                eprintln!("harness: unknown vector direction {}", other);
                std::process::exit(2);
            }
        }
    })
    .expect("read vectors");
    rep.add("vectors", n);
}

// ------------------------------------------------------------------------------------------------
// I -> S: seeded random values
// ------------------------------------------------------------------------------------------------

/// Tiny BER tree for building inputs with arbitrary definite length forms (independent of lber).
enum T {
    P(u8, Vec<u8>),
    C(u8, Vec<T>),
}

fn enc_t(t: &T, rng: &mut StdRng, p_alt: f64) -> Vec<u8> {
    let (tag, body) = match t {
        T::P(tag, v) => (*tag, v.clone()),
        T::C(tag, ks) => (*tag, ks.iter().flat_map(|k| enc_t(k, rng, p_alt)).collect()),
    };
    let mut out = vec![tag];
    if rng.gen_bool(p_alt) {
        let need = {
            let mut n = body.len();
            let mut d = 0;
            while n > 0 {
                d += 1;
                n >>= 8;
            }
            d.max(1)
        };
        let k = rng.gen_range(need..=4);
        out.extend(verif_harness::ber::len_octets_padded(body.len(), k));
    } else {
        out.extend(verif_harness::ber::len_octets(body.len()));
    }
    out.extend(body);
    out
}

fn rand_bytes(rng: &mut StdRng) -> Vec<u8> {
    let n = match rng.gen_range(0..12) {
        0 => 0,
        1 => rng.gen_range(120..136),
        2 => rng.gen_range(250..262),
        3 => rng.gen_range(300..700),
        _ => rng.gen_range(1..20),
    };
    (0..n).map(|_| match rng.gen_range(0..6) { 0 => 0, 1 => 0xff, _ => rng.gen() }).collect()
}

fn rand_string(rng: &mut StdRng) -> String {
    let n = match rng.gen_range(0..8) {
        0 => 0,
        1 => rng.gen_range(120..140),
        _ => rng.gen_range(1..24),
    };
    (0..n)
        .map(|_| match rng.gen_range(0..10) {
            0 => '\u{fc}',
            1 => '\u{20ac}',
            2 => '\u{1d11e}',
            3 => '\u{0}',
            _ => rng.gen_range(0x20u8..0x7f) as char,
        })
        .collect()
}

fn opt<Tv>(rng: &mut StdRng, f: impl FnOnce(&mut StdRng) -> Tv) -> Option<Tv> {
    if rng.gen_bool(0.6) {
        Some(f(rng))
    } else {
        None
    }
}

fn rand_i32(rng: &mut StdRng) -> i32 {
    match rng.gen_range(0..5) {
        0 => rng.gen(),
        1 => rng.gen_range(-300..70000),
        2 => {
            let k = rng.gen_range(0..31);
            let base = 1i32 << k;
            let d = rng.gen_range(-2..=2);
            if rng.gen() { base.wrapping_add(d) } else { (-base).wrapping_add(d) }
        }
        3 => *[i32::MAX, i32::MIN, 0, -1, 127, 128, 255, 256, 32767, 32768, 65535, 65536].get(rng.gen_range(0..12)).unwrap(),
        _ => rng.gen_range(0..1000),
    }
}

fn rand_attr(rng: &mut StdRng) -> Vec<u8> {
    let pool: [&str; 8] = ["cn", "sn", "objectClass", "uid", "1.2.840.113556.1.4.319", "cn;lang-en", "cn;binary", "x-y"];
    pool[rng.gen_range(0..pool.len())].as_bytes().to_vec()
}

fn rand_value(rng: &mut StdRng) -> Vec<u8> {
    let n = match rng.gen_range(0..10) {
        0 => 0,
        1 => rng.gen_range(125..132),
        _ => rng.gen_range(1..10),
    };
    (0..n)
        .map(|_| match rng.gen_range(0..8) {
            0 => *b"()*\\\0".get(rng.gen_range(0..5)).unwrap(),
            1 => rng.gen(),
            _ => rng.gen_range(0x20u8..0x7f),
        })
        .collect()
}

/// RFC 4515 value rendering, same convention as Controls!EscByte (checked by the trace spec).
fn esc(v: &[u8]) -> Vec<u8> {
    let mut o = vec![];
    for &b in v {
        if (32..=126).contains(&b) && !b"()*\\".contains(&b) {
            o.push(b);
        } else {
            o.extend(format!("\\{:02x}", b).as_bytes());
        }
    }
    o
}

/// Random filter AST in the vocabulary of Controls!FTree plus its string form. `simple` = RFC 3876 items only.
fn rand_filter(rng: &mut StdRng, depth: u32, simple: bool) -> (Value, Vec<u8>) {
    let pick = if simple || depth == 0 { rng.gen_range(3..10) } else { rng.gen_range(0..10) };
    let a = rand_attr(rng);
    let paren = |inner: Vec<u8>| {
        let mut s = vec![b'('];
        s.extend(inner);
        s.push(b')');
        s
    };
    match pick {
        0 | 1 => {
            let n = rng.gen_range(1..4);
            let mut ks = vec![];
            let mut s = vec![if pick == 0 { b'&' } else { b'|' }];
            for _ in 0..n {
                let (k, ss) = rand_filter(rng, depth - 1, false);
                ks.push(k);
                s.extend(ss);
            }
            (json!({"op": if pick == 0 { "and" } else { "or" }, "k": ks}), paren(s))
        }
        2 => {
            let (k, ss) = rand_filter(rng, depth - 1, false);
            let mut s = vec![b'!'];
            s.extend(ss);
            (json!({"op": "not", "k": [k]}), paren(s))
        }
        3 | 5 | 6 | 8 => {
            let (op, sym): (&str, &[u8]) = match pick { 3 => ("eq", b"="), 5 => ("ge", b">="), 6 => ("le", b"<="), _ => ("approx", b"~=") };
            let v = rand_value(rng);
            let mut s = a.clone();
            s.extend(sym);
            s.extend(esc(&v));
            (json!({"op": op, "a": a, "v": v}), paren(s))
        }
        4 => {
            let hasi = rng.gen_bool(0.5);
            let hasf = rng.gen_bool(0.5);
            let mut nany = rng.gen_range(0..3);
            if !hasi && !hasf && nany == 0 {
                nany = 1;
            }
            // substring components are non-empty (RFC 4511: SIZE (1..MAX) of the choice values is implied by the string form)
            let nz = |rng: &mut StdRng| loop {
                let v = rand_value(rng);
                if !v.is_empty() {
                    return v;
                }
            };
            let i = if hasi { nz(rng) } else { vec![] };
            let f = if hasf { nz(rng) } else { vec![] };
            let anys: Vec<Vec<u8>> = (0..nany).map(|_| nz(rng)).collect();
            let mut s = a.clone();
            s.push(b'=');
            s.extend(esc(&i));
            for x in &anys {
                s.push(b'*');
                s.extend(esc(x));
            }
            s.push(b'*');
            s.extend(esc(&f));
            (json!({"op": "substr", "a": a, "hasi": hasi, "i": i, "anys": anys, "hasf": hasf, "f": f}), paren(s))
        }
        7 => {
            let mut s = a.clone();
            s.extend(b"=*");
            (json!({"op": "present", "a": a}), paren(s))
        }
        _ => {
            let hasrule = rng.gen_bool(0.6);
            let hasa = !hasrule || rng.gen_bool(0.6);
            let dn = !simple && rng.gen_bool(0.4);
            let rule: Vec<u8> = if hasrule { (*[&b"2.5.13.2"[..], &b"caseExactMatch"[..], &b"dnQualifierMatch"[..]].get(rng.gen_range(0..3)).unwrap()).to_vec() } else { vec![] };
            let v = rand_value(rng);
            let mut s = if hasa { a.clone() } else { vec![] };
            if dn {
                s.extend(b":dn");
            }
            if hasrule {
                s.push(b':');
                s.extend(&rule);
            }
            s.extend(b":=");
            s.extend(esc(&v));
            (json!({"op": "ext", "hasrule": hasrule, "rule": rule, "hasa": hasa, "a": if hasa { a } else { vec![] }, "v": v, "dn": dn}), paren(s))
        }
    }
}

const REQ_KINDS: [&str; 10] = ["PagedResults", "SyncRequest", "PreRead", "PostRead", "Assertion", "MatchedValues", "ProxyAuth", "TxnSpec", "ManageDsaIt", "RelaxRules"];
const EXOP_KINDS: [&str; 4] = ["WhoAmI", "PasswordModify", "StartTxn", "EndTxn"];
const RESP_KINDS: [&str; 9] = ["PagedResults", "SyncState", "SyncDone", "SyncInfo", "PreReadResp", "PostReadResp", "WhoAmIResp", "PasswordModifyResp", "StartTxnResp"];
const OIDS: [&str; 12] = [
    "1.2.840.113556.1.4.319", "1.3.6.1.1.13.1", "1.3.6.1.1.13.2", "1.3.6.1.4.1.4203.1.9.1.2", "1.3.6.1.4.1.4203.1.9.1.3",
    "2.16.840.1.113730.3.4.2", "1.2.826.0.1.3344810.2.3", "1.3.6.1.4.1.4203.1.9.1.1", "1.3.6.1.1.12", "2.16.840.1.113730.3.4.18",
    "1.2.3", "1.3.6.1.4.1.42.2.27.8.5.1",
];

fn oj(o: &Option<Vec<u8>>) -> (bool, Vec<u8>) {
    (o.is_some(), o.clone().unwrap_or_default())
}

fn gen_req(rng: &mut StdRng, rep: &mut Report) -> Value {
    let kind = REQ_KINDS[rng.gen_range(0..REQ_KINDS.len())];
    let can_crit = ["PagedResults", "SyncRequest", "Assertion", "ManageDsaIt", "RelaxRules"].contains(&kind);
    let critical = can_crit && rng.gen_bool(0.4);
    let f = match kind {
        "PagedResults" => json!({"size": (rand_i32(rng) as i64).to_be_bytes().to_vec(), "cookie": rand_bytes(rng)}),
        "SyncRequest" => {
            let (h, c) = oj(&opt(rng, rand_bytes));
            json!({"mode": if rng.gen() { "RefreshOnly" } else { "RefreshAndPersist" }, "hascookie": h, "cookie": c, "reload": rng.gen::<bool>()})
        }
        "PreRead" | "PostRead" => {
            let n = rng.gen_range(0..5);
            json!({"attrs": (0..n).map(|_| if rng.gen_bool(0.2) { rand_string(rng).into_bytes() } else { rand_attr(rng) }).collect::<Vec<_>>()})
        }
        "Assertion" => {
            let (ast, s) = rand_filter(rng, 3, false);
            json!({"filter": s, "ast": ast})
        }
        "MatchedValues" => {
            let n = rng.gen_range(1..4);
            let mut items = vec![];
            let mut s = vec![b'('];
            for _ in 0..n {
                let (a, ss) = rand_filter(rng, 0, true);
                items.push(a);
                s.extend(ss);
            }
            s.push(b')');
            json!({"filter": s, "items": items})
        }
        "ProxyAuth" => json!({"authzid": rand_string(rng).into_bytes()}),
        "TxnSpec" => json!({"txn_id": rand_string(rng).into_bytes()}),
        _ => json!({"x": 0}),
    };
    rep.count(&format!("trace:req:{}", kind));
    let out = match build_control(kind, &f, critical) {
        Ok(rcs) => json!({"d": "req", "kind": kind, "critical": critical, "f": f, "out": raw_json(&rcs[0])}),
        Err(p) => json!({"d": "req", "kind": kind, "critical": critical, "f": f, "out": {"oid": [], "crit": false, "hasval": false, "val": []}, "panic": p}),
    };
    out
}

fn gen_exop(rng: &mut StdRng, rep: &mut Report) -> Value {
    let kind = EXOP_KINDS[rng.gen_range(0..EXOP_KINDS.len())];
    let f = match kind {
        "PasswordModify" => {
            let (hu, u) = oj(&opt(rng, |r| rand_string(r).into_bytes()));
            let (ho, o) = oj(&opt(rng, |r| rand_string(r).into_bytes()));
            let (hn, n) = oj(&opt(rng, |r| rand_string(r).into_bytes()));
            json!({"hasuser": hu, "user": u, "hasold": ho, "old": o, "hasnew": hn, "new": n})
        }
        "EndTxn" => json!({"txn_id": rand_string(rng).into_bytes(), "commit": rng.gen::<bool>()}),
        _ => json!({"x": 0}),
    };
    rep.count(&format!("trace:exop:{}", kind));
    match build_exop(kind, &f) {
        Ok(e) => {
            let j = exop_json(&e);
            json!({"d": "exop", "kind": kind, "f": f, "out": {"oid": j["oid"], "hasval": j["hasval"], "val": j["val"]}, "hasname": j["hasname"]})
        }
        Err(p) => json!({"d": "exop", "kind": kind, "f": f, "out": {"oid": [], "hasval": false, "val": []}, "hasname": false, "panic": p}),
    }
}

fn cookie_flag(rng: &mut StdRng, default: bool) -> (Vec<T>, bool, Vec<u8>, bool) {
    let c = opt(rng, rand_bytes);
    let flag: bool = rng.gen();
    let mut k = vec![];
    if let Some(c) = &c {
        k.push(T::P(0x04, c.clone()));
    }
    if flag != default {
        k.push(T::P(0x01, vec![if flag { 0xff } else { 0 }]));
    }
    let (h, cb) = oj(&c);
    (k, h, cb, flag)
}

fn gen_resp(rng: &mut StdRng, rep: &mut Report) -> Value {
    let kind = RESP_KINDS[rng.gen_range(0..RESP_KINDS.len())];
    let p_alt = if rng.gen_bool(0.5) { 0.0 } else { 0.35 };
    // `f`: the fields the harness intended (informative); the specification decodes `bytes` itself
    let (f, bytes): (Value, Vec<u8>) = match kind {
        "PagedResults" => {
            let size = rand_i32(rng).wrapping_abs().max(0);
            let cookie = rand_bytes(rng);
            let t = T::C(0x30, vec![T::P(0x02, verif_harness::ber::int_content(size as i64)), T::P(0x04, cookie.clone())]);
            (json!({"size": size, "cookie": cookie}), enc_t(&t, rng, p_alt))
        }
        "SyncState" => {
            let st = rng.gen_range(0..4u8);
            let uuid: Vec<u8> = (0..16).map(|_| rng.gen()).collect();
            let c = opt(rng, rand_bytes);
            let mut k = vec![T::P(0x0a, vec![st]), T::P(0x04, uuid.clone())];
            if let Some(c) = &c {
                k.push(T::P(0x04, c.clone()));
            }
            let (h, cb) = oj(&c);
            (json!({"state": st, "uuid": uuid, "hascookie": h, "cookie": cb}), enc_t(&T::C(0x30, k), rng, p_alt))
        }
        "SyncDone" => {
            let (k, h, c, flag) = cookie_flag(rng, false);
            (json!({"hascookie": h, "cookie": c, "rd": flag}), enc_t(&T::C(0x30, k), rng, p_alt))
        }
        "SyncInfo" => {
            let choice = rng.gen_range(0..4u8);
            let (inner, f) = match choice {
                0 => {
                    let c = rand_bytes(rng);
                    (T::P(0x80, c.clone()), json!({"choice": 0, "cookie": c}))
                }
                1 | 2 => {
                    let (k, h, c, flag) = cookie_flag(rng, true);
                    (T::C(0xa0 | choice, k), json!({"choice": choice, "hascookie": h, "cookie": c, "flag": flag}))
                }
                _ => {
                    let (mut k, h, c, flag) = cookie_flag(rng, false);
                    let n = rng.gen_range(0..6);
                    let uu: Vec<Vec<u8>> = (0..n).map(|_| (0..16).map(|_| rng.gen()).collect()).collect();
                    k.push(T::C(0x31, uu.iter().map(|u| T::P(0x04, u.clone())).collect()));
                    (T::C(0xa3, k), json!({"choice": 3, "hascookie": h, "cookie": c, "flag": flag, "uuids": uu}))
                }
            };
            let ib = enc_t(&inner, rng, p_alt);
            let outer = T::C(0x79, vec![T::P(0x80, b"1.3.6.1.4.1.4203.1.9.1.4".to_vec()), T::P(0x81, ib)]);
            (f, enc_t(&outer, rng, p_alt))
        }
        "PreReadResp" | "PostReadResp" => {
            let names = ["cn", "sn", "mail", "jpegPhoto", "objectClass", "cn;lang-en", "1.2.3"];
            let n = rng.gen_range(0..5usize);
            let mut idx: Vec<usize> = (0..names.len()).collect();
            for i in 0..n {
                let j = rng.gen_range(i..names.len());
                idx.swap(i, j);
            }
            let mut attrs = vec![];
            let mut fa = vec![];
            for &i in idx.iter().take(n) {
                let nv = rng.gen_range(0..4);
                let vals: Vec<Vec<u8>> = (0..nv).map(|_| if rng.gen_bool(0.6) { rand_string(rng).into_bytes() } else { rand_bytes(rng) }).collect();
                fa.push(json!({"type": names[i], "vals": vals}));
                attrs.push(T::C(0x30, vec![T::P(0x04, names[i].as_bytes().to_vec()), T::C(0x31, vals.iter().map(|v| T::P(0x04, v.clone())).collect())]));
            }
            let dn = if rng.gen() { b"cn=x,dc=example".to_vec() } else { vec![] };
            let t = T::C(0x64, vec![T::P(0x04, dn), T::C(0x30, attrs)]);
            (json!({"attrs": fa}), enc_t(&t, rng, p_alt))
        }
        "PasswordModifyResp" => {
            let g = rand_string(rng).into_bytes();
            (json!({"gen": g}), enc_t(&T::C(0x30, vec![T::P(0x80, g.clone())]), rng, p_alt))
        }
        _ => {
            let s = rand_string(rng).into_bytes();
            (json!({"s": s}), s.clone())
        }
    };
    rep.count(&format!("trace:resp:{}", kind));
    match parse_resp(kind, &bytes) {
        Ok(p) => json!({"d": "resp", "kind": kind, "bytes": bytes, "intended": f, "parsed": p}),
        Err(p) => json!({"d": "resp", "kind": kind, "bytes": bytes, "intended": f, "parsed": {"panic": 1}, "panic": p}),
    }
}

fn rand_ctl(rng: &mut StdRng) -> Value {
    let oid = if rng.gen_bool(0.8) {
        OIDS[rng.gen_range(0..OIDS.len())].to_string()
    } else {
        let n = rng.gen_range(2..8);
        (0..n).map(|_| rng.gen_range(0..5000u32).to_string()).collect::<Vec<_>>().join(".")
    };
    let (h, v) = oj(&opt(rng, rand_bytes));
    json!({"oid": oid.as_bytes(), "crit": rng.gen::<bool>(), "hasval": h, "val": v})
}

fn gen_env(rng: &mut StdRng, rep: &mut Report) -> Value {
    let n = match rng.gen_range(0..6) {
        0 => 0,
        x => x.min(4),
    };
    let ctrls: Vec<Value> = (0..n).map(|_| rand_ctl(rng)).collect();
    if rng.gen() {
        rep.count("trace:envenc");
        let id = *[1, 2, 127, 128, 255, 256, 65535, i32::MAX].get(rng.gen_range(0..8)).unwrap();
        let some = n > 0 || rng.gen();
        let op = json!({"c": 1, "n": 10, "prim": true, "v": b"cn=x".to_vec(), "k": []});
        match env_encode(id, &op, some, &ctrls) {
            Ok(b) => json!({"d": "envenc", "id": (id as i64).to_be_bytes().to_vec(), "some": some, "ctrls": ctrls, "out": b}),
            Err(e) => json!({"d": "envenc", "id": (id as i64).to_be_bytes().to_vec(), "some": some, "ctrls": ctrls, "out": [], "panic": e}),
        }
    } else {
        rep.count("trace:envdec");
        let p_alt = if rng.gen_bool(0.5) { 0.0 } else { 0.3 };
        let id = rng.gen_range(1..=i32::MAX) as i64;
        let mut k = vec![T::P(0x02, verif_harness::ber::int_content(id)), T::C(0x6b, vec![T::P(0x0a, vec![0]), T::P(0x04, vec![]), T::P(0x04, vec![])])];
        if n > 0 || rng.gen() {
            k.push(T::C(
                0xa0,
                ctrls
                    .iter()
                    .map(|c| {
                        let mut e = vec![T::P(0x04, bytes_of(&c["oid"]))];
                        if c["crit"] == json!(true) {
                            e.push(T::P(0x01, vec![0xff]));
                        }
                        if c["hasval"] == json!(true) {
                            e.push(T::P(0x04, bytes_of(&c["val"])));
                        }
                        T::C(0x30, e)
                    })
                    .collect(),
            ));
        }
        let bytes = enc_t(&T::C(0x30, k), rng, p_alt);
        match env_decode(&bytes) {
            Ok(d) => json!({"d": "envdec", "bytes": bytes, "intended": ctrls, "parsed": {"id": d["id"], "app": d["app"], "ctrls": d["ctrls"]}, "rest": d["rest"]}),
            Err(e) => json!({"d": "envdec", "bytes": bytes, "intended": ctrls, "parsed": {"id": [], "app": -1, "ctrls": []}, "rest": -1, "panic": e}),
        }
    }
}

fn trace(out: &str, count: u64, rep: &mut Report) {
    let mut rng = StdRng::seed_from_u64(seed_from_env() ^ 0xC19);
    let mut f = std::io::BufWriter::new(std::fs::File::create(out).expect("create trace"));
    for i in 0..count {
        let rec = match i % 5 {
            0 | 1 => gen_req(&mut rng, rep),
            2 => gen_exop(&mut rng, rep),
            3 => gen_resp(&mut rng, rep),
            _ => gen_env(&mut rng, rep),
        };
        if rec.get("panic").is_some() {
            rep.count("trace:panics");
        }
        let s = rec.to_string();
        rep.eval(true, hash_of(&s));
        if i < 3 {
            rep.sample(verif_harness_shrink(&rec));
        }
        writeln!(f, "{}", s).unwrap();
    }
    f.flush().unwrap();
}

fn main() {
    verif_harness::silence_panics();
    let a: Vec<String> = std::env::args().collect();
    let usage = || -> ! {
        eprintln!("usage: controls-run replay <vectors> <report.json> | trace <out.ndjson> <count> <report.json>");
        std::process::exit(2)
    };
    if a.len() < 4 {
        usage();
    }
    match a[1].as_str() {
        "replay" => {
            let mut rep = Report::new("controls-replay");
            replay(&a[2], &mut rep);
            rep.write(&a[3]);
        }
        "trace" if a.len() >= 5 => {
            let mut rep = Report::new("controls-trace");
            trace(&a[2], a[3].parse().unwrap_or_else(|_| usage()), &mut rep);
            rep.write(&a[4]);
        }
        _ => usage(),
    }
}
