//! stream-run: the SearchStream lane (C10 search-stream protocol, C16 PagedResults adapter).
//!
//!   stream-run replay   <tlc-output> <report.json>          S -> I: every VEC behaviour of MCStream is executed against
//!                                                           the real SearchStream / Ldap::search and compared
//!   stream-run trace    <out.ndjson> <count> <report.json>  I -> S: seeded random scripts and call sequences, recorded
//!                                                           for spec/TraceStream.tla
//!   stream-run classify <in.ndjson> <report.json>           class keys for records the trace spec rejected
//!                                                           (each line: {"rec": record, "exp": {"outs":..,"reqs":..}})
//!
//! The code under test runs over the in-process transport (`MockIo`) with its driver task on a paused, seeded
//! current-thread runtime.  The scripted server is written with `verif_harness::ber` only (no lber / ldap3 code):
//! it serves page n of the script to the n-th SearchRequest and decodes every request it receives.
//!
//! Class keys carry the owning property as prefix: `c10:` stream protocol (items, states, finish codes, search()),
//! `c16:` paging (request log, page concatenation, paging control in the final result, AdapterInit), `other:` neither.

use std::time::Duration;
use ldap3::adapters::{Adapter, EntriesOnly, PagedResults};
use ldap3::controls::RawControl;
use ldap3::{DerefAliases, Ldap, LdapConnAsync, LdapError, LdapResult, ResultEntry, Scope, SearchOptions};
use rand::{rngs::StdRng, Rng, SeedableRng};
use serde_json::{json, Value};
use std::cell::RefCell;
use std::collections::HashMap;
use std::future::Future;
use std::io::Write;
use std::rc::Rc;
use std::task::Poll;
use tokio::runtime::{Builder, RngSeed};
use verif_harness::ber::{self, El};
use verif_harness::mockio::{Item, MockIo};
use verif_harness::report::{hash_of, Report};
use verif_harness::tlcout;

const PR_OID: &str = "1.2.840.113556.1.4.319";

type Ad = Box<dyn Adapter<'static, String, Vec<String>>>;

// ------------------------------------------------------------------------------------------------
// token <-> concrete value tables (the specification only knows tokens)

fn base_of(t: i64) -> &'static str {
    match t {
        0 => "",
        1 => "dc=example,dc=org",
        _ => "ou=People\\, Inc,dc=example,dc=org",
    }
}
fn base_tok(b: &[u8]) -> i64 {
    (0..3).find(|t| base_of(*t).as_bytes() == b).unwrap_or(-1)
}
fn filter_of(t: i64) -> &'static str {
    match t {
        0 => "(objectClass=*)",
        1 => "(cn=a)",
        _ => "(&(a=b)(!(c=d)))",
    }
}
/// RFC 4511 encoding of the three filters, written by hand
fn filter_bytes(t: i64) -> Vec<u8> {
    let eq = |a: &[u8], v: &[u8]| ber::tlv(0xa3, &ber::cat(&[ber::octets(a), ber::octets(v)]));
    match t {
        0 => ber::tlv(0x87, b"objectClass"),
        1 => eq(b"cn", b"a"),
        _ => ber::tlv(0xa0, &ber::cat(&[eq(b"a", b"b"), ber::tlv(0xa2, &eq(b"c", b"d"))])),
    }
}
fn filter_tok(el: &El) -> i64 {
    (0..3).find(|t| ber::decode(&filter_bytes(*t)).map(|x| &x.0 == el).unwrap_or(false)).unwrap_or(-1)
}
fn attrs_of(t: i64) -> Vec<String> {
    match t {
        0 => vec![],
        1 => vec!["cn".into()],
        _ => vec!["cn".into(), "sn".into(), "+".into()],
    }
}
fn attrs_tok(a: &[Vec<u8>]) -> i64 {
    (0..3)
        .find(|t| {
            let e = attrs_of(*t);
            e.len() == a.len() && e.iter().zip(a).all(|(x, y)| x.as_bytes() == &y[..])
        })
        .unwrap_or(-1)
}
fn cookie_bytes(t: i64) -> Vec<u8> {
    match t {
        0 => vec![],
        1..=9 => format!("c{}", t).into_bytes(),
        10..=19 => {
            let mut v = format!("L{}:", t).into_bytes();
            while v.len() < 300 {
                v.push(b'a' + (v.len() % 23) as u8);
            }
            v
        }
        20..=29 => vec![0x00, 0xff, 0x80, t as u8],
        _ => {
            let mut x = (t as u64).wrapping_mul(0x9e3779b97f4a7c15) | 1;
            let n = 1 + (t % 37) as usize;
            let mut v = vec![];
            for _ in 0..n {
                x ^= x << 13;
                x ^= x >> 7;
                x ^= x << 17;
                v.push((x >> 24) as u8);
            }
            v.extend(t.to_string().into_bytes()); // distinct tokens give distinct cookies
            v
        }
    }
}
fn req_x_oid(id: i64) -> String {
    format!("1.2.3.5.{}", id)
}
fn req_x_val(id: i64) -> Option<Vec<u8>> {
    if id % 3 == 0 {
        None
    } else {
        Some(format!("q{}", id).into_bytes())
    }
}
fn num_after(s: &str, prefix: &str) -> i64 {
    s.strip_prefix(prefix).and_then(|r| r.parse::<i64>().ok()).unwrap_or(-1)
}

struct Cookies(HashMap<Vec<u8>, i64>);
impl Cookies {
    fn of(env: &Value) -> Cookies {
        let mut m = HashMap::new();
        m.insert(vec![], 0);
        let mut add = |c: &Value| {
            if c["k"] == "pr" {
                let t = c["cookie"].as_i64().unwrap_or(0);
                m.insert(cookie_bytes(t), t);
            }
        };
        for p in env["pages"].as_array().unwrap() {
            for c in p["res"]["ctrls"].as_array().unwrap() {
                add(c);
            }
        }
        for c in env["par"]["ctrls"].as_array().unwrap() {
            add(c);
        }
        Cookies(m)
    }
    fn tok(&self, b: &[u8]) -> i64 {
        *self.0.get(b).unwrap_or(&-1)
    }
}

// ------------------------------------------------------------------------------------------------
// scripted server

fn item_ctrls(it: &Value) -> Option<Vec<u8>> {
    let cs = it["ctl"].as_array().unwrap();
    if cs.is_empty() {
        return None;
    }
    let l: Vec<Vec<u8>> = cs
        .iter()
        .map(|c| {
            let c = c.as_i64().unwrap();
            ber::control(&format!("1.2.3.4.{}", c), if c % 2 == 0 { Some(true) } else { None }, Some(format!("v{}", c).as_bytes()))
        })
        .collect();
    Some(ber::controls(&l))
}

fn item_bytes(msgid: i64, it: &Value) -> Vec<u8> {
    let id = it["id"].as_i64().unwrap();
    let k = format!("k{}", id).into_bytes();
    let op = match it["t"].as_str().unwrap() {
        "e" => ber::tlv(0x64, &ber::cat(&[ber::octets(&k), ber::seq(&[ber::seq(&[ber::octets(b"cn"), ber::tlv(0x31, &ber::octets(&k))])])])),
        "r" => {
            let n = it["nu"].as_i64().unwrap();
            let uris: Vec<Vec<u8>> = (1..=n).map(|j| ber::octets(format!("ldap://h/u{}", id * 10 + j).as_bytes())).collect();
            ber::tlv(0x73, &ber::cat(&uris))
        }
        _ => ber::tlv(0x79, &ber::cat(&[ber::tlv(0x80, format!("1.3.6.1.4.1.99.{}", id).as_bytes()), ber::tlv(0x81, &k)])),
    };
    ber::message(msgid, op, item_ctrls(it))
}

fn done_bytes(msgid: i64, res: &Value) -> Vec<u8> {
    let mut extra = vec![];
    let refs = res["refs"].as_array().unwrap();
    if !refs.is_empty() {
        let uris: Vec<Vec<u8>> = refs.iter().map(|u| ber::octets(format!("ldap://h/u{}", u.as_i64().unwrap()).as_bytes())).collect();
        extra.push(ber::tlv(0xa3, &ber::cat(&uris)));
    }
    let op = ber::ldap_result(5, res["rc"].as_i64().unwrap(), b"", format!("t{}", res["txt"].as_i64().unwrap()).as_bytes(), &extra);
    let cs = res["ctrls"].as_array().unwrap();
    let ctrls = if cs.is_empty() {
        None
    } else {
        let l: Vec<Vec<u8>> = cs
            .iter()
            .map(|c| {
                let id = c["id"].as_i64().unwrap();
                if c["k"] == "pr" {
                    let v = ber::seq(&[ber::int(id), ber::octets(&cookie_bytes(c["cookie"].as_i64().unwrap()))]);
                    ber::control(PR_OID, None, Some(&v))
                } else {
                    ber::control(&format!("1.2.3.6.{}", id), None, Some(format!("w{}", id).as_bytes()))
                }
            })
            .collect();
        Some(ber::controls(&l))
    };
    ber::message(msgid, op, ctrls)
}

struct Server {
    pages: Vec<Value>,
    loss: (i64, i64),
    /// the loss is a silence (the server stops sending, the connection stays) rather than a close
    silent: bool,
    /// the server has reached the point where it falls silent
    went_silent: bool,
    nreq: i64,
    inbuf: Vec<u8>,
    eof: bool,
    /// 0: one buffer per page, 1: one buffer per message, 2: random cuts, 3: lazy (see `outbox`)
    chunking: u8,
    rng: StdRng,
    /// lazy serving: messages (None = end of file) are handed to the transport one at a time and only while a call of the
    /// client is waiting, so whatever the client has not asked for when it finishes early is never sent - its ID is then
    /// released by the client's own bookkeeping or not at all (C13)
    outbox: std::collections::VecDeque<Option<Vec<u8>>>,
}

impl Server {
    fn push(&mut self, io: &MockIo, bytes: Vec<u8>) {
        match self.chunking {
            3 => self.outbox.push_back(Some(bytes)),
            2 => {
                let mut p = 0;
                while p < bytes.len() {
                    let n = self.rng.gen_range(1..=(bytes.len() - p).min(4096));
                    io.push_bytes(&bytes[p..p + n]);
                    p += n;
                }
            }
            _ => io.push_bytes(&bytes),
        }
    }
    fn close(&mut self, io: &MockIo) {
        if !self.eof {
            self.eof = true;
            if self.chunking == 3 {
                self.outbox.push_back(None);
            } else {
                io.push(Item::Eof);
            }
        }
    }
    /// lazy mode: release the next withheld message; true if there was one
    fn release_one(&mut self, io: &MockIo) -> bool {
        match self.outbox.pop_front() {
            Some(Some(b)) => {
                io.push_bytes(&b);
                true
            }
            Some(None) => {
                io.push(Item::Eof);
                true
            }
            None => false,
        }
    }
    fn serve(&mut self, io: &MockIo, msgid: i64) {
        let n = self.nreq;
        let empty = json!({"items": [], "res": {"rc": 0, "txt": 0, "refs": [], "ctrls": []}});
        let page = self.pages.get((n - 1) as usize).cloned().unwrap_or(empty);
        let lose = if self.loss.0 == n { self.loss.1 } else { -1 };
        let items = page["items"].as_array().unwrap();
        let mut whole = vec![];
        let mut cut = false;
        for (i, it) in items.iter().enumerate() {
            if lose == i as i64 + 1 {
                cut = true;
                break;
            }
            let b = item_bytes(msgid, it);
            if self.chunking == 0 {
                whole.extend(b);
            } else {
                self.push(io, b);
            }
        }
        if !cut && lose == items.len() as i64 + 1 {
            cut = true;
        }
        if !cut {
            let b = done_bytes(msgid, &page["res"]);
            if self.chunking == 0 {
                whole.extend(b);
            } else {
                self.push(io, b);
            }
        }
        if !whole.is_empty() {
            self.push(io, whole);
        }
        if cut && self.silent {
            self.went_silent = true;
        } else if cut || (self.loss.0 == n + 1 && self.loss.1 == 0) {
            self.close(io);
        }
    }
    /// read what the client wrote; returns true if a request was served
    fn process(&mut self, io: &MockIo, obs: &RefCell<Obs>, ck: &Cookies) -> bool {
        self.inbuf.extend(io.take_written());
        let (msgs, rest) = ber::split_messages(&self.inbuf);
        self.inbuf = rest;
        let mut served = false;
        for (el, _raw) in msgs {
            if el.kids.len() < 2 || el.kids[1].class != 1 || el.kids[1].num != 3 {
                continue; // Unbind, Abandon: nothing to answer
            }
            if self.eof {
                continue;
            }
            let msgid = ber::uint_of(&el.kids[0].val);
            self.nreq += 1;
            obs.borrow_mut().reqs.push(decode_request(&el, ck));
            self.serve(io, msgid);
            served = true;
        }
        served
    }
}

fn decode_ctrl_list(el: &El, ck: &Cookies, request: bool) -> Vec<Value> {
    let mut out = vec![];
    for c in &el.kids {
        let oid = c.kids.first().map(|k| String::from_utf8_lossy(&k.val).to_string()).unwrap_or_default();
        let mut crit = false;
        let mut val: Option<Vec<u8>> = None;
        for k in c.kids.iter().skip(1) {
            if k.class == 0 && k.num == 1 {
                crit = k.val.first().map(|b| *b != 0).unwrap_or(false);
            } else if k.class == 0 && k.num == 4 {
                val = Some(k.val.clone());
            }
        }
        out.push(ctrl_json(&oid, crit, val.as_deref(), ck, request));
    }
    out
}

/// canonical form of a control: {"k","id","cookie"}; anything unexpected gets k = "?"
fn ctrl_json(oid: &str, crit: bool, val: Option<&[u8]>, ck: &Cookies, request: bool) -> Value {
    if oid == PR_OID {
        if let Some((v, _)) = val.and_then(ber::decode) {
            if v.class == 0 && v.num == 16 && v.kids.len() == 2 && v.kids[0].num == 2 && v.kids[1].num == 4 {
                return json!({"k": "pr", "id": ber::uint_of(&v.kids[0].val), "cookie": ck.tok(&v.kids[1].val)});
            }
        }
        return json!({"k": "?", "id": -2, "cookie": 0});
    }
    if request {
        let id = num_after(oid, "1.2.3.5.");
        if id >= 0 && crit == (id % 2 == 1) && val.map(|v| v.to_vec()) == req_x_val(id) {
            return json!({"k": "x", "id": id, "cookie": 0});
        }
    } else {
        let id = num_after(oid, "1.2.3.6.");
        if id >= 0 && val == Some(format!("w{}", id).as_bytes()) {
            return json!({"k": "x", "id": id, "cookie": 0});
        }
    }
    json!({"k": "?", "id": -1, "cookie": 0})
}

fn decode_request(msg: &El, ck: &Cookies) -> Value {
    let op = &msg.kids[1];
    let k = &op.kids;
    if k.len() != 8 {
        return json!({"malformed": true});
    }
    let attrs: Vec<Vec<u8>> = k[7].kids.iter().map(|a| a.val.clone()).collect();
    let ctrls = match msg.kids.get(2) {
        Some(c) if c.class == 2 && c.num == 0 => decode_ctrl_list(c, ck, true),
        _ => vec![],
    };
    json!({
        "base": base_tok(&k[0].val),
        "scope": ber::uint_of(&k[1].val),
        "deref": ber::uint_of(&k[2].val),
        "sizelimit": ber::uint_of(&k[3].val),
        "timelimit": ber::uint_of(&k[4].val),
        "typesonly": k[5].val.first().map(|b| *b != 0).unwrap_or(false),
        "filter": filter_tok(&k[6]),
        "attrs": attrs_tok(&attrs),
        "ctrls": ctrls,
    })
}

// ------------------------------------------------------------------------------------------------
// observations of the code under test

#[derive(Default)]
struct Obs {
    outs: Vec<Value>,
    reqs: Vec<Value>,
    errs: Vec<String>,
    in_call: Option<String>,
    /// C13: what the connection still holds once the stream has been finished and everything has settled
    /// (IDs in use through the accessor; routing-table keys from the last driver snapshot), None = not observed
    leak: Option<Value>,
    /// the adapter chain came from adapter_chain_tail() of another stream
    used_chain: bool,
}

fn item_json(re: &ResultEntry) -> Value {
    use ldap3::asn1::PL;
    let st = &re.0;
    let kids: Vec<&ldap3::asn1::StructureTag> = match &st.payload {
        PL::C(k) => k.iter().collect(),
        _ => vec![],
    };
    let prim = |t: &ldap3::asn1::StructureTag| -> String {
        match &t.payload {
            PL::P(v) => String::from_utf8_lossy(v).to_string(),
            _ => String::new(),
        }
    };
    let (t, id, nu) = match st.id {
        4 => ("e", kids.first().map(|k| num_after(&prim(k), "k")).unwrap_or(-1), 0),
        19 => {
            let toks: Vec<i64> = kids.iter().map(|k| num_after(&prim(k), "ldap://h/u")).collect();
            let id = toks.first().map(|u| u / 10).unwrap_or(-1);
            let ok = toks.iter().enumerate().all(|(j, u)| *u == id * 10 + j as i64 + 1);
            ("r", if ok { id } else { -1 }, toks.len() as i64)
        }
        25 => ("i", kids.first().map(|k| num_after(&prim(k), "1.3.6.1.4.1.99.")).unwrap_or(-1), 0),
        _ => ("?", -1, 0),
    };
    let ctl: Vec<i64> = re
        .1
        .iter()
        .map(|c| {
            let n = num_after(&c.1.ctype, "1.2.3.4.");
            if n >= 0 && c.1.val.as_deref() == Some(format!("v{}", n).as_bytes()) {
                n
            } else {
                -1
            }
        })
        .collect();
    json!({"t": t, "id": id, "ctl": ctl, "nu": nu})
}

fn result_json(r: &LdapResult, ck: &Cookies) -> Value {
    let refs: Vec<i64> = r.refs.iter().map(|u| num_after(u, "ldap://h/u")).collect();
    let ctrls: Vec<Value> = r.ctrls.iter().map(|c| ctrl_json(&c.1.ctype, c.1.crit, c.1.val.as_deref(), ck, false)).collect();
    let txt = num_after(&r.text, "t").max(0);
    json!({"rc": r.rc, "txt": txt, "refs": refs, "ctrls": ctrls})
}

fn err_json(e: &LdapError, obs: &RefCell<Obs>) -> Value {
    let (class, name) = match e {
        LdapError::AdapterInit(_) => ("adapterinit", "AdapterInit"),
        LdapError::EndOfStream => ("fail", "EndOfStream"),
        LdapError::OpSend { .. } => ("fail", "OpSend"),
        LdapError::ResultRecv { .. } => ("fail", "ResultRecv"),
        LdapError::Io { .. } => ("fail", "Io"),
        LdapError::Timeout { .. } => ("timeout", "Timeout"),
        _ => ("fail", "other"),
    };
    obs.borrow_mut().errs.push(name.to_string());
    json!({"k": "err", "e": class})
}

async fn quiesce(io: &MockIo, drv: &tokio::task::JoinHandle<()>) {
    let mut quiet = 0;
    for _ in 0..200_000 {
        tokio::task::yield_now().await;
        if io.unread() == 0 || drv.is_finished() {
            quiet += 1;
            if quiet >= 8 {
                return;
            }
        } else {
            quiet = 0;
        }
    }
}

/// Poll one call of the code under test to completion, running the scripted server whenever the call is waiting.
/// None = the call did not complete although the server has nothing more to say (a hang).
const SILENT_TMO_MS: u64 = 50;

async fn drive<F: Future>(fut: F, srv: &mut Server, io: &MockIo, drv: &tokio::task::JoinHandle<()>, obs: &RefCell<Obs>, ck: &Cookies) -> Option<F::Output> {
    let mut fut = Box::pin(fut);
    let mut idle = 0;
    let mut advanced = false;
    loop {
        if let Poll::Ready(v) = futures::poll!(fut.as_mut()) {
            return Some(v);
        }
        quiesce(io, drv).await;
        let mut served = srv.process(io, obs, ck);
        if !served {
            served = srv.release_one(io);
        }
        quiesce(io, drv).await;
        if served {
            idle = 0;
        } else {
            idle += 1;
            if idle == 4 && srv.went_silent && !advanced {
                // nothing more will come: let the (paused) clock pass the search's timeout
                advanced = true;
                tokio::time::advance(Duration::from_millis(SILENT_TMO_MS + 1)).await;
            }
            if idle > 20 {
                return None;
            }
        }
    }
}

fn chain_of(env: &Value) -> Vec<Ad> {
    let mut v: Vec<Ad> = vec![];
    for a in env["chain"].as_array().unwrap() {
        if a == "EO" {
            v.push(Box::new(EntriesOnly::new()));
        } else {
            v.push(Box::new(PagedResults::<String, Vec<String>>::new(env["psize"].as_i64().unwrap() as i32)));
        }
    }
    v
}

fn apply_params(ldap: &mut Ldap, par: &Value) {
    let deref = match par["deref"].as_i64().unwrap() {
        0 => DerefAliases::Never,
        1 => DerefAliases::Searching,
        2 => DerefAliases::Finding,
        _ => DerefAliases::Always,
    };
    let (tl, sl, to) = (par["timelimit"].as_i64().unwrap(), par["sizelimit"].as_i64().unwrap(), par["typesonly"].as_bool().unwrap());
    // all-default options: leave the handle alone (both ways of asking for the defaults get exercised)
    if !(deref == DerefAliases::Never && tl == 0 && sl == 0 && !to) || par["base"] == 0 {
        ldap.with_search_options(SearchOptions::new().deref(deref).typesonly(to).timelimit(tl as i32).sizelimit(sl as i32));
    }
    let mut ctrls: Vec<RawControl> = vec![];
    for c in par["ctrls"].as_array().unwrap() {
        let id = c["id"].as_i64().unwrap();
        if c["k"] == "pr" {
            ctrls.push(ldap3::controls::PagedResults { size: id as i32, cookie: cookie_bytes(c["cookie"].as_i64().unwrap()) }.into());
        } else {
            ctrls.push(RawControl { ctype: req_x_oid(id), crit: id % 2 == 1, val: req_x_val(id) });
        }
    }
    if !ctrls.is_empty() {
        ldap.with_controls(ctrls);
    }
}

fn scope_of(par: &Value) -> Scope {
    match par["scope"].as_i64().unwrap() {
        0 => Scope::Base,
        1 => Scope::OneLevel,
        _ => Scope::Subtree,
    }
}

/// The adapter chain of `env`, but not a fresh one: it is what `adapter_chain_tail()` hands out from another stream (on a
/// connection of its own) that has been running for a while - the EntriesOnly in it has collected reference URIs, the
/// PagedResults has saved a handle and parameters. A stream started with such a chain must behave exactly like one started
/// with fresh adapters (the adapters' `start()` reset their state; the documentation shows it).
async fn used_chain(env: &Value) -> Option<Vec<Ad>> {
    let io = MockIo::new();
    let (conn, mut ldap) = LdapConnAsync::verif_from_io(Box::new(io.clone()));
    let drv = tokio::spawn(async move {
        let _ = conn.drive().await;
    });
    let warm = json!([{"t": "e", "id": 71, "ctl": [], "nu": 0}, {"t": "r", "id": 72, "ctl": [], "nu": 2}, {"t": "e", "id": 73, "ctl": [], "nu": 0}]);
    let mut fut = Box::pin(ldap.streaming_search_with(chain_of(env), "dc=warm", Scope::Subtree, "(objectClass=*)", vec!["cn".to_string()]));
    let mut st = None;
    for _ in 0..200 {
        if let Poll::Ready(r) = futures::poll!(fut.as_mut()) {
            st = r.ok();
            break;
        }
        quiesce(&io, &drv).await;
    }
    drop(fut);
    let mut st = st?;
    // the server answers the first request with an entry, a reference and another entry (no final result yet)
    let (msgs, _) = ber::split_messages(&io.take_written());
    let msgid = msgs.first().map(|m| ber::uint_of(&m.0.kids[0].val)).unwrap_or(1);
    for it in warm.as_array().unwrap() {
        io.push_bytes(&item_bytes(msgid, it));
    }
    for _ in 0..2 {
        let mut f = Box::pin(st.next());
        for _ in 0..200 {
            if let Poll::Ready(_) = futures::poll!(f.as_mut()) {
                break;
            }
            quiesce(&io, &drv).await;
        }
    }
    let chain = st.adapter_chain_tail().await;
    let _ = st.finish().await;
    drop(st);
    drop(ldap);
    io.push(Item::Eof);
    quiesce(&io, &drv).await;
    Some(chain)
}

/// Execute one behaviour; observations go to `obs` (so that they survive a panic of the code under test).
fn execute(env: &Value, calls: &[String], seed: u64, chunking: u8, obs: &Rc<RefCell<Obs>>) -> Result<(), String> {
    let obs2 = obs.clone();
    let ck = Cookies::of(env);
    let r = std::panic::catch_unwind(std::panic::AssertUnwindSafe(move || {
        let obs = obs2;
        let rt = Builder::new_current_thread().enable_time().start_paused(true).rng_seed(RngSeed::from_bytes(&seed.to_le_bytes())).build().unwrap();
        rt.block_on(async {
            let io = MockIo::new();
            ldap3::verif::install();
            let (conn, mut ldap) = LdapConnAsync::verif_from_io(Box::new(io.clone()));
            let drv = tokio::spawn(async move {
                use futures::FutureExt;
                let _ = std::panic::AssertUnwindSafe(conn.drive()).catch_unwind().await;
            });
            let mut srv = Server {
                pages: env["pages"].as_array().unwrap().clone(),
                loss: (env["loss"]["pg"].as_i64().unwrap(), env["loss"]["pos"].as_i64().unwrap()),
                silent: env["loss"]["how"] == "silent",
                went_silent: false,
                nreq: 0,
                inbuf: vec![],
                eof: false,
                chunking,
                rng: StdRng::seed_from_u64(seed ^ 0x5eed),
                outbox: Default::default(),
            };
            if srv.loss == (1, 0) {
                srv.close(&io);
                srv.release_one(&io);
                quiesce(&io, &drv).await;
            }
            let par = &env["par"];
            let (base, filter, attrs) = (base_of(par["base"].as_i64().unwrap()), filter_of(par["filter"].as_i64().unwrap()), attrs_of(par["attrs"].as_i64().unwrap()));
            let nreq = |obs: &RefCell<Obs>| obs.borrow().reqs.len();
            let hang = |obs: &RefCell<Obs>| obs.borrow_mut().outs.push(json!({"x": {"k": "hang"}, "st": "?", "nreq": -1}));
            apply_params(&mut ldap, par);
            if srv.silent {
                // the search is given a timeout: the wait on the silent server must end with it (C12)
                ldap.with_timeout(Duration::from_millis(SILENT_TMO_MS));
            }
            if calls[0] == "search" {
                obs.borrow_mut().in_call = Some("search".into());
                let r = drive(ldap.search(base, scope_of(par), filter, attrs), &mut srv, &io, &drv, &obs, &ck).await;
                match r {
                    None => hang(&obs),
                    Some(Ok(sr)) => {
                        let got: Vec<Value> = sr.0.iter().map(item_json).collect();
                        let x = json!({"k": "search", "got": got, "x": {"k": "res", "r": result_json(&sr.1, &ck)}});
                        let n = nreq(&obs);
                        obs.borrow_mut().outs.push(json!({"x": x, "st": "Closed", "nreq": n}));
                    }
                    Some(Err(e)) => {
                        let x = json!({"k": "search", "got": [], "x": err_json(&e, &obs)});
                        let n = nreq(&obs);
                        obs.borrow_mut().outs.push(json!({"x": x, "st": "Error", "nreq": n}));
                    }
                }
                return;
            }
            obs.borrow_mut().in_call = Some("start".into());
            // one behaviour in three runs with a chain that has been in use elsewhere
            let chain = if !env["chain"].as_array().unwrap().is_empty() && seed % 3 == 0 {
                match used_chain(env).await {
                    Some(c) => {
                        obs.borrow_mut().used_chain = true;
                        c
                    }
                    None => chain_of(env),
                }
            } else {
                chain_of(env)
            };
            let started = drive(ldap.streaming_search_with(chain, base, scope_of(par), filter, attrs), &mut srv, &io, &drv, &obs, &ck).await;
            let mut st = match started {
                None => {
                    hang(&obs);
                    return;
                }
                Some(Err(e)) => {
                    let x = err_json(&e, &obs);
                    let n = nreq(&obs);
                    obs.borrow_mut().outs.push(json!({"x": x, "st": "Error", "nreq": n}));
                    return;
                }
                Some(Ok(st)) => st,
            };
            let n = nreq(&obs);
            obs.borrow_mut().outs.push(json!({"x": {"k": "ok"}, "st": format!("{:?}", st.state()), "nreq": n}));
            for c in &calls[1..] {
                obs.borrow_mut().in_call = Some(c.clone());
                let x = match c.as_str() {
                    "next" => match drive(st.next(), &mut srv, &io, &drv, &obs, &ck).await {
                        None => None,
                        Some(Ok(Some(re))) => Some(json!({"k": "some", "it": item_json(&re)})),
                        Some(Ok(None)) => Some(json!({"k": "none"})),
                        Some(Err(e)) => Some(err_json(&e, &obs)),
                    },
                    "finish" => drive(st.finish(), &mut srv, &io, &drv, &obs, &ck).await.map(|r| json!({"k": "res", "r": result_json(&r, &ck)})),
                    "state" => Some(json!({"k": "st", "v": format!("{:?}", st.state())})),
                    "drain" => {
                        let mut got = vec![];
                        loop {
                            match drive(st.next(), &mut srv, &io, &drv, &obs, &ck).await {
                                None => break None,
                                Some(Ok(Some(re))) => {
                                    got.push(item_json(&re));
                                    if got.len() > 100_000 {
                                        break None;
                                    }
                                }
                                Some(Ok(None)) => break Some(json!({"k": "drain", "got": got, "x": {"k": "none"}})),
                                Some(Err(e)) => break Some(json!({"k": "drain", "got": got, "x": err_json(&e, &obs)})),
                            }
                        }
                    }
                    _ => panic!("harness: unknown call {}", c),
                };
                match x {
                    None => {
                        hang(&obs);
                        return;
                    }
                    Some(x) => {
                        let n = nreq(&obs);
                        obs.borrow_mut().outs.push(json!({"x": x, "st": format!("{:?}", st.state()), "nreq": n}));
                    }
                }
            }
            obs.borrow_mut().in_call = None;
            let finished = st.state() == ldap3::StreamState::Closed;
            drop(st);
            if finished && !srv.eof {
                // quiescent point on a live connection: a finished search must have left nothing behind (C13), whichever
                // page it was on and however it ended
                quiesce(&io, &drv).await;
                let (_last, used) = ldap.verif_msgmap();
                let lines = ldap3::verif::drain();
                let mut res = json!([]);
                let mut sea = json!([]);
                for l in lines.iter().rev() {
                    if let Ok(v) = serde_json::from_str::<Value>(l) {
                        if v.get("s").is_some() {
                            res = v["s"]["res"].clone();
                            sea = v["s"]["sea"].clone();
                            break;
                        }
                    }
                }
                obs.borrow_mut().leak = Some(json!({"used": used, "res": res, "sea": sea}));
            }
            drop(ldap);
            srv.close(&io);
            quiesce(&io, &drv).await;
            drv.abort();
        });
    }));
    r.map_err(|e| {
        if let Some(s) = e.downcast_ref::<&str>() {
            s.to_string()
        } else if let Some(s) = e.downcast_ref::<String>() {
            s.clone()
        } else {
            "panic".to_string()
        }
    })
}

// ------------------------------------------------------------------------------------------------
// comparison and class keys

fn chain_name(env: &Value) -> String {
    let c: Vec<&str> = env["chain"].as_array().unwrap().iter().map(|x| x.as_str().unwrap()).collect();
    if c.is_empty() {
        "direct".into()
    } else {
        c.join(".")
    }
}
fn has_pr(env: &Value) -> bool {
    env["chain"].as_array().unwrap().iter().any(|x| x == "PR")
}
fn has_prctl(ctrls: &Value) -> bool {
    ctrls.as_array().map(|a| a.iter().any(|c| c["k"] == "pr")).unwrap_or(false)
}

fn request_diff(exp: &Value, act: &Value) -> Option<&'static str> {
    for f in ["base", "scope", "deref", "sizelimit", "timelimit", "typesonly", "filter", "attrs"] {
        if exp[f] != act[f] {
            return Some(f);
        }
    }
    if exp["ctrls"] == act["ctrls"] {
        return None;
    }
    let split = |v: &Value| -> (Vec<Value>, Vec<Value>) {
        let a = v["ctrls"].as_array().cloned().unwrap_or_default();
        (a.iter().filter(|c| c["k"] != "pr").cloned().collect(), a.iter().filter(|c| c["k"] == "pr").cloned().collect())
    };
    let (eo, ep) = split(exp);
    let (ao, ap) = split(act);
    if eo != ao {
        return Some("other-controls");
    }
    if ep.len() != ap.len() {
        return Some("paging-control-count");
    }
    for (e, a) in ep.iter().zip(&ap) {
        if e["id"] != a["id"] {
            return Some("paging-size");
        }
        if e["cookie"] != a["cookie"] {
            return Some("paging-cookie");
        }
    }
    // same controls in a different order: the properties do not fix the order
    None
}

fn items_diff(exp: &[Value], act: &[Value]) -> String {
    let ids = |v: &[Value]| -> Vec<i64> { v.iter().map(|i| i["id"].as_i64().unwrap_or(-1)).collect() };
    let (e, a) = (ids(exp), ids(act));
    if let Some(x) = act.iter().find(|i| !exp.iter().any(|j| j["id"] == i["id"])) {
        return format!("extra-item-{}", x["t"].as_str().unwrap_or("?"));
    }
    let mut seen = std::collections::HashSet::new();
    if a.iter().any(|x| !seen.insert(*x)) {
        return "item-duplicated".into();
    }
    if e.iter().any(|x| !a.contains(x)) {
        return "item-lost".into();
    }
    if e != a {
        return "order".into();
    }
    "item-content".into()
}

/// Compare the observations of one behaviour with the specification's; only the first divergence is reported
/// (what follows it is its consequence).  Returns class keys.
fn compare(env: &Value, calls: &[String], exp_outs: &[Value], exp_reqs: &[Value], act: &Obs, panic: &Option<String>) -> Vec<(String, Value)> {
    let chain = chain_name(env);
    let pr = has_pr(env);
    let mut keys = vec![];
    let mut checked_reqs = 0usize;
    let mut act_nreq_prev = 0usize;
    for (n, eo) in exp_outs.iter().enumerate() {
        let call = calls.get(n).map(|s| s.as_str()).unwrap_or("?");
        let paged_ctx = pr && (exp_reqs.len() >= 2 || act.reqs.len() >= 2);
        let own = |c16: bool| if c16 { "c16" } else { "c10" };
        let ao = match act.outs.get(n) {
            Some(a) => a,
            None => {
                let what = if panic.is_some() { "panic" } else { "missing-observation" };
                keys.push((format!("{}:{}:{}:{}", own(paged_ctx), call, chain, what), json!({"call": n, "panic": panic})));
                return keys;
            }
        };
        // an item EntriesOnly should have absorbed is a failure of that adapter (C10), also on a paged stream
        let leaked = env["chain"].as_array().unwrap().iter().any(|x| x == "EO") && {
            let bad = |it: &Value| it["t"] == "r" || it["t"] == "i";
            bad(&ao["x"]["it"]) || ao["x"]["got"].as_array().map(|g| g.iter().any(bad)).unwrap_or(false)
        };
        let item_owner = own(paged_ctx && !leaked);
        // the wait the model ends with a timeout error (silent server, timeout set on the search): C12's on every chain
        let exp_timeout = eo["x"]["e"] == "timeout" || eo["x"]["x"]["e"] == "timeout";
        if exp_timeout && ao["x"] != eo["x"] {
            let got = if ao["x"]["k"] == "hang" { "hang".to_string() } else if ao["x"]["k"] == "drain" { format!("drain-{}", ao["x"]["x"]["k"].as_str().unwrap_or("?")) } else { ao["x"]["k"].as_str().unwrap_or("?").to_string() };
            keys.push((format!("c12:stream:{}:{}:exp-timeout-got-{}", chain, call, got), json!({"call": n, "expected": eo["x"], "got": ao["x"]})));
            return keys;
        }
        if ao["x"]["k"] == "hang" {
            keys.push((format!("{}:{}:{}:hang", item_owner, call, chain), json!({"call": n})));
            return keys;
        }
        // 1. requests the server received during this call
        let act_n = ao["nreq"].as_i64().unwrap_or(0).max(0) as usize;
        let exp_n = eo["nreq"].as_i64().unwrap_or(0) as usize;
        let rown = if pr { "c16" } else { "other" };
        while checked_reqs < act_n.min(exp_n) {
            if let Some(f) = request_diff(&exp_reqs[checked_reqs], &act.reqs[checked_reqs]) {
                let which = if checked_reqs == 0 { "first" } else { "followup" };
                keys.push((format!("{}:request:{}:{}", rown, which, f), json!({"call": n, "request": checked_reqs + 1, "expected": exp_reqs[checked_reqs], "received": act.reqs[checked_reqs]})));
                return keys;
            }
            checked_reqs += 1;
        }
        // (an item leaked through EntriesOnly comes back one call early: the follow-up request the specification expects
        //  during this call is merely late, and the divergence is the leak)
        if act_n != exp_n && !(leaked && act_n < exp_n) {
            let detail = if act_n > exp_n {
                // what made the client continue?
                let last = env["pages"].as_array().unwrap().get(exp_n.max(1) - 1).cloned().unwrap_or(Value::Null);
                let c = last["res"]["ctrls"].as_array().and_then(|a| a.iter().find(|c| c["k"] == "pr").cloned());
                match c {
                    _ if exp_n == 0 => "unexpected-request:search-not-rejected",
                    _ if call != "next" && call != "drain" && call != "search" && call != "start" => "unexpected-request:outside-next",
                    _ if act_nreq_prev > exp_n => "unexpected-request",
                    None => "unexpected-request:no-paging-control-in-response",
                    Some(c) if c["cookie"] == 0 => "unexpected-request:after-empty-cookie",
                    _ => "unexpected-request",
                }
            } else {
                "missing-followup"
            };
            keys.push((format!("{}:request:{}", rown, detail), json!({"call": n, "expected_requests": exp_n, "received_requests": act_n, "received": act.reqs.get(exp_n)})));
            return keys;
        }
        act_nreq_prev = act_n;
        // 2. the return value
        let (ex, ax) = (&eo["x"], &ao["x"]);
        if ex != ax {
            let case = json!({"call": n, "op": call, "expected": ex, "got": ax});
            // the connection was lost under the call (the server closed at a scripted position), the model ends the call with
            // an error, the code ends it with something else: also C04's (a pending operation after a connection failure)
            let lost = env["loss"]["pg"].as_i64().unwrap_or(0) > 0 && env["loss"]["how"] != "silent";
            let (ek, ak) = match call {
                "next" => (ex["k"].as_str(), ax["k"].as_str()),
                "drain" | "search" => (ex["x"]["k"].as_str(), ax["x"]["k"].as_str()),
                _ => (None, None),
            };
            if lost && ek == Some("err") && ak.is_some() && ak != Some("err") && ak != Some("hang") {
                keys.push((format!("c04:stream:{}:{}:connection-lost-got-{}", call, chain, ak.unwrap_or("?")), case.clone()));
            }
            match call {
                "start" => {
                    if ex["e"] == "adapterinit" || ax["e"] == "adapterinit" {
                        keys.push((format!("c16:start:{}:caller-paging-control:exp-{}-got-{}", chain, ex["e"].as_str().unwrap_or("ok"), ax["e"].as_str().unwrap_or("ok")), case));
                    } else {
                        keys.push((format!("c10:start:{}:exp-{}-got-{}", chain, ex["k"].as_str().unwrap_or("?"), ax["k"].as_str().unwrap_or("?")), case));
                    }
                }
                "next" => {
                    let d = if ex["k"] != ax["k"] {
                        let kind = |v: &Value| if v["k"] == "some" { format!("some-{}", v["it"]["t"].as_str().unwrap_or("?")) } else { v["k"].as_str().unwrap_or("?").to_string() };
                        format!("exp-{}-got-{}", kind(ex), kind(ax))
                    } else if ex["it"]["id"] != ax["it"]["id"] || ex["it"]["t"] != ax["it"]["t"] {
                        format!("wrong-item:exp-{}-got-{}", ex["it"]["t"].as_str().unwrap_or("?"), ax["it"]["t"].as_str().unwrap_or("?"))
                    } else if ex["it"]["ctl"] != ax["it"]["ctl"] {
                        "item-controls".to_string()
                    } else {
                        "item-content".to_string()
                    };
                    keys.push((format!("{}:next:{}:{}", item_owner, chain, d), case));
                }
                "drain" => {
                    let d = if ex["got"] != ax["got"] {
                        items_diff(ex["got"].as_array().unwrap(), ax["got"].as_array().map(|v| &v[..]).unwrap_or(&[]))
                    } else {
                        format!("end:exp-{}-got-{}", ex["x"]["k"].as_str().unwrap_or("?"), ax["x"]["k"].as_str().unwrap_or("?"))
                    };
                    keys.push((format!("{}:drain:{}:{}", item_owner, chain, d), case));
                }
                "finish" => {
                    let (er, ar) = (&ex["r"], &ax["r"]);
                    // D-PAGED-STALE-RESULT: instead of the synthetic result, the result of an earlier page (one that told the
                    // adapter to continue) comes back; `where_` tells whether the follow-up request went out or failed
                    let at = ar["txt"].as_i64().unwrap_or(0);
                    let stale_page = pr && er["rc"] == 88 && ar["rc"] != 88 && at >= 1 && {
                        let pg = env["pages"].as_array().unwrap().get(at as usize - 1);
                        pg.and_then(|p| p["res"]["ctrls"].as_array().unwrap().iter().find(|c| c["k"] == "pr").map(|c| c["cookie"] != 0)).unwrap_or(false)
                    };
                    let where_ = if (at as usize) < exp_n { "finish-after-page-splice" } else { "finish-after-failed-page-request" };
                    if er["rc"] != ar["rc"] || er["txt"] != ar["txt"] || er["refs"] != ar["refs"] {
                        let k = if stale_page {
                            format!("c10:{}:stale-result", where_)
                        } else if er["rc"] != ar["rc"] {
                            format!("c10:finish:{}:rc-exp-{}-got-{}", chain, er["rc"], ar["rc"])
                        } else if er["refs"] != ar["refs"] {
                            format!("c10:finish:{}:refs", chain)
                        } else {
                            format!("c10:finish:{}:text", chain)
                        };
                        keys.push((k, case.clone()));
                    }
                    if er["ctrls"] != ar["ctrls"] {
                        // presence of a paging control in what finish() hands out is C16's; the other controls of the
                        // server's result are C10's on every chain
                        let others = |v: &Value| -> Vec<Value> { v.as_array().map(|a| a.iter().filter(|c| c["k"] != "pr").cloned().collect()).unwrap_or_default() };
                        if pr && has_prctl(&ar["ctrls"]) != has_prctl(&er["ctrls"]) {
                            let k = if !has_prctl(&ar["ctrls"]) {
                                format!("c16:finish:{}:paging-control-missing", chain)
                            } else if stale_page {
                                format!("c16:{}:stale-paging-control", where_)
                            } else {
                                "c16:finish:paging-control-in-final-result".to_string()
                            };
                            keys.push((k, case.clone()));
                        }
                        if others(&er["ctrls"]) != others(&ar["ctrls"]) && !stale_page {
                            // the same controls in another order on a chain with PagedResults: the adapter removes its own
                            // control from the server's list and must leave the rest as the server sent it (C16; C03's wording)
                            let sorted = |v: &Value| -> Vec<String> { let mut x: Vec<String> = others(v).iter().map(|c| c.to_string()).collect(); x.sort(); x };
                            if pr && sorted(&er["ctrls"]) == sorted(&ar["ctrls"]) {
                                keys.push((format!("c16:finish:{}:result-controls-reordered", chain), case.clone()));
                            } else {
                                keys.push((format!("c10:finish:{}:result-controls", chain), case.clone()));
                            }
                        }
                    }
                    if keys.is_empty() {
                        // same paging-control presence and same other controls, yet not the expected list (order, duplicate, cookie)
                        keys.push((format!("{}:finish:{}:result-controls", if pr { "c16" } else { "c10" }, chain), case));
                    }
                }
                "state" => keys.push((format!("c10:state-call:{}:exp-{}-got-{}", chain, ex["v"].as_str().unwrap_or("?"), ax["v"].as_str().unwrap_or("?")), case)),
                "search" => {
                    let d = if ex["x"]["k"] != ax["x"]["k"] {
                        format!("exp-{}-got-{}", ex["x"]["k"].as_str().unwrap_or("?"), ax["x"]["k"].as_str().unwrap_or("?"))
                    } else if ex["got"] != ax["got"] {
                        format!("entries:{}", items_diff(ex["got"].as_array().unwrap(), ax["got"].as_array().map(|v| &v[..]).unwrap_or(&[])))
                    } else if ex["x"]["r"]["refs"] != ax["x"]["r"]["refs"] {
                        "refs".to_string()
                    } else if ex["x"]["r"]["rc"] != ax["x"]["r"]["rc"] {
                        "rc".to_string()
                    } else if ex["x"]["r"]["ctrls"] != ax["x"]["r"]["ctrls"] {
                        "result-controls".to_string()
                    } else {
                        "result".to_string()
                    };
                    keys.push((format!("c10:search:{}", d), case));
                }
                _ => keys.push((format!("other:{}:differs", call), case)),
            }
            return keys;
        }
        // 3. state() after the call
        if eo["st"] != ao["st"] {
            keys.push((
                format!("c10:state:{}:after-{}:exp-{}-got-{}", chain, call, eo["st"].as_str().unwrap_or("?"), ao["st"].as_str().unwrap_or("?")),
                json!({"call": n, "op": call, "returned": ax, "expected_state": eo["st"], "got_state": ao["st"]}),
            ));
            return keys;
        }
    }
    if act.outs.len() > exp_outs.len() {
        keys.push((format!("other:extra-observation:{}", chain), json!({"expected": exp_outs.len(), "got": act.outs.len()})));
    }
    keys
}

fn strs(v: &Value) -> Vec<String> {
    v.as_array().unwrap().iter().map(|x| x.as_str().unwrap().to_string()).collect()
}

fn count_behaviour(rep: &mut Report, env: &Value, calls: &[String], outs: &[Value], reqs: &[Value]) {
    rep.count(&format!("chain:{}", chain_name(env)));
    rep.count(&format!("pages:{}", env["pages"].as_array().unwrap().len().min(9)));
    rep.count(&format!("requests:{}", reqs.len().min(9)));
    if env["loss"]["pg"] != 0 {
        rep.count(if env["loss"]["pos"] == 0 { "loss:before-request" } else { "loss:mid-page" });
    }
    if !env["par"]["ctrls"].as_array().unwrap().is_empty() {
        rep.count("par:with-controls");
    }
    if has_prctl(&env["par"]["ctrls"]) {
        rep.count("par:caller-paging-control");
    }
    if env["par"]["typesonly"] == true {
        rep.count("par:non-default-options");
    }
    let mut spliced_finish = false;
    for (n, o) in outs.iter().enumerate() {
        let c = calls.get(n).map(|s| s.as_str()).unwrap_or("?");
        let x = &o["x"];
        match c {
            "next" => {
                if x["k"] == "some" {
                    rep.count(&format!("next:some-{}", x["it"]["t"].as_str().unwrap_or("?")));
                    if !x["it"]["ctl"].as_array().unwrap().is_empty() {
                        rep.count("next:item-with-controls");
                    }
                } else {
                    rep.count(&format!("next:{}", x["k"].as_str().unwrap_or("?")));
                }
                if n > 0 && outs[n - 1]["st"] != "Active" {
                    rep.count("next:outside-active");
                }
            }
            "finish" => {
                let rc = x["r"]["rc"].as_i64().unwrap_or(-1);
                rep.count(&format!("finish:rc-{}", rc));
                if rc == 88 && o["nreq"].as_i64().unwrap_or(0) >= 2 {
                    spliced_finish = true;
                }
                if !x["r"]["refs"].as_array().unwrap().is_empty() {
                    rep.count("finish:with-refs");
                }
                if !x["r"]["ctrls"].as_array().unwrap().is_empty() {
                    rep.count("finish:with-controls");
                }
            }
            "start" => rep.count(&format!("start:{}", x["e"].as_str().unwrap_or("ok"))),
            "search" => rep.count(&format!("search:{}", x["x"]["k"].as_str().unwrap_or("?"))),
            "drain" => rep.count(&format!("drain:{}", x["x"]["k"].as_str().unwrap_or("?"))),
            _ => rep.count(c),
        }
        rep.count(&format!("state-after:{}", o["st"].as_str().unwrap_or("?")));
    }
    if spliced_finish {
        rep.count("finish:early-after-page-splice");
    }
}

fn replay(path: &str, report: &str) {
    let mut rep = Report::new("stream-replay");
    let seed = verif_harness::seed_from_env();
    let mut idx = 0u64;
    let n = tlcout::for_each_tagged(path, "VEC", |v| {
        idx += 1;
        let env = &v["env"];
        let calls = strs(&v["calls"]);
        let exp_outs = v["outs"].as_array().unwrap();
        let exp_reqs = v["reqs"].as_array().unwrap();
        let obs = Rc::new(RefCell::new(Obs::default()));
        let r = execute(env, &calls[..exp_outs.len().min(calls.len())], seed.wrapping_add(idx), [0u8, 1, 3][(idx % 3) as usize], &obs);
        let panic = r.err();
        let o = obs.borrow();
        rep.count("vectors");
        if o.used_chain {
            rep.count("chain-from-adapter_chain_tail");
        }
        count_behaviour(&mut rep, env, &calls, exp_outs, exp_reqs);
        for e in &o.errs {
            rep.count(&format!("impl-error:{}", e));
        }
        let mut keys = compare(env, &calls, exp_outs, exp_reqs, &o, &panic);
        if let Some(l) = &o.leak {
            rep.count("quiescent-after-finish");
            if o.reqs.len() >= 2 {
                rep.count("quiescent-after-finish:paged-beyond-first-page");
            }
            if idx % 3 == 2 {
                rep.count("quiescent-after-finish:lazy-server");
            }
            let empty = |v: &Value| v.as_array().map(|a| a.is_empty()).unwrap_or(true);
            if !empty(&l["used"]) {
                keys.push((format!("c13:stream:{}:id-still-reserved-after-finish", chain_name(env)), l.clone()));
            }
            if !empty(&l["res"]) || !empty(&l["sea"]) {
                keys.push((format!("c13:stream:{}:routing-entry-left-after-finish", chain_name(env)), l.clone()));
            }
        }
        rep.eval(calls.len() > 2 || calls[0] == "search", hash_of(&v.to_string()));
        if rep.samples.len() < 3 && idx % 977 == 3 {
            rep.sample(json!({"env": env, "calls": calls, "observed": o.outs, "requests": o.reqs}));
        }
        for (k, case) in keys {
            rep.mismatch(&k, json!({"env": env, "calls": calls, "detail": case, "observed": o.outs, "requests_received": o.reqs}));
        }
    })
    .expect("read TLC output");
    if n == 0 {
        eprintln!("stream-run: no VEC lines in {}", path);
        std::process::exit(2);
    }
    rep.write(report);
}

// ------------------------------------------------------------------------------------------------
// I -> S: random behaviours

fn gen_env(rng: &mut StdRng) -> Value {
    let chain: Vec<&str> = match rng.gen_range(0..8) {
        0 => vec![],
        1 => vec!["EO"],
        2 | 3 => vec!["PR"],
        4 | 5 => vec!["EO", "PR"],
        _ => vec!["PR", "EO"],
    };
    let paged = chain.contains(&"PR");
    let mut next_id = 0i64;
    let mut mk_items = |n: usize, rng: &mut StdRng, only_entries: bool| -> Vec<Value> {
        (0..n)
            .map(|_| {
                next_id += 1;
                let t = if only_entries { "e" } else { ["e", "e", "e", "r", "i"][rng.gen_range(0..5)] };
                let ctl: Vec<i64> = match rng.gen_range(0..6) {
                    0 => vec![next_id],
                    1 => vec![next_id, 100000 + next_id],
                    _ => vec![],
                };
                json!({"t": t, "id": next_id, "ctl": ctl, "nu": if t == "r" { rng.gen_range(1..=3) } else { 0 }})
            })
            .collect()
    };
    let xc = |id: i64| json!({"k": "x", "id": id, "cookie": 0});
    let mut pages = vec![];
    let psize: i64;
    if paged {
        let total = match rng.gen_range(0..4) {
            0 => rng.gen_range(0..6),
            1 => rng.gen_range(0..60),
            _ => rng.gen_range(0..=500),
        };
        psize = rng.gen_range(1..=100);
        let only_entries = rng.gen_bool(0.6);
        let mut left = total as usize;
        let mut p = 0i64;
        let cookie_mode = rng.gen_range(0..4);
        loop {
            p += 1;
            let n = if rng.gen_bool(0.1) { rng.gen_range(0..=left.min(psize as usize)) } else { left.min(psize as usize) };
            left -= n;
            let last = left == 0 && (n > 0 || rng.gen_bool(0.7) || p > 1);
            let cookie = if last {
                0
            } else {
                match cookie_mode {
                    0 => 1 + (p % 9),
                    1 => 1,
                    2 => [10, 11, 20, 21][rng.gen_range(0..4)],
                    _ => rng.gen_range(100..100000),
                }
            };
            let mut ctrls = vec![];
            if rng.gen_bool(0.15) {
                ctrls.push(xc(rng.gen_range(1..50)));
            }
            let broken = !last && rng.gen_bool(0.01);
            if !broken && !(last && rng.gen_bool(0.2)) {
                ctrls.push(json!({"k": "pr", "id": total, "cookie": cookie}));
            }
            if rng.gen_bool(0.15) {
                ctrls.push(xc(rng.gen_range(50..99)));
            }
            let rc = if last || broken { [0, 0, 0, 4, 10, 32][rng.gen_range(0..6)] } else if rng.gen_bool(0.02) { 4 } else { 0 };
            let refs: Vec<i64> = if rc == 10 { vec![900001, 900002] } else { vec![] };
            pages.push(json!({"items": mk_items(n, rng, only_entries), "res": {"rc": rc, "txt": p, "refs": refs, "ctrls": ctrls}}));
            if last || broken || p > 600 {
                break;
            }
        }
    } else {
        psize = 0;
        let n = if rng.gen_bool(0.5) { rng.gen_range(0..8) } else { rng.gen_range(0..=200) };
        let mut ctrls = vec![];
        if rng.gen_bool(0.3) {
            ctrls.push(xc(rng.gen_range(1..50)));
        }
        if rng.gen_bool(0.2) {
            ctrls.push(json!({"k": "pr", "id": 0, "cookie": if rng.gen_bool(0.5) { 0 } else { 3 }}));
        }
        let rc = [0, 0, 4, 10, 32][rng.gen_range(0..5)];
        let refs: Vec<i64> = if rc == 10 { vec![900001] } else { vec![] };
        pages.push(json!({"items": mk_items(n, rng, false), "res": {"rc": rc, "txt": 1, "refs": refs, "ctrls": ctrls}}));
    }
    let loss = if rng.gen_bool(0.2) {
        let pg = rng.gen_range(1..=pages.len());
        let n = pages[pg - 1]["items"].as_array().unwrap().len();
        json!({"pg": pg, "pos": rng.gen_range(0..=n + 1)})
    } else {
        json!({"pg": 0, "pos": 0})
    };
    let lim = [0i64, 0, 1, 7, 1000, 2147483647];
    let mut pctrls = vec![];
    for _ in 0..[0, 0, 1, 2, 3][rng.gen_range(0..5)] {
        pctrls.push(xc(rng.gen_range(1..40)));
    }
    if rng.gen_bool(0.06) {
        let at = rng.gen_range(0..=pctrls.len());
        pctrls.insert(at, json!({"k": "pr", "id": rng.gen_range(1..50), "cookie": if rng.gen_bool(0.5) { 0 } else { 2 }}));
    }
    let par = json!({
        "base": rng.gen_range(0..3), "scope": rng.gen_range(0..3), "deref": rng.gen_range(0..4),
        "sizelimit": lim[rng.gen_range(0..6)], "timelimit": lim[rng.gen_range(0..6)], "typesonly": rng.gen_bool(0.3),
        "filter": rng.gen_range(0..3), "attrs": rng.gen_range(0..3), "ctrls": pctrls,
    });
    json!({"chain": chain, "pages": pages, "loss": loss, "par": par, "psize": psize})
}

fn gen_calls(rng: &mut StdRng, env: &Value) -> Vec<String> {
    if rng.gen_bool(0.15) {
        return vec!["search".into()];
    }
    let total: usize = env["pages"].as_array().unwrap().iter().map(|p| p["items"].as_array().unwrap().len()).sum();
    let mut c = vec!["start".to_string()];
    match rng.gen_range(0..4) {
        0 => {
            // finish at a random position, then a few more calls
            for _ in 0..rng.gen_range(0..=total + 2) {
                c.push("next".into());
                if rng.gen_bool(0.02) {
                    c.push("state".into());
                }
            }
            c.push("finish".into());
        }
        1 => {
            for _ in 0..rng.gen_range(0..=total.min(20)) {
                c.push("next".into());
            }
            c.push("drain".into());
            if rng.gen_bool(0.5) {
                c.push("next".into());
            }
            c.push("finish".into());
        }
        2 => {
            c.push("drain".into());
            c.push("finish".into());
        }
        _ => {
            for _ in 0..rng.gen_range(1..30) {
                c.push(["next", "next", "next", "state", "finish", "drain"][rng.gen_range(0..6)].into());
            }
        }
    }
    for _ in 0..rng.gen_range(0..4) {
        c.push(["next", "finish", "state", "drain"][rng.gen_range(0..4)].into());
    }
    c
}

fn trace(out: &str, count: u64, report: &str) {
    let mut rep = Report::new("stream-trace");
    let seed = verif_harness::seed_from_env();
    let mut f = std::io::BufWriter::new(std::fs::File::create(out).expect("create trace"));
    for n in 1..=count {
        let mut rng = StdRng::seed_from_u64(seed.wrapping_mul(1_000_003).wrapping_add(n));
        let env = gen_env(&mut rng);
        let calls = gen_calls(&mut rng, &env);
        let obs = Rc::new(RefCell::new(Obs::default()));
        let r = execute(&env, &calls, seed.wrapping_add(n), rng.gen_range(0..3), &obs);
        let mut o = obs.borrow_mut();
        if let Err(p) = &r {
            let call = o.in_call.clone().unwrap_or_default();
            o.outs.push(json!({"x": {"k": "panic", "in": call, "msg": p}, "st": "?", "nreq": -1}));
            rep.count("panics");
        }
        rep.count("records");
        count_behaviour(&mut rep, &env, &calls, &o.outs, &o.reqs);
        for e in &o.errs {
            rep.count(&format!("impl-error:{}", e));
        }
        let items: usize = env["pages"].as_array().unwrap().iter().map(|p| p["items"].as_array().unwrap().len()).sum();
        rep.add("items-scripted", items as u64);
        // a search whose start failed has no handle: the behaviour ends there
        let calls: Vec<String> = if o.outs.len() == 1 && o.outs[0]["x"]["k"] == "err" { calls[..1].to_vec() } else { calls };
        let rec = json!({"n": n, "env": env, "calls": calls, "outs": o.outs, "reqs": o.reqs});
        rep.eval(calls.len() > 2 || calls[0] == "search", hash_of(&rec.to_string()));
        if rep.samples.len() < 2 && items < 4 && calls.len() > 3 {
            rep.sample(rec.clone());
        }
        writeln!(f, "{}", rec).unwrap();
    }
    f.flush().unwrap();
    rep.write(report);
}

fn classify(input: &str, report: &str) {
    let mut rep = Report::new("stream-classify");
    let text = std::fs::read_to_string(input).expect("read classify input");
    for line in text.lines() {
        if line.trim().is_empty() {
            continue;
        }
        let v: Value = serde_json::from_str(line).expect("json");
        let rec = &v["rec"];
        let env = &rec["env"];
        let calls = strs(&rec["calls"]);
        let act = Obs { outs: rec["outs"].as_array().unwrap().clone(), reqs: rec["reqs"].as_array().unwrap().clone(), errs: vec![], in_call: None, leak: None, used_chain: false };
        let panic = act.outs.last().and_then(|o| if o["x"]["k"] == "panic" { Some(o["x"]["msg"].as_str().unwrap_or("").to_string()) } else { None });
        let mut act2 = Obs { outs: act.outs.clone(), reqs: act.reqs.clone(), errs: vec![], in_call: None, leak: None, used_chain: false };
        if panic.is_some() {
            act2.outs.pop();
        }
        let exp_outs = v["exp"]["outs"].as_array().cloned().unwrap_or_default();
        let exp_reqs = v["exp"]["reqs"].as_array().cloned().unwrap_or_default();
        rep.eval(true, hash_of(&line.to_string()));
        let mut keys = compare(env, &calls, &exp_outs, &exp_reqs, &act2, &panic);
        if keys.is_empty() {
            // the trace specification rejected it, yet the observations equal its own expectation: the request log
            let k = if exp_reqs != act2.reqs { format!("{}:request-log:differs", if has_pr(env) { "c16" } else { "other" }) } else { "other:trace:rejected-without-difference".to_string() };
            keys.push((k, json!({"why": v["why"]})));
        }
        for (k, case) in keys {
            let small = json!({"n": rec["n"], "chain": env["chain"], "loss": env["loss"], "par": env["par"], "psize": env["psize"], "pages": env["pages"].as_array().unwrap().len(), "calls": calls.len(), "detail": case, "why": v["why"]});
            rep.mismatch(&k, small);
        }
    }
    rep.write(report);
}

fn main() {
    verif_harness::silence_panics();
    let a: Vec<String> = std::env::args().collect();
    match a.get(1).map(|s| s.as_str()) {
        Some("replay") if a.len() == 4 => replay(&a[2], &a[3]),
        Some("trace") if a.len() == 5 => trace(&a[2], a[3].parse().expect("count"), &a[4]),
        Some("classify") if a.len() == 4 => classify(&a[2], &a[3]),
        _ => {
            eprintln!("usage: stream-run replay <tlc-output> <report.json> | trace <out.ndjson> <count> <report.json> | classify <in.ndjson> <report.json>");
            std::process::exit(2);
        }
    }
}
