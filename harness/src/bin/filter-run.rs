//! filter-run: C08, `ldap3::parse_filter` against the Filter4515 specification.
//!
//!   filter-run replay <tlc-output> <report.json> [<extra.ndjson>]
//!       S -> I. Reads the `VEC` lines of an MCFilter run:
//!         m = "space": an alphabet and a length bound. The harness enumerates every string of that space itself;
//!         m = "str":   a string of a space that the specification ACCEPTS, with the bytes it denotes;
//!         m = "ast":   a rendered syntax tree with its bytes (replayed with and, for items, without outer parentheses);
//!         m = "seed":  bookkeeping state of the model (counted only).
//!       Requirement: the implementation accepts exactly the emitted strings of every space with identical bytes and
//!       rejects everything else without panicking. Strings the implementation accepts although the specification
//!       did not emit them are written to <extra.ndjson> (trace-record format) for adjudication by TraceFilter,
//!       which knows the difference between "must be rejected" and "outside the grammar but harmless".
//!   filter-run trace <out.ndjson> <count> <report.json>
//!       I -> S. Seeded random byte strings and mutations of valid filters, each with what the implementation did:
//!       {"s": [bytes], "ok": bool, "ber": [bytes], "gen": "<generator>"}; TraceFilter recomputes every record.
//!
//!   filter-run probe <out.ndjson> <hex-string>...
//!       The implementation's verdict on the given strings, in trace-record format (used by `bin/check C08 --replay`).
//!
//! The expected values never come from ldap3/lber: they are the specification's. The only lber functions used are
//! the ones under test (`Tag::into_structure`, `lber::write::encode_into`).

use bytes::BytesMut;
use lber::structures::ASNTag;
use rand::{rngs::StdRng, Rng, SeedableRng};
use serde_json::{json, Value};
use std::collections::{BTreeMap, BTreeSet, HashMap};
use std::io::Write;
use verif_harness::report::{hash_of, Report};
use verif_harness::{bytes_of, catch, hex, seed_from_env, tlcout};

/// What the code under test did with one input.
enum Outcome {
    Accept(Vec<u8>),
    Reject,
    Panic(String),
}

fn compile(s: &[u8]) -> Outcome {
    let input = s.to_vec();
    let r = catch(move || match ldap3::parse_filter(&input[..]) {
        Ok(tag) => {
            let mut buf = BytesMut::new();
            match lber::write::encode_into(&mut buf, tag.into_structure()) {
                Ok(_) => Some(buf.to_vec()),
                Err(e) => panic!("encode_into failed: {}", e),
            }
        }
        Err(()) => None,
    });
    match r {
        Ok(Some(b)) => Outcome::Accept(b),
        Ok(None) => Outcome::Reject,
        Err(p) => Outcome::Panic(p),
    }
}

fn show(s: &[u8]) -> String {
    s.iter()
        .map(|&c| if (0x20..0x7f).contains(&c) && c != b'"' { (c as char).to_string() } else { format!("<{:02x}>", c) })
        .collect()
}

// ---------------------------------------------------------------------------------------------
// class keys: every failing case is first recorded with its features, keys are assigned at the end so that one
// defect gives one key where possible (a composite fails because one of its items fails; an escaped value fails
// in every item kind when the unescaper is broken).
// ---------------------------------------------------------------------------------------------

#[derive(Clone, PartialEq, Eq, PartialOrd, Ord)]
struct Feat {
    what: String,       // rejects-valid | bytes-differ | panic
    top: String,        // root kind
    kinds: Vec<String>, // sorted leaf kinds
    esc: bool,          // the string contains a backslash
}

#[derive(Default)]
struct Failures {
    groups: BTreeMap<Feat, (u64, Vec<Value>)>,
}

fn is_composite(top: &str) -> bool {
    matches!(top, "and" | "or" | "not")
}

impl Failures {
    fn add(&mut self, f: Feat, case: Value) {
        let e = self.groups.entry(f).or_insert((0, vec![]));
        e.0 += 1;
        if e.1.len() < 3 {
            e.1.push(case);
        }
    }
    fn flush(self, rep: &mut Report) {
        // leaf kinds that fail as a plain item, without / with escapes, per `what`
        let mut plain: BTreeSet<(String, String)> = BTreeSet::new();
        let mut escd: BTreeSet<(String, String)> = BTreeSet::new();
        for f in self.groups.keys() {
            if is_plain(f) {
                if f.esc {
                    escd.insert((f.what.clone(), f.kinds[0].clone()));
                } else {
                    plain.insert((f.what.clone(), f.kinds[0].clone()));
                }
            }
        }
        for (f, (n, cases)) in self.groups {
            let key = key_of(&f, &plain, &escd);
            for c in cases.iter() {
                rep.mismatch(&key, c.clone());
            }
            let extra = n - cases.len() as u64;
            rep.mismatch_total += extra;
            *rep.by_key.entry(key).or_insert(0) += extra;
        }
    }
}

/// a single item, or an empty and/or
fn is_plain(f: &Feat) -> bool {
    f.kinds.len() == 1 && (!is_composite(&f.top) || f.kinds[0] == format!("{}-empty", f.top))
}

/// "ext:mrule-prefix-dn" is a sub-kind of "ext": when plain "ext" fails in the same way, it is the same class
fn generalise(w: &str, k: &str, plain: &BTreeSet<(String, String)>) -> String {
    match k.split_once(':') {
        Some((base, _)) if plain.contains(&(w.to_string(), base.to_string())) => base.to_string(),
        _ => k.to_string(),
    }
}

fn key_of(f: &Feat, plain: &BTreeSet<(String, String)>, escd: &BTreeSet<(String, String)>) -> String {
    let w = &f.what;
    let in_plain: Vec<&String> = f.kinds.iter().filter(|k| plain.contains(&(w.clone(), (*k).clone()))).collect();
    if is_plain(f) {
        if !f.esc || !in_plain.is_empty() {
            return format!("{}:{}", w, generalise(w, &f.kinds[0], plain));
        }
        return format!("{}:escaped-value", w);
    }
    if let Some(k) = in_plain.first() {
        return format!("{}:{}", w, generalise(w, k, plain));
    }
    if f.esc && f.kinds.iter().any(|k| escd.contains(&(w.clone(), k.clone()))) {
        return format!("{}:escaped-value", w);
    }
    format!("{}:nested:{}", w, f.top)
}

struct Expect {
    ber: Vec<u8>,
    must: bool,
    top: String,
    kinds: Vec<String>,
}

fn expect_of(v: &Value) -> Expect {
    let mut kinds: Vec<String> = v["k"].as_array().map(|a| a.iter().filter_map(|x| x.as_str().map(String::from)).collect()).unwrap_or_default();
    kinds.sort();
    Expect { ber: bytes_of(&v["ber"]), must: v["must"].as_bool().unwrap_or(true), top: v["top"].as_str().unwrap_or("?").to_string(), kinds }
}

/// Compare one input with the specification's expectation.
fn judge(s: &[u8], ex: &Expect, source: &str, rep: &mut Report, fails: &mut Failures) {
    let esc = s.contains(&b'\\');
    let feat = |what: &str| Feat { what: what.to_string(), top: ex.top.clone(), kinds: ex.kinds.clone(), esc };
    rep.eval(true, hash_of(&s));
    rep.count(&format!("kind:{}", ex.top));
    if esc {
        rep.count("with-escape");
    }
    if ex.ber.len() > 129 {
        rep.count("long-form-length");
    }
    match compile(s) {
        Outcome::Accept(b) => {
            if b != ex.ber {
                fails.add(feat("bytes-differ"), json!({"source": source, "filter": show(s), "s": hex(s), "expected": hex(&ex.ber), "got": hex(&b)}));
            }
        }
        Outcome::Reject => {
            if ex.must {
                fails.add(feat("rejects-valid"), json!({"source": source, "filter": show(s), "s": hex(s), "expected": hex(&ex.ber), "got": "Err(())"}));
            } else {
                rep.count("optional-rejected");
            }
        }
        Outcome::Panic(p) => fails.add(feat("panic"), json!({"source": source, "filter": show(s), "s": hex(s), "panic": p})),
    }
    if !ex.must {
        rep.count("outside-strict-grammar");
    }
}

fn replay(path: &str, extra_path: Option<&str>, rep: &mut Report) {
    let mut spaces: BTreeMap<u64, (Vec<u8>, usize)> = BTreeMap::new();
    let mut accepted: HashMap<(u64, Vec<u8>), Expect> = HashMap::new();
    let mut fails = Failures::default();
    let n = tlcout::for_each_tagged(path, "VEC", |v| match v["m"].as_str().unwrap_or("") {
        "space" => {
            let mut al = bytes_of(&v["al"]);
            al.sort();
            spaces.insert(v["sp"].as_u64().unwrap(), (al, v["n"].as_u64().unwrap() as usize));
        }
        "str" => {
            rep.count("spec-accepted-strings");
            accepted.insert((v["sp"].as_u64().unwrap(), bytes_of(&v["s"])), expect_of(&v));
        }
        "ast" => {
            let s = bytes_of(&v["s"]);
            let ex = expect_of(&v);
            rep.count("ast-vectors");
            rep.count(&format!("ast-depth:{}", v["d"].as_u64().unwrap_or(0)));
            if rep.samples.len() < 2 && s.len() > 12 && rep.counters["ast-vectors"] % 1009 == 7 {
                rep.sample(json!({"m": "ast", "filter": show(&s), "ber": hex(&ex.ber)}));
            }
            judge(&s, &ex, "ast", rep, &mut fails);
            if v["bare"].as_bool().unwrap_or(false) && s.len() >= 2 {
                rep.count("ast-bare-items");
                judge(&s[1..s.len() - 1], &ex, "ast-bare", rep, &mut fails);
            }
        }
        "seed" => rep.count("seed-states"),
        _ => {}
    })
    .expect("read vectors");
    rep.add("vectors", n);

    // every string of every space
    let mut extra = extra_path.map(|p| std::io::BufWriter::new(std::fs::File::create(p).expect("create extra")));
    let mut extra_written = 0u64;
    let mut visited = 0u64;
    for (sp, (al, maxlen)) in spaces.iter() {
        let name = format!("space{}", sp);
        rep.notes.push(format!("{}: alphabet {:?} max length {}", name, show(al), maxlen));
        let mut idx: Vec<usize> = vec![];
        let mut s: Vec<u8> = vec![];
        // odometer over all lengths 0..=maxlen
        for len in 0..=*maxlen {
            idx.clear();
            idx.resize(len, 0);
            loop {
                s.clear();
                s.extend(idx.iter().map(|&i| al[i]));
                rep.count("strings-enumerated");
                match accepted.get(&(*sp, s.clone())) {
                    Some(ex) => {
                        visited += 1;
                        if rep.samples.len() < 5 && s.len() == *maxlen && ex.kinds.len() == 1 && rep.counters["strings-enumerated"] % 7 == 0 {
                            rep.sample(json!({"m": "str", "filter": show(&s), "ber": hex(&ex.ber)}));
                        }
                        judge(&s, ex, &name, rep, &mut fails);
                    }
                    None => {
                        rep.evaluations += 1;
                        match compile(&s) {
                            Outcome::Reject => rep.count("rejected-by-both"),
                            Outcome::Accept(b) => {
                                rep.count("accepted-but-not-emitted");
                                if let Some(f) = extra.as_mut() {
                                    if extra_written < 5000 {
                                        writeln!(f, "{}", json!({"s": s, "ok": true, "ber": b, "gen": name})).unwrap();
                                        extra_written += 1;
                                    }
                                }
                            }
                            Outcome::Panic(p) => rep.mismatch("panic:rejected-input", json!({"source": name, "filter": show(&s), "s": hex(&s), "panic": p})),
                        }
                    }
                }
                // next string of this length
                let mut i = len;
                let mut done = true;
                while i > 0 {
                    i -= 1;
                    idx[i] += 1;
                    if idx[i] < al.len() {
                        done = false;
                        break;
                    }
                    idx[i] = 0;
                }
                if done {
                    break;
                }
            }
        }
    }
    if let Some(f) = extra.as_mut() {
        f.flush().unwrap();
    }
    if visited != accepted.len() as u64 {
        // a string the specification emitted is not in the space the harness enumerated: tooling problem
        eprintln!("filter-run: {} accepted strings emitted but {} found while enumerating", accepted.len(), visited);
        std::process::exit(2);
    }
    fails.flush(rep);
}

// ---------------------------------------------------------------------------------------------
// trace generation
// ---------------------------------------------------------------------------------------------

const ATTRS: &[&str] = &["a", "cn", "objectClass", "2.5.4.3", "a;x-1", "cn;lang-en;binary", "dn", "1.2.840.113556.1.4.803", "0.9", "entryDN", "a-b"];
const RULES: &[&str] = &["m", "dn", "dnx", "dnSubtreeMatch", "2.5.13.5", "caseExactMatch", "1.2.840.113556.1.4.1941", "DN", "d", "n"];

fn gen_value(rng: &mut StdRng, out: &mut Vec<u8>, allow_empty: bool) {
    let n = if allow_empty { rng.gen_range(0..6) } else { rng.gen_range(1..6) };
    for _ in 0..n {
        let b: u8 = match rng.gen_range(0..12) {
            0 => *b"()*\\\0".get(rng.gen_range(0..5)).unwrap(),
            1 => rng.gen_range(0x80..=0xffu8),
            2 => *b" =:~<>&|!;.-#,+\"".get(rng.gen_range(0..16)).unwrap(),
            3 => rng.gen_range(1..0x20u8),
            _ => *b"abcxyzABF0129".get(rng.gen_range(0..13)).unwrap(),
        };
        let must = matches!(b, 0 | b'(' | b')' | b'*' | b'\\');
        match rng.gen_range(0..6) {
            0 => out.extend(format!("\\{:02x}", b).bytes()),
            1 => out.extend(format!("\\{:02X}", b).bytes()),
            _ if must => out.extend(format!("\\{:02x}", b).bytes()),
            _ if b >= 0x80 => {
                // raw well-formed UTF-8 most of the time
                match rng.gen_range(0..4) {
                    0 => out.extend_from_slice("ć".as_bytes()),
                    1 => out.extend_from_slice("€".as_bytes()),
                    2 => out.extend_from_slice("𝄞".as_bytes()),
                    _ => out.push(b),
                }
            }
            _ => out.push(b),
        }
    }
}

fn gen_item(rng: &mut StdRng, out: &mut Vec<u8>) {
    let attr = ATTRS[rng.gen_range(0..ATTRS.len())].as_bytes();
    match rng.gen_range(0..8) {
        0 => {
            out.extend_from_slice(attr);
            out.extend_from_slice(b"=*");
        }
        1 | 2 => {
            out.extend_from_slice(attr);
            out.push(b'=');
            if rng.gen_bool(0.6) {
                gen_value(rng, out, false);
            }
            let anys = rng.gen_range(0..3);
            for _ in 0..anys {
                out.push(b'*');
                gen_value(rng, out, false);
            }
            out.push(b'*');
            if rng.gen_bool(0.6) {
                gen_value(rng, out, false);
            }
        }
        3 => {
            out.extend_from_slice(attr);
            out.extend_from_slice([&b">="[..], &b"<="[..], &b"~="[..]][rng.gen_range(0..3)]);
            gen_value(rng, out, true);
        }
        4 | 5 => {
            let with_attr = rng.gen_bool(0.7);
            if with_attr {
                out.extend_from_slice(attr);
            }
            if rng.gen_bool(0.5) {
                out.extend_from_slice(b":dn");
            }
            if !with_attr || rng.gen_bool(0.6) {
                out.push(b':');
                out.extend_from_slice(RULES[rng.gen_range(0..RULES.len())].as_bytes());
            }
            out.extend_from_slice(b":=");
            gen_value(rng, out, true);
        }
        _ => {
            out.extend_from_slice(attr);
            out.push(b'=');
            gen_value(rng, out, true);
        }
    }
}

fn gen_filter(rng: &mut StdRng, depth: u32, out: &mut Vec<u8>) {
    out.push(b'(');
    let r = rng.gen_range(0..10);
    if depth > 0 && r < 4 {
        out.push(if r < 2 { b'&' } else { b'|' });
        // mostly 1..3 sub-filters, now and then the empty list of RFC 4526
        let n = if rng.gen_range(0..12) == 0 { 0 } else { rng.gen_range(1..4) };
        for _ in 0..n {
            gen_filter(rng, depth - 1, out);
        }
    } else if depth > 0 && r == 4 {
        out.push(b'!');
        gen_filter(rng, depth - 1, out);
    } else {
        gen_item(rng, out);
    }
    out.push(b')');
}

fn positions(s: &[u8], pred: impl Fn(u8) -> bool) -> Vec<usize> {
    s.iter().enumerate().filter(|(_, &c)| pred(c)).map(|(i, _)| i).collect()
}

fn pick(rng: &mut StdRng, v: &[usize]) -> Option<usize> {
    if v.is_empty() {
        None
    } else {
        Some(v[rng.gen_range(0..v.len())])
    }
}

const GENERATORS: &[&str] = &[
    "valid", "valid-bare", "drop-paren", "dup-paren", "append-text", "truncate-escape", "inject-special", "empty-attribute",
    "double-asterisk", "non-ascii", "nul", "upper-dn", "random-bytes", "random-alphabet", "long-value", "deep-nesting", "whitespace",
    "bad-attribute",
];

/// A mutation that happens not to change the string (nothing to mutate in that filter) is retried on a fresh one.
fn generate(rng: &mut StdRng, gen: &str) -> Vec<u8> {
    for _ in 0..12 {
        let (base, s) = generate_once(rng, gen);
        if base != s || matches!(gen, "valid" | "valid-bare" | "random-bytes" | "random-alphabet" | "long-value" | "deep-nesting" | "upper-dn" | "bad-attribute") {
            return s;
        }
    }
    generate_once(rng, gen).1
}

fn generate_once(rng: &mut StdRng, gen: &str) -> (Vec<u8>, Vec<u8>) {
    let mut s = vec![];
    match gen {
        "random-bytes" => {
            for _ in 0..rng.gen_range(0..10) {
                s.push(rng.gen());
            }
            return (vec![], s);
        }
        "random-alphabet" => {
            let al = b"()&|!=*\\a2:~dn;.-<> 0f";
            for _ in 0..rng.gen_range(0..16) {
                s.push(al[rng.gen_range(0..al.len())]);
            }
            return (vec![], s);
        }
        "long-value" => {
            let n = *[110usize, 120, 121, 122, 123, 124, 125, 126, 127, 128, 129, 130, 200, 255, 256, 257, 300].get(rng.gen_range(0..17)).unwrap();
            let body: Vec<u8> = (0..n).map(|i| if i % 17 == 5 && rng.gen_bool(0.3) { b'*' } else { b'a' + (i % 26) as u8 }).collect();
            match rng.gen_range(0..4) {
                0 => s.extend_from_slice(b"(cn="),
                1 => s.extend_from_slice(b"(&(a=b)(cn:dn:2.5.13.5:="),
                2 => s.extend_from_slice(b"(|(cn>="),
                _ => s.extend_from_slice(b"(!(description="),
            }
            let has_star = s.ends_with(b"n=") || s.ends_with(b"description=");
            s.extend(body.iter().map(|&c| if c == b'*' && !has_star { b'x' } else { c }));
            let opens = s.iter().filter(|&&c| c == b'(').count() - s.iter().filter(|&&c| c == b')').count();
            for _ in 0..opens {
                s.push(b')');
            }
            return (vec![], s);
        }
        "deep-nesting" => {
            let k = rng.gen_range(1..70);
            let w = rng.gen_range(0..3);
            for _ in 0..k {
                s.extend_from_slice([&b"(!"[..], &b"(&"[..], &b"(|"[..]][w]);
            }
            s.extend_from_slice(b"(a=b)");
            let closes = if rng.gen_bool(0.7) { k } else { k - 1 + 2 * rng.gen_range(0..2) };
            for _ in 0..closes {
                s.push(b')');
            }
            return (vec![], s);
        }
        _ => {}
    }
    gen_filter(rng, 3, &mut s);
    let base = s.clone();
    match gen {
        "valid" => {}
        "valid-bare" => {
            s.clear();
            gen_item(rng, &mut s);
        }
        "drop-paren" => {
            if let Some(i) = pick(rng, &positions(&s, |c| c == b'(' || c == b')')) {
                s.remove(i);
            }
        }
        "dup-paren" => {
            if let Some(i) = pick(rng, &positions(&s, |c| c == b'(' || c == b')')) {
                let c = s[i];
                s.insert(i, c);
            }
        }
        "append-text" => {
            let t: &[&[u8]] = &[b")", b"(", b"x", b"(a=b)", b" ", b"\\", b"*", b"garbage", b"\0", b"=", b"))"];
            s.extend_from_slice(t[rng.gen_range(0..t.len())]);
        }
        "truncate-escape" => {
            let bs = positions(&s, |c| c == b'\\');
            if let Some(i) = pick(rng, &bs) {
                // remove one or both hex digits, or replace one by a non-hex character
                match rng.gen_range(0..4) {
                    0 => {
                        s.remove(i + 2);
                    }
                    1 => {
                        s.drain(i + 1..i + 3);
                    }
                    2 => s[i + 1] = b'g',
                    _ => s[i + 2] = b'x',
                }
            } else {
                let at = s.len() - 1;
                let t: &[&[u8]] = &[b"\\", b"\\4", b"\\g0", b"\\0g", b"\\ 41"];
                for (k, c) in t[rng.gen_range(0..t.len())].iter().enumerate() {
                    s.insert(at + k, *c);
                }
            }
        }
        "inject-special" => {
            let eqs = positions(&s, |c| c == b'=');
            if let Some(i) = pick(rng, &eqs) {
                let at = rng.gen_range(i + 1..s.len());
                s.insert(at, *b"()*\\\0".get(rng.gen_range(0..5)).unwrap());
            }
        }
        "empty-attribute" => {
            // delete the attribute description of one item: from after "(" up to the operator
            let starts: Vec<usize> = (0..s.len() - 1).filter(|&i| s[i] == b'(' && s[i + 1].is_ascii_alphanumeric()).collect();
            if let Some(i) = pick(rng, &starts) {
                let mut j = i + 1;
                while j < s.len() && !matches!(s[j], b'=' | b'~' | b'<' | b'>' | b':' | b')') {
                    j += 1;
                }
                s.drain(i + 1..j);
            }
        }
        "double-asterisk" => {
            if let Some(i) = pick(rng, &positions(&s, |c| c == b'*')) {
                s.insert(i, b'*');
            } else if let Some(i) = pick(rng, &positions(&s, |c| c == b'=')) {
                s.insert(i + 1, b'*');
                s.insert(i + 1, b'*');
            }
        }
        "non-ascii" => {
            let t: &[&[u8]] = &[
                "ć".as_bytes(), "€".as_bytes(), "𝄞".as_bytes(), b"\x80", b"\xff", b"\xc4", b"\xc0\x80", b"\xed\xa0\x80", b"\xe2\x82", b"\xf4\x90\x80\x80", b"\xc4\\87",
            ];
            let ins = t[rng.gen_range(0..t.len())];
            // mostly inside a value, sometimes anywhere (e.g. in the attribute description)
            let at = match pick(rng, &positions(&s, |c| c == b'=')) {
                Some(i) if rng.gen_bool(0.8) => i + 1,
                _ => rng.gen_range(0..=s.len()),
            };
            for (k, c) in ins.iter().enumerate() {
                s.insert(at + k, *c);
            }
        }
        "nul" => {
            let at = rng.gen_range(0..=s.len());
            s.insert(at, 0);
        }
        "upper-dn" => {
            s.clear();
            let attr = ATTRS[rng.gen_range(0..ATTRS.len())].as_bytes();
            s.push(b'(');
            if rng.gen_bool(0.7) {
                s.extend_from_slice(attr);
            }
            s.extend_from_slice([&b":DN"[..], &b":Dn"[..], &b":dN"[..], &b":dn"[..]][rng.gen_range(0..4)]);
            if rng.gen_bool(0.6) {
                s.push(b':');
                s.extend_from_slice(RULES[rng.gen_range(0..RULES.len())].as_bytes());
            }
            s.extend_from_slice(b":=");
            gen_value(rng, &mut s, true);
            s.push(b')');
        }
        "whitespace" => {
            let at = match rng.gen_range(0..4) {
                0 => 0,
                1 => s.len(),
                2 => 1,
                _ => rng.gen_range(0..=s.len()),
            };
            s.insert(at, b' ');
        }
        "bad-attribute" => {
            s.clear();
            let t: &[&str] = &["1.02", "01.2", "2.", ".2", "2..5", "a;", "a;;x", "a_b", "-a", "1a", "a.b", "2.5.4.3;", "a b", "", "cn;x y", "0", "00", "a;x;y-"];
            s.push(b'(');
            s.extend_from_slice(t[rng.gen_range(0..t.len())].as_bytes());
            s.extend_from_slice([&b"=v"[..], &b":=v"[..], &b">=v"[..], &b"=*"[..], &b":dn:=v"[..], &b"=a*b"[..]][rng.gen_range(0..6)]);
            s.push(b')');
        }
        _ => unreachable!(),
    }
    (base, s)
}

fn trace(out: &str, count: u64, rep: &mut Report) {
    let mut rng = StdRng::seed_from_u64(seed_from_env() ^ 0xC08);
    let mut f = std::io::BufWriter::new(std::fs::File::create(out).expect("create trace"));
    for i in 0..count {
        let gen = GENERATORS[(i as usize) % GENERATORS.len()];
        let s = generate(&mut rng, gen);
        rep.count(&format!("gen:{}", gen));
        let (ok, ber) = match compile(&s) {
            Outcome::Accept(b) => {
                rep.count("accepted");
                rep.count(&format!("accepted:{}", gen));
                (true, b)
            }
            Outcome::Reject => {
                rep.count("rejected");
                (false, vec![])
            }
            Outcome::Panic(p) => {
                // a panic is a violation by itself; it is reported here (class = the panic message) and kept out of the trace
                let msg: String = p.chars().take(48).map(|c| if c.is_ascii_alphanumeric() { c } else { '-' }).collect();
                rep.mismatch(&format!("panic:{}", msg), json!({"gen": gen, "filter": show(&s), "s": hex(&s), "panic": p}));
                rep.count("panicked");
                rep.eval(true, hash_of(&s));
                continue;
            }
        };
        rep.eval(s.len() > 3, hash_of(&s));
        if (i as usize) < 3 * GENERATORS.len() && i % 13 == 0 {
            rep.sample(json!({"gen": gen, "filter": show(&s), "ok": ok, "ber": hex(&ber)}));
        }
        writeln!(f, "{}", json!({"s": s, "ok": ok, "ber": ber, "gen": gen})).unwrap();
    }
    f.flush().unwrap();
}

fn main() {
    verif_harness::silence_panics();
    let a: Vec<String> = std::env::args().collect();
    if a.len() < 4 {
        eprintln!("usage: filter-run replay <tlc-output> <report.json> [extra.ndjson] | trace <out.ndjson> <count> <report.json>");
        std::process::exit(2);
    }
    match a[1].as_str() {
        "replay" => {
            let mut rep = Report::new("filter-replay");
            replay(&a[2], a.get(4).map(|s| s.as_str()), &mut rep);
            rep.write(&a[3]);
        }
        "trace" if a.len() >= 5 => {
            let mut rep = Report::new("filter-trace");
            trace(&a[2], a[3].parse().expect("count"), &mut rep);
            rep.write(&a[4]);
        }
        "probe" => {
            let mut f = std::io::BufWriter::new(std::fs::File::create(&a[2]).expect("create probe output"));
            for h in &a[3..] {
                let s = verif_harness::unhex(h);
                let (ok, ber, panic) = match compile(&s) {
                    Outcome::Accept(b) => (true, b, String::new()),
                    Outcome::Reject => (false, vec![], String::new()),
                    Outcome::Panic(p) => (false, vec![], format!("panic: {}", p)),
                };
                writeln!(f, "{}", json!({"s": s, "ok": ok, "ber": ber, "gen": "probe", "panic": panic})).unwrap();
            }
            f.flush().unwrap();
        }
        _ => {
            eprintln!("unknown mode {}", a[1]);
            std::process::exit(2);
        }
    }
}
