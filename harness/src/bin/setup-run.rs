//! setup-run (C17, C18): connection setup of ldap3 against spec/Setup.tla.
//!
//!   setup-run replay rows <tlc-output> <report.json> <obs.ndjson> [spellings-per-row|all]
//!        S -> I for C18: every VEC line of an MCSetupRows run (one decision-table row + URL spellings) is
//!        instantiated with loopback listeners / Unix sockets / pre-opened streams and given to BOTH
//!        LdapConnAsync::with_settings and LdapConn::with_settings; the observation is compared with the
//!        outcome TLC printed and written as a record for TraceSetup (which recomputes Decide).
//!   setup-run replay est  <tlc-output> <report.json> <obs.ndjson>
//!        S -> I for C17: every VEC line of an MCSetupEst run (configuration + adversary script) is played by a
//!        scripted loopback server; the observed event sequence goes to TraceSetup.
//!   setup-run trace <out.ndjson> <count> <report.json>
//!        I -> S for C18: seeded random URL strings (grammar + byte mutation) x settings -> observations; the URL
//!        class is taken from the `url` crate's parse (trusted).
//!   setup-run probe <url> [starttls] [timeout]
//!
//! The oracle is never computed here: `replay` compares with what TLC printed, the ndjson records are judged
//! by TLC (TraceSetup).  The `key` field of a record only *names* the class of a rejected record.
//! Infrastructure trouble (openssl, bind of an ephemeral port, ...) ends the process with exit 2.
//! Work directory: $VERIF_SETUP_DIR (default /verif/run/setup-run-<pid>); nothing is written elsewhere.

use ldap3::{LdapConn, LdapConnAsync, LdapConnSettings, LdapError, StdStream};
use rand::{rngs::StdRng, Rng, SeedableRng};
use serde_json::{json, Value};
use std::io::Write;
use std::net::SocketAddr;
use std::path::{Path, PathBuf};
use std::pin::Pin;
use std::sync::{Arc, Mutex};
use std::task::{Context, Poll};
use std::time::{Duration, Instant};
use tokio::io::{AsyncRead, AsyncReadExt, AsyncWrite, AsyncWriteExt, ReadBuf};
use tokio::net::{TcpListener, TcpSocket, UnixListener};
use verif_harness::report::{hash_of, Report};
use verif_harness::{ber, seed_from_env, tlcout};

const STARTTLS_OID: &[u8] = b"1.3.6.1.4.1.1466.20037";
/// the "short" connection timeout of the specification
const SHORT_MS: u64 = 1500;
/// a call that has a timeout configured and takes longer than SHORT_MS + LATE_MS is "late"
/// decision rows use a connector that is cheap to build, so their short timeout can be shorter
const ROW_SHORT_MS: u64 = 600;
const LATE_MS: u64 = 2500;
/// bound after which a call is "pending" when the specification allows pending / when it does not
const PENDING_OK_MS: u64 = 1200;
const HANG_MS: u64 = 5000;
const BIND_MS: u64 = 4000;

fn infra(msg: &str) -> ! {
    eprintln!("setup-run: infrastructure problem: {}", msg);
    std::process::exit(2);
}

// ---------------------------------------------------------------------------------------------- certificates

#[derive(Clone)]
struct Tls {
    acceptors: std::collections::HashMap<String, tokio_native_tls::TlsAcceptor>,
    /// trusts the test CA, checks chain and name
    custom: native_tls::TlsConnector,
    /// trusts the test CA, checks the chain but not the name (decision rows with an IPv6 literal: ldap3 hands the
    /// bracketed form "[::1]" to the TLS library as the name to verify, which no certificate can match)
    custom_anyname: native_tls::TlsConnector,
    custom_nosni: native_tls::TlsConnector, // trusts the test CA, checks the name, sends no server_name extension
    /// blocking acceptor with the CA-signed localhost leaf (for peers that run on plain threads)
    acceptors_std: native_tls::TlsAcceptor,
}

fn sh(dir: &Path, args: &[&str]) {
    let out = std::process::Command::new("openssl").args(args).current_dir(dir).output();
    match out {
        Ok(o) if o.status.success() => {}
        Ok(o) => infra(&format!("openssl {:?} failed: {}", args, String::from_utf8_lossy(&o.stderr))),
        Err(e) => infra(&format!("cannot run the openssl CLI: {}", e)),
    }
}

/// A private CA, a leaf for localhost signed by it ("trusted" for a connector that knows the CA), a leaf for
/// another name signed by it ("wrongName") and a self-signed leaf for localhost ("untrusted").
fn make_tls(dir: &Path) -> Tls {
    let d = dir.join("certs");
    std::fs::create_dir_all(&d).unwrap_or_else(|e| infra(&format!("mkdir {:?}: {}", d, e)));
    let ec = ["-newkey", "ec", "-pkeyopt", "ec_paramgen_curve:prime256v1", "-nodes"];
    let mut a = vec!["req", "-x509"];
    a.extend(ec);
    a.extend(["-keyout", "ca.key", "-out", "ca.pem", "-subj", "/CN=verif setup-run test CA", "-days", "3",
              "-addext", "basicConstraints=critical,CA:TRUE", "-addext", "keyUsage=critical,keyCertSign,cRLSign"]);
    sh(&d, &a);
    for (name, cn, san) in [("good", "/CN=localhost", "DNS:localhost,IP:127.0.0.1,IP:127.0.0.2,IP:::1"),
                            ("wrong", "/CN=wrong.example", "DNS:wrong.example")] {
        let (key, csr, ext, pem, p8) = (format!("{name}.key"), format!("{name}.csr"), format!("{name}.ext"),
                                        format!("{name}.pem"), format!("{name}.p8"));
        let mut a = vec!["req"];
        a.extend(ec);
        a.extend(["-keyout", &key, "-out", &csr, "-subj", cn]);
        sh(&d, &a);
        std::fs::write(d.join(&ext), format!("subjectAltName={san}\nbasicConstraints=CA:FALSE\n")).unwrap();
        sh(&d, &["x509", "-req", "-in", &csr, "-CA", "ca.pem", "-CAkey", "ca.key", "-CAcreateserial", "-out", &pem,
                 "-days", "3", "-extfile", &ext]);
        sh(&d, &["pkcs8", "-topk8", "-nocrypt", "-in", &key, "-out", &p8]);
    }
    let mut a = vec!["req", "-x509"];
    a.extend(ec);
    a.extend(["-keyout", "self.key", "-out", "self.pem", "-subj", "/CN=localhost", "-days", "3",
              "-addext", "subjectAltName=DNS:localhost,IP:127.0.0.1"]);
    sh(&d, &a);
    sh(&d, &["pkcs8", "-topk8", "-nocrypt", "-in", "self.key", "-out", "self.p8"]);
    let rd = |n: &str| std::fs::read(d.join(n)).unwrap_or_else(|e| infra(&format!("read {}: {}", n, e)));
    let mut acceptors = std::collections::HashMap::new();
    let mut acceptors_std = None;
    for (kind, name) in [("trusted", "good"), ("wrongName", "wrong"), ("untrusted", "self")] {
        let id = native_tls::Identity::from_pkcs8(&rd(&format!("{name}.pem")), &rd(&format!("{name}.p8")))
            .unwrap_or_else(|e| infra(&format!("identity {}: {}", name, e)));
        let acc = native_tls::TlsAcceptor::new(id).unwrap_or_else(|e| infra(&format!("acceptor {}: {}", name, e)));
        if kind == "trusted" {
            acceptors_std = Some(acc.clone());
        }
        acceptors.insert(kind.to_string(), tokio_native_tls::TlsAcceptor::from(acc));
    }
    let ca = native_tls::Certificate::from_pem(&rd("ca.pem")).unwrap_or_else(|e| infra(&format!("ca: {}", e)));
    let custom = native_tls::TlsConnector::builder()
        .add_root_certificate(ca.clone())
        .build()
        .unwrap_or_else(|e| infra(&format!("connector: {}", e)));
    let custom_nosni = native_tls::TlsConnector::builder()
        .add_root_certificate(ca.clone())
        .use_sni(false)
        .build()
        .unwrap_or_else(|e| infra(&format!("connector: {}", e)));
    let custom_anyname = native_tls::TlsConnector::builder()
        .add_root_certificate(ca)
        .danger_accept_invalid_hostnames(true)
        .build()
        .unwrap_or_else(|e| infra(&format!("connector: {}", e)));
    Tls { acceptors, custom, custom_anyname, custom_nosni, acceptors_std: acceptors_std.unwrap() }
}

// ---------------------------------------------------------------------------------------------- scripted server

type Log = Arc<Mutex<Vec<Value>>>;
fn logev(log: &Log, v: Value) {
    log.lock().unwrap().push(v);
}

/// Replays `pre` before reading from the inner stream (bytes consumed while sniffing the protocol).
struct Prefixed<S> {
    pre: Vec<u8>,
    pos: usize,
    inner: S,
}
impl<S: AsyncRead + Unpin> AsyncRead for Prefixed<S> {
    fn poll_read(mut self: Pin<&mut Self>, cx: &mut Context<'_>, buf: &mut ReadBuf<'_>) -> Poll<std::io::Result<()>> {
        if self.pos < self.pre.len() {
            let n = std::cmp::min(buf.remaining(), self.pre.len() - self.pos);
            let p = self.pos;
            buf.put_slice(&self.pre[p..p + n]);
            self.pos += n;
            return Poll::Ready(Ok(()));
        }
        Pin::new(&mut self.inner).poll_read(cx, buf)
    }
}
impl<S: AsyncWrite + Unpin> AsyncWrite for Prefixed<S> {
    fn poll_write(mut self: Pin<&mut Self>, cx: &mut Context<'_>, b: &[u8]) -> Poll<std::io::Result<usize>> {
        Pin::new(&mut self.inner).poll_write(cx, b)
    }
    fn poll_flush(mut self: Pin<&mut Self>, cx: &mut Context<'_>) -> Poll<std::io::Result<()>> {
        Pin::new(&mut self.inner).poll_flush(cx)
    }
    fn poll_shutdown(mut self: Pin<&mut Self>, cx: &mut Context<'_>) -> Poll<std::io::Result<()>> {
        Pin::new(&mut self.inner).poll_shutdown(cx)
    }
}

/// What the server does (the adversary script of Setup.tla; the honest server is resp=success, hs=trusted).
#[derive(Clone, Debug)]
struct Behave {
    silent: bool,       // accept, read, never write
    ldaps_inject: bool, // write a cleartext BindResponse(success) as soon as the connection is accepted
    resp: String,       // success | refuse | garbage | close | hangup | wrongid | stall
    rc: i64,
    inj: String, // none | before | with | after
    hs: String,  // trusted | untrusted | wrongName | stall | close | garbage
}
impl Behave {
    fn honest() -> Behave {
        Behave { silent: false, ldaps_inject: false, resp: "success".into(), rc: 0, inj: "none".into(), hs: "trusted".into() }
    }
    fn silent() -> Behave {
        Behave { silent: true, ..Behave::honest() }
    }
}

enum Pdu {
    StartTls(i64),
    Bind(i64),
    Unbind,
    Other,
}

fn classify(el: &ber::El) -> Option<Pdu> {
    if !(el.class == 0 && el.cons && el.num == 16) || el.kids.len() < 2 {
        return None;
    }
    let idel = &el.kids[0];
    if !(idel.class == 0 && !idel.cons && idel.num == 2) {
        return None;
    }
    let id = ber::uint_of(&idel.val);
    let op = &el.kids[1];
    if op.class != 1 {
        return None;
    }
    Some(match op.num {
        0 => Pdu::Bind(id),
        2 => Pdu::Unbind,
        23 => {
            if op.kids.first().map(|k| k.class == 2 && k.num == 0 && k.val == STARTTLS_OID).unwrap_or(false) && op.kids.len() == 1 {
                Pdu::StartTls(id)
            } else {
                Pdu::Other
            }
        }
        _ => Pdu::Other,
    })
}

fn bind_response(id: i64, rc: i64) -> Vec<u8> {
    ber::message(id, ber::ldap_result(1, rc, b"", if rc == 0 { b"injected" } else { b"real" }, &[]), None)
}
fn ext_response(id: i64, rc: i64) -> Vec<u8> {
    let rc = if rc == 1_000_000 { 1i64 << 32 } else { rc }; // the specification's stand-in for 2^32
    let extra = if rc == 0 { vec![ber::tlv(0x8a, STARTTLS_OID)] } else { vec![] };
    ber::message(id, ber::ldap_result(24, rc, b"", b"", &extra), None)
}

/// LDAP service on an established channel (cleartext or inside TLS): binds are answered with 49.
async fn ldap_loop<S: AsyncRead + AsyncWrite + Unpin>(s: &mut S, mut buf: Vec<u8>, chan: &str, at: &str, log: &Log, write: bool) {
    let mut tmp = [0u8; 4096];
    loop {
        loop {
            match ber::decode(&buf) {
                Some((el, n)) => {
                    buf.drain(..n);
                    match classify(&el) {
                        Some(Pdu::Bind(id)) => {
                            logev(log, json!({"e": "bindseen", "ch": chan, "at": at}));
                            if write {
                                let _ = s.write_all(&bind_response(id, 49)).await;
                            }
                        }
                        Some(Pdu::Unbind) => return,
                        Some(Pdu::StartTls(_)) => logev(log, json!({"e": "clear", "k": "starttls", "at": at, "ch": chan})),
                        Some(Pdu::Other) | None => logev(log, json!({"e": "clear", "k": "other", "at": at, "ch": chan})),
                    }
                }
                None => break,
            }
        }
        if !buf.is_empty() && buf[0] != 0x30 {
            logev(log, json!({"e": "clear", "k": "junk", "at": at, "ch": chan, "first": buf[0]}));
            buf.clear();
        }
        match s.read(&mut tmp).await {
            Ok(0) | Err(_) => return,
            Ok(n) => buf.extend_from_slice(&tmp[..n]),
        }
    }
}

/// One accepted connection.  Everything observable is appended to `log`:
///   accept, clear(k) for each cleartext PDU, hello (first byte of a TLS record), tlsdone/tlsfail (server side of
///   the handshake; not an event of the machine), bindseen(ch).
async fn session<S: AsyncRead + AsyncWrite + Unpin + Send + 'static>(mut raw: S, b: Behave, tls: Tls, at: String, fam: String, log: Log, announce: bool) {
    if announce {
        logev(&log, json!({"e": "accept", "at": at, "fam": fam}));
    }
    let mut buf: Vec<u8> = vec![];
    let mut tmp = [0u8; 4096];
    if b.resp == "hangup" && !b.silent {
        let _ = raw.shutdown().await;
        return;
    }
    if b.ldaps_inject && !b.silent {
        let _ = raw.write_all(&bind_response(1, 0)).await;
    }
    let mut answered = false; // the StartTLS request has been dealt with
    let mut mute = b.silent;
    loop {
        // consume what is in the buffer
        if !buf.is_empty() && buf[0] == 0x16 {
            logev(&log, json!({"e": "hello", "at": at, "fam": fam}));
            break;
        }
        let mut progressed = false;
        while let Some((el, n)) = ber::decode(&buf) {
            progressed = true;
            buf.drain(..n);
            match classify(&el) {
                Some(Pdu::StartTls(id)) => {
                    logev(&log, json!({"e": "clear", "k": "starttls", "id": id, "at": at, "fam": fam}));
                    if mute || answered {
                        continue;
                    }
                    answered = true;
                    match b.resp.as_str() {
                        "success" => {
                            let mut w = vec![];
                            if b.inj == "before" {
                                w.extend(bind_response(id + 1, 0));
                            }
                            w.extend(ext_response(id, 0));
                            if b.inj == "with" {
                                w.extend(bind_response(id + 1, 0));
                            }
                            let _ = raw.write_all(&w).await;
                            let _ = raw.flush().await;
                            if b.inj == "after" {
                                tokio::time::sleep(Duration::from_millis(40)).await;
                                let _ = raw.write_all(&bind_response(id + 1, 0)).await;
                            }
                        }
                        "refuse" => {
                            let _ = raw.write_all(&ext_response(id, b.rc)).await;
                        }
                        "garbage" => {
                            // a complete element that is no LDAPMessage: a primitive OCTET STRING (an incomplete one
                            // would legitimately leave the client waiting for the rest)
                            let _ = raw.write_all(&[0x04, 0x03, 0x61, 0x62, 0x63]).await;
                        }
                        "wrongid" => {
                            let _ = raw.write_all(&ext_response(id + 6, 0)).await;
                        }
                        "close" => {
                            let _ = raw.shutdown().await;
                            return;
                        }
                        _ => mute = true, // stall
                    }
                }
                Some(Pdu::Bind(id)) => {
                    logev(&log, json!({"e": "bindseen", "ch": "clear", "at": at, "fam": fam}));
                    if !mute {
                        let _ = raw.write_all(&bind_response(id, 49)).await;
                    }
                }
                Some(Pdu::Unbind) => {
                    // an UnbindRequest in the clear is an LDAP message in the clear like any other
                    logev(&log, json!({"e": "clear", "k": "unbind", "at": at, "fam": fam}));
                    return;
                }
                Some(Pdu::Other) | None => logev(&log, json!({"e": "clear", "k": "other", "at": at, "fam": fam})),
            }
        }
        if !buf.is_empty() && buf[0] != 0x30 && buf[0] != 0x16 {
            logev(&log, json!({"e": "clear", "k": "junk", "at": at, "fam": fam, "first": buf[0]}));
            buf.clear();
            progressed = true;
        }
        if progressed {
            continue;
        }
        match raw.read(&mut tmp).await {
            Ok(0) | Err(_) => return,
            Ok(n) => buf.extend_from_slice(&tmp[..n]),
        }
    }
    // a ClientHello is at the front of buf
    if mute || b.hs == "stall" {
        while let Ok(n) = raw.read(&mut tmp).await {
            if n == 0 {
                break;
            }
        }
        return;
    }
    match b.hs.as_str() {
        "close" => {
            let _ = raw.shutdown().await;
        }
        "garbage" => {
            let _ = raw.write_all(b"HTTP/1.1 400 Bad Request\r\nContent-Length: 0\r\n\r\n this is not a TLS record at all .........").await;
            while let Ok(n) = raw.read(&mut tmp).await {
                if n == 0 {
                    break;
                }
            }
        }
        kind => {
            let acc = tls.acceptors.get(kind).cloned().unwrap_or_else(|| infra("unknown certificate kind"));
            match acc.accept(Prefixed { pre: buf, pos: 0, inner: raw }).await {
                Ok(mut t) => {
                    logev(&log, json!({"e": "tlsdone", "at": at}));
                    ldap_loop(&mut t, vec![], "tls", &at, &log, true).await;
                    let _ = t.shutdown().await;
                }
                Err(e) => logev(&log, json!({"e": "tlsfail", "at": at, "why": e.to_string()})),
            }
        }
    }
}

struct Listener {
    port: u16,
    task: tokio::task::JoinHandle<()>,
}
impl Listener {
    /// Stop accepting and wait until the listening socket is really closed (the port can be bound again).
    async fn close(mut self) {
        self.task.abort();
        let _ = (&mut self.task).await;
    }
}
impl Drop for Listener {
    fn drop(&mut self) {
        self.task.abort();
    }
}

fn tcp_socket(addr: SocketAddr) -> std::io::Result<TcpSocket> {
    let s = if addr.is_ipv4() { TcpSocket::new_v4()? } else { TcpSocket::new_v6()? };
    s.set_reuseaddr(true)?;
    s.bind(addr)?;
    Ok(s)
}

fn fam_of(addr: &SocketAddr) -> &'static str {
    if addr.is_ipv4() {
        "v4"
    } else {
        "v6"
    }
}

fn serve_tcp(l: TcpListener, b: Behave, tls: Tls, at: &str, fam: &str, log: Log) -> tokio::task::JoinHandle<()> {
    let (at, fam) = (at.to_string(), fam.to_string());
    tokio::spawn(async move {
        loop {
            match l.accept().await {
                Ok((s, _)) => {
                    let _ = s.set_nodelay(true);
                    tokio::spawn(tokio::time::timeout(
                        Duration::from_secs(10),
                        session(s, b.clone(), tls.clone(), at.clone(), fam.clone(), log.clone(), true),
                    ));
                }
                Err(_) => return,
            }
        }
    })
}

fn listen_tcp(addr: SocketAddr, b: Behave, tls: &Tls, at: &str, log: &Log) -> std::io::Result<Listener> {
    let l = tcp_socket(addr)?.listen(64)?;
    let port = l.local_addr()?.port();
    Ok(Listener { port, task: serve_tcp(l, b, tls.clone(), at, fam_of(&addr), log.clone()) })
}

fn listen_unix(path: &Path, b: Behave, tls: &Tls, at: &str, log: &Log) -> std::io::Result<Listener> {
    let _ = std::fs::remove_file(path);
    let l = UnixListener::bind(path)?;
    let (at, tls, log) = (at.to_string(), tls.clone(), log.clone());
    let task = tokio::spawn(async move {
        loop {
            match l.accept().await {
                Ok((s, _)) => {
                    tokio::spawn(tokio::time::timeout(
                        Duration::from_secs(10),
                        session(s, b.clone(), tls.clone(), at.clone(), "unix".into(), log.clone(), true),
                    ));
                }
                Err(_) => return,
            }
        }
    });
    Ok(Listener { port: 0, task })
}

/// A port nothing listens on: bound (so that nobody else gets it) but never listening.
fn reserve_refused(addr: SocketAddr) -> std::io::Result<(TcpSocket, u16)> {
    let s = if addr.is_ipv4() { TcpSocket::new_v4()? } else { TcpSocket::new_v6()? };
    s.bind(addr)?;
    let p = s.local_addr()?.port();
    Ok((s, p))
}

// ---------------------------------------------------------------------------------------------- client side

fn err_class(e: &LdapError) -> String {
    match e {
        LdapError::EmptyUnixPath => "EmptyUnixPath",
        LdapError::PortInUnixPath => "PortInUnixPath",
        LdapError::MismatchedStreamType => "MismatchedStreamType",
        LdapError::Io { .. } => "Io",
        LdapError::OpSend { .. } => "OpSend",
        LdapError::ResultRecv { .. } => "ResultRecv",
        LdapError::Timeout { .. } => "Timeout",
        LdapError::UrlParsing { .. } => "UrlParsing",
        LdapError::UnknownScheme(_) => "UnknownScheme",
        LdapError::NativeTLS { .. } => "Tls",
        LdapError::LdapResult { .. } => "LdapResult",
        LdapError::EndOfStream => "EndOfStream",
        _ => "Other",
    }
    .to_string()
}

/// Result of one bounded call of with_settings (+ the bind that follows a success).
#[derive(Debug, Clone)]
struct CallObs {
    result: String, // ok | err | pending | panic
    cls: String,
    detail: String,
    ms: u64,
    bind: Option<i64>, // rc of the bind after establishment, -1 = error/timeout
    held: i64,         // message IDs the handle's bookkeeping holds at the moment establishment returned (-1 = not observed)
}

fn panic_text(e: Box<dyn std::any::Any + Send>) -> String {
    if let Some(s) = e.downcast_ref::<&str>() {
        s.to_string()
    } else if let Some(s) = e.downcast_ref::<String>() {
        s.clone()
    } else {
        "panic".into()
    }
}

async fn call_async(settings: LdapConnSettings, url: String, bound_ms: u64, log: Option<Log>) -> CallObs {
    let t0 = Instant::now();
    let h = tokio::spawn(async move { LdapConnAsync::with_settings(settings, &url).await });
    let ah = h.abort_handle();
    let r = tokio::time::timeout(Duration::from_millis(bound_ms), h).await;
    let ms = t0.elapsed().as_millis() as u64;
    let mut o = CallObs { result: String::new(), cls: String::new(), detail: String::new(), ms, bind: None, held: -1 };
    match r {
        Err(_) => {
            ah.abort();
            o.result = "pending".into();
        }
        Ok(Err(je)) => {
            o.result = "panic".into();
            o.detail = if je.is_panic() { panic_text(je.into_panic()) } else { "cancelled".into() };
        }
        Ok(Ok(Err(e))) => {
            o.result = "err".into();
            o.cls = err_class(&e);
            o.detail = e.to_string();
        }
        Ok(Ok(Ok((conn, mut ldap)))) => {
            o.result = "ok".into();
            // nothing is outstanding when with_settings() returns: whatever the establishment exchanged (the StartTLS
            // request) must have given its message ID back
            o.held = ldap.verif_msgmap().1.len() as i64;
            if let Some(l) = &log {
                logev(l, json!({"e": "result", "r": "ok", "held": o.held}));
            }
            let drv = tokio::spawn(async move {
                let _ = conn.drive().await;
            });
            ldap.with_timeout(Duration::from_millis(BIND_MS));
            let b = ldap.simple_bind("cn=probe,dc=example", "secret").await;
            o.bind = Some(match b {
                Ok(r) => r.rc as i64,
                Err(_) => -1,
            });
            let _ = tokio::time::timeout(Duration::from_millis(200), ldap.unbind()).await;
            drv.abort();
        }
    }
    o
}

fn call_sync(settings: LdapConnSettings, url: String, bound_ms: u64) -> CallObs {
    let t0 = Instant::now();
    let (tx, rx) = std::sync::mpsc::channel();
    let th = std::thread::Builder::new().name("sync-client".into()).spawn(move || {
        let r = std::panic::catch_unwind(std::panic::AssertUnwindSafe(|| LdapConn::with_settings(settings, &url)));
        match r {
            Err(p) => {
                let _ = tx.send(("panic".to_string(), String::new(), panic_text(p), None));
            }
            Ok(Err(e)) => {
                let _ = tx.send(("err".to_string(), err_class(&e), e.to_string(), None));
            }
            Ok(Ok(mut conn)) => {
                // report the establishment first: the bind below may take BIND_MS
                let b = std::panic::catch_unwind(std::panic::AssertUnwindSafe(|| {
                    conn.with_timeout(Duration::from_millis(BIND_MS));
                    let b = conn.simple_bind("cn=probe,dc=example", "secret");
                    let _ = conn.unbind();
                    match b {
                        Ok(r) => r.rc as i64,
                        Err(_) => -1,
                    }
                }));
                let _ = tx.send(("ok".to_string(), String::new(), String::new(), Some(b.unwrap_or(-2))));
            }
        }
    });
    if th.is_err() {
        infra("cannot spawn a thread");
    }
    match rx.recv_timeout(Duration::from_millis(bound_ms + BIND_MS + 300)) {
        Ok((result, cls, detail, bind)) => {
            let mut ms = t0.elapsed().as_millis() as u64;
            if result == "ok" {
                ms = ms.saturating_sub(BIND_MS); // upper bound of the bind's share when it timed out; only used for `late`
            }
            CallObs { result, cls, detail, ms, bind, held: -1 }
        }
        Err(_) => CallObs { result: "pending".into(), cls: String::new(), detail: String::new(), ms: t0.elapsed().as_millis() as u64, bind: None, held: -1 },
    }
}

// ---------------------------------------------------------------------------------------------- C17: adversary scripts

fn s(v: &Value, k: &str) -> String {
    v[k].as_str().unwrap_or("").to_string()
}

fn est_key(cfg: &Value, sc: &Value, o: &CallObs, evs: &[Value], verdict: &[String]) -> String {
    // an honest flow that ran into the configured timeout says something about the machine, not about the code
    if o.result == "err" && o.cls == "Timeout" && verdict.len() == 1 && verdict[0] == "ok" {
        return format!("infra:timeout-on-honest-flow:{}-{}", s(cfg, "mode"), s(cfg, "connector"));
    }
    let mode = s(cfg, "mode");
    let what = if mode == "ldaps" {
        format!("ldaps-hs-{}{}", s(sc, "hs"), if s(sc, "inj") == "before" { "-injected" } else { "" })
    } else {
        match s(sc, "resp").as_str() {
            "close" | "hangup" => "starttls-server-closes".to_string(),
            "wrongid" => "starttls-wrong-id".to_string(),
            "refuse" => "starttls-refused".to_string(),
            "garbage" => "starttls-garbage".to_string(),
            "stall" => "starttls-stall".to_string(),
            _ => match s(sc, "inj").as_str() {
                "before" => "starttls-wrong-id".to_string(), // an unsolicited message ahead of the response: same routing path
                "none" => format!("starttls-hs-{}", s(sc, "hs")),
                i => format!("starttls-hs-{}-inject-{}", s(sc, "hs"), i),
            },
        }
    };
    // cleartext leaks first: they are the worst
    let mut clear_starttls = 0;
    for e in evs {
        match s(e, "e").as_str() {
            "clear" => {
                if s(e, "k") == "starttls" && mode == "starttls" {
                    clear_starttls += 1;
                    if clear_starttls > 1 {
                        return "c17:cleartext:second-starttls".into();
                    }
                } else {
                    return format!("c17:cleartext:{}-{}", mode, s(e, "k"));
                }
            }
            "bindseen" if s(e, "ch") == "clear" => return format!("c17:cleartext:{}-bind", mode),
            _ => {}
        }
    }
    // an establishment that is legitimate in every other respect, but whose bookkeeping is not empty (C13's, not C17's)
    if o.result == "ok" && o.held > 0 && o.bind == Some(49) && verdict.iter().any(|v| v == "ok") {
        return format!("c13:establishment:{}:id-still-reserved-when-established", mode);
    }
    let verify = cfg["verify"].as_bool().unwrap_or(true);
    if mode == "starttls" && s(sc, "resp") != "success" && o.result != "ok" && evs.iter().any(|e| s(e, "e") == "hello") {
        return format!("c17:downgrade:handshake-started-after-{}", what);
    }
    match o.result.as_str() {
        "panic" => format!("c17:panic:{}", what),
        "pending" => format!("c17:hang:{}", what),
        "ok" => {
            if let Some(rc) = o.bind {
                if rc == 0 {
                    return format!("c17:injected-parsed:{}", what);
                }
            }
            let hs = s(sc, "hs");
            if mode == "starttls" && s(sc, "resp") != "success" {
                format!("c17:downgrade:established-after-{}", what)
            } else if hs != "trusted" && hs != "untrusted" && hs != "wrongName" {
                format!("c17:downgrade:established-without-handshake:{}", what)
            } else if verify {
                format!("c17:downgrade:accepted-cert-{}-{}-connector", hs, s(cfg, "connector"))
            } else if o.bind == Some(-1) {
                // the bind inside the (legitimately) established session got no answer within the harness's bound even on
                // the retry: that says nothing about a downgrade; an overloaded machine is the likely cause
                format!("infra:bind-after-establishment-no-answer:{}", what)
            } else if o.bind != Some(49) {
                format!("c17:bind-after-establishment:{}", what)
            } else {
                format!("c17:unexpected-ok:{}", what)
            }
        }
        _ => {
            if s(cfg, "timeout") == "short" && o.ms > SHORT_MS + LATE_MS {
                format!("c17:late:{}", what)
            } else {
                format!("c17:failed:{}:{}", what, o.cls)
            }
        }
    }
}

/// One script, with one retry under generous bounds when the outcome could be explained by a loaded machine:
/// "pending" at the short bound before the server had anything to stall on, or a Timeout on an honest flow.
async fn run_script(cfg: Value, sc: Value, verdict: Vec<String>, tls: Tls) -> (Value, CallObs, bool, bool) {
    let (rec, o, ok) = run_script_once(cfg.clone(), sc.clone(), verdict.clone(), tls.clone(), PENDING_OK_MS, SHORT_MS).await;
    let inconclusive = !ok && ((o.result == "ok" && o.bind == Some(-1)) || (o.result == "pending" && verdict.iter().any(|v| v == "pending")) || (o.result == "err" && o.cls == "Timeout" && verdict.len() == 1 && verdict[0] == "ok"));
    if !inconclusive {
        return (rec, o, ok, false);
    }
    let (rec, o, ok) = run_script_once(cfg, sc, verdict, tls, HANG_MS, 2 * SHORT_MS).await;
    (rec, o, ok, true)
}

async fn run_script_once(cfg: Value, sc: Value, verdict: Vec<String>, tls: Tls, pending_ms: u64, short_ms: u64) -> (Value, CallObs, bool) {
    let log: Log = Arc::new(Mutex::new(vec![]));
    let mode = s(&cfg, "mode");
    let b = Behave {
        silent: false,
        ldaps_inject: mode == "ldaps" && s(&sc, "inj") == "before",
        resp: if mode == "ldaps" { "success".into() } else { s(&sc, "resp") },
        rc: sc["rc"].as_i64().unwrap_or(0),
        inj: s(&sc, "inj"),
        hs: s(&sc, "hs"),
    };
    let l = listen_tcp("127.0.0.1:0".parse().unwrap(), b, &tls, "url", &log).unwrap_or_else(|e| infra(&format!("bind ephemeral: {}", e)));
    let verify = cfg["verify"].as_bool().unwrap_or(true);
    let via = s(&cfg, "via");
    let short = s(&cfg, "timeout") == "short";
    let connect = || {
        let c = std::net::TcpStream::connect(("127.0.0.1", l.port)).unwrap_or_else(|e| infra(&format!("connect to own listener: {}", e)));
        c.set_nonblocking(true).ok();
        StdStream::Tcp(c)
    };
    let mut st = LdapConnSettings::new();
    if via == "stream-first" {
        st = st.set_std_stream(connect());
    }
    st = st.set_starttls(mode == "starttls").set_no_tls_verify(!verify);
    if s(&cfg, "connector") == "custom" {
        // a URL without a host: the name the certificate is checked against is the library's own substitute ("localhost"),
        // and a connector that sends no SNI is the one whose handshake does not depend on that name being non-empty
        st = st.set_connector(if s(&cfg, "host") == "absent" { tls.custom_nosni.clone() } else { tls.custom.clone() });
    }
    if short {
        st = st.set_conn_timeout(Duration::from_millis(short_ms));
    }
    if via == "stream-last" {
        st = st.set_std_stream(connect());
    }
    let mut _unix_peer = None;
    if via == "unix" {
        // a connected Unix-domain stream under an ldap:// / ldaps:// URL: the peer is ready to play the script, the library
        // must refuse the combination
        let (a, b2) = std::os::unix::net::UnixStream::pair().unwrap_or_else(|e| infra(&format!("socketpair: {}", e)));
        b2.set_nonblocking(true).unwrap();
        a.set_nonblocking(true).unwrap();
        let peer = tokio::net::UnixStream::from_std(b2).unwrap_or_else(|e| infra(&format!("unix peer: {}", e)));
        let (tl, lg) = (tls.clone(), log.clone());
        let bh = Behave { silent: false, ldaps_inject: false, resp: "success".into(), rc: 0, inj: "none".into(), hs: "trusted".into() };
        _unix_peer = Some(tokio::spawn(async move {
            let _ = tokio::time::timeout(Duration::from_secs(10), session(peer, bh, tl, "url".into(), "unix".into(), lg, true)).await;
        }));
        st = st.set_std_stream(StdStream::Unix(a));
    }
    let scheme = if mode == "ldaps" { "ldaps" } else { "ldap" };
    // no host in the URL (and hence no port: "ldap://:389" is not a URL): only meaningful over a pre-connected stream
    let url = if s(&cfg, "host") == "absent" { format!("{}:///", scheme) } else { format!("{}://{}:{}", scheme, if s(&cfg, "host") == "ip" { "127.0.0.1" } else { "localhost" }, l.port) };
    let bound = if verdict.iter().any(|v| v == "pending") { pending_ms } else { HANG_MS.max(short_ms + LATE_MS + 500) };
    let o = call_async(st, url.clone(), bound, Some(log.clone())).await;
    let late = short && o.ms > short_ms + LATE_MS;
    if o.result != "ok" {
        logev(&log, json!({"e": "result", "r": o.result, "cls": o.cls, "late": late}));
    } else if let Some(rc) = o.bind {
        logev(&log, json!({"e": "bindresult", "rc": rc}));
    }
    // let the server side finish logging what it has seen (a fallback connection, cleartext after a failure)
    tokio::time::sleep(Duration::from_millis(if o.result == "ok" { 20 } else { 60 })).await;
    drop(l);
    let all = log.lock().unwrap().clone();
    let mut evs = vec![];
    let mut srv = vec![];
    for e in all {
        match s(&e, "e").as_str() {
            "tlsdone" | "tlsfail" => srv.push(e),
            "result" => evs.push(json!({"e": "result", "r": s(&e, "r"), "late": e["late"].as_bool().unwrap_or(false), "held": e["held"].as_i64().unwrap_or(-1)})),
            "accept" | "hello" => evs.push(json!({"e": s(&e, "e")})),
            "clear" => evs.push(json!({"e": "clear", "k": s(&e, "k")})),
            "bindseen" => evs.push(json!({"e": "bindseen", "ch": s(&e, "ch")})),
            "bindresult" => evs.push(json!({"e": "bindresult", "rc": e["rc"].as_i64().unwrap_or(-1)})),
            _ => {}
        }
    }
    // The server logs a PDU when it gets round to reading it, the client logs its result when it has it: a failed or
    // abandoned call sends nothing afterwards, so everything the server received was sent before that result.
    if let Some(p) = evs.iter().position(|e| s(e, "e") == "result" && s(e, "r") != "ok") {
        let r = evs.remove(p);
        evs.push(r);
    }
    // S -> I verdict as TLC printed it
    let clean = !evs.iter().any(|e| (s(e, "e") == "clear" && !(mode == "starttls" && s(e, "k") == "starttls")) || (s(e, "e") == "bindseen" && s(e, "ch") == "clear"))
        && evs.iter().filter(|e| s(e, "e") == "clear").count() <= 1
        && evs.iter().filter(|e| s(e, "e") == "accept").count() == 1;
    let ok = clean
        && verdict.iter().any(|v| *v == o.result)
        && !late
        // pending only while the server is stalling: on the StartTLS request, or on the ClientHello it has received
        && (o.result != "pending" || s(&sc, "resp") == "stall" || (s(&sc, "hs") == "stall" && evs.iter().any(|e| s(e, "e") == "hello")))
        && (o.result != "ok" || o.bind == Some(49))
        && (o.result != "ok" || o.held == 0);
    let key = est_key(&cfg, &sc, &o, &evs, &verdict);
    let rec = json!({"kind": "script", "cfg": cfg, "script": sc, "ev": evs, "srv": srv, "url": url,
                     "out": {"result": o.result, "cls": o.cls, "detail": o.detail, "ms": o.ms, "bind": o.bind.unwrap_or(-9)}, "key": key});
    (rec, o, ok)
}

fn replay_est(tlc_out: &str, report: &str, ndjson: &str, dir: &Path) {
    // SETUP_STORE=withCA: the trust store the default connector draws on contains the test CA (set before anything touches
    // TLS in this process); such a process plays the configurations with store = "withCA", any other the "system" ones
    let store = std::env::var("SETUP_STORE").unwrap_or_else(|_| "system".into());
    if store == "withCA" {
        std::env::set_var("SSL_CERT_FILE", dir.join("certs").join("ca.pem"));
        std::env::remove_var("SSL_CERT_DIR");
    }
    let tls = make_tls(dir);
    let mut vecs = vec![];
    tlcout::for_each_tagged(tlc_out, "VEC", |v| {
        if s(&v["cfg"], "store") == store {
            vecs.push(v)
        }
    })
    .unwrap_or_else(|e| infra(&format!("read {}: {}", tlc_out, e)));
    let mut rep = Report::new("setup-est");
    let rt = tokio::runtime::Builder::new_multi_thread().worker_threads(8).enable_all().build().unwrap();
    let par: usize = std::env::var("SETUP_PAR").ok().and_then(|x| x.parse().ok()).unwrap_or(16);
    // Process-wide state (a cached connector, a lazily initialised trust store) would make the outcome depend on which TLS
    // connection a process opens FIRST. SETUP_WARMUP=noverify|verify opens one honest connection of that kind before
    // anything else; the check runs the whole script set once with each, in separate processes.
    if let Ok(w) = std::env::var("SETUP_WARMUP") {
        let want_verify = w == "verify";
        let pick = vecs.iter().find(|v| {
            s(&v["cfg"], "mode") == "ldaps" && s(&v["cfg"], "connector") == "default" && v["cfg"]["verify"].as_bool() == Some(want_verify)
                && s(&v["script"], "inj") == "none" && s(&v["script"], "hs") == "untrusted" && s(&v["cfg"], "timeout") == "none"
        });
        if let Some(v) = pick.cloned() {
            let verdict: Vec<String> = v["verdict"].as_array().map(|a| a.iter().map(|x| x.as_str().unwrap_or("").to_string()).collect()).unwrap_or_default();
            let tls2 = tls.clone();
            rt.block_on(async move {
                let _ = run_script(v["cfg"].clone(), v["script"].clone(), verdict, tls2).await;
            });
            rep.count(&format!("warmup_{}", w));
        }
    }
    let results = rt.block_on(async {
        let sem = Arc::new(tokio::sync::Semaphore::new(par));
        let mut hs = vec![];
        for v in vecs {
            let sem = sem.clone();
            let tls = tls.clone();
            hs.push(tokio::spawn(async move {
                let _p = sem.acquire().await.unwrap();
                let verdict: Vec<String> = v["verdict"].as_array().map(|a| a.iter().map(|x| x.as_str().unwrap_or("").to_string()).collect()).unwrap_or_default();
                let r = run_script(v["cfg"].clone(), v["script"].clone(), verdict.clone(), tls).await;
                (v, verdict, r)
            }));
        }
        let mut out = vec![];
        for h in hs {
            out.push(h.await.unwrap_or_else(|e| infra(&format!("script task: {}", e))));
        }
        out
    });
    let mut f = std::io::BufWriter::new(std::fs::File::create(ndjson).unwrap_or_else(|e| infra(&format!("create {}: {}", ndjson, e))));
    for (v, verdict, (rec, o, ok, retried)) in results {
        let (cfg, sc) = (&v["cfg"], &v["script"]);
        rep.count("vectors");
        if retried {
            rep.count("retried_with_generous_bounds");
        }
        rep.count(&format!("mode_{}", s(cfg, "mode")));
        rep.count(&format!("result_{}", o.result));
        rep.count(&format!("resp_{}", s(sc, "resp")));
        rep.count(&format!("inj_{}", s(sc, "inj")));
        rep.count(&format!("hs_{}", s(sc, "hs")));
        rep.count(&format!("connector_{}_verify_{}", s(cfg, "connector"), cfg["verify"]));
        rep.count(&format!("via_{}", s(cfg, "via")));
        rep.count(&format!("host_{}_store_{}", s(cfg, "host"), s(cfg, "store")));
        if s(cfg, "connector") == "default" && s(cfg, "store") == "withCA" && cfg["verify"].as_bool() == Some(true) {
            rep.count(&format!("default_withCA_verify_{}_{}_{}", s(cfg, "host"), s(sc, "hs"), o.result));
        }
        rep.count(&format!("timeout_{}", s(cfg, "timeout")));
        if o.result == "ok" {
            rep.count(&format!("ready_verify_{}_cert_{}", cfg["verify"], s(sc, "hs")));
            if o.bind == Some(49) && s(sc, "inj") != "none" {
                rep.count("ready_with_injection_real_answer_returned");
            }
        }
        if o.result == "err" {
            rep.count(&format!("errclass_{}", o.cls));
        }
        // non-trivial: the server deviates from the honest script somewhere
        let nontrivial = !(s(sc, "resp") == "success" || s(sc, "resp") == "na") || s(sc, "inj") != "none" || s(sc, "hs") != "trusted";
        rep.eval(nontrivial, hash_of(&format!("{}{}", cfg, sc)));
        rep.sample(json!({"cfg": cfg, "script": sc, "allowed": verdict, "events": rec["ev"], "out": rec["out"]}));
        if !ok {
            rep.mismatch(&s(&rec, "key"), rec.clone());
        }
        writeln!(f, "{}", rec).unwrap();
    }
    f.flush().unwrap();
    rep.write(report);
}

// ---------------------------------------------------------------------------------------------- C18: decision rows

fn pct(path: &str, lower: bool) -> String {
    let mut o = String::new();
    for b in path.bytes() {
        if b.is_ascii_alphanumeric() || b == b'.' || b == b'-' || b == b'_' {
            o.push(b as char);
        } else if lower {
            o.push_str(&format!("%{:02x}", b));
        } else {
            o.push_str(&format!("%{:02X}", b));
        }
    }
    o
}

#[derive(Clone)]
struct RowJob {
    idx: usize,
    vec: Value,
    url_t: String,
    api: &'static str,
}

fn needs_default_ports(row: &Value) -> bool {
    let sch = s(row, "scheme");
    (sch == "ldap" || sch == "ldaps") && s(row, "port") == "absent" && s(row, "stream") == "none"
}

fn host_addr(row: &Value) -> &'static str {
    match s(row, "host").as_str() {
        "ipv4" => "127.0.0.2",
        "ipv6" => "::1",
        _ => "127.0.0.1",
    }
}

fn row_key(row: &Value, kind: &str, route: &Value, errs: &[String], ob: &Value) -> String {
    let sch = s(row, "scheme");
    let res = s(ob, "result");
    let tag = || -> String {
        if sch == "ldapi" {
            match (s(row, "stream").as_str(), s(row, "path").as_str()) {
                ("none", "withport") => "ldapi-url-with-port".into(),
                ("none", "emptywithport") => "ldapi-empty-path-with-port".into(),
                ("none", "absent") => "ldapi-empty-path".into(),
                ("none", _) => format!("ldapi-{}", s(row, "endpoint")),
                (st, _) => format!("ldapi-stream-{}", st),
            }
        } else if sch == "unparsable" {
            "unparsable-url".into()
        } else if sch == "other" {
            "unknown-scheme".into()
        } else if s(row, "stream") == "unix" || s(row, "stream") == "invalid" {
            format!("{}-stream-{}", sch, s(row, "stream"))
        } else {
            format!("{}{}-{}", sch, if sch == "ldap" && row["starttls"].as_bool().unwrap_or(false) { "+starttls" } else { "" }, s(row, "endpoint"))
        }
    };
    if res == "panic" {
        if sch != "ldapi" && sch != "unparsable" && s(row, "host") == "absent" {
            return "c18:panic:host-absent".into();
        }
        return format!("c18:panic:{}", tag());
    }
    if ob["late"].as_bool().unwrap_or(false) {
        return format!("c18:late:timeout-does-not-bound:{}", tag());
    }
    match res.as_str() {
        "pending" => format!("c18:hang:{}", tag()),
        "ok" => {
            if kind == "Ok" || kind == "OkOrErr" {
                format!("c18:route:{}:want-{}-{}-{}:got-{}-{}-{}", tag(), s(route, "via"), s(route, "port"), s(route, "sec"),
                        s(ob, "where"), s(ob, "fam"), s(ob, "sec"))
            } else {
                format!("c18:accepted:{}", tag())
            }
        }
        _ => {
            let cls = s(ob, "cls");
            if kind == "Ok" {
                format!("c18:rejected:{}:{}", tag(), cls)
            } else if sch == "ldapi" && s(row, "path") == "withport" && s(row, "stream") == "none" && cls == "Io" {
                "c18:accepted:ldapi-url-with-port".into() // it went on to connect (the socket did not exist)
            } else {
                format!("c18:wrong-error:{}:want-{}:got-{}", tag(), errs.first().cloned().unwrap_or_default(), cls)
            }
        }
    }
}

/// Environment + call for one (row, spelling, api).  Returns None when the row had to be skipped (default ports not bindable).
async fn run_row(job: RowJob, tls: Tls, dir: PathBuf, short_ms: u64) -> Option<Value> {
    let r = run_row_once(job.clone(), tls.clone(), dir.clone(), short_ms).await?;
    // a row that must succeed but ran into the short timeout: once more with a timeout no loaded machine can miss
    let kind = s(&r["want"], "kind");
    if (kind == "Ok" || kind == "OkOrErr") && s(&r["obs"], "result") == "err" && s(&r["obs"], "cls") == "Timeout" {
        let mut r2 = run_row_once(job, tls, dir, 5 * short_ms).await?;
        r2["retried"] = json!(true);
        return Some(r2);
    }
    Some(r)
}

async fn run_row_once(job: RowJob, tls: Tls, dir: PathBuf, short_ms: u64) -> Option<Value> {
    let v = &job.vec;
    let row = &v["row"];
    let log: Log = Arc::new(Mutex::new(vec![]));
    let endpoint = s(row, "endpoint");
    let sch = s(row, "scheme");
    let behave = if endpoint == "silent" { Behave::silent() } else { Behave::honest() };
    let mut keep: Vec<Listener> = vec![];
    let mut keep_sock: Vec<TcpSocket> = vec![];
    let mut port: u16 = 0;
    let ip: std::net::IpAddr = host_addr(row).parse().unwrap();
    // the URL's own address
    let sockpath = dir.join(format!("r{} {}.sock", job.idx, if job.api == "async" { "a" } else { "s" }));
    if sch == "ldapi" {
        if endpoint != "refused" {
            keep.push(listen_unix(&sockpath, behave.clone(), &tls, "unix", &log).unwrap_or_else(|e| infra(&format!("unix bind {:?}: {}", sockpath, e))));
        } else {
            let _ = std::fs::remove_file(&sockpath);
        }
    } else if sch == "ldap" || sch == "ldaps" || sch == "other" {
        if s(row, "port") == "given" || sch == "other" || !needs_default_ports(row) {
            // an ephemeral port; for port-absent rows that must not dial ({P} does not occur in their URLs) it is unused
            if endpoint == "refused" {
                let (sk, p) = reserve_refused(SocketAddr::new(ip, 0)).unwrap_or_else(|e| infra(&format!("reserve port: {}", e)));
                keep_sock.push(sk);
                port = p;
            } else {
                let l = listen_tcp(SocketAddr::new(ip, 0), behave.clone(), &tls, "url", &log).unwrap_or_else(|e| infra(&format!("bind ephemeral on {}: {}", ip, e)));
                port = l.port;
                keep.push(l);
            }
        } else if endpoint != "refused" {
            for (p, at) in [(389u16, "p389"), (636u16, "p636")] {
                match listen_tcp(SocketAddr::new(ip, p), behave.clone(), &tls, at, &log) {
                    Ok(l) => keep.push(l),
                    Err(_) => return None,
                }
            }
        } else {
            // both default ports must be free: nobody else may be listening there
            for p in [389u16, 636u16] {
                match tcp_socket(SocketAddr::new(ip, p)) {
                    Ok(sk) => keep_sock.push(sk),
                    Err(_) => return None,
                }
            }
        }
    }
    // the pre-opened stream
    let mut st = LdapConnSettings::new().set_connector(if s(row, "host") == "ipv6" { tls.custom_anyname.clone() } else { tls.custom.clone() });
    let stream_behave = if endpoint == "silent" { Behave::silent() } else { Behave::honest() };
    match s(row, "stream").as_str() {
        "tcp" => {
            let l = listen_tcp("127.0.0.1:0".parse().unwrap(), stream_behave, &tls, "stream", &log).unwrap_or_else(|e| infra(&format!("bind stream peer: {}", e)));
            let c = std::net::TcpStream::connect(("127.0.0.1", l.port)).unwrap_or_else(|e| infra(&format!("connect stream peer: {}", e)));
            let _ = c.set_nodelay(true);
            keep.push(l);
            st = st.set_std_stream(StdStream::Tcp(c));
        }
        "unix" => {
            let (a, b) = std::os::unix::net::UnixStream::pair().unwrap_or_else(|e| infra(&format!("socketpair: {}", e)));
            b.set_nonblocking(true).unwrap();
            let peer = tokio::net::UnixStream::from_std(b).unwrap_or_else(|e| infra(&format!("unix peer: {}", e)));
            let (tl, lg) = (tls.clone(), log.clone());
            let task = tokio::spawn(async move {
                let _ = tokio::time::timeout(Duration::from_secs(10), session(peer, stream_behave, tl, "stream".into(), "unix".into(), lg, true)).await;
            });
            keep.push(Listener { port: 0, task });
            st = st.set_std_stream(StdStream::Unix(a));
        }
        "invalid" => st = st.set_std_stream(StdStream::Invalid),
        _ => {}
    }
    // accepts of the stream peers happen before the call and prove nothing
    tokio::time::sleep(Duration::from_millis(if s(row, "stream") == "tcp" || s(row, "stream") == "unix" { 15 } else { 0 })).await;
    let pre_events = log.lock().unwrap().len();
    st = st.set_starttls(row["starttls"].as_bool().unwrap_or(false));
    let short = s(row, "timeout") == "short";
    if short {
        st = st.set_conn_timeout(Duration::from_millis(short_ms));
    }
    if s(row, "timeout") == "huge" {
        st = st.set_conn_timeout(Duration::MAX);
    }
    let raw = sockpath.to_string_lossy().to_string();
    let url = job.url_t.replace("{P}", &port.to_string()).replace("{EPL}", &pct(&raw, true)).replace("{EP}", &pct(&raw, false)).replace("{RAWPATH}", &raw);
    let kind = s(v, "kind");
    let bound = if kind == "Pending" { PENDING_OK_MS } else { HANG_MS };
    let o = if job.api == "async" {
        call_async(st, url.clone(), bound, None).await
    } else {
        let u = url.clone();
        tokio::task::spawn_blocking(move || call_sync(st, u, bound)).await.unwrap_or_else(|e| infra(&format!("sync call task: {}", e)))
    };
    tokio::time::sleep(Duration::from_millis(25)).await;
    for l in keep {
        l.close().await;
    }
    drop(keep_sock);
    let _ = std::fs::remove_file(&sockpath);
    let all = log.lock().unwrap().clone();
    // which session saw protocol activity, and what was the first thing it saw
    let mut where_ = "none".to_string();
    let mut fam = "none".to_string();
    let mut sec = "none".to_string();
    let mut multi = false;
    let mut saw_starttls = false;
    for (i, e) in all.iter().enumerate() {
        let ev = s(e, "e");
        let at = s(e, "at");
        if ev == "accept" {
            if i < pre_events && at == "stream" {
                continue;
            }
            if where_ != "none" && where_ != at {
                multi = true;
            }
            where_ = at.clone();
            fam = s(e, "fam");
            continue;
        }
        if ev == "tlsdone" || ev == "tlsfail" {
            continue;
        }
        if where_ != "none" && where_ != at {
            multi = true;
        }
        if where_ == "none" {
            where_ = at.clone();
            fam = s(e, "fam");
        }
        if sec == "none" {
            match ev.as_str() {
                "hello" => sec = if saw_starttls { "starttls".into() } else { "tls".into() },
                "clear" if s(e, "k") == "starttls" => saw_starttls = true,
                "clear" => sec = format!("clear-{}", s(e, "k")),
                "bindseen" => sec = if s(e, "ch") == "clear" { "plain".into() } else { "bind-in-tls-without-hello".into() },
                _ => {}
            }
        }
    }
    if multi {
        where_ = "multi".into();
    }
    let late = short && o.ms > short_ms + LATE_MS;
    let ob = json!({"result": o.result, "cls": o.cls, "where": where_, "fam": fam, "sec": sec, "late": late});
    let errs: Vec<String> = v["errs"].as_array().map(|a| a.iter().map(|x| x.as_str().unwrap_or("").to_string()).collect()).unwrap_or_default();
    let key = row_key(row, &kind, &v["route"], &errs, &ob);
    Some(json!({"kind": "row", "row": row, "obs": ob, "url": url, "api": job.api, "ms": o.ms, "detail": o.detail, "bind": o.bind.unwrap_or(-9),
                "want": {"kind": kind, "route": v["route"], "errs": errs}, "key": key}))
}

/// The harness' reading of TLC's expected outcome for one observation (S -> I comparison).
fn row_agrees(rec: &Value) -> bool {
    let (w, o) = (&rec["want"], &rec["obs"]);
    let kind = s(w, "kind");
    if s(o, "result") == "panic" || o["late"].as_bool().unwrap_or(false) {
        return false;
    }
    match s(o, "result").as_str() {
        "ok" => {
            if kind != "Ok" && kind != "OkOrErr" {
                return false;
            }
            let rt = &w["route"];
            if s(o, "sec") != s(rt, "sec") {
                return false;
            }
            match s(rt, "via").as_str() {
                "stream" => s(o, "where") == "stream",
                "unix" => s(o, "where") == "unix",
                _ => {
                    s(o, "where") == s(rt, "port")
                        && match s(rt, "host").as_str() {
                            "ipv4" => s(o, "fam") == "v4",
                            "ipv6" => s(o, "fam") == "v6",
                            _ => s(o, "fam") == "v4" || s(o, "fam") == "v6",
                        }
                }
            }
        }
        "err" => kind == "Pending" || (kind != "Ok" && w["errs"].as_array().map(|a| a.iter().any(|x| x.as_str() == Some(&s(o, "cls")))).unwrap_or(false)),
        "pending" => kind == "Pending",
        _ => false,
    }
}

fn lock_ports() -> std::fs::File {
    let p = "/verif/run/setup-ports.lock";
    let f = std::fs::OpenOptions::new().create(true).write(true).truncate(false).open(p).unwrap_or_else(|e| infra(&format!("open {}: {}", p, e)));
    f.lock().unwrap_or_else(|e| infra(&format!("lock {}: {}", p, e)));
    f
}

fn account_row(rep: &mut Report, rec: &Value, f: &mut impl Write) {
    let row = &rec["row"];
    rep.count("observations");
    rep.count(&format!("api_{}", s(rec, "api")));
    if rec["retried"].as_bool().unwrap_or(false) {
        rep.count("retried_with_generous_timeout");
    }
    rep.count(&format!("scheme_{}", s(row, "scheme")));
    rep.count(&format!("kind_{}", s(&rec["want"], "kind")));
    rep.count(&format!("result_{}", s(&rec["obs"], "result")));
    if s(&rec["obs"], "result") == "ok" {
        rep.count(&format!("reached_{}_{}", s(&rec["obs"], "where"), s(&rec["obs"], "sec")));
        rep.count(&format!("reached_fam_{}", s(&rec["obs"], "fam")));
    }
    if s(&rec["obs"], "result") == "err" {
        rep.count(&format!("errclass_{}", s(&rec["obs"], "cls")));
    }
    let nontrivial = s(&rec["want"], "kind") != "Ok" || s(row, "stream") != "none" || s(row, "scheme") != "ldap";
    rep.eval(nontrivial, hash_of(&format!("{}{}", s(rec, "url").replace(|c: char| c.is_ascii_digit(), "#"), row)));
    rep.sample(json!({"url": rec["url"], "row": row, "want": rec["want"], "obs": rec["obs"], "api": rec["api"]}));
    if !row_agrees(rec) {
        rep.mismatch(&s(rec, "key"), rec.clone());
    }
    writeln!(f, "{}", rec).unwrap();
}

fn replay_rows(tlc_out: &str, report: &str, ndjson: &str, spell: &str, apis: &str, dir: &Path) {
    let tls = make_tls(dir);
    let sdir = dir.join("s");
    std::fs::create_dir_all(&sdir).unwrap_or_else(|e| infra(&format!("mkdir {:?}: {}", sdir, e)));
    let mut vecs = vec![];
    tlcout::for_each_tagged(tlc_out, "VEC", |v| vecs.push(v)).unwrap_or_else(|e| infra(&format!("read {}: {}", tlc_out, e)));
    let mut rep = Report::new("setup-rows");
    let per: Option<usize> = if spell == "all" { None } else { Some(spell.parse().unwrap_or(1)) };
    let mut jobs_par = vec![];
    let mut jobs_ser = vec![];
    let mut idx = 0usize;
    for (n, v) in vecs.iter().enumerate() {
        rep.count("vectors");
        let urls: Vec<String> = v["urls"].as_array().map(|a| a.iter().map(|x| x.as_str().unwrap_or("").to_string()).collect()).unwrap_or_default();
        if urls.is_empty() {
            infra("vector without URL spellings");
        }
        let take = per.unwrap_or(urls.len()).min(urls.len());
        for k in 0..take {
            // rotate through the spellings so that every spelling of a class is used by some row
            let u = urls[(n + k) % urls.len()].clone();
            for (ai, api) in ["async", "sync"].into_iter().enumerate() {
                // "alt": rows with a silent peer (the slow ones) alternate between the two APIs instead of using both
                if apis == "alt" && s(&v["row"], "endpoint") == "silent" && (n + k) % 2 != ai {
                    continue;
                }
                idx += 1;
                let j = RowJob { idx, vec: v.clone(), url_t: u.clone(), api };
                if needs_default_ports(&v["row"]) {
                    jobs_ser.push(j);
                } else {
                    jobs_par.push(j);
                }
            }
        }
    }
    let rt = tokio::runtime::Builder::new_multi_thread().worker_threads(8).max_blocking_threads(64).enable_all().build().unwrap();
    let par: usize = std::env::var("SETUP_PAR").ok().and_then(|x| x.parse().ok()).unwrap_or(16);
    // observation, not judged: an IPv6 literal under a connector that checks the certificate name
    let o6 = rt.block_on(async {
        let log: Log = Arc::new(Mutex::new(vec![]));
        match listen_tcp("[::1]:0".parse().unwrap(), Behave::honest(), &tls, "url", &log) {
            Ok(l) => Some(call_async(LdapConnSettings::new().set_connector(tls.custom.clone()), format!("ldaps://[::1]:{}/", l.port), HANG_MS, None).await),
            Err(_) => None,
        }
    });
    if let Some(o) = o6 {
        rep.count(&format!("ipv6_literal_strict_name_check_{}{}", o.result, o.cls));
        if o.result == "err" {
            rep.notes.push(format!("observation (not judged): ldaps://[::1]:<port>/ against a certificate with subjectAltName IP:::1 and a name-checking connector fails: {}", o.detail.chars().take(160).collect::<String>()));
        }
    }
    let (recs_par, recs_ser, skipped) = rt.block_on(async {
        // rows touching 389/636: one at a time, holding the machine-wide lock
        let (tls2, sdir2) = (tls.clone(), sdir.clone());
        let ser = tokio::spawn(async move {
            let mut out = vec![];
            let mut skipped = 0u64;
            if jobs_ser.is_empty() {
                return (out, skipped);
            }
            let lock = tokio::task::spawn_blocking(lock_ports).await.unwrap();
            for j in jobs_ser {
                match run_row(j, tls2.clone(), sdir2.clone(), ROW_SHORT_MS).await {
                    Some(r) => out.push(r),
                    None => skipped += 1,
                }
            }
            drop(lock);
            (out, skipped)
        });
        let sem = Arc::new(tokio::sync::Semaphore::new(par));
        let mut hs = vec![];
        for j in jobs_par {
            let (sem, tls, sdir) = (sem.clone(), tls.clone(), sdir.clone());
            hs.push(tokio::spawn(async move {
                let _p = sem.acquire().await.unwrap();
                run_row(j, tls, sdir, ROW_SHORT_MS).await
            }));
        }
        let mut out = vec![];
        for h in hs {
            if let Some(r) = h.await.unwrap_or_else(|e| infra(&format!("row task: {}", e))) {
                out.push(r);
            }
        }
        let (o2, sk) = ser.await.unwrap_or_else(|e| infra(&format!("serial rows: {}", e)));
        (out, o2, sk)
    });
    let mut f = std::io::BufWriter::new(std::fs::File::create(ndjson).unwrap_or_else(|e| infra(&format!("create {}: {}", ndjson, e))));
    for r in recs_par.iter().chain(recs_ser.iter()) {
        account_row(&mut rep, r, &mut f);
    }
    rep.add("default_port_observations", recs_ser.len() as u64);
    rep.add("skipped_default_port_rows", skipped);
    if skipped > 0 {
        rep.notes.push(format!("{} observations skipped: 127.0.0.1/::1 port 389 or 636 could not be bound", skipped));
    }
    f.flush().unwrap();
    rep.write(report);
    let _ = std::fs::remove_dir_all(&sdir);
}

// ---------------------------------------------------------------------------------------------- C18: random URLs

/// Class of a URL string according to the `url` crate (trusted), in the vocabulary of Setup.tla.
fn url_class(u: &str) -> Value {
    match url::Url::parse(u) {
        Err(_) => json!({"scheme": "unparsable", "host": "name", "port": "absent", "path": "absent"}),
        Ok(p) => {
            let scheme = match p.scheme() {
                "ldap" => "ldap",
                "ldaps" => "ldaps",
                "ldapi" => "ldapi",
                _ => "other",
            };
            let hs = p.host_str().unwrap_or("");
            let port = if p.port().is_some() { "given" } else { "absent" };
            if scheme == "ldapi" {
                let path = match (hs.is_empty(), p.port().is_some()) {
                    (true, false) => "absent",
                    (true, true) => "emptywithport",
                    (false, false) => "encoded",
                    (false, true) => "withport",
                };
                json!({"scheme": scheme, "host": "name", "port": "absent", "path": path})
            } else {
                let host = if hs.is_empty() {
                    "absent"
                } else if matches!(p.host(), Some(url::Host::Ipv6(_))) {
                    "ipv6"
                } else if hs.parse::<std::net::Ipv4Addr>().is_ok() {
                    "ipv4"
                } else {
                    "name"
                };
                json!({"scheme": scheme, "host": host, "port": port, "path": "absent"})
            }
        }
    }
}

fn gen_url(rng: &mut StdRng, live_port: u16, dead_port: u16, livesock: &str, deadsock: &str) -> (String, &'static str) {
    let schemes = ["ldap", "ldaps", "ldapi", "LDAP", "Ldaps", "LDAPI", "ldapx", "http", "cldap", "ldap+tls", "", "l"];
    let hosts = ["localhost", "127.0.0.1", "[::1]", "", "LOCALHOST", "127.0.0.2", "u@localhost", "u:p@127.0.0.1", "[::1", "local host",
                 "%6cocalhost", "localhost.", "[0:0:0:0:0:0:0:1]", "@", ":", "[]", "0x7f.1", "2130706433"];
    let tails = ["", "/", "/dc=x", "//", "/?", "?x", "#f", "/dc=x??sub?(cn=%41)", "/%zz", "/\u{e9}"];
    let sch = schemes[rng.gen_range(0..schemes.len())];
    let mut u = String::new();
    let mut origin = "grammar";
    if sch == "ldapi" || sch == "LDAPI" {
        let p = match rng.gen_range(0..6) {
            0 => String::new(),
            1 | 2 => pct(livesock, rng.gen()),
            3 => pct(deadsock, false),
            4 => livesock.to_string(), // not encoded at all
            _ => pct(livesock, false).replace("%2F", "%2f%2F"),
        };
        let port = match rng.gen_range(0..5) {
            0 => ":33".to_string(),
            1 => ":".to_string(),
            _ => String::new(),
        };
        let sep = ["://", ":", ":///", ":/"][rng.gen_range(0..8usize).min(3) % 4];
        u = format!("{}{}{}{}{}", sch, if rng.gen_range(0..6) == 0 { sep } else { "://" }, p, port, tails[rng.gen_range(0..tails.len())]);
    } else {
        let h = hosts[rng.gen_range(0..hosts.len())];
        let port = match rng.gen_range(0..8) {
            0 | 1 | 2 => format!(":{}", live_port),
            3 | 4 => format!(":{}", dead_port),
            5 => ":".to_string(),
            6 => [":0", ":65536", ":99999", ":-1", ":3x9", ":00389"][rng.gen_range(0..6)].to_string(),
            _ => String::new(),
        };
        let sep = ["://", ":", ":///", ":/", "//", ""][rng.gen_range(0..12usize).min(5)];
        u.push_str(sch);
        u.push_str(if rng.gen_range(0..5) == 0 { sep } else { "://" });
        u.push_str(h);
        u.push_str(&port);
        u.push_str(tails[rng.gen_range(0..tails.len())]);
    }
    // byte-level mutation of a third of the strings
    if rng.gen_range(0..3) == 0 {
        origin = "mutated";
        let mut b = u.into_bytes();
        for _ in 0..rng.gen_range(1..4) {
            let pool = b":/@[]%?#. \t\\\x00\x7fA0-+|\xc3\xa9";
            match rng.gen_range(0..4) {
                0 if !b.is_empty() => {
                    let i = rng.gen_range(0..b.len());
                    b.remove(i);
                }
                1 => {
                    let i = rng.gen_range(0..=b.len());
                    b.insert(i, pool[rng.gen_range(0..pool.len())]);
                }
                2 if !b.is_empty() => {
                    let i = rng.gen_range(0..b.len());
                    b[i] = pool[rng.gen_range(0..pool.len())];
                }
                _ if b.len() > 1 => {
                    let i = rng.gen_range(0..b.len() - 1);
                    b.swap(i, i + 1);
                }
                _ => {}
            }
        }
        u = String::from_utf8_lossy(&b).to_string();
    }
    (u, origin)
}

/// Does this parsed URL name an address we know the state of?  Some(listening?) or None (cannot say).
fn endpoint_of(u: &str, live_port: u16, dead_port: u16, livesock: &str) -> Option<&'static str> {
    let p = match url::Url::parse(u) {
        Ok(p) => p,
        Err(_) => return Some("refused"),
    };
    if p.scheme() == "ldapi" {
        let hs = p.host_str().unwrap_or("");
        // the same file may be spelled in many ways (doubled slashes, ...): compare what the kernel resolves
        let dec = String::from_utf8_lossy(&percent_decode(hs)).to_string();
        let same = match (std::fs::canonicalize(&dec), std::fs::canonicalize(livesock)) {
            (Ok(a), Ok(b)) => a == b,
            _ => false,
        };
        return Some(if same { "listening" } else { "refused" });
    }
    if p.scheme() != "ldap" && p.scheme() != "ldaps" {
        return Some("refused");
    }
    let hs = p.host_str().unwrap_or("");
    let local4 = hs.is_empty() || hs.eq_ignore_ascii_case("localhost") || hs == "127.0.0.1";
    match p.port() {
        Some(x) if x == live_port && local4 => Some("listening"),
        Some(x) if x == live_port => None, // another spelling of a loopback address may or may not reach the listener
        Some(x) if x == dead_port => Some("refused"),
        Some(0) => Some("refused"),
        Some(_) => None,
        None => Some("refused"), // 389/636: we hold the port lock and nothing of ours listens there (checked at start)
    }
}

fn percent_decode(x: &str) -> Vec<u8> {
    let b = x.as_bytes();
    let mut o = vec![];
    let mut i = 0;
    while i < b.len() {
        if b[i] == b'%' && i + 2 < b.len() {
            let h = (b[i + 1] as char).to_digit(16);
            let l = (b[i + 2] as char).to_digit(16);
            if let (Some(h), Some(l)) = (h, l) {
                o.push((h * 16 + l) as u8);
                i += 3;
                continue;
            }
        }
        o.push(b[i]);
        i += 1;
    }
    o
}

fn trace(out: &str, count: usize, report: &str, dir: &Path) {
    let tls = make_tls(dir);
    let sdir = dir.join("t");
    std::fs::create_dir_all(&sdir).unwrap_or_else(|e| infra(&format!("mkdir: {}", e)));
    let mut rng = StdRng::seed_from_u64(seed_from_env() ^ 0x5e7u64);
    let mut rep = Report::new("setup-trace");
    let lock = lock_ports();
    let rt = tokio::runtime::Builder::new_multi_thread().worker_threads(8).max_blocking_threads(64).enable_all().build().unwrap();
    let recs: Vec<Value> = rt.block_on(async {
        // nothing may listen on the default ports while we call URLs without a port "refused"
        for p in [389u16, 636] {
            for ip in ["127.0.0.1", "::1", "127.0.0.2"] {
                if tcp_socket(SocketAddr::new(ip.parse().unwrap(), p)).is_err() {
                    infra(&format!("{}:{} is in use: cannot classify port-less URLs", ip, p));
                }
            }
        }
        let log: Log = Arc::new(Mutex::new(vec![]));
        let live = listen_tcp("127.0.0.1:0".parse().unwrap(), Behave::honest(), &tls, "url", &log).unwrap_or_else(|e| infra(&format!("bind: {}", e)));
        let (_dead, dead_port) = reserve_refused("127.0.0.1:0".parse().unwrap()).unwrap_or_else(|e| infra(&format!("reserve: {}", e)));
        let livesock = sdir.join("live a.sock");
        let deadsock = sdir.join("dead.sock");
        let _ul = listen_unix(&livesock, Behave::honest(), &tls, "unix", &log).unwrap_or_else(|e| infra(&format!("unix bind: {}", e)));
        let (ls, ds) = (livesock.to_string_lossy().to_string(), deadsock.to_string_lossy().to_string());
        let sem = Arc::new(tokio::sync::Semaphore::new(16));
        let mut hs = vec![];
        for i in 0..count {
            let (u, origin) = gen_url(&mut rng, live.port, dead_port, &ls, &ds);
            let starttls = rng.gen_range(0..3) == 0;
            let timeout = rng.gen_range(0..2) == 0;
            let stream = ["none", "none", "none", "invalid", "unix", "tcp"][rng.gen_range(0..6)];
            let api = if i % 2 == 0 { "async" } else { "sync" };
            let (sem, tls, ls2) = (sem.clone(), tls.clone(), ls.clone());
            let live_port = live.port;
            hs.push(tokio::spawn(async move {
                let _p = sem.acquire().await.unwrap();
                let plog: Log = Arc::new(Mutex::new(vec![]));
                // routing only: the certificate name is not checked (hosts are spelled in many ways here)
                let mut st = LdapConnSettings::new().set_connector(tls.custom_anyname.clone()).set_starttls(starttls);
                if timeout {
                    st = st.set_conn_timeout(Duration::from_millis(SHORT_MS));
                }
                let mut keep = vec![];
                match stream {
                    "invalid" => st = st.set_std_stream(StdStream::Invalid),
                    "tcp" => {
                        let l = listen_tcp("127.0.0.1:0".parse().unwrap(), Behave::honest(), &tls, "stream", &plog).unwrap_or_else(|e| infra(&format!("bind: {}", e)));
                        let c = std::net::TcpStream::connect(("127.0.0.1", l.port)).unwrap_or_else(|e| infra(&format!("connect: {}", e)));
                        keep.push(l);
                        st = st.set_std_stream(StdStream::Tcp(c));
                    }
                    "unix" => {
                        let (a, b) = std::os::unix::net::UnixStream::pair().unwrap_or_else(|e| infra(&format!("socketpair: {}", e)));
                        b.set_nonblocking(true).unwrap();
                        let peer = tokio::net::UnixStream::from_std(b).unwrap();
                        let (tl, lg) = (tls.clone(), plog.clone());
                        let task = tokio::spawn(async move {
                            let _ = tokio::time::timeout(Duration::from_secs(10), session(peer, Behave::honest(), tl, "stream".into(), "unix".into(), lg, false)).await;
                        });
                        keep.push(Listener { port: 0, task });
                        st = st.set_std_stream(StdStream::Unix(a));
                    }
                    _ => {}
                }
                let o = if api == "async" {
                    call_async(st, u.clone(), HANG_MS, None).await
                } else {
                    let u2 = u.clone();
                    tokio::task::spawn_blocking(move || call_sync(st, u2, HANG_MS)).await.unwrap()
                };
                drop(keep);
                let cls = url_class(&u);
                let ep = endpoint_of(&u, live_port, 0, &ls2);
                (u, origin, cls, starttls, timeout, stream, api, o, ep)
            }));
        }
        let mut out = vec![];
        for h in hs {
            let (u, origin, cls, starttls, timeout, stream, api, o, ep) = h.await.unwrap_or_else(|e| infra(&format!("task: {}", e)));
            let late = timeout && o.ms > SHORT_MS + LATE_MS;
            let row = json!({"scheme": cls["scheme"], "host": cls["host"], "port": cls["port"], "path": cls["path"], "stream": stream,
                             "starttls": starttls, "timeout": if timeout { "short" } else { "none" },
                             "endpoint": ep.unwrap_or("unknown")});
            out.push(json!({"kind": "url", "url": u, "origin": origin, "api": api, "row": row,
                            "obs": {"result": o.result, "cls": o.cls, "late": late}, "detail": o.detail, "ms": o.ms}));
        }
        drop(live);
        out
    });
    drop(lock);
    let mut f = std::io::BufWriter::new(std::fs::File::create(out).unwrap_or_else(|e| infra(&format!("create {}: {}", out, e))));
    for mut r in recs {
        let row = r["row"].clone();
        let res = s(&r["obs"], "result");
        rep.count("urls");
        rep.count(&format!("origin_{}", s(&r, "origin")));
        rep.count(&format!("scheme_{}", s(&row, "scheme")));
        rep.count(&format!("result_{}", res));
        rep.count(&format!("endpoint_{}", s(&row, "endpoint")));
        if s(&row, "scheme") != "ldapi" && s(&row, "scheme") != "unparsable" && s(&row, "host") == "absent" {
            rep.count("host_absent");
        }
        if res == "err" {
            rep.count(&format!("errclass_{}", s(&r["obs"], "cls")));
        }
        let key = if res == "panic" {
            if s(&row, "scheme") != "ldapi" && s(&row, "scheme") != "unparsable" && s(&row, "host") == "absent" {
                "c18:panic:host-absent".to_string()
            } else {
                format!("c18:panic:{}", s(&row, "scheme"))
            }
        } else if res == "pending" {
            format!("c18:hang:{}", s(&row, "scheme"))
        } else if s(&row, "scheme") == "ldapi" && s(&row, "path") == "withport" && s(&row, "stream") == "none" && (res == "ok" || s(&r["obs"], "cls") == "Io") {
            "c18:accepted:ldapi-url-with-port".to_string()
        } else {
            format!("c18:random-url:{}:{}:{}{}", s(&row, "scheme"), s(&row, "endpoint"), res, s(&r["obs"], "cls"))
        };
        if res == "panic" {
            // never a panic: the main oracle of this mode, judged here as well as by TraceSetup
            rep.mismatch(&key, r.clone());
        }
        r["key"] = json!(key);
        rep.eval(s(&row, "scheme") != "unparsable", hash_of(&s(&r, "url")));
        rep.sample(json!({"url": r["url"], "row": row, "obs": r["obs"]}));
        writeln!(f, "{}", r).unwrap();
    }
    f.flush().unwrap();
    rep.write(report);
    let _ = std::fs::remove_dir_all(&sdir);
}

// ---------------------------------------------------------------------------------------------- main

/// C04, last sentence, on the real transports: after `unbind()` the peer - which does NOT close its own end on reading the
/// UnbindRequest but waits - must read end-of-file, and a later operation on the handle must fail. One case per transport
/// variant of the library (TCP dialled, TCP pre-connected, TLS over TCP, Unix socket by path, Unix socket pre-connected).
fn unbind_closes(report: &str, dir: &Path) {
    use std::io::{Read, Write};
    let mut rep = Report::new("setup-unbind-closes");
    let tls = make_tls(dir);
    let rt = tokio::runtime::Builder::new_multi_thread().worker_threads(4).enable_all().build().unwrap();
    // the peer: answers Binds, notes the Unbind, then waits for EOF (or anything else the client still sends)
    fn peer<S: Read + Write>(mut s: S) -> (bool, bool, usize) {
        let (mut buf, mut tmp) = (Vec::new(), [0u8; 4096]);
        let (mut unbind, mut eof, mut after) = (false, false, 0usize);
        loop {
            while let Some((el, n)) = ber::decode(&buf) {
                buf.drain(..n);
                match classify(&el) {
                    Some(Pdu::Bind(id)) => {
                        if unbind {
                            after += 1;
                        }
                        let _ = s.write_all(&bind_response(id, 0));
                    }
                    Some(Pdu::Unbind) => unbind = true,
                    _ => {
                        if unbind {
                            after += 1;
                        }
                    }
                }
            }
            match s.read(&mut tmp) {
                Ok(0) => {
                    eof = true;
                    break;
                }
                Ok(n) => buf.extend_from_slice(&tmp[..n]),
                Err(_) => break, // read timeout: the client never closed
            }
        }
        (unbind, eof, after)
    }
    for variant in ["tcp-dial", "tcp-stream", "unix-path", "unix-stream", "tls-dial"] {
        let sockpath = dir.join(format!("unbind-{}.sock", std::process::id()));
        let _ = std::fs::remove_file(&sockpath);
        let (url, settings, handle): (String, LdapConnSettings, std::thread::JoinHandle<(bool, bool, usize)>) = match variant {
            "tcp-dial" | "tcp-stream" | "tls-dial" => {
                let l = std::net::TcpListener::bind("127.0.0.1:0").unwrap_or_else(|e| infra(&format!("bind: {}", e)));
                let port = l.local_addr().unwrap().port();
                let is_tls = variant == "tls-dial";
                let acc = tls.acceptors_std.clone();
                let h = std::thread::spawn(move || {
                    let (c, _) = l.accept().expect("accept");
                    c.set_read_timeout(Some(Duration::from_secs(3))).ok();
                    if is_tls {
                        match acc.accept(c) {
                            Ok(t) => peer(t),
                            Err(_) => (false, false, 0),
                        }
                    } else {
                        peer(c)
                    }
                });
                let mut st = LdapConnSettings::new().set_connector(tls.custom.clone());
                if variant == "tcp-stream" {
                    let c = std::net::TcpStream::connect(("127.0.0.1", port)).unwrap_or_else(|e| infra(&format!("connect: {}", e)));
                    st = st.set_std_stream(StdStream::Tcp(c));
                }
                (format!("{}://localhost:{}", if is_tls { "ldaps" } else { "ldap" }, port), st, h)
            }
            "unix-path" => {
                let l = std::os::unix::net::UnixListener::bind(&sockpath).unwrap_or_else(|e| infra(&format!("bind unix: {}", e)));
                let h = std::thread::spawn(move || {
                    let (c, _) = l.accept().expect("accept");
                    c.set_read_timeout(Some(Duration::from_secs(3))).ok();
                    peer(c)
                });
                (format!("ldapi://{}", pct(&sockpath.to_string_lossy(), true)), LdapConnSettings::new(), h)
            }
            _ => {
                let (a, b) = std::os::unix::net::UnixStream::pair().unwrap_or_else(|e| infra(&format!("socketpair: {}", e)));
                b.set_read_timeout(Some(Duration::from_secs(3))).ok();
                let h = std::thread::spawn(move || peer(b));
                ("ldapi://ignored".to_string(), LdapConnSettings::new().set_std_stream(StdStream::Unix(a)), h)
            }
        };
        let later = rt.block_on(async {
            let r = tokio::time::timeout(Duration::from_secs(5), LdapConnAsync::with_settings(settings, &url)).await;
            let (conn, mut ldap) = match r {
                Ok(Ok(x)) => x,
                other => return format!("setup-failed:{:?}", other.map(|r| r.map(|_| ()))),
            };
            let drv = tokio::spawn(async move { conn.drive().await });
            let b1 = tokio::time::timeout(Duration::from_secs(5), ldap.simple_bind("cn=x", "pw")).await;
            if !matches!(b1, Ok(Ok(_))) {
                return "first-bind-failed".to_string();
            }
            let _ = tokio::time::timeout(Duration::from_secs(5), ldap.unbind()).await;
            tokio::time::sleep(Duration::from_millis(100)).await;
            let later = match tokio::time::timeout(Duration::from_secs(2), ldap.simple_bind("cn=x", "pw")).await {
                Ok(Ok(_)) => "later-op-succeeded",
                Ok(Err(_)) => "later-op-failed",
                Err(_) => "later-op-hangs",
            };
            // the handle stays alive until the peer has had its three seconds
            tokio::time::sleep(Duration::from_millis(200)).await;
            let _keep = &ldap;
            let _ = drv;
            later.to_string()
        });
        let (unbind, eof, after) = handle.join().unwrap_or((false, false, 0));
        rep.eval(true, hash_of(&variant));
        rep.count(&format!("variant:{}", variant));
        let case = json!({"transport": variant, "url": url, "peer_saw_unbind": unbind, "peer_read_eof": eof, "requests_after_unbind": after, "later_operation": later});
        if rep.samples.len() < 5 {
            rep.sample(case.clone());
        }
        if later.starts_with("setup-failed") || later == "first-bind-failed" || !unbind {
            rep.notes.push(format!("unbind-closes {}: could not be exercised ({})", variant, later));
            rep.count("not-exercised");
        } else if !eof {
            rep.mismatch(&format!("c04:unbind:{}:transport-not-closed", variant), case);
        } else if later != "later-op-failed" {
            rep.mismatch(&format!("c04:unbind:{}:{}", variant, later), case);
        } else {
            rep.count("closed-and-failing-fast");
        }
        let _ = std::fs::remove_file(&sockpath);
    }
    rep.write(report);
}

fn main() {
    let a: Vec<String> = std::env::args().collect();
    std::panic::set_hook(Box::new(|_| {})); // panics of the code under test are data
    let dir = PathBuf::from(std::env::var("VERIF_SETUP_DIR").unwrap_or_else(|_| format!("/verif/run/setup-run-{}", std::process::id())));
    std::fs::create_dir_all(&dir).unwrap_or_else(|e| infra(&format!("mkdir {:?}: {}", dir, e)));
    match (a.get(1).map(|x| x.as_str()), a.get(2).map(|x| x.as_str())) {
        (Some("replay"), Some("rows")) if a.len() >= 6 => replay_rows(&a[3], &a[4], &a[5], a.get(6).map(|x| x.as_str()).unwrap_or("1"), a.get(7).map(|x| x.as_str()).unwrap_or("both"), &dir),
        (Some("replay"), Some("est")) if a.len() >= 6 => replay_est(&a[3], &a[4], &a[5], &dir),
        (Some("trace"), Some(out)) if a.len() >= 5 => trace(out, a[3].parse().unwrap_or(100), &a[4], &dir),
        (Some("unbind-closes"), Some(report)) => unbind_closes(report, &dir),
        (Some("probe"), Some(u)) => {
            let tls = make_tls(&dir);
            let starttls = a.iter().any(|x| x == "starttls");
            let mut st = LdapConnSettings::new().set_connector(tls.custom.clone()).set_starttls(starttls);
            if a.iter().any(|x| x == "timeout") {
                st = st.set_conn_timeout(Duration::from_millis(SHORT_MS));
            }
            println!("url crate: {}", url_class(u));
            let rt = tokio::runtime::Builder::new_multi_thread().worker_threads(2).enable_all().build().unwrap();
            let o = rt.block_on(call_async(st, u.to_string(), HANG_MS, None));
            println!("LdapConnAsync::with_settings: {:?}", o);
            let o = call_sync(LdapConnSettings::new().set_starttls(starttls), u.to_string(), HANG_MS);
            println!("LdapConn::with_settings: {:?}", o);
        }
        _ => {
            eprintln!("usage: setup-run replay rows|est <tlc-output> <report.json> <obs.ndjson> [spellings] | trace <out.ndjson> <count> <report.json> | probe <url>");
            std::process::exit(2);
        }
    }
    if std::env::var("VERIF_SETUP_DIR").is_err() {
        let _ = std::fs::remove_dir_all(&dir);
    }
}
