//! sync-run: C14 - "The synchronous API is observationally identical to the asynchronous one".
//!
//! Every script is run TWICE against the same scripted server (a plain thread at the other end of a
//! real Unix socket: a `UnixStream::pair()` handed to the library through `LdapConnSettings::set_std_stream`,
//! or an `ldapi://` path for the constructors that take no settings):
//!   lane A: `LdapConnAsync` + `Ldap` + `SearchStream` inside a current-thread Tokio runtime (`drive!`),
//!   lane B: `LdapConn` + `EntryStream`.
//! For every step the harness records the exact request bytes the server received and a projection of
//! what the call returned, then requires (a) identical wire bytes, (b) identical returns, (c) both equal
//! to the prediction of spec/LdapSeqSync.tla (a disagreement BOTH lanes share is a NOTE, not a C14 verdict).
//!
//!   sync-run replay <tlc-output> <out.ndjson> <report.json>
//!   sync-run trace  <out.ndjson> <count> <report.json>
//!   sync-run one    '<script json>'            (prints both transcripts)
//!
//! No hooks are used: only the public API of ldap3.

use ldap3::adapters::{Adapter, EntriesOnly, PagedResults};
use ldap3::controls::RawControl;
use ldap3::exop::{Exop, WhoAmI};
use ldap3::result::{CompareResult, ExopResult};
use ldap3::{
    DerefAliases, LdapConn, LdapConnAsync, LdapConnSettings, LdapError, LdapResult, Mod, ResultEntry, Scope, SearchOptions,
    SearchResult, StdStream,
};
use rand::{rngs::StdRng, Rng, SeedableRng};
use serde_json::{json, Value};
use std::collections::{BTreeMap, HashSet};
use std::io::{Read, Write};
use std::os::unix::net::{UnixListener, UnixStream};
use std::panic::AssertUnwindSafe;
use std::sync::atomic::{AtomicBool, AtomicUsize, Ordering};
use std::sync::{mpsc, Arc, Mutex};
use std::time::{Duration, Instant};
use verif_harness::ber::{self, El};
use verif_harness::report::{hash_of, Report};
use verif_harness::{hex, tlcout};

const TMO: Duration = Duration::from_millis(80);

fn watchdog() -> Duration {
    Duration::from_millis(std::env::var("C14_WATCHDOG_MS").ok().and_then(|s| s.parse().ok()).unwrap_or(5000))
}

// ------------------------------------------------------------------------------------------------
// Script

#[derive(Clone, Debug)]
struct Step {
    call: String,
    arg: i64,
    ad: i64,
    sub: Vec<String>,
    ctl: i64,
    tmo: i64,
    so: i64,
    srv: String,
}

#[derive(Clone, Debug)]
struct Script {
    ctor: String,
    steps: Vec<Step>,
    exp: Option<Value>,
}

fn step_of(v: &Value) -> Step {
    Step {
        call: v["call"].as_str().unwrap_or("").to_string(),
        arg: v["arg"].as_i64().unwrap_or(0),
        ad: v["ad"].as_i64().unwrap_or(0),
        sub: v["sub"].as_array().map(|a| a.iter().map(|x| x.as_str().unwrap_or("").to_string()).collect()).unwrap_or_default(),
        ctl: v["ctl"].as_i64().unwrap_or(0),
        tmo: v["tmo"].as_i64().unwrap_or(0),
        so: v["so"].as_i64().unwrap_or(0),
        srv: v["srv"].as_str().unwrap_or("ok").to_string(),
    }
}

fn script_of(v: &Value) -> Script {
    Script {
        ctor: v["ctor"].as_str().unwrap_or("ws").to_string(),
        steps: v["steps"].as_array().map(|a| a.iter().map(step_of).collect()).unwrap_or_default(),
        exp: v.get("exp").cloned(),
    }
}

fn step_json(s: &Step) -> Value {
    json!({"call": s.call, "arg": s.arg, "ad": s.ad, "sub": s.sub, "ctl": s.ctl, "tmo": s.tmo, "so": s.so, "srv": s.srv})
}


// ------------------------------------------------------------------------------------------------
// Argument pools: what the client passes (API values) ...

const BIND: [(&str, &str); 2] = [("cn=a,dc=x", "pw1"), ("", "")];
const SEARCH: [(&str, i64, &str, &[&str]); 4] = [
    ("dc=x", 0, "(a=1)", &["cn"]),
    ("dc=y", 1, "(objectClass=*)", &[]),
    ("", 2, "(&(a=1)(b=2))", &["cn", "sn"]),
    ("dc=x", 0, "(", &["cn"]),
];
const COMPARE: (&str, &str, &str) = ("cn=c,dc=x", "mail", "v@x");
const DELETE: &str = "cn=d,dc=x";
const MODDN: [(&str, &str, bool, Option<&str>); 3] =
    [("cn=a,dc=x", "cn=b", true, None), ("cn=a,dc=x", "cn=b", false, Some("dc=y")), ("cn=q,dc=x", "cn=r", true, Some("dc=z"))];

fn scope_of(n: i64) -> Scope {
    match n {
        0 => Scope::Base,
        1 => Scope::OneLevel,
        _ => Scope::Subtree,
    }
}

fn hs(v: &[&'static str]) -> HashSet<&'static str> {
    v.iter().copied().collect()
}

fn add_attrs(arg: i64) -> Vec<(&'static str, HashSet<&'static str>)> {
    match arg {
        0 => vec![("cn", hs(&["n"])), ("sn", hs(&["s"]))],
        1 => vec![("cn", hs(&["n"])), ("sn", hs(&[]))],
        _ => vec![("cn", hs(&["n1", "n2", "n3"]))],
    }
}

fn mods(arg: i64) -> Vec<Mod<&'static str>> {
    match arg {
        0 => vec![Mod::Add("a", hs(&["1"])), Mod::Delete("b", hs(&[])), Mod::Replace("c", hs(&["3"])), Mod::Increment("n", "2")],
        _ => vec![Mod::Replace("c", hs(&["3"])), Mod::Add("a", hs(&[]))],
    }
}

fn exop(arg: i64) -> Exop {
    match arg {
        0 => WhoAmI.into(),
        _ => Exop { name: Some("1.2.3.4".to_string()), val: Some(b"xv".to_vec()) },
    }
}

fn ctl1() -> RawControl {
    RawControl { ctype: "1.2.3.1".to_string(), crit: true, val: Some(b"c1".to_vec()) }
}

fn ctl2() -> Vec<RawControl> {
    vec![
        RawControl { ctype: "1.2.3.2".to_string(), crit: false, val: None },
        RawControl { ctype: "1.2.3.3".to_string(), crit: true, val: Some(b"c3".to_vec()) },
    ]
}

fn sopts() -> SearchOptions {
    SearchOptions::new().deref(DerefAliases::Always).typesonly(true).timelimit(7).sizelimit(5)
}

// ... and what RFC 4511 says those calls look like on the wire (written with the harness's own BER writer).

fn eq_filter(a: &str, v: &str) -> Vec<u8> {
    ber::tlv(0xa3, &ber::cat(&[ber::octets(a.as_bytes()), ber::octets(v.as_bytes())]))
}

fn filter_bytes(arg: i64) -> Vec<u8> {
    match arg {
        0 => eq_filter("a", "1"),
        1 => ber::tlv(0x87, b"objectClass"),
        _ => ber::tlv(0xa0, &ber::cat(&[eq_filter("a", "1"), eq_filter("b", "2")])),
    }
}

fn set_of(vals: &[&str]) -> Vec<u8> {
    ber::tlv(0x31, &ber::cat(&vals.iter().map(|v| ber::octets(v.as_bytes())).collect::<Vec<_>>()))
}

fn attr(name: &str, vals: &[&str]) -> Vec<u8> {
    ber::seq(&[ber::octets(name.as_bytes()), set_of(vals)])
}

fn modop(n: i64, name: &str, vals: &[&str]) -> Vec<u8> {
    ber::seq(&[ber::enumerated(n), attr(name, vals)])
}

/// expected protocolOp for (wire operation, argument tuple, search options applied)
fn op_bytes(op: &str, arg: i64, so: i64) -> Option<Vec<u8>> {
    Some(match (op, arg) {
        ("bind", 0) | ("bind", 1) => {
            let (dn, pw) = BIND[arg as usize];
            ber::tlv(0x60, &ber::cat(&[ber::int(3), ber::octets(dn.as_bytes()), ber::tlv(0x80, pw.as_bytes())]))
        }
        ("bind", 2) => ber::tlv(
            0x60,
            &ber::cat(&[ber::int(3), ber::octets(b""), ber::tlv(0xa3, &ber::cat(&[ber::octets(b"EXTERNAL"), ber::octets(b"")]))]),
        ),
        ("search", 0..=2) => {
            let (base, scope, _, attrs) = SEARCH[arg as usize];
            let (deref, size, time, types) = if so == 1 { (3, 5, 7, true) } else { (0, 0, 0, false) };
            ber::tlv(
                0x63,
                &ber::cat(&[
                    ber::octets(base.as_bytes()),
                    ber::enumerated(scope),
                    ber::enumerated(deref),
                    ber::int(size),
                    ber::int(time),
                    ber::boolean(types),
                    filter_bytes(arg),
                    ber::seq(&attrs.iter().map(|a| ber::octets(a.as_bytes())).collect::<Vec<_>>()),
                ]),
            )
        }
        ("add", 0) => ber::tlv(0x68, &ber::cat(&[ber::octets(b"cn=n,dc=x"), ber::seq(&[attr("cn", &["n"]), attr("sn", &["s"])])])),
        ("add", 2) => ber::tlv(0x68, &ber::cat(&[ber::octets(b"cn=n,dc=x"), ber::seq(&[attr("cn", &["n1", "n2", "n3"])])])),
        ("compare", 0) => ber::tlv(
            0x6e,
            &ber::cat(&[ber::octets(COMPARE.0.as_bytes()), ber::seq(&[ber::octets(COMPARE.1.as_bytes()), ber::octets(COMPARE.2.as_bytes())])]),
        ),
        ("delete", 0) => ber::tlv(0x4a, DELETE.as_bytes()),
        ("modify", 0) => ber::tlv(
            0x66,
            &ber::cat(&[
                ber::octets(b"cn=m,dc=x"),
                ber::seq(&[modop(0, "a", &["1"]), modop(1, "b", &[]), modop(2, "c", &["3"]), modop(3, "n", &["2"])]),
            ]),
        ),
        ("modifydn", 0..=2) => {
            let (dn, rdn, del, sup) = MODDN[arg as usize];
            let mut parts = vec![ber::octets(dn.as_bytes()), ber::octets(rdn.as_bytes()), ber::boolean(del)];
            if let Some(s) = sup {
                parts.push(ber::tlv(0x80, s.as_bytes()));
            }
            ber::tlv(0x6c, &ber::cat(&parts))
        }
        ("extended", 0) => ber::tlv(0x77, &ber::tlv(0x80, b"1.3.6.1.4.1.4203.1.11.3")),
        ("extended", 1) => ber::tlv(0x77, &ber::cat(&[ber::tlv(0x80, b"1.2.3.4"), ber::tlv(0x81, b"xv")])),
        ("unbind", 0) => ber::tlv(0x42, b""),
        _ => return None,
    })
}

fn ctl_bytes(ctl: i64) -> Option<Vec<u8>> {
    match ctl {
        1 => Some(ber::controls(&[ber::control("1.2.3.1", Some(true), Some(b"c1"))])),
        2 => Some(ber::controls(&[ber::control("1.2.3.2", None, None), ber::control("1.2.3.3", Some(true), Some(b"c3"))])),
        3 => Some(ber::controls(&[])),
        _ => None,
    }
}

// canonical re-encoding of a decoded element: definite minimal lengths, SET OF members sorted by encoding
fn encode_el(e: &El) -> Vec<u8> {
    let tag = (e.class << 6) | (if e.cons { 0x20 } else { 0 }) | e.num;
    if e.cons {
        let mut kids: Vec<Vec<u8>> = e.kids.iter().map(encode_el).collect();
        if e.class == 0 && e.num == 17 {
            kids.sort();
        }
        ber::tlv(tag, &ber::cat(&kids))
    } else {
        ber::tlv(tag, &e.val)
    }
}

fn canon(b: &[u8]) -> Vec<u8> {
    match ber::decode(b) {
        Some((el, n)) if n == b.len() => encode_el(&el),
        _ => b.to_vec(),
    }
}

const OPNAMES: [(&str, u8); 10] = [
    ("bind", 0),
    ("unbind", 2),
    ("search", 3),
    ("modify", 6),
    ("add", 8),
    ("delete", 10),
    ("modifydn", 12),
    ("compare", 14),
    ("abandon", 16),
    ("extended", 23),
];

/// Abstract view of one LDAPMessage the server received: {op, id, arg, ctl, so}; -1 = not one of the pool's encodings.
fn abstract_req(raw: &[u8]) -> Value {
    let bad = |why: &str| json!({"op": format!("?{}", why), "id": -1, "arg": -1, "ctl": -1, "so": -1, "pg": -1});
    let (el, n) = match ber::decode(raw) {
        Some(x) => x,
        None => return bad("undecodable"),
    };
    if n != raw.len() || !(el.class == 0 && el.cons && el.num == 16) || el.kids.len() < 2 || el.kids.len() > 3 {
        return bad("envelope");
    }
    let idel = &el.kids[0];
    if idel.class != 0 || idel.cons || idel.num != 2 {
        return bad("msgid");
    }
    let id = ber::uint_of(&idel.val);
    let opel = &el.kids[1];
    let opname = if opel.class == 1 { OPNAMES.iter().find(|(_, n)| *n == opel.num).map(|(s, _)| *s) } else { None };
    let opname = match opname {
        Some(s) => s,
        None => return bad("op"),
    };
    let opb = encode_el(opel);
    let (mut arg, mut so) = (-1i64, if opname == "search" { -1i64 } else { 0 });
    if opname == "abandon" {
        if !opel.cons {
            arg = ber::uint_of(&opel.val);
        }
    } else if opname == "search" {
        // search options and the argument tuple are recognised separately:
        // kids = base, scope, deref, sizelimit, timelimit, typesonly, filter, attributes
        if opel.kids.len() == 8 {
            let opts: Vec<Vec<u8>> = opel.kids[2..6].iter().map(encode_el).collect();
            for s in 0..2 {
                if let Some((e, _)) = op_bytes("search", 0, s).and_then(|b| ber::decode(&b)) {
                    if e.kids[2..6].iter().map(encode_el).collect::<Vec<_>>() == opts {
                        so = s;
                    }
                }
            }
            let pick = |e: &El| [0usize, 1, 6, 7].iter().map(|k| encode_el(&e.kids[*k])).collect::<Vec<_>>();
            for a in 0..3 {
                if let Some((e, _)) = op_bytes("search", a, 0).and_then(|b| ber::decode(&b)) {
                    if pick(&e) == pick(opel) {
                        arg = a;
                    }
                }
            }
        }
    } else {
        'outer: for a in 0..4 {
            for s in 0..2 {
                if opname != "search" && s == 1 {
                    continue;
                }
                if let Some(e) = op_bytes(opname, a, s) {
                    if canon(&e) == opb {
                        arg = a;
                        so = s;
                        break 'outer;
                    }
                }
            }
        }
    }
    let mut pg = 0;
    let mut ctls_el = el.kids.get(2).cloned();
    if let Some(c) = ctls_el.as_mut() {
        if let Some(i) = c.kids.iter().position(|k| k.kids.first().map(|o| o.val == PR_OID.as_bytes()).unwrap_or(false)) {
            pg = match pr_cookie(&c.kids[i]) {
                Some(ck) if ck.is_empty() => 1,
                Some(_) => 2,
                None => -1,
            };
            c.kids.remove(i);
        }
    }
    if pg != 0 && ctls_el.as_ref().map(|c| c.kids.is_empty()).unwrap_or(false) {
        ctls_el = None; // the paged-results control was the only one
    }
    let ctl = if let Some(c) = ctls_el.as_ref() {
        let cb = encode_el(c);
        if Some(&cb) == ctl_bytes(1).map(|b| canon(&b)).as_ref() {
            1
        } else if Some(&cb) == ctl_bytes(2).map(|b| canon(&b)).as_ref() {
            2
        } else if Some(&cb) == ctl_bytes(3).map(|b| canon(&b)).as_ref() {
            3
        } else {
            -1
        }
    } else {
        0
    };
    json!({"op": opname, "id": id, "arg": arg, "ctl": ctl, "so": so, "pg": pg})
}

const PR_OID: &str = "1.2.840.113556.1.4.319";

/// the cookie of a paged-results control element (SEQUENCE { oid, [criticality], value }), None when it is not well formed
fn pr_cookie(c: &El) -> Option<Vec<u8>> {
    let v = c.kids.iter().skip(1).find(|k| k.class == 0 && !k.cons && k.num == 4)?;
    let (seq, n) = ber::decode(&v.val)?;
    if n != v.val.len() || seq.kids.len() != 2 {
        return None;
    }
    Some(seq.kids[1].val.clone())
}

fn pr_response_control(cookie: &[u8]) -> Vec<u8> {
    ber::control(PR_OID, None, Some(&ber::seq(&[ber::tlv(0x02, &[0]), ber::octets(cookie)])))
}

// ------------------------------------------------------------------------------------------------
// Scripted server (plain thread, blocking I/O, independent BER)

struct Shared {
    beh: Mutex<String>,
    step_start: Mutex<Option<Instant>>,
    hang: AtomicBool,
}

enum Cmd {
    Sync(mpsc::Sender<Vec<Vec<u8>>>),
    Quit,
}

struct ServerHandle {
    shared: Arc<Shared>,
    tx: mpsc::Sender<Cmd>,
    join: Option<std::thread::JoinHandle<()>>,
}

impl ServerHandle {
    fn begin_step(&self, beh: &str) {
        *self.shared.beh.lock().unwrap() = beh.to_string();
        *self.shared.step_start.lock().unwrap() = Some(Instant::now());
    }
    /// everything the server received since the previous sync, as complete messages (a trailing partial message is kept as is)
    fn sync(&self) -> Vec<Vec<u8>> {
        let (tx, rx) = mpsc::channel();
        if self.tx.send(Cmd::Sync(tx)).is_err() {
            infra("server thread is gone");
        }
        match rx.recv_timeout(Duration::from_secs(20)) {
            Ok(v) => v,
            Err(_) => infra("server thread does not answer"),
        }
    }
    fn hung(&self) -> bool {
        self.shared.hang.load(Ordering::SeqCst)
    }
    fn stop(mut self) {
        let _ = self.tx.send(Cmd::Quit);
        if let Some(j) = self.join.take() {
            let _ = j.join();
        }
    }
}

fn infra(msg: &str) -> ! {
    eprintln!("sync-run: infrastructure problem: {}", msg);
    std::process::exit(2);
}

enum Endpoint {
    Sock(UnixStream),
    Listen(UnixListener, String),
}

fn entry_msg(id: i64, i: i64) -> Vec<u8> {
    let e = ber::tlv(
        0x64,
        &ber::cat(&[
            ber::octets(format!("cn=e{},o=id{}", i, id).as_bytes()),
            ber::seq(&[ber::seq(&[ber::octets(b"cn"), ber::tlv(0x31, &ber::octets(format!("e{}", i).as_bytes()))])]),
        ]),
    );
    ber::message(id, e, None)
}

fn result_msg(id: i64, app: u8, rc: i64, ext: bool) -> Vec<u8> {
    let mut extra = vec![];
    if rc == 10 {
        extra.push(ber::tlv(0xa3, &ber::octets(b"ldap://r10.example/o=r")));
    }
    if ext {
        extra.push(ber::tlv(0x8a, b"1.2.3.9"));
        extra.push(ber::tlv(0x8b, format!("v{}", id).as_bytes()));
    }
    let op = ber::ldap_result(app, rc, b"o=m", format!("t{}", id).as_bytes(), &extra);
    ber::message(id, op, Some(ber::controls(&[ber::control("1.9.9.1", None, Some(format!("rc{}", id).as_bytes()))])))
}

fn rc_of(beh: &str) -> i64 {
    match beh {
        "e6" => 6,
        "e10" => 10,
        "e32" => 32,
        _ => 0,
    }
}

/// what the server writes for one request, and whether it closes the connection afterwards
fn respond(beh: &str, raw: &[u8]) -> (Vec<u8>, bool) {
    let (el, _) = match ber::decode(raw) {
        Some(x) => x,
        None => return (vec![], false),
    };
    if el.kids.len() < 2 {
        return (vec![], false);
    }
    let id = ber::uint_of(&el.kids[0].val);
    let op = &el.kids[1];
    if op.class != 1 {
        return (vec![], false);
    }
    match op.num {
        2 => (vec![], true), // unbind: the server closes
        16 => (vec![], false), // abandon: no response
        3 => {
            let mut out = vec![];
            let mut close = false;
            match beh {
                "k1" => out.extend([entry_msg(id, 1), result_msg(id, 5, 0, false)].concat()),
                "k2" => out.extend([entry_msg(id, 1), entry_msg(id, 2), result_msg(id, 5, 0, false)].concat()),
                "ref" => out.extend(
                    [
                        entry_msg(id, 1),
                        ber::message(id, ber::tlv(0x73, &ber::octets(b"ldap://ref.example/o=s")), None),
                        entry_msg(id, 2),
                        result_msg(id, 5, 0, false),
                    ]
                    .concat(),
                ),
                "k1s" => out.extend(entry_msg(id, 1)),
                "k1d" => {
                    out.extend(entry_msg(id, 1));
                    close = true;
                }
                "sil" => {}
                "dis" => close = true,
                // a paging server: two pages of one entry each for a client that sends the paged-results control,
                // everything at once for one that does not
                "p2" => {
                    let cookie = el.kids.get(2).and_then(|c| c.kids.iter().find(|k| k.kids.first().map(|o| o.val == PR_OID.as_bytes()).unwrap_or(false))).and_then(pr_cookie);
                    match cookie {
                        None => out.extend([entry_msg(id, 1), result_msg(id, 5, 0, false)].concat()),
                        Some(ck) => {
                            let (n, next): (i64, &[u8]) = if ck.is_empty() { (1, b"page2") } else { (2, b"") };
                            out.extend(entry_msg(id, n));
                            let op = ber::ldap_result(5, 0, b"o=m", format!("t{}", id).as_bytes(), &[]);
                            out.extend(ber::message(
                                id,
                                op,
                                Some(ber::controls(&[ber::control("1.9.9.1", None, Some(format!("rc{}", id).as_bytes())), pr_response_control(next)])),
                            ));
                        }
                    }
                }
                b => out.extend(result_msg(id, 5, rc_of(b), false)),
            }
            (out, close)
        }
        n => match beh {
            "sil" | "k1s" => (vec![], false),
            "dis" | "k1d" => (vec![], true),
            b => (result_msg(id, n + 1, rc_of(b), n == 23), false),
        },
    }
}

fn server_thread(ep: Endpoint, shared: Arc<Shared>, rx: mpsc::Receiver<Cmd>, wd: Duration) {
    let (mut sock, listener) = match ep {
        Endpoint::Sock(s) => (Some(s), None),
        Endpoint::Listen(l, p) => {
            l.set_nonblocking(true).ok();
            (None, Some((l, p)))
        }
    };
    if let Some(s) = &sock {
        s.set_read_timeout(Some(Duration::from_millis(1))).ok();
    }
    let mut buf: Vec<u8> = vec![];
    let mut msgs: Vec<Vec<u8>> = vec![];
    let mut tmp = [0u8; 8192];
    loop {
        // commands
        loop {
            match rx.try_recv() {
                Ok(Cmd::Sync(tx)) => {
                    // the client's writes completed before it asked: whatever it sent is already in our receive queue
                    // (or, for a connection by path, in the listener's backlog)
                    if sock.is_none() && !shared.hang.load(Ordering::SeqCst) {
                        if let Some((l, _)) = &listener {
                            if let Ok((s, _)) = l.accept() {
                                sock = Some(s);
                            }
                        }
                    }
                    if let Some(s) = sock.as_mut() {
                        s.set_nonblocking(true).ok();
                        loop {
                            match s.read(&mut tmp) {
                                Ok(0) => break,
                                Ok(n) => buf.extend_from_slice(&tmp[..n]),
                                Err(_) => break,
                            }
                        }
                        s.set_nonblocking(false).ok();
                        s.set_read_timeout(Some(Duration::from_millis(1))).ok();
                    }
                    process(&mut buf, &mut msgs, &mut sock, &shared);
                    let mut out = std::mem::take(&mut msgs);
                    if !buf.is_empty() {
                        out.push(std::mem::take(&mut buf));
                    }
                    *shared.step_start.lock().unwrap() = None;
                    let _ = tx.send(out);
                }
                Ok(Cmd::Quit) | Err(mpsc::TryRecvError::Disconnected) => {
                    if let Some((_, p)) = &listener {
                        let _ = std::fs::remove_file(p);
                    }
                    return;
                }
                Err(mpsc::TryRecvError::Empty) => break,
            }
        }
        // watchdog: a step that does not finish is turned into an observation by cutting the connection
        let started = *shared.step_start.lock().unwrap();
        if let Some(t) = started {
            if t.elapsed() > wd && !shared.hang.load(Ordering::SeqCst) {
                shared.hang.store(true, Ordering::SeqCst);
                if let Some(s) = sock.take() {
                    let _ = s.shutdown(std::net::Shutdown::Both);
                }
            }
        }
        if sock.is_none() {
            if let Some((l, _)) = &listener {
                if !shared.hang.load(Ordering::SeqCst) {
                    if let Ok((s, _)) = l.accept() {
                        s.set_nonblocking(false).ok();
                        s.set_read_timeout(Some(Duration::from_millis(1))).ok();
                        sock = Some(s);
                        continue;
                    }
                }
            }
            std::thread::sleep(Duration::from_millis(1));
            continue;
        }
        let r = sock.as_mut().unwrap().read(&mut tmp);
        match r {
            Ok(0) => {
                sock = None; // the client closed
            }
            Ok(n) => {
                buf.extend_from_slice(&tmp[..n]);
                process(&mut buf, &mut msgs, &mut sock, &shared);
            }
            Err(e) if matches!(e.kind(), std::io::ErrorKind::WouldBlock | std::io::ErrorKind::TimedOut | std::io::ErrorKind::Interrupted) => {}
            Err(_) => {
                sock = None;
            }
        }
    }
}

fn process(buf: &mut Vec<u8>, msgs: &mut Vec<Vec<u8>>, sock: &mut Option<UnixStream>, shared: &Shared) {
    let (done, rest) = ber::split_messages(buf);
    *buf = rest;
    for (_, raw) in done {
        let beh = shared.beh.lock().unwrap().clone();
        let (out, close) = respond(&beh, &raw);
        let is_unbind = ber::decode(&raw).map(|(e, _)| e.kids.len() >= 2 && e.kids[1].class == 1 && e.kids[1].num == 2).unwrap_or(false);
        msgs.push(raw);
        if let Some(s) = sock.as_mut() {
            if !out.is_empty() {
                let _ = s.write_all(&out);
            }
        }
        if close {
            if is_unbind {
                std::thread::sleep(Duration::from_millis(3));
            }
            if let Some(s) = sock.take() {
                let _ = s.shutdown(std::net::Shutdown::Both);
            }
        }
    }
}

static SOCKSEQ: AtomicUsize = AtomicUsize::new(0);

/// returns (server handle, client end: either a socket or an ldapi URL)
fn start_server(ctor: &str, sockdir: &str) -> (ServerHandle, Option<UnixStream>, String) {
    let shared = Arc::new(Shared { beh: Mutex::new("ok".into()), step_start: Mutex::new(None), hang: AtomicBool::new(false) });
    let (tx, rx) = mpsc::channel();
    let wd = watchdog();
    let (ep, client, url) = if ctor == "new" || ctor == "fu" {
        let path = format!("{}/{}-{}.sock", sockdir, std::process::id(), SOCKSEQ.fetch_add(1, Ordering::SeqCst));
        let _ = std::fs::remove_file(&path);
        let l = match UnixListener::bind(&path) {
            Ok(l) => l,
            Err(e) => infra(&format!("cannot bind {}: {}", path, e)),
        };
        let url = format!("ldapi://{}", path.replace('/', "%2F"));
        (Endpoint::Listen(l, path), None, url)
    } else {
        let (a, b) = match UnixStream::pair() {
            Ok(p) => p,
            Err(e) => infra(&format!("socketpair: {}", e)),
        };
        (Endpoint::Sock(b), Some(a), "ldapi:///".to_string())
    };
    let sh = shared.clone();
    let join = std::thread::Builder::new()
        .name("c14-server".into())
        .spawn(move || server_thread(ep, sh, rx, wd))
        .unwrap_or_else(|e| infra(&format!("spawn: {}", e)));
    (ServerHandle { shared, tx, join: Some(join) }, client, url)
}

// ------------------------------------------------------------------------------------------------
// Return projection

#[derive(Clone, Debug, PartialEq)]
struct RetP {
    out: String,
    var: String,
    rc: i64,
    mid: i64,
    ents: Vec<i64>,
    refs: i64,
    val: i64,
    raw: String,
}

impl RetP {
    fn new(out: &str, var: &str, raw: String) -> RetP {
        RetP { out: out.into(), var: var.into(), rc: -1, mid: -1, ents: vec![], refs: 0, val: -1, raw }
    }
    fn plain(raw: &str) -> RetP {
        RetP::new("ok", "", raw.to_string())
    }
    fn val(v: i64, raw: String) -> RetP {
        let mut r = RetP::new("ok", "", raw);
        r.val = v;
        r
    }
    fn hang() -> RetP {
        RetP::new("hang", "", "hang".into())
    }
    fn json(&self) -> Value {
        json!({"out": self.out, "var": self.var, "rc": self.rc, "mid": self.mid, "ents": self.ents, "refs": self.refs, "val": self.val, "raw": self.raw})
    }
}

fn p_err(e: &LdapError) -> RetP {
    let (out, var) = match e {
        LdapError::Timeout { .. } => ("timeout", "Timeout".to_string()),
        LdapError::OpSend { .. } => ("conn", "OpSend".to_string()),
        LdapError::ResultRecv { .. } => ("conn", "ResultRecv".to_string()),
        LdapError::IdScrubSend { .. } => ("conn", "IdScrubSend".to_string()),
        LdapError::MiscSend { .. } => ("conn", "MiscSend".to_string()),
        LdapError::Io { .. } => ("conn", "Io".to_string()),
        LdapError::EndOfStream => ("eos", "EndOfStream".to_string()),
        LdapError::AddNoValues => ("local", "AddNoValues".to_string()),
        LdapError::FilterParsing => ("local", "FilterParsing".to_string()),
        other => {
            let d = format!("{:?}", other);
            ("other", d.split(|c: char| !c.is_alphanumeric()).next().unwrap_or("").to_string())
        }
    };
    RetP::new(out, &var, format!("Err {}: {}", var, e))
}

fn num_after(s: &str, prefix: &str) -> i64 {
    s.strip_prefix(prefix).and_then(|r| r.parse::<i64>().ok()).unwrap_or(-1)
}

fn p_lres(r: &LdapResult, raw: String) -> RetP {
    let mut p = RetP::new("ok", "", raw);
    p.rc = r.rc as i64;
    p.mid = num_after(&r.text, "t");
    p.refs = r.refs.len() as i64;
    p
}

fn p_res(r: ldap3::result::Result<LdapResult>) -> RetP {
    match r {
        Ok(r) => p_lres(&r, format!("{:?}", r)),
        Err(e) => p_err(&e),
    }
}

fn p_cmp(r: ldap3::result::Result<CompareResult>) -> RetP {
    match r {
        Ok(r) => p_lres(&r.0, format!("{:?}", r)),
        Err(e) => p_err(&e),
    }
}

fn p_exop(r: ldap3::result::Result<ExopResult>) -> RetP {
    match r {
        Ok(r) => {
            let mut p = p_lres(&r.1, format!("{:?}", r));
            p.val = r.0.val.as_ref().map(|v| num_after(&String::from_utf8_lossy(v), "v")).unwrap_or(-1);
            p
        }
        Err(e) => p_err(&e),
    }
}

fn p_unit(r: ldap3::result::Result<()>) -> RetP {
    match r {
        Ok(()) => RetP::plain("Ok(())"),
        Err(e) => p_err(&e),
    }
}

fn entry_tok(re: &ResultEntry) -> i64 {
    use ldap3::asn1::PL;
    let st = &re.0;
    if st.id == 19 {
        return 0;
    }
    if st.id != 4 {
        return -9;
    }
    if let PL::C(kids) = &st.payload {
        if let Some(first) = kids.first() {
            if let PL::P(v) = &first.payload {
                let s = String::from_utf8_lossy(v).to_string();
                let head = s.split(',').next().unwrap_or("");
                return num_after(head, "cn=e");
            }
        }
    }
    -9
}

fn p_search(r: ldap3::result::Result<SearchResult>) -> RetP {
    match r {
        Ok(r) => {
            let mut p = p_lres(&r.1, format!("{:?}", r));
            p.ents = r.0.iter().map(entry_tok).collect();
            p
        }
        Err(e) => p_err(&e),
    }
}

fn p_next(r: ldap3::result::Result<Option<ResultEntry>>) -> RetP {
    match r {
        Ok(Some(re)) => {
            let mut p = RetP::val(1, format!("{:?}", re));
            p.ents = vec![entry_tok(&re)];
            p
        }
        Ok(None) => RetP::val(0, "None".into()),
        Err(e) => p_err(&e),
    }
}

fn p_cert(r: ldap3::result::Result<Option<Vec<u8>>>) -> RetP {
    match r {
        Ok(None) => RetP::val(0, "Ok(None)".into()),
        Ok(Some(v)) => RetP::val(1, format!("Ok(Some({}))", hex(&v))),
        Err(e) => p_err(&e),
    }
}

#[derive(Clone, Debug)]
struct StepObs {
    reqs: Vec<Value>,
    wire: Vec<String>,
    ret: RetP,
    subs: Vec<RetP>,
    lastid: i64,
    closed: i64,
}

impl StepObs {
    fn json(&self) -> Value {
        json!({"reqs": self.reqs, "wire": self.wire, "ret": self.ret.json(),
               "subs": self.subs.iter().map(|s| s.json()).collect::<Vec<_>>(), "lastid": self.lastid, "closed": self.closed})
    }
}

fn finish_obs(srv: &ServerHandle, ret: RetP, subs: Vec<RetP>, lastid: i64, closed: i64) -> StepObs {
    let msgs = srv.sync();
    let reqs = msgs.iter().map(|m| abstract_req(m)).collect();
    let wire = msgs.iter().map(|m| hex(&canon(m))).collect();
    StepObs { reqs, wire, ret, subs, lastid, closed }
}

// ------------------------------------------------------------------------------------------------
// The two lanes.  One macro body, so that both lanes execute literally the same sequence of calls;
// the only differences are the handle types and `.await`.

macro_rules! lane_steps {
    ($conn:ident, $script:ident, $srv:ident, $obs:ident, [$($aw:tt)*], $finish:ident, $slast:ident, $idle:ident) => {
        for st in &$script.steps {
            $srv.begin_step(&st.srv);
            match st.ctl {
                1 => { $conn.with_controls(ctl1()); }
                2 => { $conn.with_controls(ctl2()); }
                3 => { $conn.with_controls(Vec::<RawControl>::new()); }
                _ => {}
            }
            if st.tmo != 0 { $conn.with_timeout(TMO); }
            if st.so != 0 { $conn.with_search_options(sopts()); }
            let mut subs: Vec<RetP> = vec![];
            let a = st.arg.clamp(0, 3) as usize;
            let mut ret = match st.call.as_str() {
                "simple_bind" => { let (dn, pw) = BIND[a.min(1)]; p_res($conn.simple_bind(dn, pw)$($aw)*) }
                "sasl_external_bind" => p_res($conn.sasl_external_bind()$($aw)*),
                "search" => { let (b, s, f, at) = SEARCH[a]; p_search($conn.search(b, scope_of(s), f, at.to_vec())$($aw)*) }
                "streaming_search" | "streaming_search_with" => {
                    let (b, s, f, at) = SEARCH[a];
                    let opened = if st.call == "streaming_search" {
                        $conn.streaming_search(b, scope_of(s), f, at.to_vec())$($aw)*
                    } else if st.ad == 1 {
                        $conn.streaming_search_with(EntriesOnly::new(), b, scope_of(s), f, at.to_vec())$($aw)*
                    } else if st.ad == 2 {
                        $conn.streaming_search_with(PagedResults::new(1), b, scope_of(s), f, at.to_vec())$($aw)*
                    } else {
                        let none: Vec<Box<dyn Adapter<'static, &'static str, Vec<&'static str>>>> = vec![];
                        $conn.streaming_search_with(none, b, scope_of(s), f, at.to_vec())$($aw)*
                    };
                    match opened {
                        Ok(stream) => {
                            let mut stream = Some(stream);
                            for sub in &st.sub {
                                let r = match (sub.as_str(), stream.as_mut()) {
                                    ("next", Some(s)) => p_next(s.next()$($aw)*),
                                    ("lastid", Some(s)) => { let v = $slast!(s); RetP::val(v as i64, format!("{}", v)) }
                                    ("result", Some(_)) => {
                                        #[allow(unused_mut)]
                                        let mut s = stream.take().unwrap();
                                        let r = s.$finish()$($aw)*;
                                        p_lres(&r, format!("{:?}", r))
                                    }
                                    _ => RetP::new("other", "NoStream", "stream already consumed".into()),
                                };
                                if $srv.hung() { subs.push(RetP::hang()); break; }
                                subs.push(r);
                            }
                            drop(stream);
                            RetP::plain("Ok(stream)")
                        }
                        Err(e) => p_err(&e),
                    }
                }
                "add" => p_res($conn.add("cn=n,dc=x", add_attrs(st.arg))$($aw)*),
                "compare" => p_cmp($conn.compare(COMPARE.0, COMPARE.1, COMPARE.2)$($aw)*),
                "delete" => p_res($conn.delete(DELETE)$($aw)*),
                "modify" => p_res($conn.modify("cn=m,dc=x", mods(st.arg))$($aw)*),
                "modifydn" => { let (dn, rdn, del, sup) = MODDN[a.min(2)]; p_res($conn.modifydn(dn, rdn, del, sup)$($aw)*) }
                "unbind" => p_unit($conn.unbind()$($aw)*),
                "extended" => p_exop($conn.extended(exop(st.arg))$($aw)*),
                "abandon" => {
                    let target = match st.arg { 0 => $conn.last_id(), 1 => 1, _ => 9 };
                    p_unit($conn.abandon(target)$($aw)*)
                }
                "last_id" => { let v = $conn.last_id(); RetP::val(v as i64, format!("{}", v)) }
                "is_closed" => { let v = $conn.is_closed(); RetP::val(v as i64, format!("{}", v)) }
                "get_peer_certificate" => p_cert($conn.get_peer_certificate()$($aw)*),
                "noop" => RetP::plain("-"),
                // not part of the model or of any generated script: lets `sync-run one` show what passing time does
                "idle" => { $idle!(); RetP::plain("-") }
                other => RetP::new("other", "UnknownCall", other.to_string()),
            };
            let hung = $srv.hung();
            if hung && subs.last().map(|s| s.out != "hang").unwrap_or(true) && !is_stream(&st.call) {
                ret = RetP::hang();
            }
            let lastid = $conn.last_id() as i64;
            let closed = $conn.is_closed() as i64;
            $obs.push(finish_obs($srv, ret, subs, lastid, closed));
            if hung { break; }
        }
    };
}

fn is_stream(call: &str) -> bool {
    call == "streaming_search" || call == "streaming_search_with"
}

macro_rules! slast_sync {
    ($s:expr) => {
        $s.last_id()
    };
}
macro_rules! idle_sync {
    () => {
        std::thread::sleep(Duration::from_millis(30))
    };
}
macro_rules! idle_async {
    () => {
        tokio::time::sleep(Duration::from_millis(30)).await
    };
}
macro_rules! slast_async {
    ($s:expr) => {
        $s.ldap_handle().last_id()
    };
}

fn settings(sock: Option<UnixStream>) -> LdapConnSettings {
    match sock {
        Some(s) => LdapConnSettings::new().set_std_stream(StdStream::Unix(s)),
        None => LdapConnSettings::new(),
    }
}

fn run_sync(script: &Script, srv: &ServerHandle, sock: Option<UnixStream>, url: &str, obs: &mut Vec<StepObs>) -> Result<(), String> {
    let parsed = url::Url::parse(url).map_err(|e| format!("url: {}", e))?;
    let opened = match script.ctor.as_str() {
        "ws" => LdapConn::with_settings(settings(sock), url),
        "fus" => LdapConn::from_url_with_settings(settings(sock), &parsed),
        "new" => LdapConn::new(url),
        _ => LdapConn::from_url(&parsed),
    };
    let mut conn = opened.map_err(|e| format!("{:?}", e))?;
    lane_steps!(conn, script, srv, obs, [], result, slast_sync, idle_sync);
    drop(conn);
    Ok(())
}

fn run_async(script: &Script, srv: &ServerHandle, sock: Option<UnixStream>, url: &str, obs: &mut Vec<StepObs>) -> Result<(), String> {
    let rt = tokio::runtime::Builder::new_current_thread().enable_all().build().map_err(|e| format!("runtime: {}", e))?;
    let parsed = url::Url::parse(url).map_err(|e| format!("url: {}", e))?;
    let r = rt.block_on(async {
        let opened = match script.ctor.as_str() {
            "ws" => LdapConnAsync::with_settings(settings(sock), url).await,
            "fus" => LdapConnAsync::from_url_with_settings(settings(sock), &parsed).await,
            "new" => LdapConnAsync::new(url).await,
            _ => LdapConnAsync::from_url(&parsed).await,
        };
        let (conn, mut ldap) = opened.map_err(|e| format!("{:?}", e))?;
        ldap3::drive!(conn);
        lane_steps!(ldap, script, srv, obs, [.await], finish, slast_async, idle_async);
        drop(ldap);
        Ok::<(), String>(())
    });
    drop(rt);
    r
}

struct LaneOut {
    ctor: String, // "ok" or the constructor's error
    obs: Vec<StepObs>,
    panic: Option<String>,
}

fn run_lane(sync: bool, script: &Script, sockdir: &str) -> LaneOut {
    let (srv, sock, url) = start_server(&script.ctor, sockdir);
    let mut obs = vec![];
    let r = std::panic::catch_unwind(AssertUnwindSafe(|| {
        if sync {
            run_sync(script, &srv, sock, &url, &mut obs)
        } else {
            run_async(script, &srv, sock, &url, &mut obs)
        }
    }));
    srv.stop();
    match r {
        Ok(Ok(())) => LaneOut { ctor: "ok".into(), obs, panic: None },
        Ok(Err(e)) => LaneOut { ctor: e, obs, panic: None },
        Err(p) => {
            let m = p.downcast_ref::<&str>().map(|s| s.to_string()).or_else(|| p.downcast_ref::<String>().cloned()).unwrap_or_else(|| "panic".into());
            LaneOut { ctor: "ok".into(), obs, panic: Some(m) }
        }
    }
}

// ------------------------------------------------------------------------------------------------
// Comparison

fn api_name(call: &str) -> &str {
    match call {
        "noop" => "modifiers",
        c => c,
    }
}

fn sub_name(sub: &str) -> &'static str {
    match sub {
        "next" => "EntryStream::next",
        "result" => "EntryStream::result",
        _ => "EntryStream::last_id",
    }
}

fn ctor_name(c: &str) -> &'static str {
    match c {
        "ws" => "with_settings",
        "fus" => "from_url_with_settings",
        "new" => "new",
        _ => "from_url",
    }
}

/// (index of the first step from which scheduling-dependent observations are possible) - see LdapSeqSync `unst`
fn unstable_from(script: &Script, a: &LaneOut, b: &LaneOut) -> usize {
    for (i, st) in script.steps.iter().enumerate() {
        if st.call == "unbind" {
            return i;
        }
        if is_stream(&st.call) && (st.srv == "dis" || st.srv == "k1d") {
            let saw = |l: &LaneOut| l.obs.get(i).map(|o| o.subs.iter().any(|s| s.var == "EndOfStream")).unwrap_or(false);
            if !(saw(a) && saw(b)) {
                return i;
            }
        }
    }
    usize::MAX
}

fn ret_equal(x: &RetP, y: &RetP, coarse: bool) -> bool {
    if coarse {
        x.out == y.out && (x.out != "ok" || x == y)
    } else {
        x == y
    }
}

fn ret_key(method: &str, st: &Step, x: &RetP, y: &RetP) -> String {
    // one lane gives up after the timeout where the other one blocks: the timeout was not (or wrongly) applied
    let _ = st;
    if (x.out == "timeout" && y.out == "hang") || (x.out == "hang" && y.out == "timeout") {
        return "c14:with_timeout:return-differs".to_string();
    }
    format!("c14:{}:return-differs", method)
}

/// first difference between the lanes: (class key, detail)
fn lane_diff(script: &Script, a: &LaneOut, b: &LaneOut) -> Option<(String, Value)> {
    let cname = ctor_name(&script.ctor);
    if a.ctor != b.ctor {
        return Some((format!("c14:{}:return-differs", cname), json!({"async": a.ctor, "sync": b.ctor})));
    }
    if a.panic.is_some() || b.panic.is_some() {
        if a.panic != b.panic {
            let i = if b.panic.is_some() { b.obs.len() } else { a.obs.len() };
            let call = script.steps.get(i).map(|s| s.call.as_str()).unwrap_or("?");
            // a panic of one lane only, in a step that carries a timeout, is also the timeout property's business (C12)
            let timed = script.steps.get(i).map(|s| s.tmo != 0).unwrap_or(false);
            return Some((format!("c14:{}:panic{}", api_name(call), if timed { ":under-timeout" } else { "" }), json!({"step": i, "async": a.panic, "sync": b.panic})));
        }
    }
    let unst = unstable_from(script, a, b);
    let n = a.obs.len().max(b.obs.len());
    for i in 0..n {
        let st = &script.steps[i];
        let m = api_name(&st.call);
        let (x, y) = match (a.obs.get(i), b.obs.get(i)) {
            (Some(x), Some(y)) => (x, y),
            (x, y) => {
                return Some((
                    format!("c14:{}:return-differs", m),
                    json!({"step": i, "what": "one lane stopped", "async": x.map(|o| o.json()), "sync": y.map(|o| o.json())}),
                ))
            }
        };
        // wire
        if x.wire != y.wire {
            let det = json!({"step": i, "async": {"reqs": x.reqs, "wire": x.wire}, "sync": {"reqs": y.reqs, "wire": y.wire}});
            if x.reqs.len() != y.reqs.len() {
                return Some((format!("c14:{}:wire-differs:request-count", m), det));
            }
            for (p, q) in x.reqs.iter().zip(y.reqs.iter()) {
                if p == q {
                    continue;
                }
                let d: Vec<&str> = ["op", "id", "arg", "ctl", "so", "pg"].iter().copied().filter(|f| p[*f] != q[*f]).collect();
                let key = match d.as_slice() {
                    ["ctl"] => "c14:with_controls:wire-differs".to_string(),
                    ["so"] => "c14:with_search_options:wire-differs".to_string(),
                    ["id"] => format!("c14:{}:wire-differs:msgid", m),
                    ["arg"] => format!("c14:{}:wire-differs:args", m),
                    x if x.contains(&"op") => format!("c14:{}:wire-differs:op", m),
                    _ => format!("c14:{}:wire-differs:{}", m, d.join("+")),
                };
                return Some((key, det));
            }
            return Some((format!("c14:{}:wire-differs:bytes", m), det));
        }
        // return of the call
        let coarse = i > unst && unst != usize::MAX;
        let skip = coarse && (st.call == "get_peer_certificate" || st.call == "is_closed");
        if !skip && !ret_equal(&x.ret, &y.ret, coarse) {
            return Some((ret_key(m, st, &x.ret, &y.ret), json!({"step": i, "async": x.ret.json(), "sync": y.ret.json()})));
        }
        for k in 0..x.subs.len().max(y.subs.len()) {
            let sm = st.sub.get(k).map(|s| sub_name(s)).unwrap_or("EntryStream");
            match (x.subs.get(k), y.subs.get(k)) {
                (Some(p), Some(q)) => {
                    if !ret_equal(p, q, false) {
                        return Some((ret_key(sm, st, p, q), json!({"step": i, "sub": k, "async": p.json(), "sync": q.json()})));
                    }
                }
                (p, q) => {
                    return Some((
                        format!("c14:{}:return-differs", sm),
                        json!({"step": i, "sub": k, "async": p.map(|r| r.json()), "sync": q.map(|r| r.json())}),
                    ))
                }
            }
        }
        if x.ret.out == "hang" || x.subs.iter().any(|s| s.out == "hang") {
            continue; // what follows a cut connection is not an observation of the library
        }
        if x.lastid != y.lastid {
            return Some(("c14:last_id:return-differs".to_string(), json!({"step": i, "after": st.call, "async": x.lastid, "sync": y.lastid})));
        }
        if x.closed != y.closed && !(unst != usize::MAX && i >= unst) {
            return Some(("c14:is_closed:return-differs".to_string(), json!({"step": i, "after": st.call, "async": x.closed, "sync": y.closed})));
        }
    }
    None
}

/// conformance of one lane with the model's prediction; returns a short description of the first deviation
fn model_diff(script: &Script, exp: &Value, l: &LaneOut) -> Option<String> {
    let exp = exp.as_array()?;
    if l.ctor != "ok" {
        return Some(format!("{}:constructor-failed", ctor_name(&script.ctor)));
    }
    if l.panic.is_some() {
        return Some("panic".to_string());
    }
    if exp.len() != l.obs.len() {
        return Some(format!("{}:number-of-steps-executed", script.steps.get(exp.len().min(l.obs.len())).map(|s| s.call.as_str()).unwrap_or("end")));
    }
    for (i, (e, o)) in exp.iter().zip(l.obs.iter()).enumerate() {
        let st = &script.steps[i];
        let m = api_name(&st.call);
        let ereqs = e["reqs"].as_array().cloned().unwrap_or_default();
        if ereqs.len() != o.reqs.len() {
            return Some(format!("{}:request-count", m));
        }
        for (p, q) in ereqs.iter().zip(o.reqs.iter()) {
            for f in ["op", "id", "arg", "ctl", "so", "pg"] {
                if p[f] != q[f] {
                    return Some(format!("{}:request:{}", m, f));
                }
            }
        }
        let unst = e["unst"].as_i64().unwrap_or(0) == 1;
        let chk = |er: &Value, r: &RetP, name: &str| -> Option<String> {
            let eo = er["out"].as_str().unwrap_or("");
            if eo == "any" {
                return None;
            }
            if eo != r.out {
                return Some(format!("{}:outcome:{}-for-{}", name, r.out, eo));
            }
            if !unst && er["var"].as_str().unwrap_or("") != r.var {
                return Some(format!("{}:error-variant", name));
            }
            if eo != "ok" {
                return None;
            }
            if er["rc"].as_i64() != Some(r.rc) {
                return Some(format!("{}:rc", name));
            }
            if er["mid"].as_i64() != Some(r.mid) {
                return Some(format!("{}:echoed-id", name));
            }
            let ee: Vec<i64> = er["ents"].as_array().map(|a| a.iter().map(|x| x.as_i64().unwrap_or(-7)).collect()).unwrap_or_default();
            if ee != r.ents {
                return Some(format!("{}:entries", name));
            }
            if er["refs"].as_i64() != Some(r.refs) {
                return Some(format!("{}:refs", name));
            }
            let ev = er["val"].as_i64().unwrap_or(-1);
            if st.call == "is_closed" && ev == 2 {
                return None;
            }
            if st.call == "last_id" && r.val != ev && Some(r.val) == e["lastalt"].as_i64() {
                return None; // the property does not say whether a search updates last_id()
            }
            if ev != r.val {
                return Some(format!("{}:value", name));
            }
            None
        };
        if let Some(d) = chk(&e["ret"], &o.ret, m) {
            return Some(d);
        }
        let esubs = e["subs"].as_array().cloned().unwrap_or_default();
        if esubs.len() != o.subs.len() {
            return Some(format!("{}:stream-calls-executed", m));
        }
        for (k, (es, os)) in esubs.iter().zip(o.subs.iter()).enumerate() {
            let name = st.sub.get(k).map(|s| sub_name(s)).unwrap_or("EntryStream");
            // stream calls: `val` is exact (0/1 for next, the search id for last_id)
            let eo = es["out"].as_str().unwrap_or("");
            if eo != os.out {
                return Some(format!("{}:outcome:{}-for-{}", name, os.out, eo));
            }
            if es["var"].as_str().unwrap_or("") != os.var {
                return Some(format!("{}:error-variant", name));
            }
            if eo == "ok" {
                let ee: Vec<i64> = es["ents"].as_array().map(|a| a.iter().map(|x| x.as_i64().unwrap_or(-7)).collect()).unwrap_or_default();
                if es["rc"].as_i64() != Some(os.rc) || es["mid"].as_i64() != Some(os.mid) || ee != os.ents || es["refs"].as_i64() != Some(os.refs) || es["val"].as_i64() != Some(os.val) {
                    return Some(format!("{}:value", name));
                }
            }
        }
        if o.ret.out == "hang" || o.subs.iter().any(|s| s.out == "hang") {
            continue;
        }
        let el = e["lastid"].as_i64().unwrap_or(-1);
        if o.lastid != el && Some(o.lastid) != e["lastalt"].as_i64() {
            return Some("last_id:after-step".to_string());
        }
        let ec = e["closed"].as_i64().unwrap_or(2);
        if ec != 2 && ec != o.closed {
            return Some("is_closed:after-step".to_string());
        }
    }
    None
}

fn record(script: &Script, a: &LaneOut, b: &LaneOut) -> Value {
    json!({
        "ctor": script.ctor,
        "steps": script.steps.iter().map(step_json).collect::<Vec<_>>(),
        "ca": a.ctor, "cb": b.ctor,
        "pa": a.panic.clone().unwrap_or_default(), "pb": b.panic.clone().unwrap_or_default(),
        "a": a.obs.iter().map(|o| o.json()).collect::<Vec<_>>(),
        "b": b.obs.iter().map(|o| o.json()).collect::<Vec<_>>(),
    })
}

struct Outcome {
    rec: Value,
    diff: Option<(String, Value)>,
    flaky: u32,
    model: Option<String>, // both lanes agree with each other but not with the model
    conform: bool,
    infra: Option<String>,
}

/// confirmed lane differences in which one lane blocked until the watchdog cut the connection
static HANG_DIFFS: AtomicUsize = AtomicUsize::new(0);

fn lane_hung(l: &LaneOut) -> bool {
    l.obs.iter().any(|o| o.ret.out == "hang" || o.subs.iter().any(|s| s.out == "hang"))
}

fn run_script(script: &Script, sockdir: &str) -> Option<Outcome> {
    // A systematic defect of the kind "the timeout is not applied" makes every silence script block for the whole
    // watchdog period. Once it is established (10 confirmed cases) the remaining silence scripts add nothing but hours.
    if HANG_DIFFS.load(Ordering::SeqCst) >= 10 && script.steps.iter().any(|s| s.srv == "sil" || s.srv == "k1s") {
        return None;
    }
    let mut flaky = 0;
    let mut last: Option<(LaneOut, LaneOut, Option<(String, Value)>)> = None;
    // a real difference is deterministic; a scheduling hiccup under load (a reply later than the 80 ms timeout) is not:
    // a difference is reported only if it shows in three consecutive runs of the script
    for _attempt in 0..3 {
        let a = run_lane(false, script, sockdir);
        let b = run_lane(true, script, sockdir);
        let d = lane_diff(script, &a, &b);
        let clean = d.is_none();
        // five seconds of nothing are not a scheduling hiccup: no need to see it three times
        let hung = d.is_some() && (lane_hung(&a) != lane_hung(&b));
        last = Some((a, b, d));
        if clean {
            break;
        }
        if hung {
            HANG_DIFFS.fetch_add(1, Ordering::SeqCst);
            break;
        }
        flaky += 1;
    }
    if last.as_ref().map(|l| l.2.is_some()).unwrap_or(false) {
        flaky = 0;
    }
    let (a, b, diff) = last.unwrap();
    let mut infra = None;
    if a.ctor != "ok" && b.ctor != "ok" {
        infra = Some(format!("both constructors failed: {} / {}", a.ctor, b.ctor));
    }
    let (mut model, mut conform) = (None, false);
    if let Some(exp) = &script.exp {
        if diff.is_none() {
            let da = model_diff(script, exp, &a);
            let db = model_diff(script, exp, &b);
            conform = da.is_none() && db.is_none();
            model = da.or(db);
        }
    }
    Some(Outcome { rec: record(script, &a, &b), diff, flaky, model, conform, infra })
}

// ------------------------------------------------------------------------------------------------
// Parallel driver

fn expects_hang(s: &Script) -> bool {
    s.exp.as_ref().map(|e| e.to_string().contains("\"hang\"")).unwrap_or(false)
}

fn run_all(scripts: Vec<Script>, out_path: &str, rep: &mut Report, sockdir: &str) {
    std::fs::create_dir_all(sockdir).ok();
    let threads: usize = std::env::var("C14_THREADS").ok().and_then(|s| s.parse().ok()).unwrap_or(12);
    // scripts that block until the watchdog first, so that they do not form the tail of the run
    let mut order: Vec<usize> = (0..scripts.len()).collect();
    order.sort_by_key(|i| (!expects_hang(&scripts[*i]), *i));
    let scripts = Arc::new(scripts);
    let order = Arc::new(order);
    let next = Arc::new(AtomicUsize::new(0));
    let (tx, rx) = mpsc::channel::<(usize, Option<Outcome>)>();
    let mut joins = vec![];
    for t in 0..threads {
        let (scripts, order, next, tx, sockdir) = (scripts.clone(), order.clone(), next.clone(), tx.clone(), sockdir.to_string());
        joins.push(
            std::thread::Builder::new()
                .name(format!("c14-worker-{}", t))
                .spawn(move || loop {
                    let k = next.fetch_add(1, Ordering::SeqCst);
                    if k >= order.len() {
                        break;
                    }
                    let i = order[k];
                    let o = run_script(&scripts[i], &sockdir);
                    if tx.send((i, o)).is_err() {
                        break;
                    }
                })
                .unwrap_or_else(|e| infra(&format!("spawn: {}", e))),
        );
    }
    drop(tx);
    let mut outs: BTreeMap<usize, Option<Outcome>> = BTreeMap::new();
    let stall = Duration::from_secs(90);
    while outs.len() < scripts.len() {
        match rx.recv_timeout(stall) {
            Ok((i, o)) => {
                outs.insert(i, o);
            }
            Err(mpsc::RecvTimeoutError::Timeout) => infra("no script finished for 90 s (a call hangs although its connection was cut)"),
            Err(mpsc::RecvTimeoutError::Disconnected) => break,
        }
    }
    for j in joins {
        let _ = j.join();
    }
    if outs.len() != scripts.len() {
        infra("worker threads ended early");
    }
    let mut f = std::io::BufWriter::new(std::fs::File::create(out_path).unwrap_or_else(|e| infra(&format!("{}: {}", out_path, e))));
    let mut notes: BTreeMap<String, (u64, Value)> = BTreeMap::new();
    for (i, o) in outs {
        let sc = &scripts[i];
        let o = match o {
            Some(o) => o,
            None => {
                rep.count("skipped-after-10-confirmed-hang-differences");
                continue;
            }
        };
        if let Some(m) = &o.infra {
            infra(m);
        }
        writeln!(f, "{}", o.rec).ok();
        rep.count("scripts");
        rep.count(&format!("len:{}", sc.steps.len()));
        rep.count(&format!("ctor:{}", sc.ctor));
        let mut nontrivial = false;
        for st in &sc.steps {
            rep.count(&format!("call:{}", st.call));
            rep.count(&format!("srv:{}", st.srv));
            if st.ctl != 0 {
                rep.count("mod:with_controls");
            }
            if st.tmo != 0 {
                rep.count("mod:with_timeout");
            }
            if st.so != 0 {
                rep.count("mod:with_search_options");
            }
            for sb in &st.sub {
                rep.count(&format!("stream-call:{}", sb));
            }
            nontrivial |= st.ctl != 0 || st.tmo != 0 || st.so != 0 || st.srv != "ok" || sc.steps.len() > 1;
        }
        if let Some(a) = o.rec["a"].as_array() {
            for e in a {
                rep.add("requests-on-the-wire", e["reqs"].as_array().map(|r| r.len()).unwrap_or(0) as u64);
                if e["reqs"].as_array().map(|r| r.iter().any(|q| q["pg"] == 2)).unwrap_or(false) {
                    rep.count("paged-search-second-page-requested");
                }
                let out = e["ret"]["out"].as_str().unwrap_or("");
                rep.count(&format!("outcome:{}", out));
                for s in e["subs"].as_array().cloned().unwrap_or_default() {
                    rep.count(&format!("stream-outcome:{}", s["out"].as_str().unwrap_or("")));
                }
            }
        }
        rep.eval(nontrivial, hash_of(&o.rec["steps"].to_string()));
        rep.add("flaky-reruns", o.flaky as u64);
        if o.conform {
            rep.count("both-lanes-conform-to-model");
        }
        if rep.samples.len() < 3 && sc.steps.len() >= 2 {
            rep.sample(json!({"ctor": sc.ctor, "steps": sc.steps.iter().map(step_json).collect::<Vec<_>>(), "wire_async": o.rec["a"][0]["wire"], "wire_sync": o.rec["b"][0]["wire"]}));
        }
        if let Some((key, det)) = o.diff {
            rep.mismatch(&key, json!({"script": {"ctor": sc.ctor, "steps": sc.steps.iter().map(step_json).collect::<Vec<_>>()}, "difference": det}));
        } else if let Some(m) = o.model {
            rep.count("lanes-equal-but-not-the-model");
            // the request-level deviations are properties of the shared code, whichever call exposes them
            let m = match m.find(":request:") {
                Some(p) => format!("request:{} differs from the model", &m[p + 9..]),
                None => m,
            };
            let e = notes.entry(m).or_insert((0, json!({"ctor": sc.ctor, "steps": sc.steps.iter().map(step_json).collect::<Vec<_>>()})));
            e.0 += 1;
        }
    }
    for (k, (n, ex)) in notes {
        rep.notes.push(format!("not C14 (both lanes agree with each other, not with the model): {} x{} e.g. {}", k, n, ex));
    }
}

// ------------------------------------------------------------------------------------------------
// Random scripts (trace mode)

fn random_script(rng: &mut StdRng) -> Script {
    let n = rng.gen_range(3..=12);
    let mut steps = vec![];
    let singles = ["simple_bind", "sasl_external_bind", "add", "compare", "delete", "modify", "modifydn", "extended"];
    let subs_pool: [&[&str]; 6] = [
        &["next", "next", "next", "next", "next", "next", "lastid", "result"],
        &["next", "result"],
        &["result"],
        &["lastid", "next"],
        &[],
        &["next", "next", "lastid", "next", "result"],
    ];
    let mut down = false;
    for _ in 0..n {
        let r = rng.gen_range(0..100);
        let mut st = Step { call: String::new(), arg: 0, ad: 0, sub: vec![], ctl: 0, tmo: 0, so: 0, srv: "ok".into() };
        if rng.gen_range(0..100) < 30 {
            st.ctl = rng.gen_range(1..=2);
        }
        if rng.gen_range(0..100) < 25 {
            st.tmo = 1;
        }
        if rng.gen_range(0..100) < 25 {
            st.so = 1;
        }
        if r < 40 {
            st.call = singles[rng.gen_range(0..singles.len())].to_string();
            st.arg = match st.call.as_str() {
                "simple_bind" | "extended" => rng.gen_range(0..2),
                "modifydn" => rng.gen_range(0..3),
                "add" => [0, 0, 2, 1][rng.gen_range(0..4)],
                "modify" => [0, 0, 0, 1][rng.gen_range(0..4)],
                _ => 0,
            };
            st.srv = ["ok", "ok", "ok", "e6", "e10", "e32", "sil", "dis"][rng.gen_range(0..if down { 6 } else { 8 })].to_string();
        } else if r < 70 {
            st.call = ["search", "streaming_search", "streaming_search_with"][rng.gen_range(0..3)].to_string();
            st.arg = [0, 1, 2, 0, 1, 2, 3][rng.gen_range(0..7)];
            if st.call == "streaming_search_with" {
                st.ad = rng.gen_range(0..3);
            }
            if st.call != "search" {
                st.sub = subs_pool[rng.gen_range(0..subs_pool.len())].iter().map(|s| s.to_string()).collect();
            }
            st.srv = ["ok", "k1", "k2", "ref", "e32", "e10", "k2", "p2", "sil", "k1s", "dis", "k1d"][rng.gen_range(0..if down { 8 } else { 12 })].to_string();
            if st.ad == 2 && rng.gen_bool(0.6) {
                st.srv = "p2".into();
            }
        } else if r < 78 {
            st.call = "abandon".into();
            st.arg = rng.gen_range(0..3);
        } else if r < 81 {
            st.call = "unbind".into();
        } else {
            st.call = ["last_id", "is_closed", "get_peer_certificate", "noop"][rng.gen_range(0..4)].to_string();
        }
        if st.srv == "sil" || st.srv == "k1s" {
            st.tmo = 1; // keep the run time bounded: silence is generated together with a timeout
        }
        if st.srv == "dis" || st.srv == "k1d" || st.call == "unbind" {
            down = true;
        }
        steps.push(st);
    }
    let ctor = ["ws", "ws", "ws", "ws", "fus", "new", "fu"][rng.gen_range(0..7)].to_string();
    Script { ctor, steps, exp: None }
}

// ------------------------------------------------------------------------------------------------

fn sockdir_for(path: &str) -> String {
    let p = std::path::Path::new(path);
    let d = p.parent().map(|d| d.to_path_buf()).unwrap_or_else(|| std::path::PathBuf::from("."));
    d.join("socks").to_string_lossy().to_string()
}

fn main() {
    let args: Vec<String> = std::env::args().collect();
    std::panic::set_hook(Box::new(|_| {}));
    match args.get(1).map(|s| s.as_str()) {
        Some("replay") if args.len() == 5 => {
            let mut rep = Report::new("sync-replay");
            let mut scripts = vec![];
            let mut seen = HashSet::new();
            let n = tlcout::for_each_tagged(&args[2], "VEC", |v| {
                let key = json!([v["ctor"], v["steps"]]).to_string();
                if seen.insert(key) {
                    scripts.push(script_of(&v));
                }
            })
            .unwrap_or_else(|e| infra(&format!("{}: {}", args[2], e)));
            rep.add("vectors", n);
            let sd = sockdir_for(&args[4]);
            run_all(scripts, &args[3], &mut rep, &sd);
            let _ = std::fs::remove_dir_all(&sd);
            rep.write(&args[4]);
        }
        Some("trace") if args.len() == 5 => {
            let mut rep = Report::new("sync-trace");
            let count: usize = args[3].parse().unwrap_or(100);
            let mut rng = StdRng::seed_from_u64(verif_harness::seed_from_env().wrapping_mul(0x9E37_79B9).wrapping_add(14));
            let scripts: Vec<Script> = (0..count).map(|_| random_script(&mut rng)).collect();
            let sd = sockdir_for(&args[4]);
            run_all(scripts, &args[2], &mut rep, &sd);
            let _ = std::fs::remove_dir_all(&sd);
            rep.write(&args[4]);
        }
        Some("one") if args.len() == 3 => {
            let v: Value = serde_json::from_str(&args[2]).unwrap_or_else(|e| infra(&format!("script: {}", e)));
            let sc = script_of(&v);
            let sd = std::env::var("C14_SOCKDIR").unwrap_or_else(|_| "/verif/run/c14-one-socks".into());
            std::fs::create_dir_all(&sd).ok();
            let o = run_script(&sc, &sd).unwrap();
            let _ = std::fs::remove_dir_all(&sd);
            println!("{}", serde_json::to_string_pretty(&o.rec).unwrap());
            match o.diff {
                Some((k, d)) => {
                    println!("DIFFERENCE {} {}", k, d);
                    std::process::exit(1);
                }
                None => println!("lanes agree{}", o.model.map(|m| format!(" (model: {})", m)).unwrap_or_default()),
            }
        }
        _ => {
            eprintln!("usage: sync-run replay <tlc-output> <out.ndjson> <report.json> | trace <out.ndjson> <count> <report.json> | one '<script json>'");
            std::process::exit(2);
        }
    }
}
