//! conn-run: drives the real LdapConnAsync / Ldap / SearchStream over the scripted in-process
//! transport under a paused clock and a seeded runtime, and records one ndjson event per
//! specification action (TraceLdapConn validates the file).
//!
//!   conn-run random <out.ndjson> <first-seed> <count> <profile> <report.json>
//!
//! profiles: plain | timeouts | faults | orphans | mixed | burst

use ldap3::{Ldap, LdapConnAsync, LdapError, Scope};
use rand::{rngs::StdRng, Rng, SeedableRng};
use serde_json::json;
use std::io::Write;
use std::time::Duration;
use tokio::runtime::{Builder, RngSeed};
use verif_harness::ber;
use verif_harness::mockio::{Item, MockIo};
use verif_harness::report::{hash_of, Report};

thread_local! {
    static WRITTEN: std::cell::Cell<usize> = const { std::cell::Cell::new(0) };
    static LAST_BOUNDS: std::cell::RefCell<Vec<usize>> = const { std::cell::RefCell::new(Vec::new()) };
    static T0: std::cell::Cell<Option<tokio::time::Instant>> = const { std::cell::Cell::new(None) };
}

/// every harness event carries the virtual time (microseconds since the scenario began)
fn emit(body: String) {
    let vt = T0.with(|t| t.get()).map(|t0| (tokio::time::Instant::now() - t0).as_micros() as i64).unwrap_or(-1);
    ldap3::verif::log(&format!("{},\"vt\":{}", body, vt));
}

/// Called by the transport the first time a write finds the peer not reading: for the model the stall begins here (a
/// peer that does not read is unobservable until a write has to wait) and the driver is now inside stream.send().
fn on_block() {
    emit("\"ev\":\"SrvStall\"".to_string());
    emit("\"ev\":\"WBlocked\"".to_string());
}

fn resume(io: &MockIo, log: bool) {
    if io.write_blocked() && log {
        emit("\"ev\":\"SrvResume\"".to_string());
    }
    io.resume_writes();
}

/// Yield until no new event has been recorded for a few consecutive yields.
async fn settle() {
    let mut quiet = 0;
    let mut last = ldap3::verif::seq();
    for _ in 0..400 {
        tokio::task::yield_now().await;
        let s = ldap3::verif::seq();
        if s == last {
            quiet += 1;
            if quiet >= 6 {
                return;
            }
        } else {
            quiet = 0;
            last = s;
        }
    }
}

fn tok_of(s: &str) -> i64 {
    s.trim_start_matches('k').parse().unwrap_or(-1)
}

fn tokstr(tok: i64) -> Vec<u8> {
    format!("k{}", tok).into_bytes()
}

/// token of an entry / reference / intermediate message handed to the caller
fn item_tok(re: &ldap3::ResultEntry) -> i64 {
    use ldap3::asn1::PL;
    let st = &re.0;
    if let PL::C(kids) = &st.payload {
        if let Some(first) = kids.first() {
            if let PL::P(v) = &first.payload {
                return tok_of(&String::from_utf8_lossy(v));
            }
        }
    }
    -1
}

/// Harness-only adapter placed innermost in an adapted search: logs every raw item the inner
/// stream yields, so that items an outer adapter absorbs (references, intermediate messages
/// under EntriesOnly) are visible to the trace specification as `Inner` events.
#[derive(Clone, Debug)]
struct Tap {
    o: usize,
    /// fail on the n-th entry seen (0 = never): an adapter written by the user may return an error at any point
    fail_at: usize,
    entries: usize,
}

#[async_trait::async_trait]
impl<'a, S, A> ldap3::adapters::Adapter<'a, S, A> for Tap
where
    S: AsRef<str> + Send + Sync + 'a,
    A: AsRef<[S]> + Send + Sync + 'a,
{
    async fn start(&mut self, stream: &mut ldap3::SearchStream<'a, S, A>, base: &str, scope: Scope, filter: &str, attrs: A) -> ldap3::result::Result<()> {
        stream.start(base, scope, filter, attrs).await
    }
    async fn next(&mut self, stream: &mut ldap3::SearchStream<'a, S, A>) -> ldap3::result::Result<Option<ldap3::ResultEntry>> {
        let r = stream.next().await;
        if let Ok(Some(re)) = &r {
            let typ = if re.is_ref() { "ref" } else if re.is_intermediate() { "int" } else { "ent" };
            emit(format!("\"ev\":\"Inner\",\"o\":\"o{}\",\"typ\":\"{}\",\"tok\":{}", self.o, typ, item_tok(re)));
            if typ == "ent" {
                self.entries += 1;
                if self.entries == self.fail_at {
                    return Err(LdapError::AdapterInit("tap: scripted adapter failure".into()));
                }
            }
        }
        r
    }
    async fn finish(&mut self, stream: &mut ldap3::SearchStream<'a, S, A>) -> ldap3::LdapResult {
        stream.finish().await
    }
}

#[derive(Clone, Copy, Debug, PartialEq)]
enum Kind {
    Single,
    Search,
    Abandon,
    Unbind,
}

#[derive(Clone, Debug)]
struct OpPlan {
    o: usize,
    kind: Kind,
    /// 0 = none, -1 = zero-length timeout, n > 0 = n ms
    tmo: i64,
    adapted: bool,
    target: i32,
    /// for searches: finish after this many next() calls (usize::MAX = read to the end)
    finish_after: usize,
    /// extra next() calls after the end of the stream
    extra_next: usize,
    /// adapted searches: the innermost adapter fails on this entry (0 = never)
    tap_fail_at: usize,
    /// the caller walks away without telling the library: a single operation's future is dropped after this many ms by an
    /// outer select!, a search stream is dropped instead of finished (0 = never)
    walk_away: u64,
    /// script mode: stream calls are commanded one by one (Some) instead of planned (None)
    cmds: Option<std::sync::Arc<tokio::sync::Mutex<tokio::sync::mpsc::UnboundedReceiver<Cmd>>>>,
    /// script mode: where the actor reports how far it got (0 = running, 1 = stream ready, 2 = done)
    status: Option<std::sync::Arc<std::sync::atomic::AtomicU8>>,
}

#[derive(Clone, Copy, Debug, PartialEq)]
enum Cmd {
    Next,
    Finish,
}

fn classify(e: &LdapError) -> &'static str {
    match e {
        LdapError::Timeout { .. } => "timeout",
        _ => "err",
    }
}

async fn actor(p: OpPlan, mut ldap: Ldap, completed: std::sync::Arc<std::sync::Mutex<Vec<i64>>>) {
    let status = p.status.clone();
    actor_inner(p, &mut ldap, &completed).await;
    if let Some(st8) = status {
        st8.store(2, std::sync::atomic::Ordering::SeqCst);
    }
}

async fn actor_inner(p: OpPlan, ldap: &mut Ldap, completed: &std::sync::Arc<std::sync::Mutex<Vec<i64>>>) {
    let o = p.o;
    let kname = match p.kind {
        Kind::Single => "single",
        Kind::Search => "search",
        Kind::Abandon => "abandon",
        Kind::Unbind => "unbind",
    };
    emit(format!(
        "\"ev\":\"Call\",\"o\":\"o{}\",\"k\":\"{}\",\"t\":{},\"ad\":{},\"tg\":{}",
        o, kname, p.tmo, p.adapted, p.target
    ));
    if p.tmo == -2 {
        ldap.with_timeout(Duration::MAX); // "no practical limit": must behave like no timeout at all
    } else if p.tmo != 0 {
        ldap.with_timeout(Duration::from_millis(p.tmo.max(0) as u64));
    }
    match p.kind {
        Kind::Single => {
            let r = if p.walk_away > 0 {
                let r = tokio::select! {
                    biased;
                    r = ldap.delete("cn=x") => Some(r),
                    _ = tokio::time::sleep(Duration::from_millis(p.walk_away)) => None,
                };
                match r {
                    Some(r) => r,
                    None => {
                        // the operation's future has been dropped by now; the library sends no scrub for it
                        emit(format!("\"ev\":\"Cancel\",\"o\":\"o{}\"", o));
                        return;
                    }
                }
            } else {
                match o % 3 {
                    0 => ldap.simple_bind("cn=x", "pw").await,
                    1 => ldap.compare("cn=x", "cn", "x").await.map(|c| c.0),
                    _ => ldap.delete("cn=x").await,
                }
            };
            match r {
                Ok(res) => emit(format!("\"ev\":\"Ret\",\"o\":\"o{}\",\"r\":\"val\",\"tok\":{},\"rc\":{},\"closed\":{}", o, tok_of(&res.text), res.rc, ldap.is_closed())),
                Err(e) => emit(format!("\"ev\":\"Ret\",\"o\":\"o{}\",\"r\":\"{}\",\"tok\":0,\"closed\":{}", o, classify(&e), ldap.is_closed())),
            }
            completed.lock().unwrap().push(ldap.last_id() as i64);
        }
        Kind::Abandon => match ldap.abandon(p.target).await {
            Ok(()) => emit(format!("\"ev\":\"Ret\",\"o\":\"o{}\",\"r\":\"null\",\"tok\":0,\"closed\":{}", o, ldap.is_closed())),
            Err(e) => emit(format!("\"ev\":\"Ret\",\"o\":\"o{}\",\"r\":\"{}\",\"tok\":0,\"closed\":{}", o, classify(&e), ldap.is_closed())),
        },
        Kind::Unbind => match ldap.unbind().await {
            Ok(()) => emit(format!("\"ev\":\"Ret\",\"o\":\"o{}\",\"r\":\"null\",\"tok\":0,\"closed\":{}", o, ldap.is_closed())),
            Err(e) => emit(format!("\"ev\":\"Ret\",\"o\":\"o{}\",\"r\":\"{}\",\"tok\":0,\"closed\":{}", o, classify(&e), ldap.is_closed())),
        },
        Kind::Search => {
            let started = if p.adapted {
                let chain: Vec<Box<dyn ldap3::adapters::Adapter<&str, Vec<&str>>>> =
                    vec![Box::new(ldap3::adapters::EntriesOnly::new()), Box::new(Tap { o, fail_at: p.tap_fail_at, entries: 0 })];
                ldap.streaming_search_with(chain, "dc=x", Scope::Subtree, "(a=b)", vec!["cn"]).await
            } else {
                ldap.streaming_search("dc=x", Scope::Subtree, "(a=b)", vec!["cn"]).await
            };
            match started {
                Err(e) => emit(format!("\"ev\":\"Ret\",\"o\":\"o{}\",\"r\":\"{}\",\"tok\":0,\"closed\":{}", o, classify(&e), ldap.is_closed())),
                Ok(mut st) => {
                    emit(format!("\"ev\":\"Ret\",\"o\":\"o{}\",\"r\":\"null\",\"tok\":0", o));
                    let mut calls = 0;
                    let mut extra = p.extra_next;
                    if let Some(st8) = &p.status {
                        st8.store(1, std::sync::atomic::Ordering::SeqCst);
                    }
                    loop {
                        if let Some(rx) = &p.cmds {
                            // commanded: wait for the controller
                            match rx.lock().await.recv().await {
                                Some(Cmd::Next) => {}
                                Some(Cmd::Finish) | None => break,
                            }
                        } else if calls >= p.finish_after {
                            break;
                        }
                        calls += 1;
                        let active = st.state() == ldap3::StreamState::Active;
                        emit(format!("\"ev\":\"CallNext\",\"o\":\"o{}\",\"active\":{}", o, active));
                        let r = st.next().await;
                        let (what, tok, stop) = match &r {
                            Ok(Some(re)) => ("item", item_tok(re), false),
                            Ok(None) => (if active { "done" } else { "noop" }, 0, true),
                            Err(LdapError::Timeout { .. }) => ("timeout", 0, true),
                            Err(LdapError::AdapterInit(_)) => ("aderr", 0, true),
                            Err(_) => ("closed", 0, true),
                        };
                        emit(format!(
                            "\"ev\":\"RetNext\",\"o\":\"o{}\",\"r\":\"{}\",\"tok\":{},\"st\":\"{:?}\"",
                            o, what, tok, st.state()
                        ));
                        if p.cmds.is_some() {
                            continue;
                        }
                        if stop {
                            if extra > 0 {
                                extra -= 1;
                                continue;
                            }
                            break;
                        }
                    }
                    if p.walk_away > 0 {
                        drop(st);
                        emit(format!("\"ev\":\"StreamDrop\",\"o\":\"o{}\"", o));
                        return;
                    }
                    let res = st.finish().await;
                    emit(format!(
                        "\"ev\":\"Finish\",\"o\":\"o{}\",\"rc\":{},\"tok\":{},\"st\":\"{:?}\"",
                        o,
                        res.rc,
                        if res.rc == 88 || res.rc == 80 { 0 } else { tok_of(&res.text) },
                        st.state()
                    ));
                    completed.lock().unwrap().push(st.ldap_handle().last_id() as i64);
                }
            }
        }
    }
}

/// A request the scripted server has read and not finally answered.
#[derive(Clone, Debug)]
struct Pending {
    id: i64,
    app: u8,
    sent_items: usize,
    abandoned: bool,
}

struct Profile {
    timeouts: bool,
    faults: bool,
    orphans: bool,
    burst: bool,
    unbind: bool,
    many_items: bool,
    stall: bool,
    walk_away: bool,
    aderr: bool,
    split: bool,
}

fn profile(name: &str) -> Profile {
    let mut p = Profile { timeouts: false, faults: false, orphans: false, burst: false, unbind: false, many_items: false, stall: false, walk_away: false, aderr: false, split: false };
    match name {
        "plain" => {}
        "timeouts" => p.timeouts = true,
        "faults" => {
            p.faults = true;
            p.unbind = true
        }
        "orphans" => p.orphans = true,
        "burst" => {
            p.burst = true;
            p.timeouts = true
        }
        "long" => p.many_items = true,
        "stall" => {
            p.stall = true;
            p.timeouts = true
        }
        "split" => {
            p.split = true;
            p.timeouts = true
        }
        "aderr" => {
            p.aderr = true;
            p.timeouts = true
        }
        "drops" => {
            p.walk_away = true;
            p.timeouts = true
        }
        "stallfaults" => {
            p.stall = true;
            p.timeouts = true;
            p.faults = true;
            p.unbind = true
        }
        _ => {
            p.timeouts = true;
            p.faults = true;
            p.orphans = true;
            p.unbind = true;
            p.burst = true;
        }
    }
    p
}

fn response_bytes(id: i64, app: u8, typ: &str, tok: i64, rng: &mut StdRng) -> Vec<u8> {
    let t = tokstr(tok);
    let op = match typ {
        "res" => {
            // the response tag that belongs to the request: bind 0->1, compare 14->15, delete 10->11
            let rapp = app + 1;
            let rc = if rapp == 15 { 6 } else { 0 };
            ber::ldap_result(rapp, rc, &t, &t, &[])
        }
        "done" => ber::ldap_result(5, [0i64, 4, 32][rng.gen_range(0..3)], &t, &t, &[]),
        "ent" => ber::tlv(0x64, &ber::cat(&[ber::octets(&t), ber::seq(&[ber::seq(&[ber::octets(b"cn"), ber::tlv(0x31, &ber::octets(&t))])])])),
        "ref" => ber::tlv(0x73, &ber::cat(&[ber::octets(&t)])),
        "int" => ber::tlv(0x79, &ber::cat(&[ber::tlv(0x80, &t), ber::tlv(0x81, &t)])),
        _ => unreachable!(),
    };
    let ctrls = if rng.gen_bool(0.2) { Some(ber::controls(&[ber::control("1.2.3.4", Some(true), Some(&t))])) } else { None };
    ber::message(id, op, ctrls)
}

/// length of the content of the outermost element of `b` (definite lengths)
fn el_content_len(b: &[u8]) -> usize {
    if b[1] < 0x80 {
        b[1] as usize
    } else {
        let k = (b[1] & 0x7f) as usize;
        b[2..2 + k].iter().fold(0usize, |a, x| a * 256 + *x as usize)
    }
}

fn push_chunked(io: &MockIo, bytes: &[u8], rng: &mut StdRng) {
    if bytes.is_empty() {
        return; // an empty read would be an end of file
    }
    match rng.gen_range(0..4) {
        0 => {
            for b in bytes {
                io.push_bytes(&[*b]);
            }
        }
        1 => {
            let mut p = 0;
            while p < bytes.len() {
                let n = rng.gen_range(1..=bytes.len() - p);
                io.push_bytes(&bytes[p..p + n]);
                p += n;
            }
        }
        _ => io.push_bytes(bytes),
    }
}

/// Complete frames no LDAP client can decode: a top-level element that is not an LDAPMessage; an envelope whose protocolOp
/// ends in the middle of a child's header (a lone tag octet; a long-form length cut short); a child longer than its parent;
/// an empty envelope.
fn undecodable_frame(id: i64, variant: u32) -> Vec<u8> {
    let idb = ber::int(id);
    let env = |op: Vec<u8>| ber::tlv(0x30, &ber::cat(&[idb.clone(), op]));
    match variant {
        0 => vec![0x04, 0x03, 0x41, 0x42, 0x43],
        1 => env(ber::tlv(0x6f, &[0x0a, 0x01, 0x06, 0x04, 0x00, 0x04])),
        2 => env(ber::tlv(0x6f, &[0x0a, 0x01, 0x06, 0x04, 0x00, 0x04, 0x82, 0x01])),
        3 => env(ber::tlv(0x61, &[0x0a, 0x01, 0x00, 0x04, 0x00, 0x04, 0x05])),
        _ => vec![0x30, 0x00],
    }
}

/// The scripted server reads what the client wrote since the last call.
fn absorb_written(io: &MockIo, pending: &mut Vec<Pending>, known_ids: &mut Vec<i32>) {
    let (msgs, rest) = ber::split_messages(&io.take_written());
    if !rest.is_empty() {
        io.unread_written(&rest); // an incomplete message (the peer stopped reading in the middle of it)
    }
    for (el, _raw) in msgs {
        if el.kids.len() >= 2 {
            let id = ber::uint_of(&el.kids[0].val);
            let app = el.kids[1].num;
            let tg = if app == 16 { ber::uint_of(&el.kids[1].val) } else { 0 };
            // what the server read off the wire, decoded independently of the library
            emit(format!("\"ev\":\"SrvGot\",\"id\":{},\"app\":{},\"tg\":{}", id, app, tg));
            known_ids.push(id as i32);
            if matches!(app, 0 | 3 | 10 | 14) {
                pending.push(Pending { id, app, sent_items: 0, abandoned: false });
            }
            if app == 16 {
                let t = ber::uint_of(&el.kids[1].val);
                for p in pending.iter_mut() {
                    if p.id == t {
                        p.abandoned = true; // the server may still answer it (late), or never
                    }
                }
            }
        }
    }
}

fn run_scenario(seed: u64, prof: &Profile, out: &mut Vec<String>, rep: &mut Report) {
    let rt = Builder::new_current_thread()
        .enable_time()
        .start_paused(true)
        .rng_seed(RngSeed::from_bytes(&seed.to_le_bytes()))
        .build()
        .unwrap();
    ldap3::verif::install();
    let mut nops_total = 0usize;
    let mut overlap = false;
    rt.block_on(async {
        let mut rng = StdRng::seed_from_u64(seed ^ 0x9e3779b97f4a7c15);
        T0.with(|t| t.set(Some(tokio::time::Instant::now())));
        let io = MockIo::new();
        io.0.lock().unwrap().on_block = Some(on_block);
        let mut stalled = false;
        let (conn, ldap) = LdapConnAsync::verif_from_io(Box::new(io.clone()));
        // counter placement: sometimes next to the wrap point
        if rng.gen_bool(0.25) {
            let last = i32::MAX - rng.gen_range(0..3);
            ldap.verif_set_msgmap(last, &[]);
            emit(format!("\"ev\":\"SetLast\",\"last\":{}", last));
        }
        let drv = tokio::spawn(async move {
            use futures::FutureExt;
            let r = std::panic::AssertUnwindSafe(conn.drive()).catch_unwind().await;
            let how = match r {
                Ok(Ok(())) => "exitOk",
                Ok(Err(_)) => "exitErr",
                Err(_) => "panicked",
            };
            emit(format!("\"ev\":\"DrvExit\",\"how\":\"{}\"", how));
        });
        let mut ldap = Some(ldap);
        let mut pending: Vec<Pending> = vec![];
        let mut known_ids: Vec<i32> = vec![];
        let completed: std::sync::Arc<std::sync::Mutex<Vec<i64>>> = Default::default();
        let mut tok = 0i64;
        let mut nops = 0usize;
        let mut now = 0u64;
        let mut tasks: Vec<(usize, tokio::task::JoinHandle<()>)> = vec![];
        let mut net_up = true;
        let mut faulted = false;
        let mut unbound = false;
        let mut orphans = 0;
        let max_ops = rng.gen_range(2..=8);
        let steps = rng.gen_range(8..40);
        let max_items = if prof.many_items { 40 } else { 3 };
        // profile `split`: the first part of a response has been delivered, the rest (and the SrvSend event: for the model a
        // message is sent when its last octet is) follows at a later step - client operations and ticks happen in between
        let mut held: Option<(Vec<u8>, String)> = None;
        for _step in 0..steps {
            let choice = rng.gen_range(0..100);
            macro_rules! flush_held {
                () => {
                    if let Some((rest, ev)) = held.take() {
                        emit(ev);
                        io.push_bytes(&rest);
                        settle().await;
                    }
                };
            }
            if choice < 35 && nops < max_ops && net_up && !unbound && ldap.is_some() {
                nops += 1;
                let kind = match rng.gen_range(0..12) {
                    0..=4 => Kind::Single,
                    5..=8 => Kind::Search,
                    9 | 10 if !known_ids.is_empty() => Kind::Abandon,
                    11 if prof.unbind && rng.gen_bool(0.3) => Kind::Unbind,
                    _ => Kind::Single,
                };
                let target = if kind == Kind::Abandon { known_ids[rng.gen_range(0..known_ids.len())] } else { 0 };
                let tmo: i64 = if prof.timeouts && (matches!(kind, Kind::Single | Kind::Search) || rng.gen_bool(0.5)) && rng.gen_bool(0.45) {
                    match rng.gen_range(0..20) {
                        0..=3 => -1,
                        4 => -2,
                        _ => rng.gen_range(1..=4),
                    }
                } else {
                    0
                };
                let plan = OpPlan {
                    o: nops,
                    kind,
                    tmo,
                    adapted: kind == Kind::Search && rng.gen_bool(0.5),
                    target,
                    finish_after: if rng.gen_bool(0.3) { rng.gen_range(0..3) } else { usize::MAX },
                    extra_next: if rng.gen_bool(0.2) { 1 } else { 0 },
                    tap_fail_at: if prof.aderr && kind == Kind::Search && rng.gen_bool(0.5) { rng.gen_range(1..3) } else { 0 },
                    walk_away: if prof.walk_away && matches!(kind, Kind::Single | Kind::Search) && rng.gen_bool(0.4) { rng.gen_range(1..4) } else { 0 },
                    cmds: None,
                    status: None,
                };
                if kind == Kind::Unbind {
                    unbound = true;
                }
                if !tasks.iter().all(|(_, t)| t.is_finished()) {
                    overlap = true;
                }
                tasks.push((nops, tokio::spawn(actor(plan, ldap.as_ref().unwrap().clone(), completed.clone()))));
            } else if choice < 75 && !pending.is_empty() && net_up {
                flush_held!();
                let i = rng.gen_range(0..pending.len());
                let p = pending[i].clone();
                tok += 1;
                let typ = if p.app != 3 {
                    "res"
                } else if p.sent_items < max_items && rng.gen_bool(0.6) {
                    ["ent", "ent", "ref", "int"][rng.gen_range(0..4)]
                } else {
                    "done"
                };
                let mut bytes = response_bytes(p.id, p.app, typ, tok, &mut rng);
                let ev = format!("\"ev\":\"SrvSend\",\"id\":{},\"typ\":\"{}\",\"tok\":{}", p.id, typ, tok);
                if prof.split && bytes.len() > 4 && rng.gen_bool(0.4) {
                    // half of the split messages carry the outer length in the long form (two to four length octets, as
                    // Active Directory writes every length), and half of those are cut inside that header
                    let mut cut = rng.gen_range(1..bytes.len());
                    if bytes[1] < 0x80 && rng.gen_bool(0.5) {
                        let k = rng.gen_range(2..=4usize);
                        let body = bytes[1] as u32;
                        let mut w = vec![bytes[0], 0x80 | k as u8];
                        w.extend_from_slice(&body.to_be_bytes()[4 - k..]);
                        w.extend_from_slice(&bytes[2..]);
                        bytes = w;
                        cut = if rng.gen_bool(0.5) { rng.gen_range(1..2 + k) } else { rng.gen_range(1..bytes.len()) };
                    }
                    emit(format!("\"ev\":\"SrvPartial\",\"id\":{},\"sent\":{},\"of\":{}", p.id, cut, bytes.len()));
                    io.push_bytes(&bytes[..cut]);
                    held = Some((bytes[cut..].to_vec(), ev));
                } else {
                    emit(ev);
                    push_chunked(&io, &bytes, &mut rng);
                }
                if typ == "res" || typ == "done" {
                    pending.remove(i);
                } else {
                    pending[i].sent_items += 1;
                }
            } else if choice < 80 && prof.orphans && net_up && orphans < 3 {
                flush_held!();
                // a response nobody waits for: ID 0 or the ID of an operation the server already answered
                let done_ids = completed.lock().unwrap().clone();
                let id = if done_ids.is_empty() || rng.gen_bool(0.3) { 0 } else { done_ids[rng.gen_range(0..done_ids.len())] };
                if !pending.iter().any(|p| p.id == id) {
                    tok += 1;
                    orphans += 1;
                    let typ = ["res", "ent", "done"][rng.gen_range(0..3)];
                    let bytes = response_bytes(id, if typ == "res" { 0 } else { 3 }, typ, tok, &mut rng);
                    emit(format!("\"ev\":\"SrvOrphan\",\"id\":{},\"typ\":\"{}\",\"tok\":{}", id, typ, tok));
                    push_chunked(&io, &bytes, &mut rng);
                }
            } else if choice < 82 && prof.orphans && net_up && !faulted && !pending.is_empty() && rng.gen_bool(0.25) {
                flush_held!();
                // a response whose message ID is not a MessageID at all (above 2^31-1, here 2^32+id or 2^64+id) but whose
                // low bits equal the ID of an operation that is waiting: it must reach nobody. It is not a well-formed
                // LDAPMessage envelope, so for the model it is an undecodable frame.
                let p = pending[rng.gen_range(0..pending.len())].clone();
                tok += 1;
                let good = response_bytes(p.id, p.app, if p.app == 3 { "ent" } else { "res" }, tok, &mut rng);
                // re-encode the envelope with a long message ID
                let (el, _) = ber::decode(&good).unwrap();
                let rest: Vec<u8> = {
                    let (msgs, _) = ber::split_messages(&good[good.len() - el_content_len(&good)..]);
                    msgs.iter().skip(1).flat_map(|m| m.1.clone()).collect()
                };
                let mut idoct = if rng.gen_bool(0.5) { vec![1u8, 0, 0, 0, 0] } else { vec![1u8, 0, 0, 0, 0, 0, 0, 0, 0] };
                let n = idoct.len();
                let low = (p.id as u32).to_be_bytes();
                idoct[n - 4..].copy_from_slice(&low);
                let bytes = ber::tlv(0x30, &ber::cat(&[ber::tlv(2, &idoct), rest]));
                let _ = el;
                emit(format!("\"ev\":\"SrvGarbage\",\"alias\":{},\"tok\":{}", p.id, tok));
                push_chunked(&io, &bytes, &mut rng);
                io.push(Item::Eof);
                net_up = false;
                faulted = true;
                resume(&io, false);
            } else if choice < 84 && prof.faults && net_up && !faulted {
                flush_held!();
                net_up = false;
                faulted = true;
                let searches: Vec<Pending> = pending.iter().filter(|p| p.app == 3).cloned().collect();
                let fault_kind = rng.gen_range(0..6);
                if !(fault_kind == 4 && !searches.is_empty()) && fault_kind != 5 {
                    resume(&io, false); // the fault ends the stall: the mock accepts writes on a half-closed connection
                    stalled = false;
                }
                match fault_kind {
                    4 if !searches.is_empty() => {
                        // a SearchResultDone whose body is not an LDAPResult (resultCode and matchedDN only), in a well-formed
                        // envelope, under the ID of a pending search; the server considers the search answered; the transport stays up
                        let p = searches[rng.gen_range(0..searches.len())].clone();
                        emit(format!("\"ev\":\"SrvBadDone\",\"id\":{}", p.id));
                        let bytes = ber::message(p.id, ber::tlv(0x65, &ber::cat(&[ber::tlv(0x0a, &[0]), ber::octets(b"")])), None);
                        push_chunked(&io, &bytes, &mut rng);
                        pending.retain(|x| x.id != p.id);
                        net_up = true;
                    }
                    5 => {
                        // a complete frame that cannot be decoded, the peer keeping the connection open afterwards
                        emit("\"ev\":\"SrvGarbage\",\"open\":true".to_string());
                        let id = pending.first().map(|p| p.id).unwrap_or(1);
                        push_chunked(&io, &undecodable_frame(id, rng.gen_range(0..5)), &mut rng);
                        net_up = true;
                    }
                    0 | 4 => {
                        emit("\"ev\":\"SrvClose\",\"how\":\"eof\"".to_string());
                        io.push(Item::Eof);
                    }
                    1 => {
                        emit("\"ev\":\"SrvClose\",\"how\":\"reset\"".to_string());
                        io.push(Item::Err(std::io::ErrorKind::ConnectionReset));
                    }
                    2 => {
                        emit("\"ev\":\"SrvGarbage\"".to_string());
                        // a complete top-level element that is not an LDAPMessage (the hostile variety is C11's lane)
                        io.push_bytes(&[0x04, 0x03, 0x41]);
                        io.push_bytes(&[0x42, 0x43]);
                        io.push(Item::Eof);
                    }
                    _ => {
                        net_up = true; // only the write direction fails; the server keeps answering
                        emit("\"ev\":\"SrvClose\",\"how\":\"wfail\"".to_string());
                        let w = io.0.lock().unwrap().written;
                        io.fail_writes_at(w, std::io::ErrorKind::BrokenPipe);
                    }
                }
            } else if choice < 90 && prof.stall && net_up && !faulted && !io.shutdown_seen() {
                // the peer stops reading after a few more bytes (possibly in the middle of a request), or reads again
                if stalled {
                    resume(&io, true);
                } else {
                    io.stall_writes(if rng.gen_bool(0.5) { 0 } else { rng.gen_range(1..40) });
                }
                stalled = !stalled;
            } else {
                now += 1;
                settle().await;
                tokio::time::advance(Duration::from_millis(1)).await;
                emit(format!("\"ev\":\"Tick\",\"now\":{}", now));
            }
            if !(prof.burst && rng.gen_bool(0.5)) {
                settle().await;
            }
            // what did the client write?
            absorb_written(&io, &mut pending, &mut known_ids);
            if io.shutdown_seen() && net_up {
                // the peer reacts to the client's close by closing its side (what it had begun to write goes out first)
                if let Some((rest, ev)) = held.take() {
                    emit(ev);
                    io.push_bytes(&rest);
                }
                net_up = false;
                settle().await;
                emit("\"ev\":\"SrvClose\",\"how\":\"eof\"".to_string());
                io.push(Item::Eof);
                settle().await;
            }
        }
        // wind down: let timers fire, then finish the scenario
        if let Some((rest, ev)) = held.take() {
            emit(ev);
            io.push_bytes(&rest);
        }
        settle().await;
        for _ in 0..6 {
            now += 1;
            settle().await;
                tokio::time::advance(Duration::from_millis(1)).await;
            emit(format!("\"ev\":\"Tick\",\"now\":{}", now));
            settle().await;
        }
        // answer whatever is still pending so that untimed operations complete
        if stalled {
            resume(&io, true);
            settle().await;
        }
        absorb_written(&io, &mut pending, &mut known_ids);
        if io.shutdown_seen() && net_up {
            // an unbind went out during the last steps: the peer closes, it does not answer on a half-closed connection
            net_up = false;
            emit("\"ev\":\"SrvClose\",\"how\":\"eof\"".to_string());
            io.push(Item::Eof);
            settle().await;
        }
        if net_up {
            let done_ids = completed.lock().unwrap().clone();
            for p in pending.clone() {
                if p.abandoned {
                    continue;
                }
                // a search the client is through with (finished early, timed out, failed) is often never completed by the
                // server: what it leaves behind must not depend on a SearchResultDone that may never come
                if p.app == 3 && done_ids.contains(&p.id) && rng.gen_bool(0.5) {
                    continue;
                }
                tok += 1;
                let typ = if p.app == 3 { "done" } else { "res" };
                let bytes = response_bytes(p.id, p.app, typ, tok, &mut rng);
                emit(format!("\"ev\":\"SrvSend\",\"id\":{},\"typ\":\"{}\",\"tok\":{}", p.id, typ, tok));
                io.push_bytes(&bytes);
                settle().await;
            }
        }
        settle().await;
        nops_total = nops;
        // every actor must be done by now (virtual-time watchdog)
        let mut hung = false;
        for _ in 0..20 {
            if tasks.iter().all(|(_, t)| t.is_finished()) {
                break;
            }
            now += 1;
            settle().await;
                tokio::time::advance(Duration::from_millis(1)).await;
            emit(format!("\"ev\":\"Tick\",\"now\":{}", now));
            settle().await;
        }
        for (o, t) in tasks {
            if t.is_finished() {
                if let Err(e) = t.await {
                    if e.is_panic() {
                        emit(format!("\"ev\":\"Panic\",\"o\":\"o{}\"", o));
                    }
                }
            } else {
                hung = true;
                emit(format!("\"ev\":\"Hang\",\"o\":\"o{}\"", o));
                t.abort();
            }
        }
        if !hung {
            // everything the client wrote has been read by the server by now
            absorb_written(&io, &mut pending, &mut known_ids);
            // snapshot at the quiescent point, through the public test accessor
            if let Some(l) = ldap.as_ref() {
                let (last, used) = l.verif_msgmap();
                emit(format!("\"ev\":\"Quiet\",\"last\":{},\"used\":{:?}", last, used));
            }
        }
        drop(ldap.take());
        emit("\"ev\":\"DropHandles\"".to_string());
        settle().await;
        if net_up {
            emit("\"ev\":\"SrvClose\",\"how\":\"eof\"".to_string());
            io.push(Item::Eof);
            settle().await;
        }
        for _ in 0..10 {
            if drv.is_finished() {
                break;
            }
            settle().await;
                tokio::time::advance(Duration::from_millis(1)).await;
            now += 1;
            emit(format!("\"ev\":\"Tick\",\"now\":{}", now));
            settle().await;
        }
        if drv.is_finished() {
            let _ = drv.await;
        } else {
            emit("\"ev\":\"Hang\",\"o\":\"driver\"".to_string());
            drv.abort();
        }
        emit(format!(
            "\"ev\":\"ClientClosed\",\"shutdown\":{},\"dropped\":{}",
            io.shutdown_seen(),
            std::sync::Arc::strong_count(&io.0) == 1
        ));
    });
    let lines = ldap3::verif::take();
    rep.eval(nops_total >= 2 && overlap, hash_of(&lines));
    if rep.samples.len() < 2 {
        rep.sample(json!({"seed": seed, "events": lines.iter().take(14).collect::<Vec<_>>()}));
    }
    rep.add("events", lines.len() as u64);
    rep.add("operations", nops_total as u64);
    out.push(format!("{{\"seq\":0,\"ev\":\"Reset\",\"seed\":{}}}", seed));
    out.extend(lines);
}

/// S -> I: execute one TLC-generated environment script (GenConn) against the real code. Returns false if the script
/// could not be followed to the end because the implementation resolved a race the other way the model also allows
/// (e.g. a zero-length timeout fired before the driver ran); the events recorded up to that point are still validated.
fn run_script(n: u64, script: &[serde_json::Value], out: &mut Vec<String>, rep: &mut Report) -> bool {
    let rt = Builder::new_current_thread()
        .enable_time()
        .start_paused(true)
        .rng_seed(RngSeed::from_bytes(&n.to_le_bytes()))
        .build()
        .unwrap();
    ldap3::verif::install();
    let mut followed = true;
    rt.block_on(async {
        let mut rng = StdRng::seed_from_u64(n);
        T0.with(|t| t.set(Some(tokio::time::Instant::now())));
        let io = MockIo::new();
        io.0.lock().unwrap().on_block = Some(on_block);
        let (conn, ldap) = LdapConnAsync::verif_from_io(Box::new(io.clone()));
        let drv = tokio::spawn(async move {
            use futures::FutureExt;
            let r = std::panic::AssertUnwindSafe(conn.drive()).catch_unwind().await;
            let how = match r {
                Ok(Ok(())) => "exitOk",
                Ok(Err(_)) => "exitErr",
                Err(_) => "panicked",
            };
            emit(format!("\"ev\":\"DrvExit\",\"how\":\"{}\"", how));
        });
        let mut ldap = Some(ldap);
        let completed: std::sync::Arc<std::sync::Mutex<Vec<i64>>> = Default::default();
        let mut pending: Vec<Pending> = vec![];
        let mut known_ids: Vec<i32> = vec![];
        let mut tok = 0i64;
        let mut now = 0u64;
        let mut net_up = true;
        // per slot: (wire id, command sender, status, join handle)
        struct Slot {
            id: i64,
            tx: Option<tokio::sync::mpsc::UnboundedSender<Cmd>>,
            status: std::sync::Arc<std::sync::atomic::AtomicU8>,
            task: tokio::task::JoinHandle<()>,
        }
        let mut slots: std::collections::HashMap<String, Slot> = Default::default();
        let mut nstarted = 0i64;
        for step in script {
            let a = step["a"].as_str().unwrap_or("");
            let oname = step["o"].as_str().unwrap_or("none").to_string();
            match a {
                "start" => {
                    nstarted += 1;
                    let kind = match step["k"].as_str().unwrap() {
                        "single" => Kind::Single,
                        "search" => Kind::Search,
                        "abandon" => Kind::Abandon,
                        _ => Kind::Unbind,
                    };
                    let target = match step["tg"].as_str() {
                        Some("none") | None => 0,
                        Some(t) => slots.get(t).map(|s| s.id as i32).unwrap_or(0),
                    };
                    let (tx, rx) = tokio::sync::mpsc::unbounded_channel();
                    let status = std::sync::Arc::new(std::sync::atomic::AtomicU8::new(0));
                    let plan = OpPlan {
                        o: oname.trim_start_matches('o').parse().unwrap(),
                        kind,
                        tmo: step["t"].as_i64().unwrap(),
                        adapted: step["ad"].as_bool().unwrap_or(false),
                        target,
                        finish_after: usize::MAX,
                        extra_next: 0,
                        tap_fail_at: 0,
                        walk_away: 0,
                        cmds: Some(std::sync::Arc::new(tokio::sync::Mutex::new(rx))),
                        status: Some(status.clone()),
                    };
                    let task = tokio::spawn(actor(plan, ldap.as_ref().unwrap().clone(), completed.clone()));
                    slots.insert(oname.clone(), Slot { id: nstarted, tx: Some(tx), status, task });
                }
                "next" | "finish" => {
                    let ok = match slots.get(&oname) {
                        Some(s) if s.status.load(std::sync::atomic::Ordering::SeqCst) == 1 => {
                            s.tx.as_ref().map(|t| t.send(if a == "next" { Cmd::Next } else { Cmd::Finish }).is_ok()).unwrap_or(false)
                        }
                        _ => false,
                    };
                    if !ok {
                        followed = false;
                        break;
                    }
                }
                "srv" => {
                    let id = slots.get(&oname).map(|s| s.id).unwrap_or(-1);
                    let typ = step["typ"].as_str().unwrap();
                    match pending.iter().position(|p| p.id == id) {
                        Some(i) if net_up => {
                            let p = pending[i].clone();
                            tok += 1;
                            let bytes = response_bytes(p.id, p.app, typ, tok, &mut rng);
                            emit(format!("\"ev\":\"SrvSend\",\"id\":{},\"typ\":\"{}\",\"tok\":{}", p.id, typ, tok));
                            push_chunked(&io, &bytes, &mut rng);
                            if typ == "res" || typ == "done" {
                                pending.remove(i);
                            }
                        }
                        _ => {
                            followed = false;
                            break;
                        }
                    }
                }
                "orphan" => {
                    let id = if oname == "none" { 0 } else { slots.get(&oname).map(|s| s.id).unwrap_or(0) };
                    let typ = step["typ"].as_str().unwrap();
                    if pending.iter().any(|p| p.id == id) || (id != 0 && !completed.lock().unwrap().contains(&id)) {
                        followed = false;
                        break;
                    }
                    tok += 1;
                    let bytes = response_bytes(id, if typ == "res" { 0 } else { 3 }, typ, tok, &mut rng);
                    emit(format!("\"ev\":\"SrvOrphan\",\"id\":{},\"typ\":\"{}\",\"tok\":{}", id, typ, tok));
                    push_chunked(&io, &bytes, &mut rng);
                }
                "tick" => {
                    now += 1;
                    settle().await;
                    tokio::time::advance(Duration::from_millis(1)).await;
                    emit(format!("\"ev\":\"Tick\",\"now\":{}", now));
                }
                "close" => {
                    let how = step["how"].as_str().unwrap();
                    emit(format!("\"ev\":\"SrvClose\",\"how\":\"{}\"", how));
                    match how {
                        "eof" => {
                            io.push(Item::Eof);
                            net_up = false;
                            resume(&io, false)
                        }
                        "reset" => {
                            io.push(Item::Err(std::io::ErrorKind::ConnectionReset));
                            net_up = false;
                            resume(&io, false)
                        }
                        _ => {
                            let w = io.0.lock().unwrap().written;
                            io.fail_writes_at(w, std::io::ErrorKind::BrokenPipe);
                        }
                    }
                }
                "garbage-open" => {
                    emit("\"ev\":\"SrvGarbage\",\"open\":true".to_string());
                    let id = pending.first().map(|p| p.id).unwrap_or(1);
                    io.push_bytes(&undecodable_frame(id, (n % 5) as u32));
                }
                "garbage" => {
                    emit("\"ev\":\"SrvGarbage\"".to_string());
                    io.push_bytes(&[0x04, 0x03, 0x41, 0x42, 0x43]);
                    io.push(Item::Eof);
                    net_up = false;
                    resume(&io, false);
                }
                "baddone" => {
                    let id = slots.get(&oname).map(|s| s.id).unwrap_or(-1);
                    match pending.iter().position(|p| p.id == id && p.app == 3) {
                        Some(i) if net_up => {
                            emit(format!("\"ev\":\"SrvBadDone\",\"id\":{}", id));
                            let bytes = ber::message(id, ber::tlv(0x65, &ber::cat(&[ber::tlv(0x0a, &[0]), ber::octets(b"")])), None);
                            push_chunked(&io, &bytes, &mut rng);
                            pending.remove(i);
                        }
                        _ => {
                            followed = false;
                            break;
                        }
                    }
                }
                "stall" => io.stall_writes(0),
                "resume" => resume(&io, true),
                "wfail-at" => {
                    // writes fail once the client has written this many bytes in total (fault enumeration)
                    io.fail_writes_at(step["off"].as_u64().unwrap() as usize, std::io::ErrorKind::BrokenPipe);
                }
                "wfail-now" => {
                    // the moment from which the model considers writes failing (the next request is the one cut short)
                    emit("\"ev\":\"SrvClose\",\"how\":\"wfail\"".to_string());
                }
                "srvcut" => {
                    // the server writes several responses as one byte stream which is cut at byte `cut` by a fault
                    let cut = step["cut"].as_u64().unwrap() as usize;
                    let how = step["how"].as_str().unwrap();
                    let mut stream: Vec<u8> = vec![];
                    let mut bounds: Vec<(usize, i64, String, i64)> = vec![]; // end offset, id, typ, tok
                    for it in step["items"].as_array().unwrap() {
                        let id = slots.get(it["o"].as_str().unwrap()).map(|s| s.id).unwrap_or(-1);
                        let typ = it["typ"].as_str().unwrap().to_string();
                        let app = pending.iter().find(|p| p.id == id).map(|p| p.app).unwrap_or(0);
                        tok += 1;
                        let mut r2 = StdRng::seed_from_u64(tok as u64);
                        stream.extend(response_bytes(id, app, &typ, tok, &mut r2));
                        bounds.push((stream.len(), id, typ, tok));
                    }
                    let cut = cut.min(stream.len());
                    rep.counters.insert("last_stream_len".to_string(), stream.len() as u64);
                    LAST_BOUNDS.with(|b| *b.borrow_mut() = bounds.iter().map(|x| x.0).collect());
                    for (end, id, typ, t) in &bounds {
                        if *end <= cut {
                            emit(format!("\"ev\":\"SrvSend\",\"id\":{},\"typ\":\"{}\",\"tok\":{}", id, typ, t));
                            if typ == "res" || typ == "done" {
                                pending.retain(|p| p.id != *id);
                            }
                        }
                    }
                    let at_boundary = cut == 0 || bounds.iter().any(|b| b.0 == cut);
                    net_up = false;
                    match (how, at_boundary) {
                        ("eof", true) => {
                            emit("\"ev\":\"SrvClose\",\"how\":\"eof\"".to_string());
                            push_chunked(&io, &stream[..cut], &mut rng);
                            io.push(Item::Eof);
                        }
                        ("eof", false) => {
                            // a frame cut short by the close can never complete: an undecodable frame for the client
                            emit("\"ev\":\"SrvGarbage\"".to_string());
                            push_chunked(&io, &stream[..cut], &mut rng);
                            io.push(Item::Eof);
                        }
                        ("reset", _) => {
                            emit("\"ev\":\"SrvClose\",\"how\":\"reset\"".to_string());
                            push_chunked(&io, &stream[..cut], &mut rng);
                            io.push(Item::Err(std::io::ErrorKind::ConnectionReset));
                        }
                        _ => {
                            // garbage continuation: the next bytes are not a BER element of an LDAPMessage
                            emit("\"ev\":\"SrvGarbage\"".to_string());
                            push_chunked(&io, &stream[..cut], &mut rng);
                            io.push_bytes(&[0x04, 0x03, 0x41, 0x42, 0x43]);
                            io.push(Item::Eof);
                        }
                    }
                }
                _ => {}
            }
            settle().await;
            absorb_written(&io, &mut pending, &mut known_ids);
            // (the peer's reaction to an unbind is a stimulus of the script itself, not automatic here)
        }
        if io.shutdown_seen() && net_up {
            // the client unbound and the script never closed the peer's side: the peer closes now
            net_up = false;
            emit("\"ev\":\"SrvClose\",\"how\":\"eof\"".to_string());
            io.push(Item::Eof);
            settle().await;
        }
        // wind down: finish every stream, let timers fire, answer what is pending, drop, close
        resume(&io, true);
        for s in slots.values_mut() {
            if let Some(tx) = s.tx.take() {
                let _ = tx.send(Cmd::Finish);
            }
        }
        settle().await;
        for _ in 0..3 {
            now += 1;
            settle().await;
            tokio::time::advance(Duration::from_millis(1)).await;
            emit(format!("\"ev\":\"Tick\",\"now\":{}", now));
            settle().await;
        }
        absorb_written(&io, &mut pending, &mut known_ids);
        if io.shutdown_seen() && net_up {
            // an unbind went out during the wind-down (it was queued behind a stalled write): the peer closes, it does not
            // answer on a half-closed connection
            net_up = false;
            emit("\"ev\":\"SrvClose\",\"how\":\"eof\"".to_string());
            io.push(Item::Eof);
            settle().await;
        }
        if net_up {
            for p in pending.clone() {
                if p.abandoned {
                    continue;
                }
                tok += 1;
                let typ = if p.app == 3 { "done" } else { "res" };
                let bytes = response_bytes(p.id, p.app, typ, tok, &mut rng);
                emit(format!("\"ev\":\"SrvSend\",\"id\":{},\"typ\":\"{}\",\"tok\":{}", p.id, typ, tok));
                io.push_bytes(&bytes);
                settle().await;
            }
        }
        settle().await;
        let mut hung = false;
        for (name, s) in slots {
            if s.task.is_finished() {
                if let Err(e) = s.task.await {
                    if e.is_panic() {
                        emit(format!("\"ev\":\"Panic\",\"o\":\"{}\"", name));
                    }
                }
            } else {
                hung = true;
                emit(format!("\"ev\":\"Hang\",\"o\":\"{}\"", name));
                s.task.abort();
            }
        }
        if !hung {
            absorb_written(&io, &mut pending, &mut known_ids);
            if let Some(l) = ldap.as_ref() {
                let (last, used) = l.verif_msgmap();
                emit(format!("\"ev\":\"Quiet\",\"last\":{},\"used\":{:?}", last, used));
            }
        }
        drop(ldap.take());
        emit("\"ev\":\"DropHandles\"".to_string());
        settle().await;
        if net_up {
            emit("\"ev\":\"SrvClose\",\"how\":\"eof\"".to_string());
            io.push(Item::Eof);
            settle().await;
        }
        if drv.is_finished() {
            let _ = drv.await;
        } else {
            emit("\"ev\":\"Hang\",\"o\":\"driver\"".to_string());
            drv.abort();
        }
        emit(format!(
            "\"ev\":\"ClientClosed\",\"shutdown\":{},\"dropped\":{}",
            io.shutdown_seen(),
            std::sync::Arc::strong_count(&io.0) == 1
        ));
        WRITTEN.with(|w| w.set(io.0.lock().unwrap().written));
    });
    rep.counters.insert("last_written".to_string(), WRITTEN.with(|w| w.get()) as u64);
    let lines = ldap3::verif::take();
    rep.eval(true, hash_of(&lines));
    rep.count(if followed { "scripts_followed_to_the_end" } else { "scripts_cut_short_by_an_allowed_race" });
    rep.add("events", lines.len() as u64);
    if rep.samples.len() < 2 {
        rep.sample(json!({"script": script, "events": lines.iter().take(12).collect::<Vec<_>>()}));
    }
    out.push(format!("{{\"seq\":0,\"ev\":\"Reset\",\"seed\":{}}}", n));
    out.extend(lines);
    followed
}

fn bounds_of(b: &[usize], cut: usize) -> bool {
    cut == 0 || b.contains(&cut)
}

/// C04 fault enumeration: for each base scenario the response byte stream is cut at EVERY byte offset by each fault kind,
/// and the request byte stream at every offset by a write failure. Events are validated by TraceLdapConn as usual.
fn run_faultenum(out: &mut Vec<String>, rep: &mut Report, stride: usize) {
    let st = |o: &str, k: &str, t: i64, ad: bool, tg: &str| json!({"a": "start", "o": o, "k": k, "t": t, "ad": ad, "tg": tg});
    let it = |o: &str, typ: &str| json!({"o": o, "typ": typ});
    // (steps before the cut, items of the cut stream)
    let bases: Vec<(Vec<serde_json::Value>, Vec<serde_json::Value>)> = vec![
        (
            vec![st("o1", "single", 0, false, "none"), st("o2", "single", 0, false, "none"), st("o3", "search", 0, false, "none"), json!({"a": "next", "o": "o3"})],
            vec![it("o3", "ent"), it("o1", "res"), it("o3", "ent"), it("o3", "done"), it("o2", "res")],
        ),
        (
            vec![st("o1", "search", 0, true, "none"), json!({"a": "next", "o": "o1"}), st("o2", "single", 0, false, "none")],
            vec![it("o1", "ref"), it("o1", "ent"), it("o2", "res"), it("o1", "int"), it("o1", "done")],
        ),
        (
            vec![st("o1", "single", 0, false, "none"), json!({"a": "srv", "o": "o1", "typ": "res"}), st("o2", "search", 0, false, "none"), json!({"a": "next", "o": "o2"})],
            vec![it("o2", "ent"), it("o2", "done")],
        ),
        (
            vec![st("o1", "single", 3, false, "none"), st("o2", "search", 0, true, "none"), json!({"a": "tick"})],
            vec![it("o2", "ent"), it("o1", "res")],
        ),
    ];
    let mut n = 0u64;
    for (bi, (pre, items)) in bases.iter().enumerate() {
        // length of the response stream of this base (dry run with a cut beyond the end)
        let mut probe = pre.clone();
        probe.push(json!({"a": "srvcut", "items": items, "cut": 1 << 30, "how": "eof"}));
        let mut scratch = vec![];
        n += 1;
        run_script(1_000_000 + n, &probe, &mut scratch, rep);
        let len = rep.counters.get("last_stream_len").copied().unwrap_or(0) as usize;
        let probe_bounds: Vec<usize> = LAST_BOUNDS.with(|b| b.borrow().clone());
        for how in ["eof", "reset", "garbage"] {
            let mut cut = 0;
            while cut <= len {
                if how == "garbage" && !bounds_of(&probe_bounds, cut) {
                    // bytes that complete or corrupt a frame in the middle are hostile input: C11's lane
                    cut += stride;
                    continue;
                }
                let mut sc = pre.clone();
                sc.push(json!({"a": "srvcut", "items": items, "cut": cut, "how": how}));
                n += 1;
                run_script(1_000_000 + n, &sc, out, rep);
                rep.count(&format!("base{}_{}", bi + 1, how));
                cut += stride;
            }
        }
    }
    // write failures at every byte offset of the request stream
    let wbase = vec![
        st("o1", "single", 0, false, "none"),
        st("o2", "search", 0, false, "none"),
        json!({"a": "next", "o": "o2"}),
        st("o3", "abandon", 0, false, "o1"),
        st("o4", "single", 0, true, "none"),
    ];
    let starts: Vec<usize> = (0..wbase.len()).filter(|i| wbase[*i]["a"] == "start").collect();
    for (k, si) in starts.iter().enumerate() {
        // request k is cut short after `within` of its own bytes: measure the offset where it begins by a dry run
        let mut scratch = vec![];
        let pre: Vec<_> = wbase[..*si].to_vec();
        n += 1;
        run_script(1_000_000 + n, &pre, &mut scratch, rep);
        let begin = rep.counters.get("last_written").copied().unwrap_or(0) as usize;
        let mut scratch2 = vec![];
        let pre2: Vec<_> = wbase[..=*si].to_vec();
        n += 1;
        run_script(1_000_000 + n, &pre2, &mut scratch2, rep);
        let end = rep.counters.get("last_written").copied().unwrap_or(0) as usize;
        let mut off = begin;
        while off < end {
            let mut sc: Vec<serde_json::Value> = vec![json!({"a": "wfail-at", "off": off})];
            sc.extend(wbase[..*si].iter().cloned());
            sc.push(json!({"a": "wfail-now"}));
            sc.extend(wbase[*si..].iter().cloned());
            n += 1;
            run_script(1_000_000 + n, &sc, out, rep);
            rep.count(&format!("write_fail_in_request_{}", k + 1));
            off += stride;
        }
    }
    rep.counters.remove("last_stream_len");
    rep.counters.remove("last_written");
}

/// C05 stress lane: a multi-thread runtime, many cloned handles on many tasks issuing short operations against an
/// auto-answering server, the ID counter placed next to 2^31-1 with phantom IDs in use. Only allocator events are
/// recorded; their sequence numbers are taken under the msgmap lock, so their order is the lock order.
fn run_stress(seed: u64, threads: usize, tasks: usize, ops: usize, out: &mut Vec<String>, rep: &mut Report) {
    let rt = Builder::new_multi_thread().worker_threads(threads).enable_time().build().unwrap();
    ldap3::verif::install();
    let mut rng = StdRng::seed_from_u64(seed);
    let last = i32::MAX - rng.gen_range(0..200);
    let mut used: Vec<i32> = vec![];
    for _ in 0..rng.gen_range(0..60) {
        let id = if rng.gen_bool(0.5) { rng.gen_range(1..120) } else { i32::MAX - rng.gen_range(0..250) };
        if id != last && !used.contains(&id) {
            used.push(id);
        }
    }
    used.sort_unstable();
    let dup = std::sync::Arc::new(std::sync::atomic::AtomicU64::new(0));
    let range = std::sync::Arc::new(std::sync::atomic::AtomicU64::new(0));
    let total = std::sync::Arc::new(std::sync::atomic::AtomicU64::new(0));
    let (dup2, range2, total2) = (dup.clone(), range.clone(), total.clone());
    let used2 = used.clone();
    rt.block_on(async move {
        let io = MockIo::new();
        let (conn, ldap) = LdapConnAsync::verif_from_io(Box::new(io.clone()));
        ldap.verif_set_msgmap(last, &used2);
        ldap3::verif::log(&format!("\"ev\":\"SetMap\",\"last\":{},\"used\":{:?}", last, used2));
        let drv = tokio::spawn(async move {
            let _ = conn.drive().await;
        });
        let stop = std::sync::Arc::new(std::sync::atomic::AtomicBool::new(false));
        let stop2 = stop.clone();
        let io2 = io.clone();
        // the server: answers every request; holds a few back so that many are in flight at once
        let server = tokio::spawn(async move {
            let mut buf: Vec<u8> = vec![];
            let mut inflight: Vec<i64> = vec![];
            let mut srng = StdRng::seed_from_u64(seed ^ 77);
            let mut idle = 0;
            loop {
                buf.extend(io2.take_written());
                let (msgs, rest) = ber::split_messages(&buf);
                buf = rest;
                let got = !msgs.is_empty();
                for (el, _raw) in msgs {
                    if el.kids.len() < 2 {
                        continue;
                    }
                    let id = ber::uint_of(&el.kids[0].val);
                    total2.fetch_add(1, std::sync::atomic::Ordering::Relaxed);
                    if !(1..=i32::MAX as i64).contains(&id) {
                        range2.fetch_add(1, std::sync::atomic::Ordering::Relaxed);
                    }
                    if inflight.contains(&id) {
                        dup2.fetch_add(1, std::sync::atomic::Ordering::Relaxed);
                    }
                    if matches!(el.kids[1].num, 0 | 10 | 14) {
                        inflight.push(id);
                    }
                }
                idle = if got { 0 } else { idle + 1 };
                while !inflight.is_empty() && (inflight.len() > 12 || idle > 3) {
                    let i = srng.gen_range(0..inflight.len());
                    let id = inflight.swap_remove(i);
                    io2.push_bytes(&ber::message(id, ber::ldap_result(1, 0, b"", b"ok", &[]), None));
                }
                if stop2.load(std::sync::atomic::Ordering::Relaxed) && inflight.is_empty() {
                    break;
                }
                tokio::task::yield_now().await;
            }
        });
        let mut hs = vec![];
        for t in 0..tasks {
            let mut l = ldap.clone();
            hs.push(tokio::spawn(async move {
                for k in 0..ops {
                    if (t + k) % 7 == 3 {
                        // hold two IDs at once from one task: a search start and a bind racing on two clones
                        let mut l2 = l.clone();
                        let (a, b) = tokio::join!(l.simple_bind("", ""), l2.simple_bind("", ""));
                        let _ = (a, b);
                    } else {
                        let _ = l.simple_bind("", "").await;
                    }
                }
            }));
        }
        for h in hs {
            let _ = h.await;
        }
        stop.store(true, std::sync::atomic::Ordering::Relaxed);
        let _ = server.await;
        drop(ldap);
        io.push(Item::Eof);
        let _ = drv.await;
    });
    let lines = ldap3::verif::take();
    let n_alloc = lines.iter().filter(|l| l.contains("\"IdAlloc\"")).count() as u64;
    rep.evaluations += n_alloc;
    rep.nontrivial.insert(hash_of(&(seed, n_alloc)));
    rep.nontrivial.insert(hash_of(&(seed, 1u8)));
    rep.add("allocations", n_alloc);
    rep.add("requests_seen_by_server", total.load(std::sync::atomic::Ordering::Relaxed));
    let d = dup.load(std::sync::atomic::Ordering::Relaxed);
    let r = range.load(std::sync::atomic::Ordering::Relaxed);
    if d > 0 {
        rep.mismatch("wire:duplicate-id-among-unanswered", json!({"seed": seed, "count": d}));
    }
    if r > 0 {
        rep.mismatch("wire:id-out-of-range", json!({"seed": seed, "count": r}));
    }
    if rep.samples.is_empty() {
        rep.sample(json!({"seed": seed, "last": last, "phantom_in_use": used, "events": lines.iter().take(8).collect::<Vec<_>>()}));
    }
    out.push(format!("{{\"seq\":0,\"ev\":\"Reset\",\"seed\":{}}}", seed));
    out.extend(lines.into_iter().filter(|l| l.contains("\"IdAlloc\"") || l.contains("\"IdRelease\"") || l.contains("\"SetMap\"")));
}

/// C05 S -> I: allocator vectors from MCMsgId mapped next to the real wrap point.
fn run_alloc_vectors(path: &str, rep: &mut Report) {
    let rt = Builder::new_current_thread().build().unwrap();
    let _g = rt.enter();
    let io = MockIo::new();
    let (_conn, mut ldap) = LdapConnAsync::verif_from_io(Box::new(io));
    verif_harness::tlcout::for_each_tagged(path, "VEC", |v| {
        let maxid = v["maxid"].as_i64().unwrap();
        // Model ID m -> real ID. The small cyclic space is cut open right after the expected ID: everything up to it keeps
        // its value (bottom of the real space), everything above it sits at the top of the real space, so the probe walk
        // from `last` to the expected ID never crosses the cut and wraps from 2^31-1 to 1 exactly where the model wraps.
        let next = v["next"].as_i64().unwrap();
        if next == v["last"].as_i64().unwrap() {
            // every other ID is taken: the walk goes once around the whole circle, which no cut can avoid
            // (2^31-2 IDs in use is out of reach of any real run); counted, not replayed
            rep.count("skipped_full_circle");
            return;
        }
        let map = |m: i64| -> i32 {
            if m <= next {
                m as i32
            } else {
                (i32::MAX as i64 - (maxid - m)) as i32
            }
        };
        let last = map(v["last"].as_i64().unwrap());
        let used: Vec<i32> = v["used"].as_array().unwrap().iter().map(|x| map(x.as_i64().unwrap())).collect();
        let expect = map(v["next"].as_i64().unwrap());
        ldap.verif_set_msgmap(last, &used);
        let l2 = &mut ldap;
        let got = verif_harness::catch(std::panic::AssertUnwindSafe(|| l2.verif_next_msgid()));
        rep.eval(!used.is_empty(), hash_of(&(last, &used)));
        if rep.samples.len() < 3 && used.len() >= 2 {
            rep.sample(json!({"last": last, "used": used, "expected_next": expect}));
        }
        match got {
            Ok(id) if id == expect => {
                let (l, u) = ldap.verif_msgmap();
                let mut want = used.clone();
                want.push(expect);
                want.sort_unstable();
                if l != expect || u != want {
                    rep.mismatch("alloc:post-state", json!({"last": last, "used": used, "got_last": l, "got_used": u}));
                }
            }
            Ok(id) => rep.mismatch(
                if used.contains(&id) { "alloc:returned-id-in-use" } else if !(1..=i32::MAX).contains(&id) { "alloc:out-of-range" } else { "alloc:wrong-id" },
                json!({"last": last, "used": used, "expected": expect, "got": id}),
            ),
            Err(p) => rep.mismatch("alloc:panic", json!({"last": last, "used": used, "panic": p})),
        }
    })
    .expect("read vectors");
}

fn main() {
    verif_harness::silence_panics();
    let a: Vec<String> = std::env::args().collect();
    if a.len() >= 8 && a[1] == "stress" {
        // conn-run stress <out> <first-seed> <runs> <threads> <tasks> <ops> <report>
        let first: u64 = a[3].parse().unwrap();
        let runs: u64 = a[4].parse().unwrap();
        let mut rep = Report::new("conn-stress");
        let mut out = vec![];
        for s in first..first + runs {
            run_stress(s, a[5].parse().unwrap(), a[6].parse().unwrap(), a[7].parse().unwrap(), &mut out, &mut rep);
        }
        let mut f = std::io::BufWriter::new(std::fs::File::create(&a[2]).unwrap());
        for l in &out {
            writeln!(f, "{}", l).unwrap();
        }
        f.flush().unwrap();
        rep.write(&a[8]);
        return;
    }
    if a.len() >= 5 && a[1] == "faultenum" {
        // conn-run faultenum <out.ndjson> <stride> <report>
        let mut rep = Report::new("conn-faultenum");
        let mut out = vec![];
        run_faultenum(&mut out, &mut rep, a[3].parse().unwrap());
        let mut f = std::io::BufWriter::new(std::fs::File::create(&a[2]).unwrap());
        for l in &out {
            writeln!(f, "{}", l).unwrap();
        }
        f.flush().unwrap();
        rep.write(&a[4]);
        return;
    }
    if a.len() >= 6 && a[1] == "script" {
        // conn-run script <tlc-out> <out.ndjson> <keep-one-in-N> <report>
        let keep: u64 = a[4].parse().unwrap();
        let seed = verif_harness::seed_from_env();
        let mut rep = Report::new("conn-script");
        let mut out = vec![];
        let mut seen = std::collections::HashSet::new();
        let mut n = 0u64;
        verif_harness::tlcout::for_each_tagged(&a[2], "VEC", |v| {
            let sc = v["script"].as_array().cloned().unwrap_or_default();
            let h = hash_of(&serde_json::to_string(&sc).unwrap());
            if !seen.insert(h) {
                return;
            }
            rep.count("distinct_scripts");
            if keep > 1 && (h.wrapping_add(seed)) % keep != 0 {
                return;
            }
            n += 1;
            run_script(n, &sc, &mut out, &mut rep);
        })
        .expect("read scripts");
        let mut f = std::io::BufWriter::new(std::fs::File::create(&a[3]).unwrap());
        for l in &out {
            writeln!(f, "{}", l).unwrap();
        }
        f.flush().unwrap();
        rep.write(&a[5]);
        return;
    }
    if a.len() >= 5 && a[1] == "deepq" {
        // conn-run deepq <out.ndjson> <depth,depth,..> <report>: the peer stops reading, one request blocks the driver in its
        // write, `depth` untimed operations queue up behind it (more than any plausible bound of an internal queue), then one
        // operation with a timeout of two ticks; three ticks; the peer reads again and everything is answered
        let mut rep = Report::new("conn-deepq");
        let mut out = vec![];
        for (k, depth) in a[3].split(',').map(|d| d.parse::<usize>().unwrap()).enumerate() {
            let mut sc: Vec<serde_json::Value> = vec![json!({"a": "stall"})];
            for o in 1..=depth {
                sc.push(json!({"a": "start", "o": format!("o{}", o), "k": "single", "t": 0, "ad": false, "tg": "none"}));
            }
            sc.push(json!({"a": "start", "o": format!("o{}", depth + 1), "k": "single", "t": 2, "ad": false, "tg": "none"}));
            for _ in 0..3 {
                sc.push(json!({"a": "tick"}));
            }
            sc.push(json!({"a": "resume"}));
            let followed = run_script(k as u64 + 1, &sc, &mut out, &mut rep);
            rep.count(if followed { "deepq_scripts_followed" } else { "deepq_scripts_cut_short" });
        }
        let mut f = std::io::BufWriter::new(std::fs::File::create(&a[2]).unwrap());
        for l in &out {
            writeln!(f, "{}", l).unwrap();
        }
        f.flush().unwrap();
        rep.write(&a[4]);
        return;
    }
    if a.len() >= 5 && a[1] == "flood" {
        // conn-run flood <out.ndjson> <n> <report>: a search whose caller does not read while the server sends n items (more
        // than any plausible internal queue bound), another operation in between, then the caller reads everything
        let n: usize = a[3].parse().unwrap();
        let mut rep = Report::new("conn-flood");
        let mut out = vec![];
        for (k, adapted) in [(1u64, false), (2u64, true)] {
            let mut sc: Vec<serde_json::Value> = vec![json!({"a": "start", "o": "o1", "k": "search", "t": 0, "ad": adapted, "tg": "none"})];
            for _ in 0..n {
                sc.push(json!({"a": "srv", "o": "o1", "typ": "ent"}));
            }
            sc.push(json!({"a": "start", "o": "o2", "k": "single", "t": 0, "ad": false, "tg": "none"}));
            sc.push(json!({"a": "srv", "o": "o2", "typ": "res"}));
            for _ in 0..20 {
                sc.push(json!({"a": "next", "o": "o1"}));
            }
            for _ in 0..5 {
                sc.push(json!({"a": "srv", "o": "o1", "typ": "ent"}));
            }
            sc.push(json!({"a": "srv", "o": "o1", "typ": "done"}));
            for _ in 0..(n + 5 - 20 + 1) {
                sc.push(json!({"a": "next", "o": "o1"}));
            }
            sc.push(json!({"a": "finish", "o": "o1"}));
            let followed = run_script(k, &sc, &mut out, &mut rep);
            rep.count(if followed { "flood_scripts_followed" } else { "flood_scripts_cut_short" });
        }
        rep.add("flood_items", (2 * (n + 5)) as u64);
        let mut f = std::io::BufWriter::new(std::fs::File::create(&a[2]).unwrap());
        for l in &out {
            writeln!(f, "{}", l).unwrap();
        }
        f.flush().unwrap();
        rep.write(&a[4]);
        return;
    }
    if a.len() >= 4 && a[1] == "alloc" {
        let mut rep = Report::new("conn-alloc-vectors");
        run_alloc_vectors(&a[2], &mut rep);
        rep.write(&a[3]);
        return;
    }
    if a.len() < 7 || a[1] != "random" {
        eprintln!("usage: conn-run random <out.ndjson> <first-seed> <count> <profile> <report.json>");
        std::process::exit(2);
    }
    let first: u64 = a[3].parse().unwrap();
    let count: u64 = a[4].parse().unwrap();
    let prof = profile(&a[5]);
    let mut rep = Report::new(&format!("conn-random-{}", a[5]));
    let mut out = vec![];
    for s in first..first + count {
        run_scenario(s, &prof, &mut out, &mut rep);
    }
    let mut f = std::io::BufWriter::new(std::fs::File::create(&a[2]).unwrap());
    for l in &out {
        writeln!(f, "{}", l).unwrap();
    }
    f.flush().unwrap();
    rep.write(&a[6]);
}
