//! seq-run (C02, C03): one real `Ldap` handle used sequentially over the scripted in-process transport, against
//! spec/Ldap4511.tla and spec/LdapSeq.tla.
//!
//!   seq-run replay <tlc-output|-> <report.json>        S -> I: VEC lines of MCLdap4511 (k = req | resp) and MCLdapSeq (k = hist)
//!   seq-run trace  <out.ndjson> <count> <report.json>  I -> S: seeded random episodes for TraceLdapSeq
//!
//! Every call goes through the public API (`with_controls`, `with_timeout`, `with_search_options`, the eleven
//! operations) on a handle made by `LdapConnAsync::verif_from_io`; the scripted server answers each request it has
//! read with the bytes the vector prescribes. Expected wire bytes and expected results come from the TLA+
//! specification only. The little BER reader (`verif_harness::ber`) is used to *name* a disagreement (which part of
//! the PDU differs) and, in trace mode, to read the message ID a real server would answer to - never to decide one.

use futures::FutureExt;
use ldap3::controls::RawControl;
use ldap3::exop::Exop;
use ldap3::result::{CompareResult, ExopResult};
use ldap3::{DerefAliases, Ldap, LdapConnAsync, LdapError, LdapResult, Mod, Scope, SearchOptions, SearchResult};
use rand::{rngs::StdRng, Rng, SeedableRng};
use serde_json::{json, Value};
use std::cell::Cell;
use std::collections::HashSet;
use std::io::Write;
use std::panic::AssertUnwindSafe;
use std::time::Duration;
use tokio::runtime::{Builder, Runtime};
use verif_harness::ber;
use verif_harness::mockio::{Item, MockIo};
use verif_harness::report::{hash_of, Report};
use verif_harness::{bytes_of, hex, seed_from_env, tlcout};

const WATCHDOG_MS: u64 = 3_600_000;

// ------------------------------------------------------------------------------------------------
// model of a round (same JSON shape as the TLA+ records)
// ------------------------------------------------------------------------------------------------

#[derive(Clone, Debug)]
struct CtlV {
    oid: Vec<u8>,
    crit: bool,
    hasval: bool,
    val: Vec<u8>,
}

#[derive(Clone, Debug)]
enum With {
    Controls(Vec<CtlV>),
    Timeout(u64),
    Sopts { deref: String, typesonly: bool, size: i32, time: i32 },
}

#[derive(Clone, Debug)]
struct Round {
    ws: Vec<With>,
    op: String,
    a: Value,
    silent: bool,
    /// the operation is invoked on a clone of the handle made after the With* calls
    clone: bool,
}

fn jb(b: &[u8]) -> Value {
    Value::Array(b.iter().map(|x| Value::from(*x)).collect())
}

fn utf8(v: &Value) -> String {
    match String::from_utf8(bytes_of(v)) {
        Ok(s) => s,
        Err(_) => {
            eprintln!("seq-run: a string argument of a vector is not UTF-8: {}", v);
            std::process::exit(2);
        }
    }
}

fn ctl_of(v: &Value) -> CtlV {
    CtlV { oid: bytes_of(&v["oid"]), crit: v["crit"].as_bool().unwrap_or(false), hasval: v["hasval"].as_bool().unwrap_or(false), val: bytes_of(&v["val"]) }
}

fn ctl_json(c: &CtlV) -> Value {
    json!({"oid": jb(&c.oid), "crit": c.crit, "hasval": c.hasval, "val": jb(&c.val)})
}

fn ctls_of(v: &Value) -> Vec<CtlV> {
    v.as_array().map(|a| a.iter().map(ctl_of).collect()).unwrap_or_default()
}

fn with_of(v: &Value) -> With {
    match v["what"].as_str().unwrap_or("") {
        "controls" => With::Controls(ctls_of(&v["c"])),
        "timeout" => With::Timeout(v["ms"].as_u64().unwrap_or(0)),
        "sopts" => With::Sopts {
            deref: v["s"]["deref"].as_str().unwrap_or("Never").to_string(),
            typesonly: v["s"]["typesonly"].as_bool().unwrap_or(false),
            size: v["s"]["size"].as_i64().unwrap_or(0) as i32,
            time: v["s"]["time"].as_i64().unwrap_or(0) as i32,
        },
        o => {
            eprintln!("seq-run: unknown modifier {}", o);
            std::process::exit(2);
        }
    }
}

fn with_json(w: &With) -> Value {
    match w {
        With::Controls(c) => json!({"what": "controls", "c": c.iter().map(ctl_json).collect::<Vec<_>>()}),
        With::Timeout(ms) => json!({"what": "timeout", "ms": ms}),
        With::Sopts { deref, typesonly, size, time } => {
            json!({"what": "sopts", "s": {"deref": deref, "typesonly": typesonly, "size": size, "time": time}})
        }
    }
}

fn round_of(v: &Value) -> Round {
    Round {
        ws: v["ws"].as_array().map(|a| a.iter().map(with_of).collect()).unwrap_or_default(),
        op: v["op"].as_str().unwrap_or("").to_string(),
        a: v["a"].clone(),
        silent: v["srv"].as_str() == Some("silent"),
        clone: v["clone"].as_bool().unwrap_or(false),
    }
}

fn scope_of(name: &str) -> Scope {
    match name {
        "Base" => Scope::Base,
        "OneLevel" => Scope::OneLevel,
        "Subtree" => Scope::Subtree,
        o => {
            eprintln!("seq-run: unknown scope {}", o);
            std::process::exit(2);
        }
    }
}

fn deref_of(name: &str) -> DerefAliases {
    match name {
        "Never" => DerefAliases::Never,
        "Searching" => DerefAliases::Searching,
        "Finding" => DerefAliases::Finding,
        "Always" => DerefAliases::Always,
        o => {
            eprintln!("seq-run: unknown deref {}", o);
            std::process::exit(2);
        }
    }
}

// ------------------------------------------------------------------------------------------------
// what the caller is handed, as JSON (field set = Ldap4511!ResultOf)
// ------------------------------------------------------------------------------------------------

fn result_fields(r: &LdapResult) -> serde_json::Map<String, Value> {
    let mut m = serde_json::Map::new();
    m.insert("rc".into(), json!(r.rc));
    m.insert("matched".into(), jb(r.matched.as_bytes()));
    m.insert("text".into(), jb(r.text.as_bytes()));
    m.insert("refs".into(), Value::Array(r.refs.iter().map(|s| jb(s.as_bytes())).collect()));
    m.insert(
        "ctrls".into(),
        Value::Array(
            r.ctrls
                .iter()
                .map(|c| json!({"oid": jb(c.1.ctype.as_bytes()), "crit": c.1.crit, "hasval": c.1.val.is_some(), "val": jb(c.1.val.as_deref().unwrap_or(&[]))}))
                .collect(),
        ),
    );
    m
}

/// A helper that says Ok must hand back the same result; one that says Err must carry it.
fn same_payload(orig: &LdapResult, got: Result<&LdapResult, &LdapError>) -> bool {
    match got {
        Ok(r) => r.rc == orig.rc && r.matched == orig.matched && r.text == orig.text && r.refs == orig.refs,
        Err(LdapError::LdapResult { result }) => result.rc == orig.rc && result.matched == orig.matched && result.text == orig.text,
        Err(_) => false,
    }
}

fn ret_plain(r: &LdapResult) -> Value {
    let mut m = result_fields(r);
    let s = r.clone().success();
    let n = r.clone().non_error();
    m.insert("success".into(), json!(s.is_ok()));
    m.insert("non_error".into(), json!(n.is_ok()));
    if !same_payload(r, s.as_ref()) || !same_payload(r, n.as_ref()) {
        m.insert("helper_payload_differs".into(), json!(true));
    }
    Value::Object(m)
}

fn ret_compare(c: &CompareResult) -> Value {
    let mut v = ret_plain(&c.0);
    let m = v.as_object_mut().unwrap();
    let eq = match c.clone().equal() {
        Ok(true) => "true",
        Ok(false) => "false",
        Err(LdapError::LdapResult { ref result }) if result.rc == c.0.rc => "error",
        Err(_) => "error-with-other-payload",
    };
    m.insert("equal".into(), json!(eq));
    let ne = c.clone().non_error();
    m.insert("cmp_non_error".into(), json!(ne.is_ok()));
    if !same_payload(&c.0, ne.as_ref()) {
        m.insert("helper_payload_differs".into(), json!(true));
    }
    v
}

fn ret_exop(e: &ExopResult) -> Value {
    let mut m = result_fields(&e.1);
    let s = e.clone().success();
    let n = e.clone().non_error();
    m.insert("success".into(), json!(s.is_ok()));
    m.insert("non_error".into(), json!(n.is_ok()));
    let same = |x: &Result<(Exop, LdapResult), LdapError>| match x {
        Ok((ex, r)) => ex.name == e.0.name && ex.val == e.0.val && same_payload(&e.1, Ok(r)),
        Err(err) => same_payload(&e.1, Err(err)),
    };
    if !same(&s) || !same(&n) {
        m.insert("helper_payload_differs".into(), json!(true));
    }
    m.insert(
        "exop".into(),
        json!({"hasname": e.0.name.is_some(), "name": jb(e.0.name.as_deref().unwrap_or("").as_bytes()),
               "hasval": e.0.val.is_some(), "val": jb(e.0.val.as_deref().unwrap_or(&[]))}),
    );
    Value::Object(m)
}

fn ret_search(sr: &SearchResult) -> Value {
    let mut m = result_fields(&sr.1);
    let s = sr.clone().success();
    let n = sr.clone().non_error();
    m.insert("success".into(), json!(s.is_ok()));
    m.insert("non_error".into(), json!(n.is_ok()));
    let same = |x: &Result<(Vec<ldap3::ResultEntry>, LdapResult), LdapError>| match x {
        Ok((es, r)) => es.len() == sr.0.len() && same_payload(&sr.1, Ok(r)),
        Err(err) => same_payload(&sr.1, Err(err)),
    };
    if !same(&s) || !same(&n) {
        m.insert("helper_payload_differs".into(), json!(true));
    }
    Value::Object(m)
}

// ------------------------------------------------------------------------------------------------
// performing one operation through the public API
// ------------------------------------------------------------------------------------------------

/// Ok(Some(ret)) = a result was returned, Ok(None) = the operation has no result (abandon, unbind).
async fn exec_op(ldap: &mut Ldap, op: &str, a: &Value, nent: &Cell<usize>) -> Result<Option<Value>, LdapError> {
    match op {
        "bind" => ldap.simple_bind(&utf8(&a["dn"]), &utf8(&a["pw"])).await.map(|r| Some(ret_plain(&r))),
        "saslext" => ldap.sasl_external_bind().await.map(|r| Some(ret_plain(&r))),
        "search" => {
            let attrs: Vec<String> = a["attrs"].as_array().map(|l| l.iter().map(utf8).collect()).unwrap_or_default();
            let base = utf8(&a["base"]);
            let filter = utf8(&a["filter"]);
            let scope = scope_of(a["scope"].as_str().unwrap_or(""));
            ldap.search(&base, scope, &filter, attrs).await.map(|sr| {
                nent.set(sr.0.len());
                Some(ret_search(&sr))
            })
        }
        "add" => {
            let attrs: Vec<(Vec<u8>, HashSet<Vec<u8>>)> = a["attrs"]
                .as_array()
                .map(|l| l.iter().map(|x| (bytes_of(&x["type"]), x["vals"].as_array().map(|v| v.iter().map(bytes_of).collect()).unwrap_or_default())).collect())
                .unwrap_or_default();
            ldap.add(&utf8(&a["dn"]), attrs).await.map(|r| Some(ret_plain(&r)))
        }
        "compare" => ldap.compare(&utf8(&a["dn"]), &utf8(&a["attr"]), bytes_of(&a["val"])).await.map(|c| Some(ret_compare(&c))),
        "delete" => ldap.delete(&utf8(&a["dn"])).await.map(|r| Some(ret_plain(&r))),
        "modify" => {
            let mods: Vec<Mod<Vec<u8>>> = a["mods"]
                .as_array()
                .map(|l| {
                    l.iter()
                        .map(|x| {
                            let t = bytes_of(&x["type"]);
                            let vals: Vec<Vec<u8>> = x["vals"].as_array().map(|v| v.iter().map(bytes_of).collect()).unwrap_or_default();
                            match x["kind"].as_str().unwrap_or("") {
                                "Add" => Mod::Add(t, vals.into_iter().collect()),
                                "Delete" => Mod::Delete(t, vals.into_iter().collect()),
                                "Replace" => Mod::Replace(t, vals.into_iter().collect()),
                                "Increment" => Mod::Increment(t, vals.into_iter().next().unwrap_or_default()),
                                o => {
                                    eprintln!("seq-run: unknown modification {}", o);
                                    std::process::exit(2);
                                }
                            }
                        })
                        .collect()
                })
                .unwrap_or_default();
            ldap.modify(&utf8(&a["dn"]), mods).await.map(|r| Some(ret_plain(&r)))
        }
        "modifydn" => {
            let sup = if a["hassup"].as_bool().unwrap_or(false) { Some(utf8(&a["sup"])) } else { None };
            ldap.modifydn(&utf8(&a["dn"]), &utf8(&a["rdn"]), a["delold"].as_bool().unwrap_or(false), sup.as_deref())
                .await
                .map(|r| Some(ret_plain(&r)))
        }
        "extended" => {
            let ex = Exop { name: Some(utf8(&a["name"])), val: if a["hasval"].as_bool().unwrap_or(false) { Some(bytes_of(&a["val"])) } else { None } };
            ldap.extended(ex).await.map(|e| Some(ret_exop(&e)))
        }
        "abandon" => ldap.abandon(a["target"].as_i64().unwrap_or(0) as i32).await.map(|_| None),
        "unbind" => ldap.unbind().await.map(|_| None),
        o => {
            eprintln!("seq-run: unknown operation {}", o);
            std::process::exit(2);
        }
    }
}

fn apply_with(ldap: &mut Ldap, w: &With) {
    match w {
        With::Controls(cs) => {
            let v: Vec<RawControl> = cs
                .iter()
                .map(|c| RawControl { ctype: String::from_utf8(c.oid.clone()).expect("control OIDs are UTF-8"), crit: c.crit, val: if c.hasval { Some(c.val.clone()) } else { None } })
                .collect();
            ldap.with_controls(v);
        }
        With::Timeout(ms) => {
            ldap.with_timeout(Duration::from_millis(*ms));
        }
        With::Sopts { deref, typesonly, size, time } => {
            ldap.with_search_options(SearchOptions::new().deref(deref_of(deref)).typesonly(*typesonly).sizelimit(*size).timelimit(*time));
        }
    }
}

// ------------------------------------------------------------------------------------------------
// connection + scripted server
// ------------------------------------------------------------------------------------------------

struct Conn {
    io: MockIo,
    ldap: Ldap,
    drv: tokio::task::JoinHandle<&'static str>,
}

fn open(start: i32) -> Conn {
    let io = MockIo::new();
    let (conn, ldap) = LdapConnAsync::verif_from_io(Box::new(io.clone()));
    if start != 0 {
        ldap.verif_set_msgmap(start, &[]);
    }
    let drv = tokio::spawn(async move {
        match AssertUnwindSafe(conn.drive()).catch_unwind().await {
            Ok(Ok(())) => "exited",
            Ok(Err(_)) => "exited-with-error",
            Err(_) => "panicked",
        }
    });
    Conn { io, ldap, drv }
}

async fn settle() {
    for _ in 0..8 {
        tokio::task::yield_now().await;
    }
}

async fn close(c: Conn) -> &'static str {
    let Conn { io, ldap, drv } = c;
    io.push(Item::Eof);
    drop(ldap);
    for _ in 0..40 {
        if drv.is_finished() {
            break;
        }
        tokio::task::yield_now().await;
    }
    if drv.is_finished() {
        drv.await.unwrap_or("panicked")
    } else {
        drv.abort();
        "running"
    }
}

#[derive(Clone, Debug, Default)]
struct Obs {
    /// everything the server read from the start of the call until the call was over and the client went quiet
    wire: Vec<u8>,
    /// what the server sent
    resp: Vec<u8>,
    out: String,
    detail: String,
    elapsed_ms: u64,
    ret: Option<Value>,
    nent: usize,
}

/// One round: the With* calls, then the operation, with the scripted server running beside it.
/// `respond(request bytes)` gives the bytes the server sends once it has read one complete message (None = nothing).
async fn run_round(c: &mut Conn, r: &Round, respond: &mut dyn FnMut(&[u8]) -> Option<Vec<u8>>) -> Obs {
    let mut buf = c.io.take_written();
    for w in &r.ws {
        apply_with(&mut c.ldap, w);
    }
    let io = c.io.clone();
    let mut cloned = if r.clone { Some(c.ldap.clone()) } else { None };
    let ldap = match cloned.as_mut() {
        Some(l) => l,
        None => &mut c.ldap,
    };
    let done = Cell::new(false);
    let nent = Cell::new(0usize);
    let elapsed = Cell::new(0u64);
    let mut resp_sent: Vec<u8> = vec![];
    let t0 = tokio::time::Instant::now();
    let call = async {
        let fut = AssertUnwindSafe(exec_op(ldap, &r.op, &r.a, &nent)).catch_unwind();
        let res = tokio::time::timeout(Duration::from_millis(WATCHDOG_MS), fut).await;
        elapsed.set((tokio::time::Instant::now() - t0).as_millis() as u64);
        done.set(true);
        res
    };
    let server = async {
        let mut spins = 0;
        loop {
            if done.get() {
                break;
            }
            buf.extend(io.take_written());
            let (msgs, _) = ber::split_messages(&buf);
            if let Some((_, raw)) = msgs.first() {
                if !r.silent {
                    if let Some(bytes) = respond(raw) {
                        io.push_bytes(&bytes);
                        resp_sent = bytes;
                    }
                }
                break;
            }
            spins += 1;
            if spins > 4000 {
                break;
            }
            tokio::task::yield_now().await;
        }
    };
    let (res, _) = tokio::join!(call, server);
    settle().await;
    buf.extend(c.io.take_written());
    let mut o = Obs { wire: buf, resp: resp_sent, elapsed_ms: elapsed.get(), nent: nent.get(), ..Default::default() };
    match res {
        Err(_) => o.out = "hang".into(),
        Ok(Err(p)) => {
            o.out = "panic".into();
            o.detail = if let Some(s) = p.downcast_ref::<&str>() { s.to_string() } else if let Some(s) = p.downcast_ref::<String>() { s.clone() } else { "panic".into() };
        }
        Ok(Ok(Ok(Some(ret)))) => {
            o.out = "answered".into();
            o.ret = Some(ret);
        }
        Ok(Ok(Ok(None))) => o.out = "null".into(),
        Ok(Ok(Err(e))) => {
            o.out = match e {
                LdapError::Timeout { .. } => "timeout",
                LdapError::AddNoValues | LdapError::FilterParsing => "local-error",
                _ => "error",
            }
            .into();
            o.detail = format!("{:?}", e);
            o.detail.truncate(160);
        }
    }
    o
}

fn resp_tag(op: &str) -> Option<u8> {
    match op {
        "bind" | "saslext" => Some(1),
        "search" => Some(5),
        "modify" => Some(7),
        "add" => Some(9),
        "delete" => Some(11),
        "modifydn" => Some(13),
        "compare" => Some(15),
        "extended" => Some(24),
        _ => None,
    }
}

/// The plain answer of the scripted server in request-side runs.
fn default_response(op: &str, id: i64) -> Option<Vec<u8>> {
    resp_tag(op).map(|t| ber::message(id, ber::ldap_result(t, if t == 15 { 6 } else { 0 }, b"", b"", &[]), None))
}

// ------------------------------------------------------------------------------------------------
// naming a disagreement (never deciding one)
// ------------------------------------------------------------------------------------------------

fn field_names(op: &str) -> &'static [&'static str] {
    match op {
        "bind" | "saslext" => &["version", "name", "authentication"],
        "search" => &["baseObject", "scope", "derefAliases", "sizeLimit", "timeLimit", "typesOnly", "filter", "attributes"],
        "modify" => &["object", "changes"],
        "add" => &["entry", "attributes"],
        "modifydn" => &["entry", "newrdn", "deleteoldrdn", "newSuperior"],
        "compare" => &["entry", "ava"],
        "extended" => &["requestName", "requestValue"],
        _ => &[],
    }
}

fn control_parts(w: &ber::El, g: &ber::El, parts: &mut Vec<String>) {
    if w.kids.len() != g.kids.len() || (w.class, w.cons, w.num) != (g.class, g.cons, g.num) {
        parts.push("controls".into());
        return;
    }
    for (a, b) in w.kids.iter().zip(g.kids.iter()) {
        if a == b {
            continue;
        }
        let oid = |e: &ber::El| e.kids.first().cloned();
        let crit = |e: &ber::El| e.kids.iter().find(|k| k.class == 0 && k.num == 1).cloned();
        let val = |e: &ber::El| e.kids.iter().skip(1).find(|k| k.class == 0 && k.num == 4).cloned();
        let mut named = false;
        if oid(a) != oid(b) {
            parts.push("control-type".into());
            named = true;
        }
        if crit(a) != crit(b) {
            parts.push("control-criticality".into());
            named = true;
        }
        if val(a) != val(b) {
            parts.push("control-value".into());
            named = true;
        }
        if !named {
            parts.push("controls".into());
        }
    }
}

/// Which parts of the observed bytes differ from an acceptable encoding.
fn diff_parts(op: &str, want: &[u8], got: &[u8]) -> Vec<String> {
    let mut parts: Vec<String> = vec![];
    let (w, g) = match (ber::decode(want), ber::decode(got)) {
        (Some((w, _)), Some((g, gn))) => {
            if gn < got.len() {
                parts.push("bytes-after-the-message".into());
            }
            (w, g)
        }
        _ => return vec!["not-one-ber-element".into()],
    };
    if (g.class, g.cons, g.num) != (0, true, 16) || g.kids.len() < 2 {
        return vec!["envelope".into()];
    }
    if w.kids[0] != g.kids[0] {
        parts.push("messageID".into());
    }
    let (wo, go) = (&w.kids[1], &g.kids[1]);
    if (wo.class, wo.cons, wo.num) != (go.class, go.cons, go.num) {
        parts.push("op-tag".into());
    }
    if wo.cons && go.cons {
        let names = field_names(op);
        if wo.kids.len() != go.kids.len() {
            // an optional trailing component present/absent is named, anything else is the shape
            let n = wo.kids.len().max(go.kids.len());
            if n <= names.len() && wo.kids.len().abs_diff(go.kids.len()) == 1 && wo.kids.iter().zip(go.kids.iter()).all(|(a, b)| a == b) {
                parts.push(names[n - 1].to_string());
            } else {
                parts.push("shape".into());
            }
        } else {
            for (i, (a, b)) in wo.kids.iter().zip(go.kids.iter()).enumerate() {
                if a != b {
                    parts.push(names.get(i).map(|s| s.to_string()).unwrap_or_else(|| format!("field{}", i)));
                }
            }
        }
    } else if wo.val != go.val || wo.cons != go.cons {
        parts.push("content".into());
    }
    match (w.kids.get(2), g.kids.get(2)) {
        (None, None) => {}
        (Some(a), Some(b)) => {
            if a != b {
                control_parts(a, b, &mut parts);
            }
        }
        _ => parts.push("controls".into()),
    }
    if w.kids.len().max(g.kids.len()) > 3 {
        parts.push("envelope".into());
    }
    parts.sort();
    parts.dedup();
    parts
}

struct Exp {
    haswire: bool,
    op: String,
    id: i64,
    out: String,
    tmo: u64,
    encs: Vec<Vec<u8>>,
}

fn exp_of(v: &Value) -> Exp {
    Exp {
        haswire: v["haswire"].as_bool().unwrap_or(false),
        op: v["op"].as_str().unwrap_or("").to_string(),
        id: v["id"].as_i64().unwrap_or(0),
        out: v["out"].as_str().unwrap_or("").to_string(),
        tmo: v["tmo"].as_u64().unwrap_or(0),
        encs: v["encs"].as_array().map(|a| a.iter().map(bytes_of).collect()).unwrap_or_default(),
    }
}

fn call_matches(e: &Exp, o: &Obs) -> bool {
    let wire_ok = if e.haswire { e.encs.iter().any(|x| *x == o.wire) } else { o.wire.is_empty() };
    wire_ok && e.out == o.out && (e.out != "timeout" || (o.elapsed_ms >= e.tmo && o.elapsed_ms <= e.tmo + 1))
}

/// Parts in which the observation of one call differs from its expectation.
fn call_parts(e: &Exp, o: &Obs) -> Vec<String> {
    let mut parts = vec![];
    if e.haswire && o.wire.is_empty() {
        parts.push("nothing-sent".to_string());
    } else if !e.haswire && !o.wire.is_empty() {
        parts.push("sent-although-rejected".to_string());
    } else if e.haswire && !e.encs.iter().any(|x| *x == o.wire) {
        // name the difference against the acceptable encoding (order of SET OF values) that is closest
        let p = e
            .encs
            .iter()
            .take(64)
            .map(|x| diff_parts(&e.op, x, &o.wire))
            .min_by_key(|p| (p.len(), p.iter().any(|s| s == "shape")))
            .unwrap_or_default();
        if p.is_empty() {
            parts.push("encoding".to_string());
        }
        parts.extend(p);
    }
    if e.out != o.out {
        parts.push(format!("outcome-{}-instead-of-{}", o.out, e.out));
    } else if e.out == "timeout" && !(o.elapsed_ms >= e.tmo && o.elapsed_ms <= e.tmo + 1) {
        parts.push("timeout-duration".to_string());
    }
    parts
}

fn modifier_of(parts: &[String]) -> Option<&'static str> {
    if parts.iter().any(|p| p.starts_with("control")) {
        Some("controls-survive")
    } else if parts.iter().any(|p| p.starts_with("outcome-timeout") || p.starts_with("outcome-hang") || p == "timeout-duration") {
        Some("timeout-survives")
    } else if parts.iter().any(|p| matches!(p.as_str(), "derefAliases" | "sizeLimit" | "timeLimit" | "typesOnly")) {
        Some("search-options-survive")
    } else {
        None
    }
}

fn show_obs(o: &Obs) -> Value {
    json!({"wire": hex(&o.wire), "out": o.out, "detail": o.detail, "elapsed_ms": o.elapsed_ms})
}

// ------------------------------------------------------------------------------------------------
// S -> I
// ------------------------------------------------------------------------------------------------

fn short_round(r: &Round) -> Value {
    json!({"with": r.ws.iter().map(|w| match w { With::Controls(c) => format!("controls({})", c.len()), With::Timeout(ms) => format!("timeout({}ms)", ms), With::Sopts { .. } => "search_options".to_string() }).collect::<Vec<_>>(),
           "op": r.op, "srv": if r.silent { "silent" } else { "answer" }})
}

/// A history: rounds on one fresh handle whose allocator stands at `start`.
fn replay_history(rt: &Runtime, start: i64, rounds: &[Round], expect: &[Exp], alts: &[(String, Vec<Exp>)], rep: &mut Report) {
    let (obs, drv) = rt.block_on(async {
        let mut c = open(start as i32);
        let mut obs: Vec<Obs> = vec![];
        for (i, r) in rounds.iter().enumerate() {
            let (op, id) = (expect[i].op.clone(), expect[i].id);
            let o = run_round(&mut c, r, &mut |_raw| default_response(&op, id)).await;
            obs.push(o);
        }
        let drv = close(c).await;
        (obs, drv)
    });
    for r in rounds {
        rep.count(&format!("call:{}", r.op));
        for w in &r.ws {
            rep.count(match w {
                With::Controls(_) => "with:controls",
                With::Timeout(_) => "with:timeout",
                With::Sopts { .. } => "with:search_options",
            });
        }
    }
    for e in expect {
        rep.count(&format!("outcome:{}", e.out));
    }
    rep.add("calls", rounds.len() as u64);
    let first_bad = (0..rounds.len()).find(|&i| !call_matches(&expect[i], &obs[i]));
    if let Some(i) = first_bad {
        let parts = call_parts(&expect[i], &obs[i]);
        let dev = alts.iter().find(|(_, ex)| (0..=i).all(|j| call_matches(&ex[j], &obs[j]))).map(|(n, _)| n.clone());
        let key = if obs[i].out == "panic" {
            format!("c02:pdu:{}:panic", rounds[i].op)
        } else {
            match (dev, modifier_of(&parts)) {
                (Some(d), Some(m)) => format!("c02:mods:{}-{}", m, d),
                (Some(d), None) => format!("c02:mods:{}:{}", d, parts.join("+")),
                _ => format!("c02:pdu:{}:{}", rounds[i].op, parts.join("+")),
            }
        };
        rep.mismatch(
            &key,
            json!({"start": start, "calls": rounds.iter().map(short_round).collect::<Vec<_>>(), "failing_call": i + 1,
                   "args": rounds[i].a, "differs_in": parts,
                   "expected": {"wire_one_of": expect[i].encs.iter().take(2).map(|x| hex(x)).collect::<Vec<_>>(), "out": expect[i].out, "tmo_ms": expect[i].tmo},
                   "observed": show_obs(&obs[i]), "driver": drv}),
        );
    } else if drv == "panicked" {
        rep.mismatch("c02:driver-panic", json!({"start": start, "calls": rounds.iter().map(short_round).collect::<Vec<_>>()}));
    }
}

/// The call that belongs to a response kind (C03 vectors carry only the response).
fn round_for_kind(op: &str) -> Round {
    let dn = jb(b"cn=x,dc=example");
    let a = match op {
        "bind" => json!({"dn": dn, "pw": jb(b"pw")}),
        "search" => json!({"base": dn, "scope": "Subtree", "filter": jb(b"(objectClass=*)"), "attrs": [jb(b"cn")]}),
        "modify" => json!({"dn": dn, "mods": [{"kind": "Replace", "type": jb(b"cn"), "vals": [jb(b"y")]}]}),
        "add" => json!({"dn": dn, "attrs": [{"type": jb(b"cn"), "vals": [jb(b"x")]}]}),
        "delete" => json!({"dn": dn}),
        "modifydn" => json!({"dn": dn, "rdn": jb(b"cn=y"), "delold": true, "hassup": false, "sup": []}),
        "compare" => json!({"dn": dn, "attr": jb(b"cn"), "val": jb(b"x")}),
        "extended" => json!({"name": jb(b"1.3.6.1.4.1.4203.1.11.3"), "hasval": false, "val": []}),
        o => {
            eprintln!("seq-run: no call for response kind {}", o);
            std::process::exit(2);
        }
    };
    Round { ws: vec![], op: op.to_string(), a, silent: false, clone: false }
}

const RET_FIELDS: [&str; 11] = ["rc", "matched", "text", "refs", "ctrls", "exop", "success", "non_error", "equal", "cmp_non_error", "helper_payload_differs"];

/// First field in which the returned struct differs from the expected one.
fn ret_diff(want: &Value, got: &Value) -> String {
    for f in RET_FIELDS {
        let (w, g) = (&want[f], &got[f]);
        if w != g {
            if f == "ctrls" {
                let (wa, ga) = (w.as_array().cloned().unwrap_or_default(), g.as_array().cloned().unwrap_or_default());
                if wa.len() != ga.len() {
                    return "ctrls.count".into();
                }
                for (x, y) in wa.iter().zip(ga.iter()) {
                    for sub in ["oid", "crit", "hasval", "val"] {
                        if x[sub] != y[sub] {
                            return format!("ctrls.{}", sub);
                        }
                    }
                }
            }
            if f == "exop" {
                for sub in ["hasname", "name", "hasval", "val"] {
                    if w[sub] != g[sub] {
                        return format!("exop.{}", sub);
                    }
                }
            }
            if f == "rc" {
                let rc = w.as_u64().unwrap_or(0);
                return format!("rc:{}", if rc >= 65536 { ">=65536" } else if rc >= 256 { ">=256" } else if rc >= 128 { ">=128" } else { "<128" });
            }
            if f == "refs" {
                return format!("refs:{}", w.as_array().map(|a| a.len()).unwrap_or(0));
            }
            return f.to_string();
        }
    }
    "fields".into()
}

/// A response the specification's reader refuses although its envelope is well formed (a result code that cannot be reported):
/// the caller must get an error, never a result.
fn replay_response_fail(rt: &Runtime, v: &Value, rep: &mut Report) {
    let op = v["op"].as_str().unwrap_or("").to_string();
    let id = v["id"].as_i64().unwrap_or(1);
    let bytes = bytes_of(&v["bytes"]);
    let round = round_for_kind(&op);
    rep.count(&format!("respfail:{}", op));
    let (o, drv) = rt.block_on(async {
        let mut c = open(0);
        c.ldap.verif_set_msgmap((id - 1) as i32, &[]);
        let b = bytes.clone();
        let o = run_round(&mut c, &round, &mut |_raw| Some(b.clone())).await;
        (o, close(c).await)
    });
    rep.eval(true, hash_of(&bytes));
    if rep.samples.len() < 2 {
        rep.sample(json!({"response_bytes": hex(&bytes), "operation": op, "outcome": o.out, "returned": o.ret}));
    }
    if o.out == "answered" {
        let rc = o.ret.as_ref().map(|r| r["rc"].clone()).unwrap_or(Value::Null);
        let succ = o.ret.as_ref().map(|r| r["success"] == json!(true)).unwrap_or(false);
        let n = v["rcoct"].as_array().map(|a| a.len()).unwrap_or(0);
        let key = format!("c03:unreportable-result-code:{}:reported-as-{}", if n == 0 { "empty" } else { "too-large" }, if succ { "success".to_string() } else { format!("rc-{}", rc) });
        rep.mismatch(&key, json!({"operation": op, "response_bytes": hex(&bytes), "result_code_octets": v["rcoct"], "returned": o.ret, "driver": drv}));
    } else if drv == "panicked" {
        rep.mismatch("c03:unreportable-result-code:driver-panic", json!({"operation": op, "response_bytes": hex(&bytes)}));
    } else {
        rep.count("respfail:refused");
    }
}

fn replay_response(rt: &Runtime, v: &Value, rep: &mut Report) {
    let op = v["op"].as_str().unwrap_or("").to_string();
    let id = v["id"].as_i64().unwrap_or(1);
    let want = &v["expect"];
    let min = bytes_of(&v["min"]);
    let mut encs: Vec<Vec<u8>> = v["encs"].as_array().map(|a| a.iter().map(bytes_of).collect()).unwrap_or_default();
    encs.retain(|e| *e != min);
    encs.insert(0, min.clone());
    let round = round_for_kind(&op);
    rep.count(&format!("resp:{}", op));
    rep.count(&format!("resp-group:{}", v["grp"].as_str().unwrap_or("")));
    if want["refs"].as_array().map(|a| !a.is_empty()).unwrap_or(false) {
        rep.count("resp:with-referral");
    }
    if want["ctrls"].as_array().map(|a| !a.is_empty()).unwrap_or(false) {
        rep.count("resp:with-controls");
    }
    // a Search answered with a SearchResultReference first (minimal encoding of the final result): search() appends the
    // reference URIs to the result's own referral list, which must survive
    let pre = bytes_of(&v["pre"]);
    if op == "search" && !pre.is_empty() {
        let want_pre = &v["expect_pre"];
        rep.count("resp:search-with-reference-message");
        let (o, drv) = rt.block_on(async {
            let mut c = open(0);
            c.ldap.verif_set_msgmap((id - 1) as i32, &[]);
            let mut bytes = pre.clone();
            bytes.extend_from_slice(&min);
            let o = run_round(&mut c, &round, &mut |_raw| Some(bytes.clone())).await;
            (o, close(c).await)
        });
        rep.eval(true, hash_of(&pre));
        if !(o.out == "answered" && o.ret.as_ref() == Some(want_pre)) {
            let what = if o.out != "answered" { format!("no-result-{}", o.out) } else { ret_diff(want_pre, o.ret.as_ref().unwrap()) };
            rep.mismatch(&format!("c03:search-after-reference:{}", what), json!({"operation": op, "reference_bytes": hex(&pre), "response_bytes": hex(&min), "expected": want_pre, "returned": o.ret, "out": o.out, "driver": drv}));
        }
    }
    let results: Vec<(Obs, &'static str)> = rt.block_on(async {
        let mut out = vec![];
        let mut c = open(0);
        for e in &encs {
            c.ldap.verif_set_msgmap((id - 1) as i32, &[]);
            let bytes = e.clone();
            let o = run_round(&mut c, &round, &mut |_raw| Some(bytes.clone())).await;
            let mut state = "running";
            if o.out != "answered" || c.drv.is_finished() {
                state = close(c).await;
                c = open(0);
            }
            out.push((o, state));
        }
        close(c).await;
        out
    });
    let mut min_ok = true;
    for (i, (o, drv)) in results.iter().enumerate() {
        rep.count("resp:encodings");
        if i > 0 {
            rep.count("resp:non-minimal-encodings");
        }
        rep.eval(true, hash_of(&encs[i]));
        let ok = o.out == "answered" && o.ret.as_ref() == Some(want);
        if i == 0 {
            min_ok = ok;
            if rep.samples.len() < 3 {
                rep.sample(json!({"response_bytes": hex(&encs[i]), "operation": op, "returned": o.ret}));
            }
        }
        if !ok {
            let what = if o.out != "answered" {
                if *drv == "panicked" { "driver-panic".to_string() } else { format!("no-result-{}", o.out) }
            } else {
                ret_diff(want, o.ret.as_ref().unwrap())
            };
            let key = format!("c03:{}:{}{}", op, what, if i > 0 && min_ok { ":non-minimal-length-only" } else { "" });
            rep.mismatch(&key, json!({"operation": op, "response_bytes": hex(&encs[i]), "expected": want, "returned": o.ret, "out": o.out, "detail": o.detail, "driver": drv}));
        }
    }
}

fn replay(path: &str, rep: &mut Report) {
    let rt = Builder::new_current_thread().enable_time().start_paused(true).build().unwrap();
    let n = tlcout::for_each_tagged(path, "VEC", |v| {
        rep.count("vectors");
        match v["k"].as_str().unwrap_or("") {
            "req" => {
                // one request model = a history of one round on a handle whose allocator stands at id - 1
                let op = v["op"].as_str().unwrap_or("").to_string();
                let id = v["id"].as_i64().unwrap_or(1);
                let mut ws = vec![];
                if v["some"].as_bool().unwrap_or(false) {
                    ws.push(With::Controls(ctls_of(&v["ctrls"])));
                }
                let mut a = v["a"].clone();
                if op == "search" {
                    ws.push(With::Sopts {
                        deref: a["deref"].as_str().unwrap_or("Never").to_string(),
                        typesonly: a["typesonly"].as_bool().unwrap_or(false),
                        size: a["size"].as_i64().unwrap_or(0) as i32,
                        time: a["time"].as_i64().unwrap_or(0) as i32,
                    });
                    a = json!({"base": a["base"], "scope": a["scope"], "filter": a["filter"], "attrs": a["attrs"]});
                }
                let exp = Exp {
                    haswire: true,
                    op: op.clone(),
                    id,
                    out: if resp_tag(&op).is_some() { "answered".into() } else { "null".into() },
                    tmo: 0,
                    encs: v["encs"].as_array().map(|x| x.iter().map(bytes_of).collect()).unwrap_or_default(),
                };
                rep.count(&format!("req:{}", op));
                rep.count(&format!("req:controls{}", v["ctrls"].as_array().map(|c| c.len()).unwrap_or(0).min(2)));
                if exp.encs.len() > 1 {
                    rep.count("req:several-acceptable-orders");
                }
                rep.eval(true, hash_of(&exp.encs));
                if rep.samples.len() < 3 && rep.evaluations % 500 == 7 {
                    rep.sample(json!({"op": op, "args": v["a"], "id": id, "controls": v["ctrls"], "expected_wire": hex(&exp.encs[0])}));
                }
                let round = Round { ws, op, a, silent: false, clone: false };
                replay_history(&rt, id - 1, &[round], &[exp], &[], rep);
            }
            "hist" => {
                let rounds: Vec<Round> = v["calls"].as_array().map(|a| a.iter().map(round_of).collect()).unwrap_or_default();
                let expect: Vec<Exp> = v["expect"].as_array().map(|a| a.iter().map(exp_of).collect()).unwrap_or_default();
                let alts: Vec<(String, Vec<Exp>)> = v["alts"]
                    .as_array()
                    .map(|a| a.iter().map(|x| (x["dev"].as_str().unwrap_or("").to_string(), x["expect"].as_array().map(|e| e.iter().map(exp_of).collect()).unwrap_or_default())).collect())
                    .unwrap_or_default();
                rep.count(&format!("hist:len{}", rounds.len()));
                if !alts.is_empty() {
                    rep.count("hist:distinguishes-a-known-deviation");
                }
                if v["start"].as_i64().unwrap_or(0) != 0 {
                    rep.count("hist:allocator-not-at-zero");
                }
                let nontrivial = rounds.len() > 1 || rounds.iter().any(|r| !r.ws.is_empty());
                rep.eval(nontrivial, hash_of(&v.to_string()));
                if rep.samples.len() < 3 && rounds.len() == 3 && !alts.is_empty() {
                    rep.sample(json!({"history": rounds.iter().map(short_round).collect::<Vec<_>>(),
                                      "expected": expect.iter().map(|e| json!({"out": e.out, "id": e.id, "wire": e.encs.first().map(|x| hex(x))})).collect::<Vec<_>>()}));
                }
                replay_history(&rt, v["start"].as_i64().unwrap_or(0), &rounds, &expect, &alts, rep);
            }
            "resp" => replay_response(&rt, &v, rep),
            "respfail" => replay_response_fail(&rt, &v, rep),
            o => {
                eprintln!("seq-run: unknown vector kind {}", o);
                std::process::exit(2);
            }
        }
    })
    .expect("read vectors");
    rep.add("vector-lines", n);
}

// ------------------------------------------------------------------------------------------------
// I -> S: seeded random episodes
// ------------------------------------------------------------------------------------------------

const LENS: [usize; 16] = [0, 1, 2, 5, 20, 60, 126, 127, 128, 129, 200, 254, 255, 256, 257, 300];

fn rand_len(rng: &mut StdRng) -> usize {
    if rng.gen_bool(0.6) {
        rng.gen_range(0..24)
    } else {
        LENS[rng.gen_range(0..LENS.len())]
    }
}

fn rand_bytes(rng: &mut StdRng, n: usize) -> Vec<u8> {
    (0..n).map(|_| if rng.gen_bool(0.15) { [0u8, 255, 128, 127][rng.gen_range(0..4)] } else { rng.gen() }).collect()
}

/// Well-formed UTF-8 of exactly `n` bytes.
fn rand_utf8(rng: &mut StdRng, n: usize) -> Vec<u8> {
    const MB: [&str; 8] = ["\u{fc}", "\u{e9}", "\u{20ac}", "\u{1d11e}", "\u{7ff}", "\u{800}", "\u{ffff}", "\u{10ffff}"];
    let mut s: Vec<u8> = vec![];
    while s.len() < n {
        let room = n - s.len();
        if rng.gen_bool(0.04) {
            // NUL, control characters and blanks are text too (and the end of a string is where they get "cleaned up")
            s.push([0u8, 0, 9, 10, 13, 32, 127][rng.gen_range(0..7)]);
            continue;
        }
        if rng.gen_bool(0.2) {
            let m = MB[rng.gen_range(0..MB.len())].as_bytes();
            if m.len() <= room {
                s.extend_from_slice(m);
                continue;
            }
        }
        s.push(b" !#+,;<=>\\\"abcdefghijklmnopqrstuvwxyzABCXYZ0123456789=,"[rng.gen_range(0..53)]);
    }
    if n > 0 && rng.gen_bool(0.08) {
        let last = s.len() - 1;
        if s[last] < 0x80 {
            s[last] = [0u8, 32, 10][rng.gen_range(0..3)];
        }
    }
    s
}

fn rand_oid(rng: &mut StdRng) -> Vec<u8> {
    let n = rng.gen_range(2..9);
    let arcs: Vec<String> = (0..n).map(|i| if i == 0 { rng.gen_range(0..3u32).to_string() } else { rng.gen_range(0..200000u32).to_string() }).collect();
    arcs.join(".").into_bytes()
}

fn rand_ctls(rng: &mut StdRng, max: usize) -> Vec<CtlV> {
    let n = rng.gen_range(0..=max);
    (0..n)
        .map(|_| {
            let hasval = rng.gen_bool(0.6);
            let l = rand_len(rng);
            CtlV { oid: rand_oid(rng), crit: rng.gen_bool(0.5), hasval, val: if hasval { rand_bytes(rng, l) } else { vec![] } }
        })
        .collect()
}

fn rand_i32(rng: &mut StdRng) -> i32 {
    const C: [i32; 14] = [0, 1, 127, 128, 255, 256, 32767, 32768, 65535, i32::MAX, -1, -128, -129, i32::MIN];
    if rng.gen_bool(0.6) {
        C[rng.gen_range(0..C.len())]
    } else {
        rng.gen()
    }
}

fn rand_name(rng: &mut StdRng) -> Vec<u8> {
    const NAMES: [&str; 8] = ["cn", "sn", "objectClass", "uid", "member", "o", "userCertificate;binary", "cn;lang-en"];
    NAMES[rng.gen_range(0..NAMES.len())].as_bytes().to_vec()
}

fn filter_value(rng: &mut StdRng) -> String {
    let n = rng.gen_range(0..6);
    let mut s = String::new();
    for _ in 0..n {
        let b: u8 = if rng.gen_bool(0.7) { b"abcxyz019 ,=-_"[rng.gen_range(0..14)] } else { rng.gen() };
        if b.is_ascii_alphanumeric() || b" ,=-_".contains(&b) {
            if rng.gen_bool(0.9) {
                s.push(b as char);
                continue;
            }
        }
        s.push_str(&format!("\\{:02x}", b));
    }
    s
}

fn rand_filter(rng: &mut StdRng, depth: u32) -> String {
    let pick = rng.gen_range(0..if depth == 0 { 7 } else { 10 });
    let attr = String::from_utf8(rand_name(rng)).unwrap();
    match pick {
        0 => format!("({}={})", attr, filter_value(rng)),
        1 => format!("({}>={})", attr, filter_value(rng)),
        2 => format!("({}<={})", attr, filter_value(rng)),
        3 => format!("({}~={})", attr, filter_value(rng)),
        4 => format!("({}=*)", attr),
        5 => {
            let mut v = filter_value(rng);
            if v.is_empty() {
                v = "a".into();
            }
            let mut w = filter_value(rng);
            if w.is_empty() {
                w = "b".into();
            }
            match rng.gen_range(0..4) {
                0 => format!("({}={}*)", attr, v),
                1 => format!("({}=*{})", attr, v),
                2 => format!("({}={}*{})", attr, v, w),
                _ => format!("({}=*{}*{}*)", attr, v, w),
            }
        }
        6 => match rng.gen_range(0..4) {
            0 => format!("({}:dn:2.5.13.2:={})", attr, filter_value(rng)),
            1 => format!("({}:caseExactMatch:={})", attr, filter_value(rng)),
            2 => format!("(:dn:2.5.13.5:={})", filter_value(rng)),
            _ => format!("({}:={})", attr, filter_value(rng)),
        },
        7 => {
            let n = rng.gen_range(0..4);
            format!("(&{})", (0..n).map(|_| rand_filter(rng, depth - 1)).collect::<String>())
        }
        8 => {
            let n = rng.gen_range(1..4);
            format!("(|{})", (0..n).map(|_| rand_filter(rng, depth - 1)).collect::<String>())
        }
        _ => format!("(!{})", rand_filter(rng, depth - 1)),
    }
}

fn distinct_vals(rng: &mut StdRng, n: usize) -> Vec<Vec<u8>> {
    let mut seen: HashSet<Vec<u8>> = HashSet::new();
    let mut out = vec![];
    let mut tries = 0;
    while out.len() < n && tries < 10 * n + 10 {
        tries += 1;
        let l = if rng.gen_bool(0.1) { rand_len(rng) } else { rng.gen_range(0..12) };
        let v = rand_bytes(rng, l);
        if seen.insert(v.clone()) {
            out.push(v);
        }
    }
    out
}

fn list_len(rng: &mut StdRng) -> usize {
    match rng.gen_range(0..10) {
        0 => 0,
        1..=5 => rng.gen_range(1..4),
        6..=8 => rng.gen_range(4..20),
        _ => rng.gen_range(20..70),
    }
}

fn rand_dn(rng: &mut StdRng) -> Value {
    let n = rand_len(rng);
    jb(&rand_utf8(rng, n))
}

fn rand_call(rng: &mut StdRng, allow_unbind: bool) -> (String, Value) {
    let pick = rng.gen_range(0..if allow_unbind { 16 } else { 15 });
    match pick {
        0 => {
            let n = rand_len(rng);
            ("bind".into(), json!({"dn": rand_dn(rng), "pw": jb(&rand_utf8(rng, n))}))
        }
        1 => ("saslext".into(), json!({"x": 0})),
        2 | 3 => {
            let n = list_len(rng).min(30);
            let attrs: Vec<Value> = (0..n)
                .map(|_| {
                    let l = if rng.gen_bool(0.1) { rand_len(rng) } else { rng.gen_range(1..14) };
                    jb(&rand_utf8(rng, l))
                })
                .collect();
            let filter = if rng.gen_bool(0.06) { "(cn=".to_string() } else { rand_filter(rng, 2) };
            let scope = ["Base", "OneLevel", "Subtree"][rng.gen_range(0..3)];
            ("search".into(), json!({"base": rand_dn(rng), "scope": scope, "filter": jb(filter.as_bytes()), "attrs": attrs}))
        }
        4 | 5 => {
            let n = list_len(rng);
            let reject = rng.gen_bool(0.12);
            let mut attrs: Vec<Value> = (0..n)
                .map(|_| {
                    let k = list_len(rng).max(1);
                    json!({"type": jb(&rand_name(rng)), "vals": distinct_vals(rng, k).iter().map(|v| jb(v)).collect::<Vec<_>>()})
                })
                .collect();
            if reject {
                let at = rng.gen_range(0..=attrs.len());
                attrs.insert(at, json!({"type": jb(&rand_name(rng)), "vals": []}));
            }
            ("add".into(), json!({"dn": rand_dn(rng), "attrs": attrs}))
        }
        6 => {
            let l = rand_len(rng);
            ("compare".into(), json!({"dn": rand_dn(rng), "attr": jb(&rand_name(rng)), "val": jb(&rand_bytes(rng, l))}))
        }
        7 => ("delete".into(), json!({"dn": rand_dn(rng)})),
        8 | 9 => {
            let n = list_len(rng);
            let reject = rng.gen_bool(0.12);
            let mut mods: Vec<Value> = (0..n)
                .map(|_| {
                    let kind = ["Add", "Delete", "Replace", "Increment"][rng.gen_range(0..4)];
                    let k = match kind {
                        "Add" => list_len(rng).max(1),
                        "Increment" => 1,
                        _ => list_len(rng),
                    };
                    json!({"kind": kind, "type": jb(&rand_name(rng)), "vals": distinct_vals(rng, k).iter().map(|v| jb(v)).collect::<Vec<_>>()})
                })
                .collect();
            if reject {
                let at = rng.gen_range(0..=mods.len());
                mods.insert(at, json!({"kind": "Add", "type": jb(&rand_name(rng)), "vals": []}));
            }
            ("modify".into(), json!({"dn": rand_dn(rng), "mods": mods}))
        }
        10 => {
            let hassup = rng.gen_bool(0.5);
            let n = rand_len(rng);
            (
                "modifydn".into(),
                json!({"dn": rand_dn(rng), "rdn": rand_dn(rng), "delold": rng.gen_bool(0.5), "hassup": hassup, "sup": if hassup { jb(&rand_utf8(rng, n)) } else { jb(&[]) }}),
            )
        }
        11 | 12 => {
            let hasval = rng.gen_bool(0.6);
            let l = rand_len(rng);
            ("extended".into(), json!({"name": jb(&rand_oid(rng)), "hasval": hasval, "val": if hasval { jb(&rand_bytes(rng, l)) } else { jb(&[]) }}))
        }
        13 | 14 => ("abandon".into(), json!({"target": rand_i32(rng).max(0)})),
        _ => ("unbind".into(), json!({"x": 0})),
    }
}

/// Independent BER writer with a random legal definite length form per element.
fn enc_len(rng: &mut StdRng, n: usize, vary: bool) -> Vec<u8> {
    if !vary || rng.gen_bool(0.5) {
        return ber::len_octets(n);
    }
    let need = {
        let mut k = 0;
        let mut x = n;
        while x > 0 {
            k += 1;
            x >>= 8;
        }
        k.max(1)
    };
    ber::len_octets_padded(n, rng.gen_range(need..=4))
}

fn tlv_r(rng: &mut StdRng, tag: u8, content: &[u8], vary: bool) -> Vec<u8> {
    let mut v = vec![tag];
    v.extend(enc_len(rng, content.len(), vary));
    v.extend_from_slice(content);
    v
}

const RCS: [i64; 20] = [0, 0, 0, 1, 5, 6, 10, 14, 32, 49, 80, 88, 127, 128, 255, 256, 4096, 65535, 65536, 2147483647];

fn rand_response(rng: &mut StdRng, op: &str, id: i64) -> Vec<u8> {
    let tag = resp_tag(op).unwrap();
    let vary = rng.gen_bool(0.7);
    let rc = if rng.gen_bool(0.8) { RCS[rng.gen_range(0..RCS.len())] } else { rng.gen_range(0..=i32::MAX as i64) };
    let l1 = rand_len(rng);
    let l2 = rand_len(rng);
    let mut body = tlv_r(rng, 0x0a, &ber::int_content(rc), vary);
    body.extend({ let c = rand_utf8(rng, l1); tlv_r(rng, 0x04, &c, vary) });
    body.extend({ let c = rand_utf8(rng, l2); tlv_r(rng, 0x04, &c, vary) });
    if rng.gen_bool(0.3) {
        let n = rng.gen_range(1..4);
        let mut refs = vec![];
        for _ in 0..n {
            let l = rng.gen_range(1..40);
            let mut u = b"ldap://".to_vec();
            u.extend(rand_utf8(rng, l));
            refs.extend(tlv_r(rng, 0x04, &u, vary));
        }
        body.extend(tlv_r(rng, 0xa3, &refs, vary));
    }
    if tag == 1 && rng.gen_bool(0.4) {
        let l = rand_len(rng);
        body.extend({ let c = rand_bytes(rng, l); tlv_r(rng, 0x87, &c, vary) });
    }
    if tag == 24 {
        if rng.gen_bool(0.5) {
            body.extend({ let c = rand_oid(rng); tlv_r(rng, 0x8a, &c, vary) });
        }
        if rng.gen_bool(0.5) {
            let l = rand_len(rng);
            body.extend({ let c = rand_bytes(rng, l); tlv_r(rng, 0x8b, &c, vary) });
        }
    }
    let mut msg = tlv_r(rng, 0x02, &ber::int_content(id), vary);
    msg.extend(tlv_r(rng, 0x60 | tag, &body, vary));
    if rng.gen_bool(0.4) {
        let cs = rand_ctls(rng, 3);
        let mut list = vec![];
        for c in &cs {
            let mut e = tlv_r(rng, 0x04, &c.oid, vary);
            if c.crit || rng.gen_bool(0.3) {
                e.extend(tlv_r(rng, 0x01, &[if c.crit { 0xff } else { 0 }], vary));
            }
            if c.hasval {
                e.extend(tlv_r(rng, 0x04, &c.val, vary));
            }
            list.extend(tlv_r(rng, 0x30, &e, vary));
        }
        msg.extend(tlv_r(rng, 0xa0, &list, vary));
    }
    tlv_r(rng, 0x30, &msg, vary)
}

fn trace(path: &str, count: u64, rep: &mut Report) {
    let rt = Builder::new_current_thread().enable_time().start_paused(true).build().unwrap();
    let mut rng = StdRng::seed_from_u64(seed_from_env() ^ 0x5e9_c0de);
    let mut f = std::io::BufWriter::new(std::fs::File::create(path).expect("create trace"));
    let mut calls = 0u64;
    while calls < count {
        let start: i32 = match rng.gen_range(0..10) {
            0 => [126, 127, 254, 255, 32766, 65534, i32::MAX - 2, i32::MAX - 1, i32::MAX][rng.gen_range(0..9)],
            1 => rng.gen_range(0..i32::MAX),
            _ => 0,
        };
        let nrounds = rng.gen_range(1..8);
        let mut lines: Vec<Value> = vec![json!({"ev": "Reset", "last": start})];
        rt.block_on(async {
            let mut c = open(start);
            for k in 0..nrounds {
                let mut ws = vec![];
                for _ in 0..rng.gen_range(0..4) {
                    if rng.gen_bool(0.55) {
                        ws.push(match rng.gen_range(0..3) {
                            0 => With::Controls(rand_ctls(&mut rng, 3)),
                            1 => With::Timeout([1u64, 2, 250, 1000, 5000, 60000][rng.gen_range(0..6)]),
                            _ => With::Sopts {
                                deref: ["Never", "Searching", "Finding", "Always"][rng.gen_range(0..4)].to_string(),
                                typesonly: rng.gen_bool(0.5),
                                size: rand_i32(&mut rng),
                                time: rand_i32(&mut rng),
                            },
                        });
                    }
                }
                let (op, a) = rand_call(&mut rng, k + 1 == nrounds);
                let silent = resp_tag(&op).is_some() && rng.gen_bool(0.15);
                let round = Round { ws, op: op.clone(), a, silent, clone: false };
                for w in &round.ws {
                    lines.push(json!({"ev": "With", "w": with_json(w)}));
                }
                let mut rr = StdRng::seed_from_u64(rng.gen());
                let opn = op.clone();
                let o = run_round(&mut c, &round, &mut |raw| {
                    // a real server answers to the message ID it has read
                    let id = ber::decode(raw).and_then(|(el, _)| el.kids.first().map(|k| ber::uint_of(&k.val))).unwrap_or(0);
                    resp_tag(&opn).map(|_| rand_response(&mut rr, &opn, id))
                })
                .await;
                rep.count(&format!("call:{}", op));
                rep.count(&format!("outcome:{}", o.out));
                if o.wire.len() >= 128 {
                    rep.count("wire>=128");
                }
                if o.wire.len() >= 256 {
                    rep.count("wire>=256");
                }
                if o.wire.len() >= 65536 {
                    rep.count("wire>=65536");
                }
                rep.eval(!round.ws.is_empty() || o.wire.len() >= 128, hash_of(&(o.wire.clone(), o.resp.clone())));
                if rep.samples.len() < 2 && !round.ws.is_empty() && o.out == "answered" && o.wire.len() < 120 {
                    rep.sample(json!({"round": short_round(&round), "args": round.a, "wire": hex(&o.wire), "response": hex(&o.resp), "returned": o.ret}));
                }
                lines.push(json!({"ev": "Call", "op": op, "a": round.a, "srv": if silent { "silent" } else { "answer" },
                                  "wire": jb(&o.wire), "resp": jb(&o.resp), "out": o.out, "elapsed": o.elapsed_ms,
                                  "ret": o.ret.clone().unwrap_or(json!({"none": true})), "nent": o.nent, "detail": o.detail}));
                calls += 1;
                if op == "unbind" || c.drv.is_finished() {
                    break;
                }
            }
            let drv = close(c).await;
            if drv == "panicked" {
                rep.mismatch("trace:driver-panic", json!({"start": start}));
            }
        });
        for l in lines {
            writeln!(f, "{}", l).unwrap();
        }
        rep.count("episodes");
    }
    f.flush().unwrap();
}

fn main() {
    verif_harness::silence_panics();
    let a: Vec<String> = std::env::args().collect();
    let usage = || -> ! {
        eprintln!("usage: seq-run replay <vectors> <report.json> | trace <out.ndjson> <count> <report.json>");
        std::process::exit(2)
    };
    if a.len() < 4 {
        usage();
    }
    match a[1].as_str() {
        "replay" => {
            let mut rep = Report::new("seq-replay");
            replay(&a[2], &mut rep);
            rep.write(&a[3]);
        }
        "trace" if a.len() >= 5 => {
            let mut rep = Report::new("seq-trace");
            trace(&a[2], a[3].parse().unwrap_or_else(|_| usage()), &mut rep);
            rep.write(&a[4]);
        }
        _ => usage(),
    }
}
