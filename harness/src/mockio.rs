//! Scriptable in-process transport: every read boundary, EOF, read error and write failure is
//! decided by the harness, so with a current-thread runtime the execution is deterministic.

use std::collections::VecDeque;
use std::io;
use std::pin::Pin;
use std::sync::{Arc, Mutex};
use std::task::{Context, Poll, Waker};
use tokio::io::{AsyncRead, AsyncWrite, ReadBuf};

#[derive(Debug)]
pub enum Item {
    Data(Vec<u8>),
    Eof,
    Err(io::ErrorKind),
}

#[derive(Debug, Default)]
pub struct Shared {
    pub to_client: VecDeque<Item>,
    pub from_client: Vec<u8>,
    pub waker: Option<Waker>,
    /// total bytes the client has written
    pub written: usize,
    /// fail writes once `written` reaches this offset (None = never)
    pub write_fail_at: Option<usize>,
    /// kind of write failure: error kind, or WriteZero
    pub write_fail_kind: Option<io::ErrorKind>,
    pub shutdown_seen: bool,
    pub reads: usize,
    /// the peer has stopped reading: writes wait once `written` reaches this offset (None = the peer reads)
    pub stall_at: Option<usize>,
    /// a write is waiting for the peer to read again
    pub wwaker: Option<Waker>,
    /// a write has found the peer not reading since the stall began
    pub blocked: bool,
    /// called once per stall, at the moment the first write has to wait
    pub on_block: Option<fn()>,
}

#[derive(Debug, Clone)]
pub struct MockIo(pub Arc<Mutex<Shared>>);

impl MockIo {
    pub fn new() -> Self {
        MockIo(Arc::new(Mutex::new(Shared::default())))
    }
    pub fn push(&self, it: Item) {
        let mut s = self.0.lock().unwrap();
        s.to_client.push_back(it);
        if let Some(w) = s.waker.take() {
            w.wake();
        }
    }
    pub fn push_bytes(&self, b: &[u8]) {
        self.push(Item::Data(b.to_vec()));
    }
    pub fn take_written(&self) -> Vec<u8> {
        std::mem::take(&mut self.0.lock().unwrap().from_client)
    }
    pub fn unread(&self) -> usize {
        self.0.lock().unwrap().to_client.len()
    }
    pub fn shutdown_seen(&self) -> bool {
        self.0.lock().unwrap().shutdown_seen
    }
    pub fn fail_writes_at(&self, off: usize, kind: io::ErrorKind) {
        let mut s = self.0.lock().unwrap();
        s.write_fail_at = Some(off);
        s.write_fail_kind = Some(kind);
        s.stall_at = None;
        if let Some(w) = s.wwaker.take() {
            w.wake();
        }
    }
    /// The peer stops reading after `room` more bytes (a full socket buffer): writes beyond that wait.
    pub fn stall_writes(&self, room: usize) {
        let mut s = self.0.lock().unwrap();
        s.stall_at = Some(s.written + room);
        s.blocked = false;
    }
    /// The peer reads again.
    pub fn resume_writes(&self) {
        let mut s = self.0.lock().unwrap();
        s.stall_at = None;
        s.blocked = false;
        if let Some(w) = s.wwaker.take() {
            w.wake();
        }
    }
    pub fn write_blocked(&self) -> bool {
        self.0.lock().unwrap().blocked
    }
    /// Put back bytes the scripted server has taken but not consumed (an incomplete message).
    pub fn unread_written(&self, rest: &[u8]) {
        let mut s = self.0.lock().unwrap();
        let mut v = rest.to_vec();
        v.extend_from_slice(&s.from_client);
        s.from_client = v;
    }
}

impl Default for MockIo {
    fn default() -> Self {
        Self::new()
    }
}

impl AsyncRead for MockIo {
    fn poll_read(self: Pin<&mut Self>, cx: &mut Context<'_>, buf: &mut ReadBuf<'_>) -> Poll<io::Result<()>> {
        let mut s = self.0.lock().unwrap();
        s.reads += 1;
        match s.to_client.front_mut() {
            None => {
                s.waker = Some(cx.waker().clone());
                Poll::Pending
            }
            Some(Item::Eof) => Poll::Ready(Ok(())),
            Some(Item::Err(k)) => {
                let k = *k;
                s.to_client.pop_front();
                // after an error the stream stays at EOF
                s.to_client.push_front(Item::Eof);
                Poll::Ready(Err(io::Error::new(k, "scripted read error")))
            }
            Some(Item::Data(d)) => {
                let n = d.len().min(buf.remaining());
                buf.put_slice(&d[..n]);
                if n == d.len() {
                    s.to_client.pop_front();
                } else {
                    d.drain(..n);
                }
                Poll::Ready(Ok(()))
            }
        }
    }
}

impl AsyncWrite for MockIo {
    fn poll_write(self: Pin<&mut Self>, cx: &mut Context<'_>, b: &[u8]) -> Poll<io::Result<usize>> {
        let mut s = self.0.lock().unwrap();
        if s.shutdown_seen {
            return Poll::Ready(Err(io::Error::new(io::ErrorKind::BrokenPipe, "write after shutdown")));
        }
        if let Some(at) = s.stall_at {
            if s.written >= at {
                s.wwaker = Some(cx.waker().clone());
                if !s.blocked {
                    s.blocked = true;
                    if let Some(f) = s.on_block {
                        f();
                    }
                }
                return Poll::Pending;
            }
            let n = (at - s.written).min(b.len());
            s.from_client.extend_from_slice(&b[..n]);
            s.written += n;
            return Poll::Ready(Ok(n));
        }
        if let Some(at) = s.write_fail_at {
            if s.written >= at {
                let k = s.write_fail_kind.unwrap_or(io::ErrorKind::BrokenPipe);
                if k == io::ErrorKind::WriteZero {
                    return Poll::Ready(Ok(0));
                }
                return Poll::Ready(Err(io::Error::new(k, "scripted write error")));
            }
            let room = at - s.written;
            let n = room.min(b.len());
            s.from_client.extend_from_slice(&b[..n]);
            s.written += n;
            return Poll::Ready(Ok(n));
        }
        s.from_client.extend_from_slice(b);
        s.written += b.len();
        Poll::Ready(Ok(b.len()))
    }
    fn poll_flush(self: Pin<&mut Self>, _: &mut Context<'_>) -> Poll<io::Result<()>> {
        Poll::Ready(Ok(()))
    }
    fn poll_shutdown(self: Pin<&mut Self>, _: &mut Context<'_>) -> Poll<io::Result<()>> {
        self.0.lock().unwrap().shutdown_seen = true;
        Poll::Ready(Ok(()))
    }
}
