//! C07: lber encode/parse against the Ber specification.

use crate::report::{hash_of, Report};
use crate::{bytes_of, catch, hex, tlcout};
use bytes::BytesMut;
use lber::common::TagClass;
use lber::structure::{StructureTag, PL};
use lber::structures::{ASNTag, Boolean, Enumerated, Integer, OctetString, Sequence, Tag};
use rand::{rngs::StdRng, Rng, SeedableRng};
use serde_json::{json, Value};
use std::io::Write;

fn class_of(c: u64) -> TagClass {
    match c {
        0 => TagClass::Universal,
        1 => TagClass::Application,
        2 => TagClass::Context,
        _ => TagClass::Private,
    }
}

pub fn tree_to_structure(t: &Value) -> StructureTag {
    let prim = t["prim"].as_bool().unwrap();
    StructureTag {
        class: class_of(t["c"].as_u64().unwrap()),
        id: t["n"].as_u64().unwrap(),
        payload: if prim {
            PL::P(bytes_of(&t["v"]))
        } else {
            PL::C(t["k"].as_array().map(|a| a.iter().map(tree_to_structure).collect()).unwrap_or_default())
        },
    }
}

/// Same tree through the typed wrappers (`Tag::Sequence` / `Tag::OctetString`).
fn tree_to_tag(t: &Value) -> Tag {
    let prim = t["prim"].as_bool().unwrap();
    let class = class_of(t["c"].as_u64().unwrap());
    let id = t["n"].as_u64().unwrap();
    if prim {
        Tag::OctetString(OctetString { id, class, inner: bytes_of(&t["v"]) })
    } else {
        Tag::Sequence(Sequence {
            id,
            class,
            inner: t["k"].as_array().map(|a| a.iter().map(tree_to_tag).collect()).unwrap_or_default(),
        })
    }
}

pub fn structure_to_json(s: &StructureTag) -> Value {
    match &s.payload {
        PL::P(v) => json!({"c": s.class as u8, "n": s.id, "prim": true, "v": v, "k": []}),
        PL::C(k) => json!({"c": s.class as u8, "n": s.id, "prim": false, "v": [], "k": k.iter().map(structure_to_json).collect::<Vec<_>>()}),
    }
}

fn encode(st: StructureTag) -> Result<Vec<u8>, String> {
    catch(move || {
        let mut buf = BytesMut::new();
        lber::write::encode_into(&mut buf, st).map(|_| buf.to_vec()).map_err(|e| e.to_string())
    })
    .and_then(|r| r)
}

fn parse(b: &[u8]) -> Result<(StructureTag, usize), String> {
    let bb = b.to_vec();
    catch(move || match lber::parse::parse_tag(&bb) {
        Ok((rest, t)) => Ok((t, rest.len())),
        Err(e) => Err(format!("{:?}", e.map(|x| x.code))),
    })
    .and_then(|r| r)
}

fn b8_to_i64(b: &[u8]) -> i64 {
    let mut a = [0u8; 8];
    a.copy_from_slice(b);
    i64::from_be_bytes(a)
}

fn int_key(v: i64) -> &'static str {
    if v == i64::MIN {
        "int-encode:i64-min"
    } else if v < 0 {
        "int-encode:negative"
    } else {
        "int-encode:non-negative"
    }
}

fn check_int(v: i64, expect: &[u8], rep: &mut Report) {
    for (which, st) in [
        ("Integer", catch(move || Integer { inner: v, ..Default::default() }.into_structure())),
        ("Enumerated", catch(move || Enumerated { inner: v, ..Default::default() }.into_structure())),
    ] {
        match st {
            Ok(StructureTag { payload: PL::P(c), class, id }) => {
                let idok = class == TagClass::Universal && id == if which == "Integer" { 2 } else { 10 };
                if c != expect || !idok {
                    rep.mismatch(int_key(v), json!({"what": which, "value": v, "expected_content": hex(expect), "got_content": hex(&c), "id": id}));
                }
            }
            Ok(_) => rep.mismatch("int-encode:constructed", json!({"what": which, "value": v})),
            Err(p) => rep.mismatch(&format!("{}:panic", int_key(v)), json!({"what": which, "value": v, "panic": p})),
        }
    }
}

/// what the code under test produced, for a report: all of it up to 70 000 octets, the head and the size beyond that
fn hex_cap(b: &[u8]) -> String {
    if b.len() > 70_000 {
        format!("{}...({} octets)", hex(&b[..70_000]), b.len())
    } else {
        hex(b)
    }
}

pub fn replay(path: &str, rep: &mut Report) {
    let tail = [0xaau8, 0xbb];
    let n = tlcout::for_each_tagged(path, "VEC", |v| {
        // a codec that is wrong on (nearly) every vector has been shown to be wrong: do not spend the time budget on
        // rendering thousands more cases (a defect that makes every later output grow would otherwise end as a timeout)
        if rep.mismatch_total >= 200 {
            rep.count("skipped-after-200-disagreements");
            return;
        }
        let m = v["m"].as_str().unwrap_or("");
        match m {
            "tree" => {
                let t = &v["tree"];
                let enc = bytes_of(&v["enc"]);
                let st = tree_to_structure(t);
                let nontrivial = !t["prim"].as_bool().unwrap() || enc.len() > 129;
                rep.eval(nontrivial, hash_of(&enc));
                rep.count("trees");
                if rep.samples.len() < 2 {
                    rep.sample(json!({"m": "tree", "tree": t, "enc": hex(&enc)}));
                }
                // encode, two construction paths
                match encode(st.clone()) {
                    Ok(b) if b == enc => {}
                    Ok(b) => rep.mismatch("encode:bytes-differ", json!({"tree": t, "expected": hex(&enc), "got": hex_cap(&b)})),
                    Err(e) => rep.mismatch("encode:error", json!({"tree": t, "error": e})),
                }
                match catch({ let tt = t.clone(); move || tree_to_tag(&tt).into_structure() }).and_then(encode) {
                    Ok(b) if b == enc => {}
                    Ok(b) => rep.mismatch("encode-typed:bytes-differ", json!({"tree": t, "expected": hex(&enc), "got": hex_cap(&b)})),
                    Err(e) => rep.mismatch("encode-typed:error", json!({"tree": t, "error": e})),
                }
                // parse canonical encoding with trailing bytes
                let mut with_tail = enc.clone();
                with_tail.extend_from_slice(&tail);
                match parse(&with_tail) {
                    Ok((pt, rest)) => {
                        if pt != st {
                            rep.mismatch("parse:tree-differs", json!({"bytes": hex(&with_tail), "expected": t, "got": structure_to_json(&pt)}));
                        }
                        if rest != 2 {
                            rep.mismatch("parse:trailing-bytes", json!({"bytes": hex(&with_tail), "rest_len": rest}));
                        }
                    }
                    Err(e) => rep.mismatch("parse:error", json!({"bytes": hex(&with_tail), "error": e})),
                }
                // every alternative definite-length encoding
                if let Some(alts) = v["alts"].as_array() {
                    for a in alts {
                        let ab = bytes_of(a);
                        rep.count("alt_encodings");
                        match parse(&ab) {
                            Ok((pt, rest)) => {
                                if pt != st || rest != 0 {
                                    rep.mismatch("parse-alt:differs", json!({"bytes": hex(&ab), "expected": t, "got": structure_to_json(&pt), "rest": rest}));
                                }
                            }
                            Err(e) => rep.mismatch("parse-alt:error", json!({"bytes": hex(&ab), "error": e})),
                        }
                    }
                }
            }
            "int" => {
                let b8 = bytes_of(&v["b8"]);
                let content = bytes_of(&v["content"]);
                let val = b8_to_i64(&b8);
                rep.eval(content.len() > 1, hash_of(&b8));
                rep.count("ints");
                if rep.counters["ints"] == 7 {
                    rep.sample(json!({"m": "int", "value": val, "content": hex(&content)}));
                }
                check_int(val, &content, rep);
            }
            "len" => {
                // a primitive with n content octets: header must be the spec's, parse must give it back;
                // every alternative length form must parse to the same element
                let n = v["n"].as_u64().unwrap() as usize;
                let hdr = bytes_of(&v["hdr"]);
                rep.eval(n >= 128, hash_of(&(n, 1u8)));
                rep.count("lengths");
                let payload = vec![0x41u8; n];
                let st = StructureTag { class: TagClass::Universal, id: 4, payload: PL::P(payload.clone()) };
                match encode(st.clone()) {
                    Ok(b) => {
                        if b.len() != hdr.len() + n || b[..hdr.len()] != hdr[..] {
                            rep.mismatch("encode:length-octets", json!({"n": n, "expected_header": hex(&hdr), "got_header": hex(&b[..hdr.len().min(b.len())])}));
                        }
                    }
                    Err(e) => rep.mismatch("encode:error", json!({"n": n, "error": e})),
                }
                if let Some(alts) = v["alts"].as_array() {
                    for a in alts {
                        let mut ab = vec![0x04u8];
                        ab.extend(bytes_of(a));
                        ab.extend_from_slice(&payload);
                        ab.extend_from_slice(&tail);
                        rep.count("alt_encodings");
                        match parse(&ab) {
                            Ok((pt, rest)) => {
                                if pt != st || rest != 2 {
                                    rep.mismatch("parse-alt:length-form", json!({"n": n, "length_octets": a, "rest": rest}));
                                }
                            }
                            Err(e) => rep.mismatch("parse-alt:error", json!({"n": n, "length_octets": a, "error": e})),
                        }
                    }
                }
            }
            "bool" => {
                let b = v["b"].as_bool().unwrap();
                let content = bytes_of(&v["content"]);
                rep.eval(true, hash_of(&(b, 2u8)));
                match catch(move || Boolean { inner: b, ..Default::default() }.into_structure()) {
                    Ok(StructureTag { payload: PL::P(c), class: TagClass::Universal, id: 1 }) if c == content => {}
                    other => rep.mismatch("bool-encode", json!({"b": b, "got": format!("{:?}", other)})),
                }
            }
            _ => {}
        }
    })
    .expect("read vectors");
    rep.add("vectors", n);
}

fn rand_tree(rng: &mut StdRng, depth: u32) -> StructureTag {
    let class = class_of(rng.gen_range(0..4));
    let id = rng.gen_range(0..=30u64);
    if depth == 0 || rng.gen_bool(0.45) {
        let len = match rng.gen_range(0..20) {
            0 => rng.gen_range(120..140),
            1 => rng.gen_range(250..262),
            2 if depth >= 2 => rng.gen_range(65530..65545),
            _ => rng.gen_range(0..6),
        };
        StructureTag { class, id, payload: PL::P((0..len).map(|_| rng.gen()).collect()) }
    } else {
        let n = rng.gen_range(0..4);
        StructureTag { class, id, payload: PL::C((0..n).map(|_| rand_tree(rng, depth - 1)).collect()) }
    }
}

/// an upper bound of the length of any definite-length encoding with minimal lengths of `t`: six header octets per element
fn size_bound(t: &StructureTag) -> usize {
    6 + match &t.payload {
        PL::P(v) => v.len(),
        PL::C(k) => k.iter().map(size_bound).sum(),
    }
}

/// I -> S: random trees and integers encoded by lber, written as ndjson for TraceBer.
pub fn trace(out: &str, count: u64, rep: &mut Report) {
    let mut rng = StdRng::seed_from_u64(crate::seed_from_env());
    let mut f = std::io::BufWriter::new(std::fs::File::create(out).expect("create trace"));
    for i in 0..count {
        if i % 2 == 0 {
            let t = rand_tree(&mut rng, 3);
            let tj = structure_to_json(&t);
            match encode(t.clone()) {
                Ok(mut b) => {
                    // an output longer than any encoding of this tree can be is recorded by its head only (TraceBer rejects
                    // it all the same; a codec whose every output grows would otherwise write gigabytes)
                    let bound = size_bound(&t);
                    if b.len() > bound {
                        rep.count("oversize-output-recorded-by-its-head");
                        b.truncate(bound + 16);
                    }
                    let mut wt = b.clone();
                    wt.extend_from_slice(&[0xaa, 0xbb]);
                    let (ptree, rest) = match parse(&wt) {
                        Ok((p, r)) => (structure_to_json(&p), r as i64),
                        Err(_) => (json!({"parse_failed": true}), -1),
                    };
                    rep.eval(!matches!(t.payload, PL::P(_)), hash_of(&b));
                    if i < 4 {
                        rep.sample(json!({"m": "tree", "tree": tj, "bytes": hex_cap(&b)}));
                    }
                    writeln!(f, "{}", json!({"m": "tree", "tree": tj, "bytes": b, "parsed": ptree, "rest": rest})).unwrap();
                }
                Err(e) => rep.mismatch("encode:error", json!({"tree": tj, "error": e})),
            }
        } else {
            let v: i64 = match rng.gen_range(0..4) {
                0 => rng.gen(),
                1 => rng.gen_range(-70000..70000),
                2 => {
                    let k = rng.gen_range(0..63);
                    let base = 1i64 << k;
                    let d = rng.gen_range(-2..=2i64);
                    if rng.gen() { base.wrapping_add(d) } else { (-base).wrapping_add(d) }
                }
                _ => *[i64::MIN, i64::MAX, 0, -1, 1, -128, -129, 127, 128].get(rng.gen_range(0..9)).unwrap(),
            };
            let r = catch(move || Integer { inner: v, ..Default::default() }.into_structure());
            rep.eval(!(-128..128).contains(&v), hash_of(&v));
            match r {
                Ok(StructureTag { payload: PL::P(c), .. }) => {
                    writeln!(f, "{}", json!({"m": "int", "b8": v.to_be_bytes().to_vec(), "content": c, "value": v.to_string()})).unwrap();
                }
                Ok(_) => rep.mismatch("int-encode:constructed", json!({"value": v})),
                Err(p) => {
                    // a panic is an observation: logged with empty content, which the spec rejects
                    writeln!(f, "{}", json!({"m": "int", "b8": v.to_be_bytes().to_vec(), "content": [], "value": v.to_string(), "panic": p})).unwrap();
                }
            }
        }
    }
    f.flush().unwrap();
}
