pub mod ber;
