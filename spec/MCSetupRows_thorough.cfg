SPECIFICATION Spec
CONSTANTS
  XSchemes = {"ldap", "ldaps", "ldapi", "other", "unparsable"}
  XHosts = {"name", "absent", "ipv4", "ipv6"}
  XPorts = {"absent", "given"}
  XPaths = {"absent", "encoded", "withport", "emptywithport"}
  XStreams = {"none", "tcp", "unix", "invalid"}
  XStarttls = {TRUE, FALSE}
  XTimeouts = {"none", "short", "huge"}
  XEndpoints = {"listening", "refused", "silent"}
INVARIANTS Laws Emit
CHECK_DEADLOCK FALSE
