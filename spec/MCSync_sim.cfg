SPECIFICATION MCSpec
CONSTANTS Tier = "sim"
          MaxLen = 5
INVARIANTS TypeOK ModsExactlyNext AfterDisconnectFail IdsIncrease OneRequestPerOp Emit
CHECK_DEADLOCK FALSE
