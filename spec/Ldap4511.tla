------------------------------ MODULE Ldap4511 ------------------------------
(***************************************************************************)
(* RFC 4511 section 4 (and RFC 4525 for the increment modification): the   *)
(* LDAPMessage PDUs of the eleven client operations and of the eight       *)
(* result-carrying responses, transcribed from the ASN.1 (appendix B of    *)
(* the RFC), not from ldap3.  Oracle of C02 (requests) and C03 (results).  *)
(*                                                                         *)
(* Bytes are naturals 0..255, strings are sequences of bytes, trees are    *)
(* the records of Ber.tla.  Integers the caller passes (message IDs, size  *)
(* and time limits, the Abandon target, result codes) are TLC integers in  *)
(* -2^31 .. 2^31-1 and are turned into 8-octet two's-complement forms      *)
(* before they meet Ber (B8OfInt).                                         *)
(*                                                                         *)
(* Request side.  What the caller asks for is (op, a):                     *)
(*   "bind"     a = [dn, pw]                      simple bind              *)
(*   "saslext"  a = [x]                           SASL EXTERNAL, empty authzId *)
(*   "search"   a = [base, scope, deref, size, time, typesonly, filter, attrs]  *)
(*              scope in Base OneLevel Subtree; deref in Never Searching   *)
(*              Finding Always; filter = RFC 4515 string                   *)
(*   "add"      a = [dn, attrs: <<[type, vals]>>] vals = a set given as a sequence *)
(*   "compare"  a = [dn, attr, val]                                        *)
(*   "delete"   a = [dn]                                                   *)
(*   "modify"   a = [dn, mods: <<[kind, type, vals]>>] kind in Add Delete Replace Increment *)
(*   "modifydn" a = [dn, rdn, delold, hassup, sup]                         *)
(*   "extended" a = [name, hasval, val]                                    *)
(*   "abandon"  a = [target]                                               *)
(*   "unbind"   a = [x]                                                    *)
(* Request(op, a, id, ctrls) is the LDAPMessage tree; SET OF components    *)
(* have no order on the wire, so RequestEncodings gives every acceptable   *)
(* byte string and DecodeRequest/Denote compare value sets as sorted       *)
(* sequences (= multisets).                                                *)
(***************************************************************************)
EXTENDS Integers, Controls  \* Ber, FiniteSets, the Controls envelope (CtlTree, CtlsTree, MsgTree, DecCtls), alt. length forms

F == INSTANCE Filter4515    \* Parse (string -> syntax tree), Tree (syntax tree -> Filter), UnTree (Filter -> syntax tree)

MaxId == 2147483647                                     \* maxInt of RFC 4511 4.1.1

(* 8-octet two's complement of a TLC integer *)
Not8(b) == [i \in 1..8 |-> 255 - b[i]]
B8OfInt(n) == IF n >= 0 THEN B8OfNat(n) ELSE Not8(B8OfNat(-(n + 1)))

(* ------------------------------------------------------------------ *)
(* Enumerations (RFC 4511 4.5.1.2, 4.5.1.3, 4.6; RFC 4525 section 3)   *)
(* ------------------------------------------------------------------ *)
ScopeNumber(s) == CASE s = "Base" -> 0 [] s = "OneLevel" -> 1 [] s = "Subtree" -> 2
DerefNumber(d) == CASE d = "Never" -> 0 [] d = "Searching" -> 1 [] d = "Finding" -> 2 [] d = "Always" -> 3
ModNumber(k)   == CASE k = "Add" -> 0 [] k = "Delete" -> 1 [] k = "Replace" -> 2 [] k = "Increment" -> 3
Scopes == {"Base", "OneLevel", "Subtree"}
Derefs == {"Never", "Searching", "Finding", "Always"}
ModKinds == {"Add", "Delete", "Replace", "Increment"}

Ops == {"bind", "saslext", "search", "add", "compare", "delete", "modify", "modifydn", "extended", "abandon", "unbind"}
(* [APPLICATION n] of the request (RFC 4511 4.2 - 4.12) *)
AppTag(op) == CASE op \in {"bind", "saslext"} -> 0 [] op = "unbind" -> 2 [] op = "search" -> 3 [] op = "modify" -> 6
                [] op = "add" -> 8 [] op = "delete" -> 10 [] op = "modifydn" -> 12 [] op = "compare" -> 14
                [] op = "abandon" -> 16 [] op = "extended" -> 23
(* [APPLICATION n] of the response that carries the operation's result; 0 = the operation has no response *)
RespTag(op) == CASE op \in {"bind", "saslext"} -> 1 [] op = "search" -> 5 [] op = "modify" -> 7 [] op = "add" -> 9
                 [] op = "delete" -> 11 [] op = "modifydn" -> 13 [] op = "compare" -> 15 [] op = "extended" -> 24
                 [] OTHER -> 0
WireOp(op) == IF op = "saslext" THEN "bind" ELSE op

sEXTERNAL == <<69, 88, 84, 69, 82, 78, 65, 76>>          \* "EXTERNAL" (RFC 4422 appendix A)

(* ------------------------------------------------------------------ *)
(* protocolOp of a request                                             *)
(* ------------------------------------------------------------------ *)
(* Attribute / PartialAttribute ::= SEQUENCE { type AttributeDescription, vals SET OF value AttributeValue } *)
AttrTree(type, vals) == TSeq(<<TOct(type), TSet([j \in 1..Len(vals) |-> TOct(vals[j])])>>)

OpTree(op, a) ==
  CASE op = "bind" ->         \* BindRequest ::= [APPLICATION 0] SEQUENCE { version INTEGER (1..127), name LDAPDN,
                              \*   authentication CHOICE { simple [0] OCTET STRING, sasl [3] SaslCredentials } }
         Cons(1, 0, <<TIntN(3), TOct(a.dn), Prim(2, 0, a.pw)>>)
    [] op = "saslext" ->      \* SaslCredentials ::= SEQUENCE { mechanism LDAPString, credentials OCTET STRING OPTIONAL }
         Cons(1, 0, <<TIntN(3), TOct(<<>>), Cons(2, 3, <<TOct(sEXTERNAL), TOct(<<>>)>>)>>)
    [] op = "unbind" ->       \* UnbindRequest ::= [APPLICATION 2] NULL
         Prim(1, 2, <<>>)
    [] op = "search" ->       \* SearchRequest ::= [APPLICATION 3] SEQUENCE { baseObject, scope ENUMERATED, derefAliases ENUMERATED,
                              \*   sizeLimit INTEGER, timeLimit INTEGER, typesOnly BOOLEAN, filter Filter, attributes SEQUENCE OF LDAPString }
         Cons(1, 3, <<TOct(a.base), TEnumN(ScopeNumber(a.scope)), TEnumN(DerefNumber(a.deref)),
                      TInt(B8OfInt(a.size)), TInt(B8OfInt(a.time)), TBool(a.typesonly),
                      F!Tree(F!Parse(a.filter).v),
                      TSeq([i \in 1..Len(a.attrs) |-> TOct(a.attrs[i])])>>)
    [] op = "modify" ->       \* ModifyRequest ::= [APPLICATION 6] SEQUENCE { object LDAPDN, changes SEQUENCE OF change SEQUENCE {
                              \*   operation ENUMERATED { add (0), delete (1), replace (2), increment (3) }, modification PartialAttribute } }
         Cons(1, 6, <<TOct(a.dn),
                      TSeq([i \in 1..Len(a.mods) |->
                              TSeq(<<TEnumN(ModNumber(a.mods[i].kind)), AttrTree(a.mods[i].type, a.mods[i].vals)>>)])>>)
    [] op = "add" ->          \* AddRequest ::= [APPLICATION 8] SEQUENCE { entry LDAPDN, attributes SEQUENCE OF Attribute }
         Cons(1, 8, <<TOct(a.dn), TSeq([i \in 1..Len(a.attrs) |-> AttrTree(a.attrs[i].type, a.attrs[i].vals)])>>)
    [] op = "delete" ->       \* DelRequest ::= [APPLICATION 10] LDAPDN
         Prim(1, 10, a.dn)
    [] op = "modifydn" ->     \* ModifyDNRequest ::= [APPLICATION 12] SEQUENCE { entry, newrdn, deleteoldrdn BOOLEAN, newSuperior [0] LDAPDN OPTIONAL }
         Cons(1, 12, <<TOct(a.dn), TOct(a.rdn), TBool(a.delold)>> \o Opt(a.hassup, Prim(2, 0, a.sup)))
    [] op = "compare" ->      \* CompareRequest ::= [APPLICATION 14] SEQUENCE { entry LDAPDN, ava SEQUENCE { attributeDesc, assertionValue } }
         Cons(1, 14, <<TOct(a.dn), TSeq(<<TOct(a.attr), TOct(a.val)>>)>>)
    [] op = "abandon" ->      \* AbandonRequest ::= [APPLICATION 16] MessageID
         Prim(1, 16, IntContent(B8OfInt(a.target)))
    [] op = "extended" ->     \* ExtendedRequest ::= [APPLICATION 23] SEQUENCE { requestName [0] LDAPOID, requestValue [1] OCTET STRING OPTIONAL }
         Cons(1, 23, <<Prim(2, 0, a.name)>> \o Opt(a.hasval, Prim(2, 1, a.val)))

(* LDAPMessage ::= SEQUENCE { messageID MessageID, protocolOp CHOICE {...}, controls [0] Controls OPTIONAL }
   Control: criticality only when TRUE (DEFAULT FALSE is not encoded, RFC 4511 5.1), value only when present *)
Request(op, a, id, ctrls) ==
  MsgTree(id, OpTree(op, a), IF ctrls = <<>> THEN <<>> ELSE <<CtlsTree(ctrls, FALSE)>>)

(* ---- every order of every SET OF ---- *)
RemoveAt(s, i) == SubSeq(s, 1, i - 1) \o SubSeq(s, i + 1, Len(s))
RECURSIVE Perms(_)
Perms(s) == IF s = <<>> THEN {<<>>}
            ELSE UNION {{<<s[i]>> \o p : p \in Perms(RemoveAt(s, i))} : i \in 1..Len(s)}
RECURSIVE Choices(_)                  \* ss = sequence of sets; all sequences picking one element of each
Choices(ss) == IF ss = <<>> THEN {<<>>} ELSE {<<x>> \o r : x \in Head(ss), r \in Choices(Tail(ss))}
ArgOrders(op, a) ==
  CASE op = "add" ->
         {[a EXCEPT !.attrs = c] :
            c \in Choices([i \in 1..Len(a.attrs) |-> {[a.attrs[i] EXCEPT !.vals = p] : p \in Perms(a.attrs[i].vals)}])}
    [] op = "modify" ->
         {[a EXCEPT !.mods = c] :
            c \in Choices([i \in 1..Len(a.mods) |-> {[a.mods[i] EXCEPT !.vals = p] : p \in Perms(a.mods[i].vals)}])}
    [] OTHER -> {a}
(* some: a control vector was supplied; an empty vector may be sent as an empty Controls element or be left out *)
CtlEnvs(some, ctrls) == IF ctrls # <<>> THEN {<<CtlsTree(ctrls, FALSE)>>}
                        ELSE IF some THEN {<<>>, <<CtlsTree(<<>>, FALSE)>>} ELSE {<<>>}
RequestEncodings(op, a, id, some, ctrls) ==
  {Enc(MsgTree(id, OpTree(op, a2), cs)) : a2 \in ArgOrders(op, a), cs \in CtlEnvs(some, ctrls)}

(* ------------------------------------------------------------------ *)
(* What a request denotes: the form DecodeRequest produces.            *)
(* Integers as 8-octet forms, enumerations as numbers, the filter as a *)
(* syntax tree, every SET OF as a sorted sequence.                     *)
(* ------------------------------------------------------------------ *)
RECURSIVE LexLeqAt(_, _, _)
LexLeqAt(x, y, i) == IF i > Len(x) THEN TRUE ELSE IF i > Len(y) THEN FALSE
                     ELSE IF x[i] < y[i] THEN TRUE ELSE IF x[i] > y[i] THEN FALSE ELSE LexLeqAt(x, y, i + 1)
RECURSIVE InsertSorted(_, _)
InsertSorted(x, s) == IF s = <<>> THEN <<x>>
                      ELSE IF LexLeqAt(x, s[1], 1) THEN <<x>> \o s ELSE <<s[1]>> \o InsertSorted(x, Tail(s))
RECURSIVE SortBytes(_)
SortBytes(s) == IF s = <<>> THEN <<>> ELSE InsertSorted(s[1], SortBytes(Tail(s)))

DenoteArgs(op, a) ==
  CASE op = "bind"     -> [ver |-> 3, dn |-> a.dn, auth |-> "simple", pw |-> a.pw]
    [] op = "saslext"  -> [ver |-> 3, dn |-> <<>>, auth |-> "sasl", mech |-> sEXTERNAL, hascreds |-> TRUE, creds |-> <<>>]
    [] op = "unbind"   -> [x |-> 0]
    [] op = "search"   -> [base |-> a.base, scope |-> ScopeNumber(a.scope), deref |-> DerefNumber(a.deref),
                           size |-> B8OfInt(a.size), time |-> B8OfInt(a.time), typesonly |-> a.typesonly,
                           filter |-> F!Parse(a.filter).v, attrs |-> a.attrs]
    [] op = "modify"   -> [dn |-> a.dn, mods |-> [i \in 1..Len(a.mods) |->
                             [kind |-> ModNumber(a.mods[i].kind), type |-> a.mods[i].type, vals |-> SortBytes(a.mods[i].vals)]]]
    [] op = "add"      -> [dn |-> a.dn, attrs |-> [i \in 1..Len(a.attrs) |->
                             [type |-> a.attrs[i].type, vals |-> SortBytes(a.attrs[i].vals)]]]
    [] op = "delete"   -> [dn |-> a.dn]
    [] op = "modifydn" -> [dn |-> a.dn, rdn |-> a.rdn, delold |-> a.delold, hassup |-> a.hassup,
                           sup |-> IF a.hassup THEN a.sup ELSE <<>>]
    [] op = "compare"  -> [dn |-> a.dn, attr |-> a.attr, val |-> a.val]
    [] op = "abandon"  -> [target |-> B8OfInt(a.target)]
    [] op = "extended" -> [name |-> a.name, hasval |-> a.hasval, val |-> IF a.hasval THEN a.val ELSE <<>>]
Denote(op, a, id, ctrls) == [ok |-> TRUE, id |-> B8OfNat(id), op |-> WireOp(op), ctrls |-> ctrls, a |-> DenoteArgs(op, a)]

(* ------------------------------------------------------------------ *)
(* Independent reader of a request (what the server sees).  Validating:*)
(* anything that is not exactly one LDAPMessage with one of the eleven *)
(* request PDUs gives [ok |-> FALSE].                                   *)
(* ------------------------------------------------------------------ *)
IsApp(t, n, prim) == t.c = 1 /\ t.n = n /\ t.prim = prim
IsCtxP(t, n) == t.c = 2 /\ t.n = n /\ t.prim
IsCtxC(t, n) == t.c = 2 /\ t.n = n /\ ~t.prim
IsSetT(t) == t.c = 0 /\ t.n = 17 /\ ~t.prim
IsOctT(t) == IsU(t, 4)
IsIntT(t) == IsU(t, 2) /\ MinimalInt(t.v)
IsEnumUpTo(t, max) == IsU(t, 10) /\ Len(t.v) = 1 /\ t.v[1] <= max
(* RFC 4511 5.1: BOOLEAN TRUE is sent as 0xFF *)
IsBool4511(t) == IsU(t, 1) /\ (t.v = <<0>> \/ t.v = <<255>>)
OctVals(ks) == [j \in 1..Len(ks) |-> ks[j].v]

IsAttr(t) == IsSeqT(t) /\ Len(t.k) = 2 /\ IsOctT(t.k[1]) /\ IsSetT(t.k[2]) /\ AllOct(t.k[2].k)
AttrOf(t) == [type |-> t.k[1].v, vals |-> SortBytes(OctVals(t.k[2].k))]
IsChange(t) == IsSeqT(t) /\ Len(t.k) = 2 /\ IsEnumUpTo(t.k[1], 3) /\ IsAttr(t.k[2])
ChangeOf(t) == [kind |-> t.k[1].v[1], type |-> t.k[2].k[1].v, vals |-> SortBytes(OctVals(t.k[2].k[2].k))]

OkOp(op, a) == [ok |-> TRUE, op |-> op, a |-> a]
DecOp(t) ==
  IF t.c # 1 THEN Fail
  ELSE IF t.n = 0 THEN
         IF ~(~t.prim /\ Len(t.k) = 3 /\ IsIntT(t.k[1]) /\ Len(t.k[1].v) = 1 /\ IsOctT(t.k[2])) THEN Fail
         ELSE LET au == t.k[3] IN
              IF IsCtxP(au, 0) THEN OkOp("bind", [ver |-> t.k[1].v[1], dn |-> t.k[2].v, auth |-> "simple", pw |-> au.v])
              ELSE IF IsCtxC(au, 3) /\ Len(au.k) \in {1, 2} /\ AllOct(au.k)
                   THEN OkOp("bind", [ver |-> t.k[1].v[1], dn |-> t.k[2].v, auth |-> "sasl", mech |-> au.k[1].v,
                                      hascreds |-> (Len(au.k) = 2), creds |-> IF Len(au.k) = 2 THEN au.k[2].v ELSE <<>>])
              ELSE Fail
  ELSE IF t.n = 2 THEN IF t.prim /\ t.v = <<>> THEN OkOp("unbind", [x |-> 0]) ELSE Fail
  ELSE IF t.n = 3 THEN
         IF ~(~t.prim /\ Len(t.k) = 8 /\ IsOctT(t.k[1]) /\ IsEnumUpTo(t.k[2], 2) /\ IsEnumUpTo(t.k[3], 3)
              /\ IsIntT(t.k[4]) /\ IsIntT(t.k[5]) /\ IsBool4511(t.k[6]) /\ IsSeqT(t.k[8]) /\ AllOct(t.k[8].k)) THEN Fail
         ELSE LET f == F!UnTree(t.k[7]) IN
              IF ~f.ok THEN Fail
              ELSE OkOp("search", [base |-> t.k[1].v, scope |-> t.k[2].v[1], deref |-> t.k[3].v[1],
                                   size |-> IntValue(t.k[4].v), time |-> IntValue(t.k[5].v), typesonly |-> BoolOf(t.k[6]),
                                   filter |-> f.v, attrs |-> OctVals(t.k[8].k)])
  ELSE IF t.n = 6 THEN
         IF ~t.prim /\ Len(t.k) = 2 /\ IsOctT(t.k[1]) /\ IsSeqT(t.k[2]) /\ (\A i \in 1..Len(t.k[2].k) : IsChange(t.k[2].k[i]))
         THEN OkOp("modify", [dn |-> t.k[1].v, mods |-> [i \in 1..Len(t.k[2].k) |-> ChangeOf(t.k[2].k[i])]]) ELSE Fail
  ELSE IF t.n = 8 THEN
         IF ~t.prim /\ Len(t.k) = 2 /\ IsOctT(t.k[1]) /\ IsSeqT(t.k[2]) /\ (\A i \in 1..Len(t.k[2].k) : IsAttr(t.k[2].k[i]))
         THEN OkOp("add", [dn |-> t.k[1].v, attrs |-> [i \in 1..Len(t.k[2].k) |-> AttrOf(t.k[2].k[i])]]) ELSE Fail
  ELSE IF t.n = 10 THEN IF t.prim THEN OkOp("delete", [dn |-> t.v]) ELSE Fail
  ELSE IF t.n = 12 THEN
         IF ~t.prim /\ Len(t.k) \in {3, 4} /\ IsOctT(t.k[1]) /\ IsOctT(t.k[2]) /\ IsBool4511(t.k[3])
            /\ (Len(t.k) = 4 => IsCtxP(t.k[4], 0))
         THEN OkOp("modifydn", [dn |-> t.k[1].v, rdn |-> t.k[2].v, delold |-> BoolOf(t.k[3]), hassup |-> (Len(t.k) = 4),
                                sup |-> IF Len(t.k) = 4 THEN t.k[4].v ELSE <<>>]) ELSE Fail
  ELSE IF t.n = 14 THEN
         IF ~t.prim /\ Len(t.k) = 2 /\ IsOctT(t.k[1]) /\ IsSeqT(t.k[2]) /\ Len(t.k[2].k) = 2 /\ AllOct(t.k[2].k)
         THEN OkOp("compare", [dn |-> t.k[1].v, attr |-> t.k[2].k[1].v, val |-> t.k[2].k[2].v]) ELSE Fail
  ELSE IF t.n = 16 THEN IF t.prim /\ MinimalInt(t.v) THEN OkOp("abandon", [target |-> IntValue(t.v)]) ELSE Fail
  ELSE IF t.n = 23 THEN
         IF ~t.prim /\ Len(t.k) \in {1, 2} /\ IsCtxP(t.k[1], 0) /\ (Len(t.k) = 2 => IsCtxP(t.k[2], 1))
         THEN OkOp("extended", [name |-> t.k[1].v, hasval |-> (Len(t.k) = 2), val |-> IF Len(t.k) = 2 THEN t.k[2].v ELSE <<>>])
         ELSE Fail
  ELSE Fail

StripKnown(cs) == [i \in 1..Len(cs) |-> [oid |-> cs[i].oid, crit |-> cs[i].crit, hasval |-> cs[i].hasval, val |-> cs[i].val]]
(* the optional third element of an LDAPMessage: [ok, c] *)
DecEnvCtls(k) ==
  IF Len(k) = 2 THEN [ok |-> TRUE, c |-> <<>>]
  ELSE IF IsCtxC(k[3], 0) THEN LET r == DecCtls(k[3].k) IN IF r.ok THEN [ok |-> TRUE, c |-> StripKnown(r.c)] ELSE [ok |-> FALSE, c |-> <<>>]
  ELSE [ok |-> FALSE, c |-> <<>>]

(* bytes = everything the server read for one call: exactly one LDAPMessage, nothing trailing *)
DecodeRequest(bytes) ==
  LET d == DecOne(bytes) IN
  IF ~(d.ok /\ IsSeqT(d.t) /\ Len(d.t.k) \in {2, 3} /\ IsIntT(d.t.k[1])) THEN Fail
  ELSE LET o == DecOp(d.t.k[2])
           c == DecEnvCtls(d.t.k)
       IN IF o.ok /\ c.ok THEN [ok |-> TRUE, id |-> IntValue(d.t.k[1].v), op |-> o.op, ctrls |-> c.c, a |-> o.a] ELSE Fail
DecodeMessage(bytes) == DecodeRequest(bytes)

(* ------------------------------------------------------------------ *)
(* Response side (RFC 4511 4.1.9, 4.2.2, 4.12):                        *)
(*   LDAPResult ::= SEQUENCE { resultCode ENUMERATED, matchedDN LDAPDN, diagnosticMessage LDAPString,       *)
(*                             referral [3] Referral OPTIONAL }   Referral ::= SEQUENCE SIZE (1..MAX) OF URI *)
(*   BindResponse ::= [APPLICATION 1] SEQUENCE { COMPONENTS OF LDAPResult, serverSaslCreds [7] OCTET STRING OPTIONAL } *)
(*   ExtendedResponse ::= [APPLICATION 24] SEQUENCE { COMPONENTS OF LDAPResult, responseName [10] LDAPOID OPTIONAL, *)
(*                                                    responseValue [11] OCTET STRING OPTIONAL }            *)
(*   SearchResultDone [5], ModifyResponse [7], AddResponse [9], DelResponse [11], ModifyDNResponse [13],    *)
(*   CompareResponse [15] ::= [APPLICATION n] LDAPResult                                                    *)
(* A response model is                                                 *)
(*   [kind, id, rc, matched, text, refs (<<>> = no referral), hassasl, sasl, hasname, name, hasvalue, value, ctrls] *)
(* ------------------------------------------------------------------ *)
RespKinds == {1, 5, 7, 9, 11, 13, 15, 24}
KindName(k) == CASE k = 1 -> "bind" [] k = 5 -> "search" [] k = 7 -> "modify" [] k = 9 -> "add" [] k = 11 -> "delete"
                 [] k = 13 -> "modifydn" [] k = 15 -> "compare" [] k = 24 -> "extended"

ResultOpTree(r) ==
  Cons(1, r.kind, <<TEnumN(r.rc), TOct(r.matched), TOct(r.text)>>
                  \o Opt(r.refs # <<>>, Cons(2, 3, [i \in 1..Len(r.refs) |-> TOct(r.refs[i])]))
                  \o Opt(r.kind = 1 /\ r.hassasl, Prim(2, 7, r.sasl))
                  \o Opt(r.kind = 24 /\ r.hasname, Prim(2, 10, r.name))
                  \o Opt(r.kind = 24 /\ r.hasvalue, Prim(2, 11, r.value)))
(* emptyctl: an empty control list is sent as an empty Controls element instead of being left out;
   expl: criticality FALSE is written out (legal BER; the field has a DEFAULT) *)
Response(r, emptyctl, expl) ==
  MsgTree(r.id, ResultOpTree(r), IF r.ctrls # <<>> \/ emptyctl THEN <<CtlsTree(r.ctrls, expl)>> ELSE <<>>)

(* SearchResultReference ::= [APPLICATION 19] SEQUENCE SIZE (1..MAX) OF uri URI  (RFC 4511 4.5.3) *)
RefMsgTree(id, uris) == MsgTree(id, Cons(1, 19, [i \in 1..Len(uris) |-> TOct(uris[i])]), <<>>)

(* A resultCode the caller's u32 cannot hold - no content octets at all, or more than four significant ones: such a response
   cannot be reported faithfully and therefore must not be reported at all (least of all as code 0, success).  The reader
   below refuses it like any other malformed LDAPResult. *)
RECURSIVE StripZeros(_)
StripZeros(o) == IF Len(o) > 1 /\ o[1] = 0 THEN StripZeros(Tail(o)) ELSE o
RcUnreportable(o) == o = <<>> \/ Len(StripZeros(o)) > 4
RawRcResponse(kind, id, rcoct) == MsgTree(id, Cons(1, kind, <<Prim(0, 10, rcoct), TOct(<<>>), TOct(<<>>)>>), <<>>)

(* reader, independent of Response *)
DecodeResponse(bytes) ==
  LET d == DecOne(bytes) IN
  IF ~(d.ok /\ IsSeqT(d.t) /\ Len(d.t.k) \in {2, 3} /\ IsIntT(d.t.k[1]) /\ d.t.k[2].c = 1 /\ ~d.t.k[2].prim
       /\ d.t.k[2].n \in RespKinds) THEN Fail
  ELSE
  LET o == d.t.k[2]
      kind == o.n
      n == Len(o.k)
      c == DecEnvCtls(d.t.k)
  IN IF ~(c.ok /\ n >= 3 /\ IsU(o.k[1], 10) /\ MinimalInt(o.k[1].v) /\ Len(o.k[1].v) <= 4 /\ o.k[1].v[1] < 128
          /\ IsOctT(o.k[2]) /\ IsOctT(o.k[3])) THEN Fail
     ELSE
     LET hasref == n >= 4 /\ IsCtxC(o.k[4], 3)
         p1 == IF hasref THEN 5 ELSE 4
         hassasl == kind = 1 /\ n >= p1 /\ IsCtxP(o.k[p1], 7)
         p2 == IF hassasl THEN p1 + 1 ELSE p1
         hasname == kind = 24 /\ n >= p2 /\ IsCtxP(o.k[p2], 10)
         p3 == IF hasname THEN p2 + 1 ELSE p2
         hasvalue == kind = 24 /\ n >= p3 /\ IsCtxP(o.k[p3], 11)
         p4 == IF hasvalue THEN p3 + 1 ELSE p3
     IN IF p4 # n + 1 \/ (hasref /\ (o.k[4].k = <<>> \/ ~AllOct(o.k[4].k))) THEN Fail
        ELSE [ok |-> TRUE, kind |-> kind, id |-> NatOf(d.t.k[1].v), rc |-> NatOf(o.k[1].v),
              matched |-> o.k[2].v, text |-> o.k[3].v,
              refs |-> IF hasref THEN OctVals(o.k[4].k) ELSE <<>>,
              hassasl |-> hassasl, sasl |-> IF hassasl THEN o.k[p1].v ELSE <<>>,
              hasname |-> hasname, name |-> IF hasname THEN o.k[p2].v ELSE <<>>,
              hasvalue |-> hasvalue, value |-> IF hasvalue THEN o.k[p3].v ELSE <<>>,
              ctrls |-> c.c]
(* the normal form of a response model (fields that do not exist for its kind are blank) *)
NormResp(r) == [ok |-> TRUE, kind |-> r.kind, id |-> r.id, rc |-> r.rc, matched |-> r.matched, text |-> r.text, refs |-> r.refs,
                hassasl |-> (r.kind = 1 /\ r.hassasl), sasl |-> IF r.kind = 1 /\ r.hassasl THEN r.sasl ELSE <<>>,
                hasname |-> (r.kind = 24 /\ r.hasname), name |-> IF r.kind = 24 /\ r.hasname THEN r.name ELSE <<>>,
                hasvalue |-> (r.kind = 24 /\ r.hasvalue), value |-> IF r.kind = 24 /\ r.hasvalue THEN r.value ELSE <<>>,
                ctrls |-> r.ctrls]
(* the text fields are LDAPString / LDAPDN / URI / LDAPOID: UTF-8 (anything else is C11's business) *)
TextOk(d) == IsUtf8(d.matched) /\ IsUtf8(d.text) /\ IsUtf8(d.name) /\ (\A i \in 1..Len(d.refs) : IsUtf8(d.refs[i]))
             /\ (\A i \in 1..Len(d.ctrls) : IsUtf8(d.ctrls[i].oid))

(* ------------------------------------------------------------------ *)
(* What the caller is handed, and the documented classification helpers*)
(* ------------------------------------------------------------------ *)
Success(rc)     == rc = 0                                   \* LdapResult/SearchResult/ExopResult::success
NonError(rc)    == rc \in {0, 10}                           \* ...::non_error
CmpEqual(rc)    == CASE rc = 5 -> "false" [] rc = 6 -> "true" [] OTHER -> "error"     \* CompareResult::equal
CmpNonError(rc) == rc \in {5, 6, 10}                        \* CompareResult::non_error

(* d = a decoded response.  The serverSaslCreds of a BindResponse are not part of any public result. *)
ResultOf(d) ==
  IF d.kind = 15 THEN
       [rc |-> d.rc, matched |-> d.matched, text |-> d.text, refs |-> d.refs, ctrls |-> d.ctrls,
        success |-> Success(d.rc), non_error |-> NonError(d.rc), equal |-> CmpEqual(d.rc), cmp_non_error |-> CmpNonError(d.rc)]
  ELSE IF d.kind = 24 THEN
       [rc |-> d.rc, matched |-> d.matched, text |-> d.text, refs |-> d.refs, ctrls |-> d.ctrls,
        success |-> Success(d.rc), non_error |-> NonError(d.rc),
        exop |-> [hasname |-> d.hasname, name |-> d.name, hasval |-> d.hasvalue, val |-> d.value]]
  ELSE [rc |-> d.rc, matched |-> d.matched, text |-> d.text, refs |-> d.refs, ctrls |-> d.ctrls,
        success |-> Success(d.rc), non_error |-> NonError(d.rc)]
(* Ldap::search() / LdapConn::search(): the URIs of the SearchResultReference messages that preceded the final result are
   appended to the result's own referral list (which the server encoded in the SearchResultDone and which must survive) *)
SearchResultOf(d, refuris) == [ResultOf(d) EXCEPT !.refs = @ \o refuris]
=============================================================================
