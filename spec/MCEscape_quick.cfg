SPECIFICATION Spec
CONSTANTS
  MaxFull = 2
  MaxMeta = 4
  MaxSampled = 0
  EmitVectors = TRUE
INVARIANTS WellFormed RefFilterLaws RefDnLaws AllHexLaws IdentityFilter IdentityDn Emit
CHECK_DEADLOCK FALSE
