SPECIFICATION Spec
CONSTANTS
  StaleResultAfterSplice = FALSE
  Envs <- C16EnvsQuick
  SearchEnvs <- NoEnvs
  Alphabet <- AlphaAll
  MaxCalls = 0
  Plans <- C16Plans
INVARIANTS ItemsLaw FinishLaw StateLaw PagingLaw SearchLaw NoPanic Emit
CHECK_DEADLOCK FALSE
