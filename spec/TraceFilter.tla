---------------------------- MODULE TraceFilter ----------------------------
(* I -> S for C08: every record {s, ok, ber} is a byte string given to        *)
(* ldap3::parse_filter by the harness together with what came back (accepted?, *)
(* lber encoding of the result).  The specification recomputes the verdict:    *)
(* Filter4515!Allowed.  One state per record; a record the specification does  *)
(* not allow is printed as <<"BADREC", index>> plus a <<"BADWHY", json>> line  *)
(* that says what kind of disagreement it is (used for the class key).         *)
EXTENDS Filter4515, Json, IOUtils
T == INSTANCE TLC

Rec == ndJsonDeserialize(IOEnv.TRACE)
VARIABLE l

Check(r) == Allowed(r.s, r.ok, r.ber)

Why(r) == LET p == Parse(r.s) IN
          IF p.ok THEN [what |-> IF r.ok THEN "bytes-differ" ELSE "rejects-valid", top |-> p.v.t, k |-> LeafKinds(p.v)]
          ELSE [what |-> "accepts-invalid", top |-> p.why, k |-> {}]

Init == l = 1
Next == /\ l <= Len(Rec) /\ l' = l + 1
        /\ \/ Check(Rec[l])
           \/ /\ T!PrintT(<<"BADREC", l>>)
              /\ LET w == Why(Rec[l]) IN T!PrintT(<<"BADWHY", ToJson([l |-> l, what |-> w.what, top |-> w.top, k |-> w.k])>>)
Spec == Init /\ [][Next]_l
Accepted == IF T!TLCGet("stats").diameter - 1 = Len(Rec) THEN TRUE
            ELSE T!Print(<<"TRACE-NOT-CONSUMED", T!TLCGet("stats").diameter, Len(Rec)>>, FALSE)
=============================================================================
