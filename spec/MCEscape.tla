---------------------------- MODULE MCEscape ----------------------------
(* Model-checking instance and value generator for Escape (C09).           *)
(* One state = one value v, a sequence of symbols (a symbol is one ASCII   *)
(* octet or the UTF-8 encoding of a non-ASCII character, so every v is     *)
(* well-formed UTF-8 and can be handed to the Rust functions as a &str).   *)
(* The space is                                                            *)
(*   all strings of <= MaxFull symbols over 0x00..0x7F + {e-acute, euro,   *)
(*   U+1F600},                                                             *)
(*   all strings of <= MaxMeta symbols over the metacharacter alphabet,    *)
(*   strings of <= MaxSampled symbols over the full range in which at most *)
(*   one symbol lies outside the Sample set (thorough tier).               *)
(* The invariants validate the specification's own parsers: two reference  *)
(* escapers written here from the RFC text satisfy L1-L3 with them, and    *)
(* the identity "escaper" satisfies a law exactly when nothing needed to   *)
(* be escaped.  Emit prints one vector per state; the harness feeds v to   *)
(* ldap_escape / dn_escape / ldap_unescape / parse_filter and TraceEscape  *)
(* evaluates the same laws on what they returned.                          *)
EXTENDS Escape, TLC, Json

CONSTANTS MaxFull, MaxMeta, MaxSampled, EmitVectors

EAcute == <<195, 169>>              \* U+00E9
Euro   == <<226, 130, 172>>         \* U+20AC
Grin   == <<240, 159, 152, 128>>    \* U+1F600
Full   == {<<b>> : b \in 0..127} \cup {EAcute, Euro, Grin}
MetaBytes == {NUL, SPACE, SHARP, DQUOTE, PLUS, COMMA, SEMI, LANGLE, EQUALS, RANGLE, ESC, ASTERISK, LPAREN, RPAREN, 97}
Meta   == {<<b>> : b \in MetaBytes}
(* sample for the long full-range strings: the metacharacters, neighbours of the class boundaries, hex digits,
   a control, DEL, and the multi-octet symbols *)
Sample == Meta \cup {<<b>> : b \in {1, 31, 33, 39, 45, 47, 48, 57, 58, 63, 65, 70, 71, 91, 93, 102, 103, 126, 127}}
               \cup {EAcute, Grin}

RECURSIVE Cat(_)
Cat(ss) == IF ss = <<>> THEN <<>> ELSE Head(ss) \o Cat(Tail(ss))

VARIABLE syms
v == Cat(syms)

Outside(ss, S) == {i \in 1..Len(ss) : ss[i] \notin S}

Init == syms = <<>>
Next == \E s \in Full :
          /\ \/ Len(syms) < MaxFull
             \/ Len(syms) < MaxMeta /\ s \in Meta /\ Outside(syms, Meta) = {}
             \/ Len(syms) < MaxSampled /\ LET o == Outside(Append(syms, s), Sample)
                                          IN  o = {} \/ \E i \in o : o = {i}
          /\ syms' = Append(syms, s)
Spec == Init /\ [][Next]_syms

(* ---- reference escapers, from the RFC text ---- *)
UpHex(n) == IF n < 10 THEN 48 + n ELSE 55 + n
LoHex(n) == IF n < 10 THEN 48 + n ELSE 87 + n
(* RFC 4515 3: "... must be escaped as the backslash character followed by the two hexadecimal digits" *)
RefFilterEsc(s) == Cat([i \in 1..Len(s) |-> IF s[i] \in FilterMustEsc THEN <<ESC, UpHex(s[i] \div 16), UpHex(s[i] % 16)>> ELSE <<s[i]>>])
(* RFC 4514 2.4, style A: hex pairs throughout (lower case) *)
MustAt(s, i) == s[i] \in DnMustEsc \/ (i = 1 /\ s[i] \in {SPACE, SHARP}) \/ (i = Len(s) /\ s[i] = SPACE)
RefDnEscHex(s) == Cat([i \in 1..Len(s) |-> IF MustAt(s, i) THEN <<ESC, LoHex(s[i] \div 16), LoHex(s[i] % 16)>> ELSE <<s[i]>>])
(* style B: backslash + character where 2.4 allows it, hex pair for NUL, and "=" escaped although optional *)
RefDnEscChar(s) == Cat([i \in 1..Len(s) |-> IF s[i] = NUL THEN <<ESC, 48, 48>>
                                            ELSE IF MustAt(s, i) \/ s[i] = EQUALS THEN <<ESC, s[i]>> ELSE <<s[i]>>])
(* style C: everything as hex pairs (RFC 4514 2.4 "other characters may be escaped"; RFC 4515: any octet may be) *)
AllHex(s) == Cat([i \in 1..Len(s) |-> <<ESC, UpHex(s[i] \div 16), LoHex(s[i] % 16)>>])

(* ---- the laws on the specification itself ---- *)
RefFilterLaws == FilterInert(v, RefFilterEsc(v)) /\ UnescapeInert(v, RefFilterEsc(v)) /\ FilterUnchanged(v, RefFilterEsc(v))
RefDnLaws     == /\ DnInert(v, RefDnEscHex(v)) /\ DnUnchanged(v, RefDnEscHex(v))
                 /\ DnInert(v, RefDnEscChar(v))
AllHexLaws    == FilterInert(v, AllHex(v)) /\ UnescapeInert(v, AllHex(v)) /\ DnInert(v, AllHex(v))
(* unescaped embedding is inert exactly when nothing had to be escaped: validates the parsers (they notice every
   metacharacter) and the Needs* predicates (they name nothing superfluous) against each other *)
IdentityFilter == (FilterInert(v, v) <=> ~NeedsFilterEsc(v)) /\ (UnescapeInert(v, v) <=> ~NeedsFilterEsc(v))
IdentityDn     == DnInert(v, v) <=> ~NeedsDnEsc(v)
WellFormed     == Utf8Ok(v)

Emit == ~EmitVectors \/ PrintT(<<"VEC", ToJson([v |-> v, n |-> Len(syms)])>>)
=============================================================================
