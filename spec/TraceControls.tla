--------------------------- MODULE TraceControls ---------------------------
(* I -> S for C19: every record is (field values, what ldap3 produced) or    *)
(* (bytes, what ldap3 parsed); the specification recomputes it.  One state   *)
(* per record; a rejected record is printed as <<"BADREC", index>>.          *)
EXTENDS Controls, TLC, Json, IOUtils

Rec == ndJsonDeserialize(IOEnv.TRACE)
VARIABLE l

ReqFields(e) == CASE e.kind = "Assertion" -> [ast |-> e.f.ast]
                  [] e.kind = "MatchedValues" -> [items |-> e.f.items]
                  [] OTHER -> e.f
(* the filter string handed to the library is the RFC 4515 form of the AST the expected bytes are computed from *)
FilterOk(e) == CASE e.kind = "Assertion" -> FStr(e.f.ast) = e.f.filter
                 [] e.kind = "MatchedValues" -> MVStr(e.f.items) = e.f.filter
                 [] OTHER -> TRUE

SameBag(s1, s2) == /\ Len(s1) = Len(s2)
                   /\ \A x \in Range(s1) \cup Range(s2) :
                        Cardinality({i \in DOMAIN s1 : s1[i] = x}) = Cardinality({i \in DOMAIN s2 : s2[i] = x})
RespSame(kind, f, p) ==
  CASE kind = "SyncInfo" ->
         /\ p.choice = f.choice
         /\ IF f.choice = "SyncIdSet"
            THEN /\ p.hascookie = f.hascookie /\ p.cookie = f.cookie /\ p.flag = f.flag
                 /\ Range(p.uuidset) = f.uuidset /\ Len(p.uuidset) = Cardinality(f.uuidset)
            ELSE p = f
    [] kind \in {"PreReadResp", "PostReadResp"} ->
         /\ Len(p.text) = Len(f.text) /\ Range(p.text) = Range(f.text)            \* values in order
         /\ Len(p.bin) = Len(f.bin)
         /\ \A a \in Range(f.bin) : \E b \in Range(p.bin) : b.type = a.type /\ SameBag(a.vals, b.vals)
    [] OTHER -> p = f

Check(e) ==
  IF "panic" \in DOMAIN e THEN FALSE ELSE
  CASE e.d = "req"    -> FilterOk(e) /\ e.out = Req(e.kind, ReqFields(e), e.critical)
    [] e.d = "exop"   -> e.hasname /\ e.out = ExopReq(e.kind, e.f)
    [] e.d = "resp"   -> LET r == DecoderOf(e.kind, e.bytes) IN r.ok /\ RespSame(e.kind, r.f, e.parsed)
    [] e.d = "envenc" -> e.out \in EnvExpected(e.id, e.some, e.ctrls)
    [] e.d = "envdec" -> LET r == DecMsg(e.bytes) IN
                         r.ok /\ e.rest = 0 /\ e.parsed = [id |-> r.id, app |-> r.app, ctrls |-> r.ctrls]
    [] OTHER -> FALSE

Init == l = 1
Next == /\ l <= Len(Rec) /\ l' = l + 1
        /\ (Check(Rec[l]) \/ PrintT(<<"BADREC", l>>))
Spec == Init /\ [][Next]_l
Accepted == IF TLCGet("stats").diameter - 1 = Len(Rec) THEN TRUE
            ELSE Print(<<"TRACE-NOT-CONSUMED", TLCGet("stats").diameter, Len(Rec)>>, FALSE)
=============================================================================
