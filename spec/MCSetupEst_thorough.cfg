SPECIFICATION Spec
CONSTANTS
  XModes = {"ldaps", "starttls"}
  XVerify = {TRUE, FALSE}
  XConnectors = {"custom", "default"}
  XTimeouts = {"none", "short"}
  XVias = {"dial", "stream-last", "stream-first", "unix"}
  XHosts = {"name", "ip", "absent"}
  XStores = {"system", "withCA"}
  XResps = {"success", "refuse", "garbage", "close", "hangup", "wrongid", "stall"}
  XRcs = {1, 2, 10, 14, 52, 53, 1000000}
  XInjs = {"none", "before", "with", "after"}
  XHss = {"trusted", "untrusted", "wrongName", "stall", "close", "garbage"}
  XFaultHss = {"trusted", "untrusted", "wrongName", "stall", "close", "garbage"}
INVARIANTS Inv VerdictTight Emit
CHECK_DEADLOCK FALSE
