----------------------------- MODULE MCFraming -----------------------------
(* C06: the reference stream decoder of Framing over every list of at most *)
(* MaxMsgs messages from a pool and EVERY chunking of their concatenation. *)
(* The decoder state is just the buffer, so the reachable graph has O(n)   *)
(* states and O(n^2) Read transitions per list (n = stream length).        *)
(* Invariants are C06's laws on the specification; every transition is     *)
(* printed once (from the next-state relation) for replay into             *)
(* ldap3::verif::decode:                                                   *)
(*   READ  (buffer, chunk) -> messages emitted by draining, octets left    *)
(*   DEC   buffer          -> None / Some(message), octets consumed        *)
(* Vectors are compact: message list as pool indices + offsets; the pool   *)
(* (bytes and the reference decoder's reading of them) is printed once.    *)
EXTENDS FramePool, TLC, Json, FiniteSets

CONSTANTS Pool3,      \* pool indices allowed in lists of any length up to MaxMsgs
          Pool2,      \* pool indices allowed in lists of length <= 2
          MaxMsgs, EmitVectors

Lists == { <<i>> : i \in Pool2 \cup Pool3 }
         \cup { <<i, j>> : i \in Pool2 \cup Pool3, j \in Pool2 \cup Pool3 }
         \cup (IF MaxMsgs >= 3 THEN { <<i, j, k>> : i \in Pool3, j \in Pool3, k \in Pool3 } ELSE {})

Stream(ms) == Flat([i \in 1..Len(ms) |-> PoolB(ms[i])])
RECURSIVE EndOf(_, _)
EndOf(ms, i) == IF i = 0 THEN 0 ELSE EndOf(ms, i - 1) + Len(PoolB(ms[i]))   \* offset of the last octet of message i

VARIABLE ms
vars == <<ms, buf, pending, out, status>>

(* what the reference decoder makes of each pool message; printed once *)
PoolInfo == [i \in 1..NPool |-> [b |-> PoolB(i), m |-> Frame(PoolB(i)).m, n |-> Frame(PoolB(i)).n]]
IdxOf(m) == CHOOSE i \in 1..NPool : PoolInfo[i].m = m
ASSUME \A i \in 1..NPool : /\ Frame(PoolB(i)).v = "Msg" /\ Frame(PoolB(i)).n = Len(PoolB(i))
                           /\ Frame(PoolB(i)).m = PoolDef[i].m                    \* decoder reads back the constructor's contents
ASSUME ~EmitVectors \/ PrintT(<<"POOL", ToJson(PoolInfo)>>)

(* drain: decode until the reference decoder wants more *)
RECURSIVE Drain(_)
Drain(b) == LET f == Frame(b) IN
            IF f.v = "Msg" THEN LET r == Drain(SubSeq(b, f.n + 1, Len(b))) IN [e |-> <<IdxOf(f.m)>> \o r.e, rest |-> r.rest, v |-> r.v]
            ELSE [e |-> <<>>, rest |-> Len(b), v |-> f.v]

Pos == Len(Stream(ms)) - Len(pending)

EmitRead(k) ==
  ~EmitVectors \/
  LET nb == buf \o SubSeq(pending, 1, k)  d == Drain(nb) IN
  PrintT(<<"VEC", ToJson([t |-> "READ", ms |-> ms, a |-> Pos - Len(buf), p |-> Pos, q |-> Pos + k,
                         e |-> d.e, rest |-> d.rest, last |-> d.v])>>)
EmitDecode ==
  ~EmitVectors \/
  LET f == Frame(buf) IN
  PrintT(<<"VEC", ToJson([t |-> "DEC", ms |-> ms, a |-> Pos - Len(buf), q |-> Pos,
                         v |-> f.v, r |-> IF f.v = "Msg" THEN IdxOf(f.m) ELSE 0, n |-> f.n])>>)

Init == /\ ms \in Lists /\ FInit(Stream(ms))
Next == /\ UNCHANGED ms
        /\ \/ Decode /\ EmitDecode
           \/ \E k \in 1..Len(pending) : Read(k) /\ EmitRead(k)
Spec == Init /\ [][Next]_vars

(* ---- C06 on the specification ---- *)
Expected == [i \in 1..Len(ms) |-> PoolDef[ms[i]].m]
Complete(p) == Cardinality({i \in 1..Len(ms) : EndOf(ms, i) <= p})

(* same messages, same order, whatever the chunking *)
OutPrefix == Len(out) <= Len(ms) /\ out = SubSeq(Expected, 1, Len(out))
(* never before the last octet arrived ... *)
NotEarly == Len(out) <= Complete(Pos)
(* ... and in the very step that buffered it: the decoder does not ask for more octets while a complete frame is buffered *)
NotLate == status = "read" => Len(out) = Complete(Pos)
(* the buffer is exactly the unconsumed part of what was delivered *)
BufferSuffix == buf = SubSeq(Stream(ms), EndOf(ms, Len(out)) + 1, Pos)
(* well-formed input never kills the decoder; the whole list comes out *)
Alive == status \in {"read", "decode"}
AllOut == (pending = <<>> /\ status = "read") => out = Expected
(* every proper prefix of a frame is NeedMore *)
PrefixNeedMore == status = "decode" /\ Len(out) < Len(ms) /\ Pos < EndOf(ms, Len(out) + 1) => Frame(buf).v = "NeedMore"
=============================================================================
