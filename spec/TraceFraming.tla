---------------------------- MODULE TraceFraming ----------------------------
(* I -> S for C06: one record per stream delivered to a live connection     *)
(* through the in-process transport.                                         *)
(*   msgs   : per message the first octets h (enough for the outer header),   *)
(*            its length n as the scripted server built it, destination d    *)
(*            (s = search stream, b = bind, c = compare) and content token   *)
(*   chunks : the chunk sizes in run-length form <<size, repetitions, ..>>   *)
(*   steps  : <<j, count>>: after chunk j the callers had received count     *)
(*            messages in total (recorded whenever the count changed)        *)
(*   fin    : the tokens each destination received, in order                 *)
(* The specification computes every frame's extent from its outer header     *)
(* (Framing!Hdr) and requires: message i is with its caller after exactly    *)
(* the chunk that delivered its last octet - not earlier, not later - and    *)
(* every destination sees its messages in stream order with their tokens.    *)
EXTENDS Framing, TLC, Json, IOUtils, FiniteSets

Rec == ndJsonDeserialize(IOEnv.TRACE)
VARIABLE l

FrameLen(h) == LET x == Hdr(h) IN IF x.st = "ok" THEN x.h + x.L ELSE 0

RECURSIVE EndOf(_, _)
EndOf(msgs, i) == IF i = 0 THEN 0 ELSE EndOf(msgs, i - 1) + FrameLen(msgs[i].h)

(* chunks are runs <<size, repetitions, pos0, idx0>>: pos0 octets and idx0 chunks precede the run; the two
   prefix sums are supplied by the harness and verified here (a recursion over tens of thousands of runs is
   quadratic in TLC) *)
RunsOK(runs, total) ==
  /\ Len(runs) >= 1 /\ runs[1][3] = 0 /\ runs[1][4] = 0
  /\ \A r \in 1..Len(runs) : runs[r][1] >= 1 /\ runs[r][2] >= 1
  /\ \A r \in 2..Len(runs) : /\ runs[r][3] = runs[r - 1][3] + runs[r - 1][1] * runs[r - 1][2]
                              /\ runs[r][4] = runs[r - 1][4] + runs[r - 1][2]
  /\ LET z == runs[Len(runs)] IN z[3] + z[1] * z[2] = total
(* number of the chunk that delivers octet number E (1-based) *)
Cover(runs, E) ==
  LET r == CHOOSE r \in 1..Len(runs) : runs[r][3] < E /\ E <= runs[r][3] + runs[r][1] * runs[r][2]
  IN runs[r][4] + ((E - runs[r][3]) + runs[r][1] - 1) \div runs[r][1]

DeliveredAt(steps, i) ==
  LET S == {k \in 1..Len(steps) : steps[k][2] >= i} IN
  IF S = {} THEN 0 ELSE steps[CHOOSE k \in S : \A k2 \in S : k <= k2][1]

RECURSIVE Toks(_, _)
Toks(msgs, d) == IF msgs = <<>> THEN <<>>
                 ELSE (IF Head(msgs).d = d THEN <<Head(msgs).tok>> ELSE <<>>) \o Toks(Tail(msgs), d)

Check(e) ==
  /\ \A i \in 1..Len(e.msgs) : FrameLen(e.msgs[i].h) = e.msgs[i].n /\ e.msgs[i].n >= 7
  /\ EndOf(e.msgs, Len(e.msgs)) = e.len
  /\ ~e.late
  /\ RunsOK(e.chunks, e.len)
  /\ \A i \in 1..Len(e.msgs) : DeliveredAt(e.steps, i) = Cover(e.chunks, EndOf(e.msgs, i))
  /\ Len(e.steps) >= 1 /\ e.steps[Len(e.steps)][2] = Len(e.msgs)
  /\ e.fin.s = Toks(e.msgs, "s") /\ e.fin.b = Toks(e.msgs, "b") /\ e.fin.c = Toks(e.msgs, "c")

(* the decoder machine of Framing is not run here: its variables are parked *)
Init == l = 1 /\ FInit(<<>>)
Next == /\ l <= Len(Rec) /\ l' = l + 1 /\ UNCHANGED fvars
        /\ (Check(Rec[l]) \/ PrintT(<<"BADREC", l>>))
Spec == Init /\ [][Next]_<<l, fvars>>
Accepted == IF TLCGet("stats").diameter - 1 = Len(Rec) THEN TRUE
            ELSE Print(<<"TRACE-NOT-CONSUMED", TLCGet("stats").diameter, Len(Rec)>>, FALSE)
=============================================================================
