SPECIFICATION Spec
CONSTANTS
  StaleResultAfterSplice = FALSE
  Envs <- C04Envs
  SearchEnvs <- C04SearchEnvs
  Alphabet <- AlphaAll
  MaxCalls = 0
  Plans <- C04Plans
INVARIANTS ItemsLaw FinishLaw StateLaw PagingLaw SearchLaw NoPanic Emit
CHECK_DEADLOCK FALSE
