SPECIFICATION Spec
CONSTANTS
  StaleResultAfterSplice = FALSE
POSTCONDITION Accepted
CHECK_DEADLOCK FALSE
