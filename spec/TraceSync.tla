------------------------------ MODULE TraceSync ------------------------------
(* C14, I -> S.  One record per script: the script and BOTH transcripts of it - `a` recorded through   *)
(* Ldap/SearchStream (LdapConnAsync + drive!), `b` through LdapConn/EntryStream - against the same      *)
(* scripted server.  For every record TLC recomputes the model's events from the script and requires    *)
(*   LaneEq : the two transcripts are equal event by event (canonical request bytes, abstract           *)
(*            requests, full Debug rendering of every returned value, last_id, is_closed), and          *)
(*   Conf   : each transcript is the behaviour LdapSeqSync predicts for the script.                     *)
(* A record whose lanes differ is printed as <<"BADREC", index>>; a record whose lanes agree with each  *)
(* other but not with the model is printed as <<"SHARED", index>> (shared code, not a C14 verdict).     *)
EXTENDS LdapSeqSync, TLC, Json, IOUtils

Rec == ndJsonDeserialize(IOEnv.TRACE)
VARIABLE l

HangEv(x) == x.ret.out = "hang" \/ \E k \in 1..Len(x.subs) : x.subs[k].out = "hang"

(* ---- the two lanes ---- *)
LaneEqEv(x, y, coarse, anyclosed, st) ==
  /\ x.wire = y.wire
  /\ x.reqs = y.reqs
  /\ IF coarse
     THEN \/ st.call \in {"is_closed", "get_peer_certificate"}
          \/ x.ret.out = y.ret.out /\ (x.ret.out = "ok" => x.ret = y.ret)
     ELSE x.ret = y.ret
  /\ x.subs = y.subs
  /\ \/ HangEv(x)
     \/ x.lastid = y.lastid /\ (anyclosed \/ x.closed = y.closed)

LaneEq(r, M) ==
  /\ r.ca = r.cb /\ r.pa = r.pb
  /\ Len(r.a) = Len(r.b)
  /\ \A i \in 1..Len(r.a) :
       LET known == i <= Len(M) IN
       LaneEqEv(r.a[i], r.b[i], known /\ M[i].unst = 1, known /\ M[i].closed = 2, r.steps[i])

(* ---- one lane against the model ---- *)
SameRet(e, o) == /\ e.out = o.out /\ e.var = o.var
                 /\ e.out = "ok" => e.rc = o.rc /\ e.mid = o.mid /\ e.ents = o.ents /\ e.refs = o.refs /\ e.val = o.val
ConfRet(e, o, ev, st) ==
  \/ e.out = "any"
  \/ /\ e.out = o.out
     /\ ev.unst = 1 \/ e.var = o.var
     /\ e.out = "ok" =>
          /\ e.rc = o.rc /\ e.mid = o.mid /\ e.ents = o.ents /\ e.refs = o.refs
          /\ \/ e.val = o.val
             \/ st.call = "is_closed" /\ e.val = 2
             \/ st.call = "last_id" /\ o.val = ev.lastalt      \* the property does not say whether a search updates last_id()
ConfEv(ev, o, st) ==
  /\ ev.reqs = o.reqs
  /\ ConfRet(ev.ret, o.ret, ev, st)
  /\ Len(ev.subs) = Len(o.subs) /\ \A k \in 1..Len(ev.subs) : SameRet(ev.subs[k], o.subs[k])
  /\ \/ HangEv(o)
     \/ /\ o.lastid \in {ev.lastid, ev.lastalt}
        /\ ev.closed = 2 \/ ev.closed = o.closed
Conf(r, M, obs) == /\ r.ca = "ok" /\ r.pa = "" /\ r.cb = "ok" /\ r.pb = ""
                   /\ Len(M) = Len(obs)
                   /\ \A i \in 1..Len(M) : ConfEv(M[i], obs[i], r.steps[i])

(* where a transcript leaves the model: <<step, call, component>> of the first deviation *)
ReqTag(ev, o) == IF Len(ev.reqs) # Len(o.reqs) THEN "request-count"
                 ELSE LET q == CHOOSE q \in 1..Len(ev.reqs) : ev.reqs[q] # o.reqs[q]
                          D == {f \in {"op", "id", "arg", "ctl", "so", "pg"} : ev.reqs[q][f] # o.reqs[q][f]}
                      IN IF D = {"ctl"} THEN "request:ctl" ELSE IF D = {"so"} THEN "request:so"
                         ELSE IF D = {"id"} THEN "request:id" ELSE IF D = {"pg"} THEN "request:paging" ELSE IF D = {"arg"} THEN "request:arg" ELSE "request:several"
EvTag(ev, o, st) == IF ev.reqs # o.reqs THEN ReqTag(ev, o)
                    ELSE IF ~ConfRet(ev.ret, o.ret, ev, st) THEN "return"
                    ELSE IF ~(Len(ev.subs) = Len(o.subs) /\ \A k \in 1..Len(ev.subs) : SameRet(ev.subs[k], o.subs[k])) THEN "stream-calls"
                    ELSE "after-state"
Where(r, M, obs) ==
  IF ~(r.ca = "ok" /\ r.pa = "" /\ r.cb = "ok" /\ r.pb = "") THEN <<0, "constructor", "failed-or-panicked">>
  ELSE LET n == IF Len(M) < Len(obs) THEN Len(M) ELSE Len(obs)
           B == {i \in 1..n : ~ConfEv(M[i], obs[i], r.steps[i])}
       IN IF B = {} THEN <<n + 1, IF n < Len(r.steps) THEN r.steps[n + 1].call ELSE "end", "number-of-steps-executed">>
          ELSE LET i == CHOOSE i \in B : \A j \in B : i <= j IN <<i, r.steps[i].call, EvTag(M[i], obs[i], r.steps[i])>>

TrInit == l = 1 /\ InitSeq
TrNext == /\ l <= Len(Rec) /\ l' = l + 1 /\ UNCHANGED vars
          /\ LET r == Rec[l]
                 M == Run(r.steps)
             IN IF ~LaneEq(r, M) THEN PrintT(<<"BADREC", l>>)
                ELSE IF ~Conf(r, M, r.a) THEN PrintT(<<"SHARED", l, Where(r, M, r.a)>>)
                ELSE IF ~Conf(r, M, r.b) THEN PrintT(<<"SHARED", l, Where(r, M, r.b)>>)
                ELSE TRUE
TrSpec == TrInit /\ [][TrNext]_<<l, vars>>
Accepted == IF TLCGet("stats").diameter - 1 = Len(Rec) THEN TRUE
            ELSE Print(<<"TRACE-NOT-CONSUMED", TLCGet("stats").diameter, Len(Rec)>>, FALSE)
=============================================================================
