SPECIFICATION MCSpec
CONSTANTS Tier = "thorough"
          MaxLen = 3
INVARIANTS TypeOK ModsExactlyNext AfterDisconnectFail IdsIncrease OneRequestPerOp Emit
CHECK_DEADLOCK FALSE
