SPECIFICATION Spec
CONSTANTS
  SoptsSurviveNonSearch = FALSE
  ModsSurviveLocalError = FALSE
POSTCONDITION Accepted
CHECK_DEADLOCK FALSE
