------------------------------ MODULE MCStream ------------------------------
(***************************************************************************)
(* Bounded instances of SearchStream for C10 / C16: enumerates server      *)
(* scripts x adapter chains x request parameters x call sequences, checks  *)
(* the laws of SearchStream on the model and prints one VEC line per       *)
(* complete behaviour for the replay into the real SearchStream.           *)
(***************************************************************************)
EXTENDS SearchStream, TLC, Json, FiniteSets

CONSTANTS Envs,        \* environments for the streaming calls
          SearchEnvs,  \* environments for Ldap::search()
          Alphabet,    \* calls to choose from
          MaxCalls,    \* free mode (Plans = {}): every sequence over Alphabet of exactly this length
          Plans        \* planned mode: the set of call sequences to run

---------------------------------------------------------------------------
Kinds == {"e", "r", "i"}
KindSeqs(n) == UNION {[1..m -> Kinds] : m \in 0..n}

Xc(id) == [k |-> "x", id |-> id, cookie |-> 0]

\* per-item controls by mode: 0 none, 1 odd positions, 2 two controls on every item, 3 even positions
CtlOf(cm, id, i) == CASE cm = 0 -> <<>>
                      [] cm = 1 -> IF i % 2 = 1 THEN <<id>> ELSE <<>>
                      [] cm = 2 -> <<id, 100 + id>>
                      [] cm = 3 -> IF i % 2 = 0 THEN <<id>> ELSE <<>>
Item(t, p, i, cm) == [t |-> t, id |-> p * 10 + i, ctl |-> CtlOf(cm, p * 10 + i, i),
                      nu |-> IF t = "r" THEN 1 + (i % 2) ELSE 0]
Items(kinds, p, cm) == [i \in 1..Len(kinds) |-> Item(kinds[i], p, i, cm)]
\* result of page p: the diagnostic text token is the page number; rc 10 (referral) carries two URIs of its own
ResultV(rc, p, ctrls) == [rc |-> rc, txt |-> p, refs |-> IF rc = 10 THEN <<9001, 9002>> ELSE <<>>, ctrls |-> ctrls]
Page(kinds, p, cm, rc, ctrls) == [items |-> Items(kinds, p, cm), res |-> ResultV(rc, p, ctrls)]

\* final-result variants of a single-page script: (rc, controls of the result, per-item control mode)
VRc    == <<0, 4, 10, 32>>
VCtrls == << <<PRc(0, 0)>>, <<Xc(1)>>, <<Xc(1), PRc(7, 0), Xc(2)>>, <<>> >>
VCm    == <<0, 1, 2, 3>>
Single(kinds, v) == << Page(kinds, 1, VCm[v], VRc[v], VCtrls[v]) >>
Code(t) == CASE t = "e" -> 0 [] t = "r" -> 1 [] t = "i" -> 2
RECURSIVE Weight(_, _)
Weight(kinds, i) == IF i > Len(kinds) THEN Len(kinds) ELSE i * Code(kinds[i]) + Weight(kinds, i + 1)
VariantOf(kinds) == 1 + (Weight(kinds, 1) % 4)

\* multi-page scripts with mixed items
M1 == << Page(<<"e">>, 1, 1, 0, <<PRc(0, 1)>>), Page(<<"r", "e">>, 2, 1, 0, <<PRc(0, 0)>>) >>
M2 == << Page(<<>>, 1, 0, 0, <<PRc(0, 1)>>), Page(<<"e", "i">>, 2, 2, 32, <<>>) >>
M3 == << Page(<<"e">>, 1, 0, 0, <<PRc(3, 1)>>), Page(<<"e">>, 2, 0, 0, <<PRc(3, 2)>>), Page(<<"e">>, 3, 0, 4, <<PRc(3, 0)>>) >>
M4 == << Page(<<"e", "r">>, 1, 2, 0, <<Xc(1), PRc(0, 1)>>), Page(<<"i", "e">>, 2, 3, 0, <<PRc(0, 1)>>),
         Page(<<"e">>, 3, 1, 10, <<PRc(0, 0), Xc(3)>>) >>
M5 == << Page(<<"r", "i">>, 1, 1, 0, <<PRc(0, 11)>>), Page(<<"r">>, 2, 1, 0, <<PRc(0, 0)>>) >>
Multis == {M1, M2, M3, M4, M5}

\* ---- regular paged result sets: N entries served ps at a time
Min(a, b) == IF a < b THEN a ELSE b
NPg(N, ps, trailing) == IF N = 0 THEN 1 ELSE ((N + ps - 1) \div ps) + (IF trailing /\ N % ps = 0 THEN 1 ELSE 0)
\* cookie of page p by mode: 1 distinct, 2 repeated, 3 long, 4 binary
CookieM(mode, p) == CASE mode = 1 -> p [] mode = 2 -> 1 [] mode = 3 -> 10 + p [] mode = 4 -> 20 + p
Paged(N, ps, mode, trailing) ==
  LET np == NPg(N, ps, trailing) IN
  [p \in 1..np |->
     LET lo == (p - 1) * ps
         n  == IF lo >= N THEN 0 ELSE Min(ps, N - lo)
         pr == PRc(N, IF p = np THEN 0 ELSE CookieM(mode, p))
     IN Page([i \in 1..n |-> "e"], p, IF mode = 2 THEN 1 ELSE 0, 0,
             IF mode = 2 THEN <<Xc(p), pr>> ELSE IF mode = 3 THEN <<pr, Xc(p)>> ELSE <<pr>>)]

\* ---- paging corner cases
S1  == << Page(<<>>, 1, 0, 0, <<PRc(0, 1)>>), Page(<<"e", "e">>, 2, 0, 0, <<PRc(0, 0)>>) >>                       \* empty first page
S2  == << Page(<<"e">>, 1, 0, 0, <<PRc(0, 1)>>), Page(<<"e", "e">>, 2, 0, 0, <<PRc(0, 2)>>), Page(<<>>, 3, 0, 0, <<PRc(0, 0)>>) >> \* short pages
S3  == << Page(<<"e", "e">>, 1, 0, 0, <<PRc(0, 1)>>), Page(<<"e">>, 2, 0, 4, <<>>), Page(<<"e">>, 3, 0, 0, <<PRc(0, 0)>>) >>        \* error, no control
S4  == << Page(<<"e">>, 1, 0, 0, <<PRc(0, 1)>>), Page(<<>>, 2, 0, 4, <<PRc(0, 2)>>), Page(<<"e">>, 3, 0, 0, <<PRc(0, 0)>>) >>       \* error rc with cookie
S5  == << Page(<<"e">>, 1, 0, 0, <<Xc(1)>>), Page(<<"e">>, 2, 0, 0, <<PRc(0, 0)>>) >>                             \* no paging control in the response
S6  == << Page(<<"e", "r", "i">>, 1, 2, 0, <<PRc(0, 1)>>), Page(<<"r", "e", "i">>, 2, 2, 0, <<PRc(0, 2)>>), Page(<<"i">>, 3, 2, 0, <<PRc(0, 0)>>) >>
S7  == << Page(<<"e">>, 1, 0, 0, <<PRc(0, 5)>>) >>                                                                \* cookie on the last scripted page
S8  == << Page(<<"e">>, 1, 0, 0, <<PRc(0, 1)>>), Page(<<"e">>, 2, 0, 10, <<Xc(1), PRc(0, 0), Xc(2)>>) >>           \* other controls around the paging control
S9  == << Page(<<>>, 1, 0, 32, <<>>) >>
S10 == << Page(<<"e">>, 1, 0, 0, <<PRc(0, 1)>>), Page(<<"e">>, 2, 0, 32, <<>>) >>                                 \* later page fails
S11 == << Page(<<"e">>, 1, 0, 0, <<PRc(0, 1)>>), Page(<<"e">>, 2, 0, 0, <<PRc(0, 0), Xc(1), Xc(2), Xc(3)>>) >>    \* three other controls after the paging control: their order is the server's
Specials == {S1, S2, S3, S4, S5, S6, S7, S8, S9, S10, S11}

\* ---- request parameters
ParDefault == [base |-> 1, scope |-> 2, deref |-> 0, sizelimit |-> 0, timelimit |-> 0, typesonly |-> FALSE,
               filter |-> 0, attrs |-> 1, ctrls |-> <<>>]
Par1 == [base |-> 2, scope |-> 1, deref |-> 3, sizelimit |-> 7, timelimit |-> 5, typesonly |-> TRUE,
         filter |-> 1, attrs |-> 2, ctrls |-> <<Xc(11)>>]
Par2 == [base |-> 0, scope |-> 0, deref |-> 1, sizelimit |-> 1000, timelimit |-> 0, typesonly |-> FALSE,
         filter |-> 2, attrs |-> 0, ctrls |-> <<Xc(12), Xc(13)>>]
ParCallerPR == [ParDefault EXCEPT !.ctrls = <<Xc(11), PRc(5, 0)>>]

\* ---- loss points
AllLoss(pages) == {NoLoss} \cup UNION {{[pg |-> p, pos |-> i] : i \in 0..(Len(pages[p].items) + 1)} : p \in 1..Len(pages)}
SomeLoss(pages) == {NoLoss} \cup UNION {{[pg |-> p, pos |-> i] : i \in {0, Len(pages[p].items) + 1}} : p \in 1..Len(pages)}

\* the server falls silent instead of sending the pos-th message of page p (a timeout is set on the search)
SilentLoss(pages) == UNION {{[pg |-> p, pos |-> i, how |-> "silent"] : i \in 1..(Len(pages[p].items) + 1)} : p \in 1..Len(pages)}

Chains5 == { <<>>, <<"EO">>, <<"PR">>, <<"EO", "PR">>, <<"PR", "EO">> }
ChainsPR == { <<"PR">>, <<"EO", "PR">>, <<"PR", "EO">> }
Env(chain, pages, loss, par, psize) == [chain |-> chain, pages |-> pages, loss |-> loss, par |-> par, psize |-> psize]

---------------------------------------------------------------------------
\* ---- C10 instances
C10SinglesQuick == {Single(k, VariantOf(k)) : k \in KindSeqs(3)}
C10SinglesThorough == {Single(k, v) : k \in KindSeqs(3), v \in 1..4} \cup {Single(k, VariantOf(k)) : k \in KindSeqs(4)}
C10EnvsQuick ==
  {Env(c, s, NoLoss, ParDefault, 2) : c \in Chains5, s \in C10SinglesQuick \cup Multis}
  \cup UNION {{Env(c, s, l, Par1, 1) : l \in AllLoss(s) \ {NoLoss}} : c \in Chains5, s \in {Single(<<"e", "r">>, 3), M1, M4}}
C10EnvsThorough ==
  {Env(c, s, NoLoss, ParDefault, 2) : c \in Chains5, s \in C10SinglesThorough \cup Multis}
  \cup UNION {{Env(c, s, l, Par1, 1) : l \in AllLoss(s) \ {NoLoss}} : c \in Chains5, s \in {Single(k, 3) : k \in KindSeqs(2)} \cup Multis}
C10SearchQuick ==
  {Env(<<>>, s, NoLoss, ParDefault, 0) : s \in C10SinglesQuick \cup {Single(k, 3) : k \in KindSeqs(2)} \cup Multis}
  \cup UNION {{Env(<<>>, s, l, Par1, 0) : l \in AllLoss(s) \ {NoLoss}} : s \in {Single(<<"e", "r">>, 3), Single(<<"r", "i", "e">>, 1), M1}}
C10SearchThorough ==
  UNION {{Env(<<>>, s, l, p, 0) : l \in AllLoss(s)} : s \in C10SinglesThorough \cup Multis, p \in {ParDefault, Par1, ParCallerPR}}

\* state() interleaved everywhere on a smaller script set
C10StateEnvs == {Env(c, s, NoLoss, ParDefault, 2) : c \in Chains5, s \in {Single(<<"e">>, 2), Single(<<"i", "r", "e">>, 3), M1}}
                \cup {Env(c, M1, [pg |-> 2, pos |-> 1], ParDefault, 2) : c \in Chains5}

\* ---- C16 instances
RegularQuick == {Paged(N, ps, 1, FALSE) : N \in 0..5, ps \in 1..3}
                \cup {Paged(N, 2, m, t) : N \in {2, 4}, m \in 2..4, t \in BOOLEAN}
RegularThorough == {Paged(N, ps, m, t) : N \in 0..5, ps \in 1..3, m \in 1..4, t \in BOOLEAN}
\* sequences of a requests for one item, then one of the tails: finish at every position, complete read from every position
NextN(a) == [i \in 1..a |-> "next"]
Tails == { <<"finish", "finish">>, <<"drain", "finish", "next">>, <<"finish", "drain", "next">>,
           <<"drain", "next", "finish", "finish">>, <<"state", "drain", "state", "finish", "state">> }
C16Plans == {NextN(a) \o t : a \in 0..6, t \in Tails}
C16EnvsQuick ==
  {Env(c, s, NoLoss, ParDefault, Len(s[1].items) + 1) : c \in ChainsPR, s \in RegularQuick \cup Specials}
  \cup {Env(c, s, NoLoss, p, 2) : c \in ChainsPR, s \in {Paged(3, 2, 1, FALSE), Paged(4, 2, 2, TRUE), S6}, p \in {Par1, Par2}}
  \cup {Env(c, s, NoLoss, ParCallerPR, 2) : c \in Chains5, s \in {Paged(3, 2, 1, FALSE)}}
  \* the boundary values of the requested page size go out as given (0: "how many are there?", RFC 2696 section 3)
  \cup {Env(c, s, NoLoss, ParDefault, ps) : c \in ChainsPR, s \in {Paged(3, 2, 1, FALSE)}, ps \in {0, 2147483647}}
  \cup UNION {{Env(c, s, l, Par1, 1000) : l \in AllLoss(s) \ {NoLoss}} : c \in ChainsPR, s \in {Paged(3, 2, 1, FALSE), S6}}
C16EnvsThorough ==
  {Env(c, s, NoLoss, p, Len(s[1].items) + 1) : c \in ChainsPR, s \in RegularThorough \cup Specials \cup Multis, p \in {ParDefault, Par1, Par2}}
  \cup {Env(c, s, NoLoss, ParCallerPR, 2) : c \in Chains5, s \in {Paged(3, 2, 1, FALSE), S9}}
  \cup {Env(c, s, NoLoss, ParDefault, ps) : c \in ChainsPR, s \in {Paged(3, 2, 1, FALSE), S6}, ps \in {0, 2147483647}}
  \cup UNION {{Env(c, s, l, Par1, 1000) : l \in AllLoss(s) \ {NoLoss}} : c \in ChainsPR, s \in RegularQuick \cup Specials}

NoEnvs == {}
\* ---- C12 instances: every chain x scripts of one to three pages x the server falling silent at every position
C12Envs == UNION {{Env(c, s, l, Par1, 2) : l \in SilentLoss(s)} : c \in Chains5, s \in {Single(<<"e", "r">>, 3), M1, M3, Paged(3, 2, 1, FALSE)}}
C12Plans == {NextN(a) \o t : a \in 0..4, t \in {<<"finish", "finish">>, <<"drain", "finish", "next">>, <<"next", "state", "finish">>}}

\* ---- C04 instances: the server closes the connection at every position of one- to three-page scripts, under every chain
\* (stream calls) and under search()
C04Scripts == {Single(<<"e", "r">>, 3), Single(<<"r", "i", "e">>, 1), M1, Paged(3, 2, 1, FALSE)}
C04Envs == UNION {{Env(c, s, l, Par1, 2) : l \in AllLoss(s) \ {NoLoss}} : c \in Chains5, s \in C04Scripts}
C04SearchEnvs == UNION {{Env(<<>>, s, l, Par1, 0) : l \in AllLoss(s) \ {NoLoss}} : s \in C04Scripts \ {Paged(3, 2, 1, FALSE)}}
C04Plans == {NextN(a) \o t : a \in 0..4, t \in {<<"finish", "finish">>, <<"drain", "finish", "next">>}}

NoPlans == {}
AlphaNF == {"next", "finish"}
AlphaNFS == {"next", "finish", "state"}
AlphaAll == {"next", "finish", "state", "drain"}

---------------------------------------------------------------------------
Init == \/ \E e \in Envs : InitStream(e)
        \/ \E e \in SearchEnvs : InitSearch(e)

Planned == Plans # {}
MayAppend(c) == LET cs == Append(Tail(calls), c) IN
                IF Planned THEN \E p \in Plans : IsPrefix(cs, p) ELSE Len(cs) <= MaxCalls
Next == \E c \in Alphabet : MayAppend(c) /\ Call(c)
Spec == Init /\ [][Next]_vars

Complete == \/ calls[1] = "search"
            \/ ~HaveStream
            \/ IF Planned THEN Tail(calls) \in Plans ELSE Len(calls) = MaxCalls + 1

Emit == Complete => PrintT(<<"VEC", ToJson([env |-> env, calls |-> calls, outs |-> outs, reqs |-> S.reqs])>>)
=============================================================================
