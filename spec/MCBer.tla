------------------------------ MODULE MCBer ------------------------------
(* Model-checking instance and vector generator for Ber (C07).            *)
(* One state = one tree (grown from a leaf by wrapping) or one integer    *)
(* pattern or one length; the invariants are the laws C07 states; Emit    *)
(* prints one vector per state for replay into lber.                      *)
EXTENDS Ber, TLC, Json, FiniteSets

CONSTANTS LeafClasses, LeafNums, NodeClasses, NodeNums, PayloadLens, MaxDepth, IntBytes, Lens, EmitVectors,
          GrowLens,       \* long leaf payloads that are still wrapped once (nested length boundaries)
          SmallLens,      \* payload lengths of sibling leaves
          OuterShapes     \* <<class, number>> pairs used when wrapping at depth >= 1

OuterShapes2 == {<<0, 16>>, <<2, 3>>}
OuterShapes4 == {<<0, 16>>, <<2, 3>>, <<1, 3>>, <<0, 17>>}
Payload(n) == [i \in 1..n |-> (n + i) % 256]
Payloads == {Payload(n) : n \in PayloadLens} \cup {<<0>>, <<255, 1>>}
Leaves == {Prim(c, n, v) : c \in LeafClasses, n \in LeafNums, v \in Payloads}
SmallLeaves == {Prim(c, n, Payload(l)) : c \in {0, 2}, n \in {1, 4}, l \in SmallLens}
OneSibling == CHOOSE u \in SmallLeaves : TRUE

(* alternative encodings: every length form at the root with canonical contents, and canonical root
   over every alternative encoding of the first child *)
RECURSIVE AltEncs(_)
AltEncs(t) ==
  LET body == IF t.prim THEN t.v ELSE Flat([i \in 1..Len(t.k) |-> Enc(t.k[i])]) IN
  { <<Ident(t)>> \o l \o body : l \in AltLen(Len(body)) } \cup
  (IF t.prim \/ t.k = <<>> THEN {} ELSE
     { LET b2 == a \o Flat([i \in 1..(Len(t.k) - 1) |-> Enc(t.k[i + 1])])
       IN <<Ident(t)>> \o LenOct(Len(b2)) \o b2 : a \in AltEncs(t.k[1]) })

IntPatterns == {<<a, b, b2, c, c, c2, e, f>> : a \in IntBytes, b \in IntBytes, b2 \in {0, 255},
                                              c \in {0, 255}, c2 \in IntBytes, e \in IntBytes, f \in IntBytes}

(* wide, shallow trees: a constructed root with w children around the counts where a parser that bounds the NUMBER of   *)
(* constructed elements (instead of their nesting depth) would give up: 64 attribute-like children hold 128 of them      *)
Widths == (60..66) \cup (125..131) \cup {200}
EmptySeq == Cons(0, 16, <<>>)
AttrLike(i) == Cons(0, 16, <<Prim(0, 4, <<97 + (i % 26)>>), Cons(0, 17, <<Prim(0, 4, <<i % 256>>)>>)>>)
WideTrees == {Cons(0, 16, [i \in 1..w |-> EmptySeq]) : w \in Widths}
             \cup {Cons(1, 4, [i \in 1..w |-> AttrLike(i)]) : w \in Widths}
             \cup {Cons(0, 16, [i \in 1..w |-> IF i % 2 = 0 THEN Prim(0, 2, <<i % 128>>) ELSE Cons(2, 0, <<Prim(0, 4, <<>>)>>)]) : w \in Widths}

VARIABLES mode, t, d
vars == <<mode, t, d>>

Init == \/ mode = "tree" /\ t \in Leaves /\ d = 0
        \/ mode = "int"  /\ t \in IntPatterns /\ d = 0
        \/ mode = "len"  /\ t \in Lens /\ d = 0
        \/ mode = "bool" /\ t \in BOOLEAN /\ d = 0
        \/ mode = "wide" /\ t \in WideTrees /\ d = 0

Next == /\ mode = "tree" /\ d < MaxDepth /\ (t.prim => (Len(t.v) <= 2 \/ Len(t.v) \in GrowLens)) /\ d' = d + 1 /\ mode' = mode
        /\ \/ /\ d = 0
              /\ \E c \in NodeClasses, n \in NodeNums, u \in SmallLeaves :
                   \/ t' = Cons(c, n, <<t>>) \/ t' = Cons(c, n, <<t, u>>) \/ t' = Cons(c, n, <<u, t>>)
                   \/ t' = Cons(c, n, <<>>) /\ t.v = <<>> /\ t.c = 0 /\ t.n = 0
           \/ /\ d > 0 /\ Len(Enc(t)) <= 16
              /\ \E sh \in OuterShapes :
                   \/ t' = Cons(sh[1], sh[2], <<t>>) \/ t' = Cons(sh[1], sh[2], <<t, OneSibling>>)
                   \/ t' = Cons(sh[1], sh[2], <<OneSibling, t>>)

Spec == Init /\ [][Next]_vars

Tail2 == <<170, 187>>

(* --- the laws of C07 on the specification itself --- *)
TreeMode == mode \in {"tree", "wide"}
RoundTrip ==
  TreeMode =>
    LET e == Enc(t)  r == Dec(e \o Tail2, 1) IN
      /\ r.ok /\ r.t = t /\ r.p = Len(e) + 1            \* trailing bytes untouched
      /\ DecOne(e).ok /\ DecOne(e).t = t
AltsDecode ==
  TreeMode => \A a \in AltEncs(t) : DecOne(a).ok /\ DecOne(a).t = t
EncIsAnAlt ==
  TreeMode => Enc(t) \in AltEncs(t)
LenMinimal ==
  mode = "len" => /\ LenOct(t) \in AltLenAll(t)
                  /\ \A a \in AltLenAll(t) : Len(LenOct(t)) <= Len(a)
                  /\ (t < 128 <=> Len(LenOct(t)) = 1)
IntLaws ==
  mode = "int" => LET c == IntContent(t) IN
      /\ Len(c) >= 1 /\ Len(c) <= 8
      /\ IntValue(c) = t
      /\ \A k \in 1..(Len(c) - 1) : IntValue(SubSeq(t, 9 - k, 8)) # t          \* shortest
BoolLaw == mode = "bool" => BoolContent(t) = IF t THEN <<255>> ELSE <<0>>

(* --- vector output (S -> I) --- *)
Emit ==
  ~EmitVectors \/
  CASE TreeMode -> PrintT(<<"VEC", ToJson([m |-> "tree", tree |-> t, enc |-> Enc(t), alts |-> AltEncs(t)])>>)
    [] mode = "int"  -> PrintT(<<"VEC", ToJson([m |-> "int", b8 |-> t, content |-> IntContent(t)])>>)
    [] mode = "len"  -> PrintT(<<"VEC", ToJson([m |-> "len", n |-> t, hdr |-> Header(0, 4, TRUE, t), alts |-> AltLenAll(t)])>>)
    [] mode = "bool" -> PrintT(<<"VEC", ToJson([m |-> "bool", b |-> t, content |-> BoolContent(t)])>>)
=============================================================================
