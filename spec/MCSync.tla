------------------------------- MODULE MCSync -------------------------------
(* Script generator for C14.  Every state is one script (grown step by step, so every prefix is   *)
(* a script too) together with the model's predicted events; one VEC line per state.              *)
(* A script must belong to one of the families below (a family = per-position pools of steps);    *)
(* Tier selects the families.  With Tier = "sim" every step of the whole pool may follow every    *)
(* other one (used with -simulate for longer random scripts).                                      *)
EXTENDS LdapSeqSync, TLC, Json

CONSTANTS Tier, MaxLen

VARIABLE ctor       \* which constructor opens the connection: with_settings / from_url_with_settings (socket pair),
                    \* new / from_url (ldapi:// path)

S(call, arg, ad, sub, ctl, tmo, so, srv) ==
  [call |-> call, arg |-> arg, ad |-> ad, sub |-> sub, ctl |-> ctl, tmo |-> tmo, so |-> so, srv |-> srv]

SubFull  == <<"next", "next", "next", "next", "next", "next", "lastid", "result">>
SubEarly == <<"next", "result">>
SubImm   == <<"result">>
SubDrop  == <<"lastid", "next">>
SubNone  == <<>>
SubsAll  == {SubFull, SubEarly, SubImm, SubDrop, SubNone}

(* call variants: <<call, arg, ad, sub>> *)
BaseSingles == {<<"simple_bind", 0, 0, <<>>>>, <<"sasl_external_bind", 0, 0, <<>>>>, <<"add", 0, 0, <<>>>>,
                <<"compare", 0, 0, <<>>>>, <<"delete", 0, 0, <<>>>>, <<"modify", 0, 0, <<>>>>,
                <<"modifydn", 0, 0, <<>>>>, <<"extended", 0, 0, <<>>>>}
MoreSingles == {<<"simple_bind", 1, 0, <<>>>>, <<"add", 2, 0, <<>>>>, <<"modifydn", 1, 0, <<>>>>, <<"modifydn", 2, 0, <<>>>>,
                <<"extended", 1, 0, <<>>>>}
LocalCalls  == {<<"add", 1, 0, <<>>>>, <<"modify", 1, 0, <<>>>>, <<"search", 3, 0, <<>>>>, <<"streaming_search", 3, 0, SubFull>>}
BaseSearches == {<<"search", 0, 0, <<>>>>, <<"streaming_search", 0, 0, SubFull>>, <<"streaming_search_with", 0, 1, SubFull>>}
MoreSearches == {<<"search", 1, 0, <<>>>>, <<"search", 2, 0, <<>>>>, <<"streaming_search", 1, 0, SubFull>>,
                 <<"streaming_search", 2, 0, SubFull>>, <<"streaming_search_with", 0, 0, SubFull>>,
                 <<"streaming_search_with", 2, 1, SubEarly>>}
SubPaged == <<"next", "lastid", "next", "lastid", "next", "next", "lastid", "result">>
StreamVariants == {<<c[1], 0, c[2], sb>> : c \in {<<"streaming_search", 0>>, <<"streaming_search_with", 1>>}, sb \in SubsAll}
                  \cup {<<"streaming_search_with", 0, 2, sb>> : sb \in SubsAll \cup {SubPaged}}       \* the PagedResults adapter
NoResp      == {<<"abandon", 0, 0, <<>>>>, <<"abandon", 1, 0, <<>>>>, <<"abandon", 2, 0, <<>>>>, <<"unbind", 0, 0, <<>>>>}
BaseNoResp  == {<<"abandon", 1, 0, <<>>>>, <<"unbind", 0, 0, <<>>>>}
NonOpCalls  == {<<"last_id", 0, 0, <<>>>>, <<"is_closed", 0, 0, <<>>>>, <<"get_peer_certificate", 0, 0, <<>>>>, <<"noop", 0, 0, <<>>>>}

\* (control token 3 = with_controls called with an EMPTY list: the request carries an empty Controls element)
Mods8 == {<<c, t, o>> : c \in {0, 1}, t \in {0, 1}, o \in {0, 1}} \cup {<<2, 0, 0>>, <<2, 1, 1>>, <<3, 0, 0>>}
Mods1 == {<<1, 0, 0>>, <<0, 1, 0>>, <<0, 0, 1>>, <<2, 1, 1>>, <<3, 0, 0>>}
Plain == {<<0, 0, 0>>}

(* all steps for the given call variants, modifier triples and behaviours *)
Steps(vs, ms, srvs) == {S(v[1], v[2], v[3], v[4], m[1], m[2], m[3], sv) : v \in vs, m \in ms, sv \in srvs}
IsSil(sv) == sv \in {"sil", "k1s"}
(* keep the number of scripts that block until the watchdog small: silence without a timeout only with no other modifier *)
Cheap(st) == IsSil(st.srv) /\ st.tmo = 0 => st.ctl = 0 /\ st.so = 0
NoHang(st) == IsSil(st.srv) => st.tmo = 1

(* probes *)
PDelete == S("delete", 0, 0, <<>>, 0, 0, 0, "ok")
PSearch == S("search", 0, 0, <<>>, 0, 0, 0, "k1")
PStream == S("streaming_search", 0, 0, SubFull, 0, 0, 0, "k1")
PCompare2 == S("compare", 0, 0, <<>>, 2, 0, 0, "e6")
PClosed == S("is_closed", 0, 0, <<>>, 0, 0, 0, "ok")
PLastId == S("last_id", 0, 0, <<>>, 0, 0, 0, "ok")
PCert   == S("get_peer_certificate", 0, 0, <<>>, 0, 0, 0, "ok")
PAbandon == S("abandon", 0, 0, <<>>, 0, 0, 0, "ok")
Probes3 == {PDelete, PSearch, PCompare2}
Probes7 == {PDelete, PSearch, PStream, PClosed, PLastId, PCert, PAbandon}
ProbesEnd == {PDelete, PClosed, PLastId}

PagedV == <<"streaming_search_with", 0, 2, SubPaged>>
AllOpsOk == Steps(BaseSingles \cup BaseNoResp, Plain, {"ok"}) \cup Steps(BaseSearches, Plain, {"k1"}) \cup Steps({PagedV}, Plain, {"p2"})

QuickFamilies == <<
  \* A1: every call/argument/stream-pattern variant, plain
  <<Steps(BaseSingles \cup MoreSingles \cup LocalCalls \cup NoResp \cup NonOpCalls, Plain, {"ok"})
      \cup Steps(BaseSearches \cup MoreSearches \cup StreamVariants, Plain, {"k2"})>>,
  \* A2: every operation x every modifier combination x every server behaviour
  <<{st \in Steps(BaseSingles, Mods8, SrvSingle) : Cheap(st)}>>,
  <<{st \in Steps(BaseSearches, Mods8, SrvSearch) : Cheap(st)}>>,
  <<Steps(NoResp \cup NonOpCalls \cup LocalCalls, Mods8, {"ok"})>>,
  \* A3: every stream pattern x every search behaviour, with and without timeout
  <<Steps(StreamVariants, {<<0, 0, 0>>, <<0, 1, 0>>}, SrvSearch)>>,
  \* B: modifiers affect exactly the next operation
  <<Steps(BaseSingles \cup BaseNoResp, Mods1, {"ok"}) \cup Steps(BaseSearches, Mods1, {"k1"}) \cup Steps({PagedV}, Mods1, {"p2"}), Probes3>>,
  <<Steps({<<"noop", 0, 0, <<>>>>}, Mods1, {"ok"}), {PLastId, PClosed, PCert}, Probes3 \cup Steps(LocalCalls, Plain, {"ok"})>>,
  <<Steps({<<"delete", 0, 0, <<>>>>}, {<<0, 1, 0>>}, {"ok"}) \cup Steps({<<"search", 0, 0, <<>>>>, <<"streaming_search", 0, 0, SubFull>>}, {<<0, 1, 0>>}, {"k1"}),
    {S("delete", 0, 0, <<>>, 0, 0, 0, "sil")}>>,
  <<Steps(LocalCalls, Mods1, {"ok"}), Probes3>>,
  \* C: error, timeout and disconnect, then what later calls see
  <<{st \in Steps(BaseSingles, {<<0, 1, 0>>}, {"dis", "sil", "e32"}) : TRUE}
      \cup Steps(BaseSearches, {<<0, 1, 0>>}, {"dis", "k1d", "sil", "k1s", "e32"})
      \cup Steps({<<"streaming_search", 0, 0, SubEarly>>, <<"streaming_search", 0, 0, SubImm>>}, Plain, {"dis", "k1d"}),
    Probes7, ProbesEnd>>,
  \* D: unbind
  <<Steps({<<"unbind", 0, 0, <<>>>>}, Plain, {"ok"}), Probes7 \cup {S("unbind", 0, 0, <<>>, 0, 0, 0, "ok")}, ProbesEnd>>,
  \* E: message IDs, last_id, abandon
  <<AllOpsOk, Steps(NoResp \cup {<<"last_id", 0, 0, <<>>>>}, Plain, {"ok"}), {PLastId, PDelete, PSearch}>>
>>

(* thorough: larger pools at every position *)
AllVariants == BaseSingles \cup MoreSingles \cup LocalCalls \cup BaseSearches \cup MoreSearches \cup StreamVariants \cup NoResp \cup NonOpCalls
SrvFor(v) == IF v[1] \in SearchOps THEN SrvSearch ELSE IF v[1] \in SingleOps THEN SrvSingle ELSE {"ok"}
AllSteps == UNION {Steps({v}, Mods8, SrvFor(v)) : v \in AllVariants}
AllPlain == UNION {Steps({v}, Plain, SrvFor(v)) : v \in AllVariants}
ThoroughFamilies == <<
  <<{st \in AllSteps : Cheap(st)}>>,
  <<{st \in UNION {Steps({v}, Mods1 \cup Plain, SrvFor(v)) : v \in BaseSingles \cup BaseSearches \cup BaseNoResp \cup LocalCalls \cup NonOpCalls} : NoHang(st)},
    {st \in UNION {Steps({v}, Plain \cup {<<2, 1, 1>>}, SrvFor(v) \cap {"ok", "k1", "e32", "dis", "sil"}) : v \in BaseSingles \cup BaseSearches \cup NoResp \cup NonOpCalls} : NoHang(st)}>>,
  <<UNION {Steps({v}, {<<0, 1, 0>>}, SrvFor(v) \cap {"dis", "k1d", "sil", "k1s", "e32", "ok"}) : v \in BaseSingles \cup BaseSearches \cup BaseNoResp},
    Probes7 \cup {S("unbind", 0, 0, <<>>, 0, 0, 0, "ok")}, Probes7>>
>>

SimSteps == {s \in AllSteps : NoHang(s)}

CtorFamilies == << <<{PDelete, PSearch, PStream, S("compare", 0, 0, <<>>, 1, 1, 0, "sil")}, {PClosed, PDelete}>> >>

Families == IF ctor # "ws" THEN CtorFamilies
            ELSE IF Tier = "quick" THEN QuickFamilies
            ELSE IF Tier = "thorough" THEN ThoroughFamilies
            ELSE << >>

InFamily(f, sc) == /\ Len(sc) <= Len(f)
                   /\ \A i \in 1..Len(sc) : sc[i] \in f[i]

MCInit == InitSeq /\ ctor \in {"ws", "fus", "new", "fu"}
MCNext == /\ Len(script) < MaxLen
          /\ UNCHANGED ctor
          /\ IF Tier = "sim"
             THEN Extend(RandomElement(SimSteps))     \* -simulate: ONE random successor per state (TLC evaluates the
                                                      \* invariants, hence Emit, on every successor it generates)
             ELSE \E k \in DOMAIN Families :
                    /\ InFamily(Families[k], script) /\ Len(script) < Len(Families[k])
                    /\ \E st \in Families[k][Len(script) + 1] : Extend(st)
MCSpec == MCInit /\ [][MCNext]_<<vars, ctor>>

Emit == script # <<>> => PrintT(<<"VEC", ToJson([ctor |-> ctor, steps |-> script, exp |-> evs])>>)
=============================================================================
