---------------------------- MODULE SearchStream ----------------------------
(***************************************************************************)
(* One search stream of inejge/ldap3 used sequentially against a scripted  *)
(* server (properties C10 and C16; DESIGN.md section 3.3).                 *)
(*                                                                         *)
(* Written from the documentation of SearchStream / EntriesOnly /          *)
(* PagedResults (state diagram in search.rs, adapter docs) and RFC 2696,   *)
(* not from the code.  All values are symbolic tokens (naturals); the      *)
(* harness maps them to concrete DNs, URIs, OIDs, cookies and filters.     *)
(*                                                                         *)
(*   item    [t, id, ctl, nu]   t in {"e","r","i"} entry / reference /     *)
(*                              intermediate; ctl = tokens of the controls *)
(*                              attached to the message; nu = number of    *)
(*                              URIs of a reference (URI token id*10+j)    *)
(*   ctrl    [k, id, cookie]    k = "x": some control `id`;                *)
(*                              k = "pr": paging control, id = size,       *)
(*                              cookie = 0 means the empty cookie          *)
(*   result  [rc, txt, refs, ctrls]                                        *)
(*   page    [items, res]       what the server answers to one request     *)
(*   request [base, scope, deref, sizelimit, timelimit, typesonly,         *)
(*            filter, attrs, ctrls]                                        *)
(*   env E   [chain, pages, loss, par, psize]   chain[k] in {"EO","PR"},   *)
(*           outermost first; par = the caller's request; loss = [pg,pos]: *)
(*           the connection is lost instead of the pos-th message of page  *)
(*           pg (pos = Len(items)+1: instead of the SearchResultDone;      *)
(*           pos = 0: before the request for page pg can be sent);         *)
(*           pg = 0: never.                                                *)
(*                                                                         *)
(* The n-th SearchRequest is answered with page n of the script; a request *)
(* beyond the script gets an empty successful page.                        *)
(***************************************************************************)
EXTENDS Naturals, Sequences

CONSTANT StaleResultAfterSplice   \* deviation D-PAGED-STALE-RESULT: TRUE = pinned behaviour, FALSE = what C10/C16 state

VARIABLES env, S, calls, outs

vars == <<env, S, calls, outs>>

---------------------------------------------------------------------------
\* return values
None      == [k |-> "none"]
Some(it)  == [k |-> "some", it |-> it]
Err(e)    == [k |-> "err", e |-> e]          \* e in {"fail", "adapterinit"}
Ok        == [k |-> "ok"]
Res(r)    == [k |-> "res", r |-> r]
StateV(s) == [k |-> "st", v |-> s]
Panic     == [k |-> "PANIC"]                 \* never produced by a public call (invariant NoPanic)

Synth(rc) == [rc |-> rc, txt |-> 0, refs |-> <<>>, ctrls |-> <<>>]
PRc(size, cookie) == [k |-> "pr", id |-> size, cookie |-> cookie]

HasPR(E) == \E n \in 1..Len(E.chain) : E.chain[n] = "PR"
HasEO(E) == \E n \in 1..Len(E.chain) : E.chain[n] = "EO"

EmptyPage == [items |-> <<>>, res |-> Synth(0)]
PageAt(E, n) == IF n >= 1 /\ n <= Len(E.pages) THEN E.pages[n] ELSE EmptyPage

\* index of the first paging control, 0 if there is none
PrIndex(cs) == IF \E i \in 1..Len(cs) : cs[i].k = "pr"
               THEN CHOOSE i \in 1..Len(cs) : cs[i].k = "pr" /\ \A j \in 1..(i-1) : cs[j].k # "pr"
               ELSE 0
RemoveAt(s, i) == SubSeq(s, 1, i-1) \o SubSeq(s, i+1, Len(s))
\* cookie a result asks the client to continue with (0: none)
CookieOf(res) == LET i == PrIndex(res.ctrls) IN IF i = 0 THEN 0 ELSE res.ctrls[i].cookie
Uris(it) == [j \in 1..it.nu |-> it.id * 10 + j]

NoLoss == [pg |-> 0, pos |-> 0]
LossAt(E, pg, pos) == E.loss.pg = pg /\ E.loss.pos = pos
\* loss.how = "silent" (C12): instead of losing the connection the server just stops sending at that point, and the search was
\* given a timeout - the wait ends with a timeout error, the connection and the receiver stay as they are
Silent(E) == "how" \in DOMAIN E.loss /\ E.loss.how = "silent"

---------------------------------------------------------------------------
\* stream record: sstate, stored result, receiver open, server position, adapter state, requests the server has received
Fresh == [sstate |-> "Fresh", sres |-> <<>>, rx |-> FALSE, pg |-> 0, pos |-> 0,
          eoRefs |-> <<>>, saved |-> <<>>, reqs |-> <<>>]

WithPaging(par, size, cookie) == [par EXCEPT !.ctrls = @ \o <<PRc(size, cookie)>>]

\* start (performed by streaming_search_with / search before the handle is returned)
Start(E) ==
  IF HasPR(E) /\ PrIndex(E.par.ctrls) # 0
    THEN [x |-> Err("adapterinit"), s |-> [Fresh EXCEPT !.sstate = "Error"]]
  ELSE IF LossAt(E, 1, 0)
    THEN [x |-> Err("fail"), s |-> [Fresh EXCEPT !.sstate = "Error"]]
  ELSE [x |-> Ok,
        s |-> [Fresh EXCEPT !.sstate = "Active", !.rx = TRUE, !.pg = 1, !.pos = 1,
                 !.saved = IF HasPR(E) THEN <<[par |-> E.par, size |-> E.psize]>> ELSE <<>>,
                 !.reqs = << IF HasPR(E) THEN WithPaging(E.par, E.psize, 0) ELSE E.par >>]]

\* innermost receive
Inner(E, s) ==
  IF ~s.rx THEN [x |-> Panic, s |-> s]
  ELSE IF LossAt(E, s.pg, s.pos) THEN (IF Silent(E) THEN [x |-> Err("timeout"), s |-> s]
                                       ELSE [x |-> Err("fail"), s |-> [s EXCEPT !.rx = FALSE]])
  ELSE LET p == PageAt(E, s.pg) IN
       IF s.pos <= Len(p.items)
         THEN [x |-> Some(p.items[s.pos]), s |-> [s EXCEPT !.pos = @ + 1]]
         ELSE [x |-> None, s |-> [s EXCEPT !.sres = <<p.res>>, !.rx = FALSE]]

\* next() as seen at level k of the adapter chain (k = 1 is what the caller sees)
RECURSIVE Level(_, _, _)
Level(E, k, s) ==
  IF k > Len(E.chain) THEN Inner(E, s)
  ELSE LET r == Level(E, k + 1, s) IN
       IF E.chain[k] = "EO" THEN
            IF r.x.k = "some" /\ r.x.it.t = "i" THEN Level(E, k, r.s)
            ELSE IF r.x.k = "some" /\ r.x.it.t = "r"
              THEN Level(E, k, [r.s EXCEPT !.eoRefs = @ \o Uris(r.x.it)])
            ELSE r
       ELSE \* "PR"
            IF r.x.k # "none" \/ r.s.sres = <<>> THEN r
            ELSE LET res == r.s.sres[1]
                     i   == PrIndex(res.ctrls) IN
                 IF i = 0 THEN r
                 ELSE IF res.ctrls[i].cookie = 0
                   THEN [x |-> None, s |-> [r.s EXCEPT !.sres = << [res EXCEPT !.ctrls = RemoveAt(@, i)] >>]]
                 ELSE \* follow-up page: the previous page's result is no longer the search's result
                      LET s1 == [r.s EXCEPT !.sres = IF StaleResultAfterSplice THEN @ ELSE <<>>] IN
                      IF LossAt(E, s1.pg + 1, 0) THEN [x |-> Err("fail"), s |-> s1]
                      ELSE Level(E, k, [s1 EXCEPT !.rx = TRUE, !.pg = @ + 1, !.pos = 1,
                                          !.reqs = Append(@, WithPaging(s1.saved[1].par, s1.saved[1].size,
                                                                        res.ctrls[i].cookie))])

\* ---- the public calls (pure: stream record in, return value and stream record out)
DoNext(E, s) ==
  IF s.sstate # "Active" THEN [x |-> None, s |-> s]
  ELSE LET r == Level(E, 1, s) IN
       [x |-> r.x,
        s |-> [r.s EXCEPT !.sstate = IF r.x.k = "err" THEN "Error"
                                     ELSE IF r.x.k = "none" THEN "Done" ELSE @]]

DoFinish(E, s) ==
  IF s.sstate = "Closed" THEN [x |-> Res(Synth(80)), s |-> s]
  ELSE LET base == IF s.sres = <<>> THEN Synth(88) ELSE s.sres[1]
           out  == IF HasEO(E) THEN [base EXCEPT !.refs = @ \o s.eoRefs] ELSE base
       IN [x |-> Res(out),
           s |-> [s EXCEPT !.sstate = "Closed", !.sres = <<>>, !.rx = FALSE,
                           !.eoRefs = IF HasEO(E) THEN <<>> ELSE @]]

DoState(E, s) == [x |-> StateV(s.sstate), s |-> s]

\* next() until it returns something else than an item (derived; what every consumer loop does)
RECURSIVE DrainFrom(_, _, _)
DrainFrom(E, s, acc) ==
  LET r == DoNext(E, s) IN
  IF r.x.k = "some" THEN DrainFrom(E, r.s, Append(acc, r.x.it))
  ELSE [x |-> [k |-> "drain", got |-> acc, x |-> r.x], s |-> r.s]
DoDrain(E, s) == DrainFrom(E, s, <<>>)

\* Ldap::search(): EntriesOnly stream, collect, finish (the caller's E.chain is ignored)
DoSearch(E0) ==
  LET E  == [E0 EXCEPT !.chain = <<"EO">>]
      st == Start(E) IN
  IF st.x.k = "err" THEN [x |-> [k |-> "search", got |-> <<>>, x |-> st.x], s |-> st.s]
  ELSE LET d == DoDrain(E, st.s) IN
       IF d.x.x.k = "err" THEN [x |-> [k |-> "search", got |-> <<>>, x |-> d.x.x], s |-> d.s]
       ELSE LET f == DoFinish(E, d.s) IN
            [x |-> [k |-> "search", got |-> d.x.got, x |-> f.x], s |-> f.s]

Do(E, c, s) == CASE c = "next"   -> DoNext(E, s)
                 [] c = "finish" -> DoFinish(E, s)
                 [] c = "state"  -> DoState(E, s)
                 [] c = "drain"  -> DoDrain(E, s)

\* one observation: return value, state() afterwards, number of requests the server has seen
Obs(r) == [x |-> r.x, st |-> r.s.sstate, nreq |-> Len(r.s.reqs)]

\* the whole behaviour at once (used by the trace specification)
RECURSIVE RunFrom(_, _, _, _, _)
RunFrom(E, cs, n, s, acc) ==
  IF n > Len(cs) THEN [outs |-> acc, reqs |-> s.reqs]
  ELSE LET r == Do(E, cs[n], s) IN RunFrom(E, cs, n + 1, r.s, Append(acc, Obs(r)))
\* cs[1] is "start" or "search"
Run(E, cs) ==
  IF cs[1] = "search" THEN LET r == DoSearch(E) IN [outs |-> <<Obs(r)>>, reqs |-> r.s.reqs]
  ELSE LET st == Start(E) IN
       IF st.x.k = "err" THEN [outs |-> <<Obs(st)>>, reqs |-> st.s.reqs]
       ELSE RunFrom(E, cs, 2, st.s, <<Obs(st)>>)

---------------------------------------------------------------------------
\* ---- state machine: one action per public call
InitStream(E) == /\ env = E /\ S = Start(E).s /\ calls = <<"start">> /\ outs = <<Obs(Start(E))>>
InitSearch(E) == /\ env = E /\ S = DoSearch(E).s /\ calls = <<"search">> /\ outs = <<Obs(DoSearch(E))>>

HaveStream == calls[1] = "start" /\ outs[1].x.k = "ok"

Call(c) == /\ HaveStream
           /\ LET r == Do(env, c, S) IN
              /\ r.x.k # "PANIC"
              /\ S' = r.s /\ calls' = Append(calls, c) /\ outs' = Append(outs, Obs(r))
           /\ UNCHANGED env
NextCall   == Call("next")
FinishCall == Call("finish")
StateCall  == Call("state")
DrainCall  == Call("drain")

---------------------------------------------------------------------------
\* ---- what C10 / C16 state, formulated on the script and the observations only (no use of Level)
\* Ldap::search() always runs an EntriesOnly stream, whatever chain the environment names
E_ == IF calls[1] = "search" THEN [env EXCEPT !.chain = <<"EO">>] ELSE env
\* number of pages of a complete read: page n+1 is asked for iff a PagedResults adapter is present and page n's result
\* carries a paging control with a non-empty cookie
RECURSIVE NPagesFrom(_, _)
NPagesFrom(E, n) == IF HasPR(E) /\ CookieOf(PageAt(E, n).res) # 0 THEN NPagesFrom(E, n + 1) ELSE n
NPages(E) == NPagesFrom(E, 1)

\* the connection fails before a complete read is over
LossBites(E) == E.loss.pg >= 1 /\ E.loss.pg <= NPages(E) /\ E.loss.pos <= Len(PageAt(E, E.loss.pg).items) + 1

\* items the server sends before the loss, in order, over all pages of a complete read
RECURSIVE ItemsFrom(_, _)
ItemsFrom(E, p) ==
  IF p > NPages(E) THEN <<>>
  ELSE LET its == PageAt(E, p).items IN
       IF E.loss.pg = p THEN SubSeq(its, 1, IF E.loss.pos = 0 THEN 0 ELSE E.loss.pos - 1)
       ELSE its \o ItemsFrom(E, p + 1)
ServerItems(E) == ItemsFrom(E, 1)
IsEntry(it) == it.t = "e"
Visible(E) == IF HasEO(E) THEN SelectSeq(ServerItems(E), IsEntry) ELSE ServerItems(E)
RECURSIVE AllUris(_)
AllUris(its) == IF its = <<>> THEN <<>>
                ELSE (IF Head(its).t = "r" THEN Uris(Head(its)) ELSE <<>>) \o AllUris(Tail(its))

\* the result a complete read ends with
FinalResult(E) ==
  LET r == PageAt(E, NPages(E)).res
      i == PrIndex(r.ctrls)
      stripped == IF HasPR(E) /\ i # 0 THEN [r EXCEPT !.ctrls = RemoveAt(@, i)] ELSE r
  IN IF HasEO(E) THEN [stripped EXCEPT !.refs = @ \o AllUris(ServerItems(E))] ELSE stripped

IsPrefix(a, b) == Len(a) <= Len(b) /\ SubSeq(b, 1, Len(a)) = a

\* items handed to the caller by calls 1..n
RECURSIVE GotUpTo(_)
GotUpTo(n) == IF n = 0 THEN <<>>
              ELSE GotUpTo(n - 1) \o
                   (CASE outs[n].x.k = "some"  -> <<outs[n].x.it>>
                      [] outs[n].x.k = "drain" -> outs[n].x.got
                      [] OTHER -> <<>>)
Pre(n) == outs[n - 1].st
\* the call's own verdict about the end of the stream
EndSeen(n) == \/ calls[n] = "next"  /\ Pre(n) = "Active" /\ outs[n].x.k = "none"
              \/ calls[n] = "drain" /\ Pre(n) = "Active" /\ outs[n].x.x.k = "none"
FailSeen(n) == \/ calls[n] = "next"  /\ outs[n].x.k = "err"
               \/ calls[n] = "drain" /\ outs[n].x.x.k = "err"
ReadToEnd(n) == \E m \in 2..(n - 1) : EndSeen(m)

\* C10: exactly the server's items, in order, each once, filtered by the chain; then Ok(None)
ItemsLaw ==
  HaveStream =>
    /\ IsPrefix(GotUpTo(Len(calls)), Visible(E_))
    /\ \A n \in 2..Len(calls) :
         /\ EndSeen(n)  => GotUpTo(n) = Visible(E_) /\ ~LossBites(E_)
         /\ FailSeen(n) => GotUpTo(n) = Visible(E_) /\ LossBites(E_)

\* C10: finish() = the server's final result iff read to the end, 88 otherwise, 80 the second time
FinishLaw ==
  HaveStream =>
    \A n \in 2..Len(calls) : calls[n] = "finish" =>
       LET r == outs[n].x.r IN
       IF \E m \in 2..(n - 1) : calls[m] = "finish" THEN r = Synth(80)
       ELSE IF ReadToEnd(n) THEN r = FinalResult(E_)
       ELSE r.rc = 88 /\ r.ctrls = <<>> /\ r.txt = 0

\* C10: Fresh -> Active -> Done -> Closed, Error after any failure; next() outside Active is a no-op
StateLaw ==
  /\ outs[1].st = IF outs[1].x.k = "ok" THEN "Active" ELSE IF calls[1] = "search" THEN outs[1].st ELSE "Error"
  /\ HaveStream =>
      \A n \in 2..Len(calls) :
        LET pre == Pre(n)  o == outs[n] IN
        CASE calls[n] = "state"  -> o.x = StateV(pre) /\ o.st = pre /\ o.nreq = outs[n-1].nreq
          [] calls[n] = "finish" -> o.st = "Closed" /\ o.nreq = outs[n-1].nreq
          [] calls[n] = "next"   ->
               IF pre # "Active" THEN o.x = None /\ o.st = pre /\ o.nreq = outs[n-1].nreq
               ELSE o.st = (CASE o.x.k = "some" -> "Active" [] o.x.k = "none" -> "Done" [] o.x.k = "err" -> "Error")
          [] calls[n] = "drain"  ->
               IF pre # "Active" THEN o.x.got = <<>> /\ o.x.x = None /\ o.st = pre /\ o.nreq = outs[n-1].nreq
               ELSE o.st = (CASE o.x.x.k = "none" -> "Done" [] o.x.x.k = "err" -> "Error")

\* C12 on every adapter chain: a wait on a silent server ends with a timeout error - and only such a wait does
ErrOf(n) == IF calls[n] = "drain" THEN outs[n].x.x ELSE outs[n].x
TimeoutLaw ==
  HaveStream => \A n \in 2..Len(calls) : FailSeen(n) => ((ErrOf(n).e = "timeout") <=> Silent(E_))

\* C16: the requests the server received
PagingLaw ==
  LET E == E_  rq == S.reqs IN
  IF HasPR(E) /\ PrIndex(E.par.ctrls) # 0 THEN rq = <<>> /\ outs[1].x = Err("adapterinit")
  ELSE /\ Len(rq) <= NPages(E)
       /\ Len(rq) >= 1 => rq[1] = IF HasPR(E) THEN WithPaging(E.par, E.psize, 0) ELSE E.par
       /\ \A n \in 2..Len(rq) :
            /\ CookieOf(PageAt(E, n - 1).res) # 0
            /\ rq[n] = WithPaging(E.par, E.psize, CookieOf(PageAt(E, n - 1).res))
       /\ calls[1] = "start" => \A n \in 2..Len(calls) : EndSeen(n) => outs[n].nreq = NPages(E)
       \* the final result of a paged search carries no paging control
       /\ (HasPR(E) /\ calls[1] = "start") =>
            \A n \in 2..Len(calls) : (calls[n] = "finish" /\ outs[n].x.r.rc \notin {80, 88}) => PrIndex(outs[n].x.r.ctrls) = 0

\* search(): entries only, in order; reference URIs merged into the result; intermediates dropped
SearchLaw ==
  calls[1] = "search" =>
    LET E == E_  o == outs[1].x IN
    IF LossBites(E) THEN o.x = Err("fail") /\ o.got = <<>>
    ELSE /\ o.got = SelectSeq(ServerItems(E), IsEntry)
         /\ o.x = Res(FinalResult(E))
         /\ outs[1].st = "Closed"

\* a public call never reaches the receive on a closed receiver
NoPanic == HaveStream => \A c \in {"next", "finish", "state", "drain"} : Do(env, c, S).x.k # "PANIC"
=============================================================================
