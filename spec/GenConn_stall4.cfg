SPECIFICATION GSpec
CONSTANTS
  Ops = {"o1", "o2"}
  NoOp = "none"
  MaxId = 6
  Last0 <- LastZero
  MaxItems = 1
  ItemTypes <- EntOnly
  MaxOrphans = 1
  Kinds <- KindsNoUnb
  Tmo <- TmoGen
  Horizon = 2
  AllowFaults = FALSE
  OpenGarbage = FALSE
  AdapterErrors = FALSE
  AllowCancel = FALSE
  AllowStall = TRUE
  AbstractTime = FALSE
  LeakSearchIdOnDone = FALSE
  AbandonKeepsTargetId = FALSE
  DirectStaysActive = FALSE
  StaleInsertAfterScrub = FALSE
  ScriptLen = 4
INVARIANTS Emit Routing NoLeak UniqueIds
CHECK_DEADLOCK FALSE
