SPECIFICATION Spec
CONSTANTS
  Spaces <- Spaces_t
  Attrs <- Attrs_t
  Rules <- Rules_t
  Vals <- Vals_t
  SubVals <- SubVals_t
  CoreAttrs <- CoreAttrs_t
  CoreRules <- CoreRules_t
  CoreVals <- CoreVals_t
  CoreSubVals <- CoreSubVals_t
  Sibs <- Sibs2
  LongLens = {110, 121, 122, 123, 124, 125, 126, 127, 128, 129, 130, 255, 256, 257, 300}
  Plans <- Plans3
  WrapPlans <- Uniform
  MaxDepth = 2
  EmitVectors = TRUE
INVARIANTS StrCheck AstCheck SeedCheck
CHECK_DEADLOCK FALSE
