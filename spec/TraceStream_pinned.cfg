SPECIFICATION Spec
CONSTANTS
  StaleResultAfterSplice = TRUE
POSTCONDITION Accepted
CHECK_DEADLOCK FALSE
