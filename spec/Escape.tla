------------------------------ MODULE Escape ------------------------------
(***************************************************************************)
(* String-level contracts behind C09, written from the RFCs only:          *)
(*   RFC 4515 section 3  - string form of a filter item and of an          *)
(*                         assertion value (valueencoding, \XX escapes);    *)
(*   RFC 4514 section 3  - string form of a distinguished name;             *)
(*   RFC 4514 section 2.4 / RFC 4515 section 3 - which octets have to be    *)
(*                         escaped;                                         *)
(*   RFC 4512 section 1.4 - descr, numericoid, keychar;                     *)
(*   Unicode 15 table 3-7 - well-formed UTF-8 (UTFMB of RFC 4512).          *)
(* Nothing here looks at how ldap3 escapes: the laws at the end take the   *)
(* escaped text as an argument, so any correct escaping style satisfies     *)
(* them and any unsafe one does not.                                        *)
(*                                                                         *)
(* A byte is a natural 0..255, a string is a sequence of bytes.            *)
(***************************************************************************)
EXTENDS Naturals, Sequences

NUL == 0        SPACE == 32     EXCL == 33      DQUOTE == 34    SHARP == 35
AMP == 38       LPAREN == 40    RPAREN == 41    ASTERISK == 42  PLUS == 43
COMMA == 44     HYPHEN == 45    DOT == 46       COLON == 58     SEMI == 59
LANGLE == 60    EQUALS == 61    RANGLE == 62    ESC == 92       VBAR == 124
TILDE == 126

IsDigit(b) == b >= 48 /\ b <= 57
IsAlpha(b) == (b >= 65 /\ b <= 90) \/ (b >= 97 /\ b <= 122)
IsHex(b)   == IsDigit(b) \/ (b >= 65 /\ b <= 70) \/ (b >= 97 /\ b <= 102)
HexVal(b)  == IF IsDigit(b) THEN b - 48 ELSE IF b >= 97 THEN b - 87 ELSE b - 55
IsKeyChar(b) == IsAlpha(b) \/ IsDigit(b) \/ b = HYPHEN

(* first position q in p..e with s[q] = c, or e + 1 *)
RECURSIVE Find(_, _, _, _)
Find(s, p, e, c) == IF p > e THEN e + 1 ELSE IF s[p] = c THEN p ELSE Find(s, p + 1, e, c)

(* s[p..e] cut at every octet c: sequence of (possibly empty) pieces *)
RECURSIVE Split(_, _, _, _)
Split(s, p, e, c) ==
  LET q == Find(s, p, e, c)
  IN  IF q > e THEN <<SubSeq(s, p, e)>> ELSE <<SubSeq(s, p, q - 1)>> \o Split(s, q + 1, e, c)

(***************************************************************************)
(* Well-formed UTF-8 (Unicode table 3-7).                                  *)
(***************************************************************************)
RECURSIVE Utf8From(_, _)
Utf8From(s, p) ==
  IF p > Len(s) THEN TRUE ELSE
  LET b == s[p]
      In(i, lo, hi) == i <= Len(s) /\ s[i] >= lo /\ s[i] <= hi
      T(i) == In(i, 128, 191)
  IN  IF b < 128 THEN Utf8From(s, p + 1)
      ELSE IF b >= 194 /\ b <= 223 THEN T(p + 1) /\ Utf8From(s, p + 2)
      ELSE IF b = 224 THEN In(p + 1, 160, 191) /\ T(p + 2) /\ Utf8From(s, p + 3)
      ELSE IF (b >= 225 /\ b <= 236) \/ b = 238 \/ b = 239 THEN T(p + 1) /\ T(p + 2) /\ Utf8From(s, p + 3)
      ELSE IF b = 237 THEN In(p + 1, 128, 159) /\ T(p + 2) /\ Utf8From(s, p + 3)
      ELSE IF b = 240 THEN In(p + 1, 144, 191) /\ T(p + 2) /\ T(p + 3) /\ Utf8From(s, p + 4)
      ELSE IF b >= 241 /\ b <= 243 THEN T(p + 1) /\ T(p + 2) /\ T(p + 3) /\ Utf8From(s, p + 4)
      ELSE IF b = 244 THEN In(p + 1, 128, 143) /\ T(p + 2) /\ T(p + 3) /\ Utf8From(s, p + 4)
      ELSE FALSE
Utf8Ok(s) == Utf8From(s, 1)

(***************************************************************************)
(* RFC 4512 1.4: descr, numericoid; RFC 4512 2.5: attributedescription.    *)
(***************************************************************************)
IsDescr(s) == Len(s) >= 1 /\ IsAlpha(s[1]) /\ \A i \in 2..Len(s) : IsKeyChar(s[i])
IsNumber(s) == Len(s) >= 1 /\ (\A i \in 1..Len(s) : IsDigit(s[i])) /\ (Len(s) > 1 => s[1] # 48)
IsNumericOid(s) == LET c == Split(s, 1, Len(s), DOT) IN Len(c) >= 2 /\ \A i \in 1..Len(c) : IsNumber(c[i])
IsAttrType(s) == IsDescr(s) \/ IsNumericOid(s)
IsAttrDesc(s) ==
  LET c == Split(s, 1, Len(s), SEMI)
  IN  IsAttrType(c[1]) /\ \A i \in 2..Len(c) : Len(c[i]) >= 1 /\ \A j \in 1..Len(c[i]) : IsKeyChar(c[i][j])

(***************************************************************************)
(* RFC 4515 section 3.                                                     *)
(*   valueencoding = 0*(normal / escaped)                                  *)
(*   normal  = UTF1SUBSET / UTFMB   ; UTF1 without NUL ( ) * and ESC       *)
(*   escaped = ESC HEX HEX                                                 *)
(***************************************************************************)
FilterMustEsc == {NUL, LPAREN, RPAREN, ASTERISK, ESC}
NeedsFilterEsc(v) == \E i \in 1..Len(v) : v[i] \in FilterMustEsc

NoValue == [ok |-> FALSE, v |-> <<>>]

(* value denoted by the valueencoding s[p..e] *)
RECURSIVE ValueOf(_, _, _)
ValueOf(s, p, e) ==
  IF p > e THEN [ok |-> TRUE, v |-> <<>>]
  ELSE IF s[p] = ESC THEN
         IF p + 2 <= e /\ IsHex(s[p + 1]) /\ IsHex(s[p + 2])
           THEN LET r == ValueOf(s, p + 3, e)
                IN  IF r.ok THEN [ok |-> TRUE, v |-> <<HexVal(s[p + 1]) * 16 + HexVal(s[p + 2])>> \o r.v] ELSE NoValue
           ELSE NoValue
  ELSE IF s[p] \in FilterMustEsc THEN NoValue
  ELSE LET r == ValueOf(s, p + 1, e)
       IN  IF r.ok THEN [ok |-> TRUE, v |-> <<s[p]>> \o r.v] ELSE NoValue

(* RFC 4515 unescaping of a complete assertion value *)
FilterUnescape(s) == IF Utf8Ok(s) THEN ValueOf(s, 1, Len(s)) ELSE NoValue

(***************************************************************************)
(* A filter consisting of one parenthesised item:                          *)
(*   filter = LPAREN filtercomp RPAREN ; filtercomp = and / or / not / item*)
(*   item = simple / present / substring / extensible                      *)
(*   simple = attr filtertype assertionvalue                               *)
(*   filtertype = "=" / "~=" / ">=" / "<="                                 *)
(*   present = attr "=*" ; substring = attr "=" [initial] any [final]      *)
(* The whole string has to be consumed.  Composite and extensible filters  *)
(* are recognised by their first distinguishing octet and reported with    *)
(* that kind, not parsed further (C09 only needs to know that the          *)
(* structure is no longer "equality on a").                                *)
(* Result: [ok, kind, attr, val, parts]; val is the unescaped assertion    *)
(* value of a simple item, parts the unescaped pieces of a substring item  *)
(* (empty first/last piece = no initial/final).                            *)
(***************************************************************************)
FItem(ok, kind, attr, val, parts) == [ok |-> ok, kind |-> kind, attr |-> attr, val |-> val, parts |-> parts]
FReject == FItem(FALSE, "reject", <<>>, <<>>, <<>>)

AttrDescChar(b) == IsKeyChar(b) \/ b = DOT \/ b = SEMI
RECURSIVE AttrEnd(_, _)
AttrEnd(s, p) == IF p <= Len(s) /\ AttrDescChar(s[p]) THEN AttrEnd(s, p + 1) ELSE p

ParseFilter(s) ==
  IF Len(s) < 3 \/ s[1] # LPAREN \/ ~Utf8Ok(s) THEN FReject
  ELSE IF s[2] \in {AMP, VBAR, EXCL} THEN FItem(FALSE, "composite", <<>>, <<>>, <<>>)
  ELSE
  LET q    == AttrEnd(s, 2)
      attr == SubSeq(s, 2, q - 1)
  IN
  IF q > Len(s) THEN FReject
  ELSE IF s[q] = COLON THEN FItem(FALSE, "extensible", attr, <<>>, <<>>)
  ELSE IF ~IsAttrDesc(attr) THEN FReject
  ELSE
  LET two == q + 1 <= Len(s) /\ s[q + 1] = EQUALS
      op  == IF s[q] = EQUALS THEN "eq"
             ELSE IF s[q] = TILDE /\ two THEN "approx"
             ELSE IF s[q] = RANGLE /\ two THEN "ge"
             ELSE IF s[q] = LANGLE /\ two THEN "le"
             ELSE "none"
      vs  == IF op = "eq" THEN q + 1 ELSE q + 2
      cl  == Find(s, vs, Len(s), RPAREN)                 \* the item ends at the first unescaped ")" --
  IN                                                      \* a raw ")" cannot be part of a valueencoding
  IF op = "none" \/ cl # Len(s) THEN FReject               \* unterminated, or text after the closing parenthesis
  ELSE
  LET stars == Find(s, vs, cl - 1, ASTERISK) <= cl - 1
  IN
  IF ~stars THEN LET u == ValueOf(s, vs, cl - 1)
                 IN  IF u.ok THEN FItem(TRUE, op, attr, u.v, <<>>) ELSE FReject
  ELSE IF op # "eq" THEN FReject
  ELSE IF cl - vs = 1 THEN FItem(TRUE, "present", attr, <<>>, <<>>)
  ELSE LET raw == Split(s, vs, cl - 1, ASTERISK)
           un  == [i \in 1..Len(raw) |-> ValueOf(raw[i], 1, Len(raw[i]))]
       IN  IF \A i \in 1..Len(raw) : un[i].ok
             THEN FItem(TRUE, "substring", attr, <<>>, [i \in 1..Len(raw) |-> un[i].v])
             ELSE FReject

(***************************************************************************)
(* RFC 4514 section 3 (strict form: no optional spaces, no ";" separator,  *)
(* no quoted values - those are RFC 1779/2253 forms a v3 parser need not   *)
(* accept and section 2 forbids producing).                                *)
(*   distinguishedName = [ rdn *( COMMA rdn ) ]                            *)
(*   rdn  = ava *( PLUS ava ) ;  ava = attributeType EQUALS attributeValue *)
(*   attributeValue = string / hexstring                                   *)
(*   string = [ ( leadchar / pair ) [ *( stringchar / pair )               *)
(*                                    ( trailchar / pair ) ] ]             *)
(*   leadchar  = any but NUL SPACE " # + , ; < > \                         *)
(*   stringchar = any but NUL " + , ; < > \                                *)
(*   trailchar = any but NUL SPACE " + , ; < > \                           *)
(*   pair = ESC ( ESC / special / hexpair )                                *)
(*   special = " + , ; < > SPACE # =  ;  hexstring = SHARP 1*hexpair       *)
(* ParseDN(s) = [ok, rdns]; rdns is a sequence of RDNs, an RDN a sequence  *)
(* of [type, v, hex] (hex: the value was given as #hexstring, v then holds *)
(* the BER octets).                                                        *)
(***************************************************************************)
DnMustEsc  == {NUL, DQUOTE, PLUS, COMMA, SEMI, LANGLE, RANGLE, ESC}     \* RFC 4514 2.4, anywhere
DnSpecial  == {DQUOTE, PLUS, COMMA, SEMI, LANGLE, RANGLE, SPACE, SHARP, EQUALS}
DnMayEsc   == {EQUALS}   \* in <special> (so "\=" is legal) but never required; see NeedsDnEsc

NeedsDnEsc(v) ==
  \/ \E i \in 1..Len(v) : v[i] \in DnMustEsc
  \/ Len(v) >= 1 /\ (v[1] = SPACE \/ v[1] = SHARP \/ v[Len(v)] = SPACE)

NoToks == [ok |-> FALSE, t |-> <<>>, p |-> 0]
Tok(b, e) == [b |-> b, e |-> e]

(* tokens of the attribute value starting at p, up to an unescaped "," or "+" or the end of s;
   a token is an octet and whether it was written as a pair *)
RECURSIVE DnToks(_, _)
DnToks(s, p) ==
  IF p > Len(s) \/ s[p] = COMMA \/ s[p] = PLUS THEN [ok |-> TRUE, t |-> <<>>, p |-> p]
  ELSE IF s[p] = ESC THEN
         IF p + 2 <= Len(s) /\ IsHex(s[p + 1]) /\ IsHex(s[p + 2])
           THEN LET r == DnToks(s, p + 3)
                IN  IF r.ok THEN [ok |-> TRUE, t |-> <<Tok(HexVal(s[p + 1]) * 16 + HexVal(s[p + 2]), TRUE)>> \o r.t, p |-> r.p] ELSE NoToks
         ELSE IF p + 1 <= Len(s) /\ (s[p + 1] = ESC \/ s[p + 1] \in DnSpecial)
           THEN LET r == DnToks(s, p + 2)
                IN  IF r.ok THEN [ok |-> TRUE, t |-> <<Tok(s[p + 1], TRUE)>> \o r.t, p |-> r.p] ELSE NoToks
         ELSE NoToks
  ELSE LET r == DnToks(s, p + 1)
       IN  IF r.ok THEN [ok |-> TRUE, t |-> <<Tok(s[p], FALSE)>> \o r.t, p |-> r.p] ELSE NoToks

NoAva == [ok |-> FALSE, type |-> <<>>, v |-> <<>>, hex |-> FALSE]
DnValue(type, t) ==
  LET n == Len(t) IN
  IF n = 0 THEN [ok |-> TRUE, type |-> type, v |-> <<>>, hex |-> FALSE]
  ELSE IF ~t[1].e /\ t[1].b = SHARP THEN                       \* hexstring
    IF n >= 3 /\ n % 2 = 1 /\ \A i \in 2..n : ~t[i].e /\ IsHex(t[i].b)
      THEN [ok |-> TRUE, type |-> type, hex |-> TRUE,
            v |-> [i \in 1..((n - 1) \div 2) |-> HexVal(t[2 * i].b) * 16 + HexVal(t[2 * i + 1].b)]]
      ELSE NoAva
  ELSE IF /\ \A i \in 1..n : ~t[i].e => t[i].b \notin DnMustEsc
          /\ (~t[1].e => t[1].b # SPACE)                       \* leadchar (SHARP handled above)
          /\ (~t[n].e => t[n].b # SPACE)                       \* trailchar
    THEN [ok |-> TRUE, type |-> type, hex |-> FALSE, v |-> [i \in 1..n |-> t[i].b]]
    ELSE NoAva

RECURSIVE TypeEnd(_, _)
TypeEnd(s, p) == IF p <= Len(s) /\ (IsKeyChar(s[p]) \/ s[p] = DOT) THEN TypeEnd(s, p + 1) ELSE p

NoRdns == [ok |-> FALSE, r |-> <<>>, p |-> 0]

(* one attributeTypeAndValue at p: [ok, a (the ava), p (position after it)] *)
ParseAva(s, p) ==
  LET q    == TypeEnd(s, p)
      type == SubSeq(s, p, q - 1)
  IN  IF q > Len(s) \/ s[q] # EQUALS \/ ~IsAttrType(type) THEN [ok |-> FALSE, a |-> NoAva, p |-> 0]
      ELSE LET tk == DnToks(s, q + 1)
               a  == IF tk.ok THEN DnValue(type, tk.t) ELSE NoAva
           IN  [ok |-> a.ok, a |-> a, p |-> tk.p]

(* one relativeDistinguishedName at p *)
RECURSIVE ParseRdn(_, _)
ParseRdn(s, p) ==
  LET a == ParseAva(s, p) IN
  IF ~a.ok THEN NoRdns
  ELSE IF a.p <= Len(s) /\ s[a.p] = PLUS
    THEN LET m == ParseRdn(s, a.p + 1)
         IN  IF m.ok THEN [ok |-> TRUE, r |-> <<a.a>> \o m.r, p |-> m.p] ELSE NoRdns
    ELSE [ok |-> TRUE, r |-> <<a.a>>, p |-> a.p]

RECURSIVE ParseRdns(_, _)
ParseRdns(s, p) ==
  LET r == ParseRdn(s, p) IN
  IF ~r.ok THEN NoRdns
  ELSE IF r.p > Len(s) THEN [ok |-> TRUE, r |-> <<r.r>>, p |-> r.p]
  ELSE LET m == ParseRdns(s, r.p + 1)            \* s[r.p] is a COMMA here (a PLUS was consumed by ParseRdn)
       IN  IF m.ok THEN [ok |-> TRUE, r |-> <<r.r>> \o m.r, p |-> m.p] ELSE NoRdns

ParseDN(s) ==
  IF s = <<>> THEN [ok |-> TRUE, rdns |-> <<>>]
  ELSE IF ~Utf8Ok(s) THEN [ok |-> FALSE, rdns |-> <<>>]
  ELSE LET r == ParseRdns(s, 1) IN [ok |-> r.ok, rdns |-> IF r.ok THEN r.r ELSE <<>>]

StrAva(type, v) == [ok |-> TRUE, type |-> type, v |-> v, hex |-> FALSE]

(***************************************************************************)
(* The laws of C09, stated on an arbitrary candidate escaped text.         *)
(***************************************************************************)
(* L1: "(a=" E ")" is the equality filter on "a" with value v *)
FilterInert(v, E) ==
  ParseFilter(<<LPAREN, 97, EQUALS>> \o E \o <<RPAREN>>) = FItem(TRUE, "eq", <<97>>, v, <<>>)
(* L2: E is an assertion value and denotes v *)
UnescapeInert(v, E) == FilterUnescape(E) = [ok |-> TRUE, v |-> v]
(* L3: "cn=" D ",dc=x" is cn=v followed by dc=x *)
DnInert(v, D) ==
  ParseDN(<<99, 110, EQUALS>> \o D \o <<COMMA, 100, 99, EQUALS, 120>>) =
    [ok |-> TRUE, rdns |-> << <<StrAva(<<99, 110>>, v)>>, <<StrAva(<<100, 99>>, <<120>>)>> >>]
(* L4: nothing to escape => returned unchanged.  For the DN form an "=" in the value is left open: RFC 4514 2.4
   does not require it to be escaped but lists it in <special>, and the property only speaks of strings that
   "need no escaping" *)
FilterUnchanged(v, E) == ~NeedsFilterEsc(v) => E = v
DnUnchanged(v, D) == (~NeedsDnEsc(v) /\ \A i \in 1..Len(v) : v[i] \notin DnMayEsc) => D = v
=============================================================================
