----------------------------- MODULE TraceSetup -----------------------------
(* I -> S for C17 and C18.  One state per ndjson record written by          *)
(* setup-run; a record the specification does not accept is printed as      *)
(* <<"BADREC", index>>, a record it has no opinion about as <<"UNSPEC", i>>. *)
(*                                                                          *)
(*  kind = "row"    (row classes, observation): Decide is recomputed on the *)
(*                  row's classes and compared by Setup!RowOK.              *)
(*  kind = "url"    a random URL string classified by the url crate         *)
(*                  (trusted); only result and error class were observed    *)
(*                  (the address belongs to nobody in particular), so the   *)
(*                  route is not compared; endpoint = "unknown" when the    *)
(*                  harness cannot tell whether something listens there.    *)
(*  kind = "script" (configuration, adversary script, observed events): the *)
(*                  event sequence must be a behaviour of the establishment *)
(*                  machine (Setup!Step) ending in a final state, with the  *)
(*                  C17 invariants holding in every state on the way.       *)
EXTENDS Setup, TLC, Json, IOUtils

Rec == ndJsonDeserialize(IOEnv.TRACE)
VARIABLE l

EstInv(cfg, sc, st) ==
  /\ NoCleartextLdap(cfg, st) /\ ReadyImpliesProtected(cfg, st) /\ InjectedNeverParsed(cfg, st)
  /\ TimeoutBoundsAll(cfg, st) /\ FaultsFail(cfg, sc, st) /\ EstablishedClean(st)

RECURSIVE Run(_, _, _, _, _)
Run(cfg, sc, S, evs, i) ==
  IF i > Len(evs) \/ S = {} THEN S
  ELSE Run(cfg, sc, {t \in UNION {Step(cfg, sc, x, evs[i]) : x \in S} : EstInv(cfg, sc, t)}, evs, i + 1)

ScriptOK(e) ==
  /\ e.cfg \in Cfgs /\ e.script \in Scripts /\ ScriptFor(e.cfg, e.script)
  /\ \E x \in Run(e.cfg, e.script, {EInit}, e.ev, 1) : Final(x)

UrlOK(r, o) ==
  LET known == r.endpoint # "unknown"
      ds == IF known THEN {Decide(r)}
            ELSE {Decide([r EXCEPT !.endpoint = ep]) : ep \in {"listening", "refused"}}
  IN
  /\ o.result # "panic"
  /\ ~o.late
  /\ \E d \in ds :
       CASE o.result = "ok"      -> d.kind \in {"Ok", "OkOrErr"}
         [] o.result = "err"     -> d.kind = "Pending" \/ (d.kind \in {"Err", "OkOrErr"} /\ o.cls \in d.errs)
         [] o.result = "pending" -> d.kind = "Pending"
         [] OTHER -> FALSE

Check(e) ==
  CASE e.kind = "row"    -> e.row \in Rows /\ RowOK(e.row, e.obs)
    [] e.kind = "url"    -> [e.row EXCEPT !.endpoint = "listening"] \in Rows /\ UrlOK(e.row, e.obs)
    [] e.kind = "script" -> ScriptOK(e)
    [] OTHER -> PrintT(<<"UNSPEC", l>>)

Init == l = 1
Next == /\ l <= Len(Rec) /\ l' = l + 1
        /\ (Check(Rec[l]) \/ PrintT(<<"BADREC", l>>))
Spec == Init /\ [][Next]_l
Accepted == IF TLCGet("stats").diameter - 1 = Len(Rec) THEN TRUE
            ELSE Print(<<"TRACE-NOT-CONSUMED", TLCGet("stats").diameter, Len(Rec)>>, FALSE)
=============================================================================
