--------------------------- MODULE TraceLdapSeq ---------------------------
(* I -> S for C02 and C03: the harness performed seeded random episodes on a *)
(* real Ldap handle and recorded every With* call and every operation with   *)
(* the bytes the scripted server read and sent and what the caller got back.  *)
(* This module replays the records through the LdapSeq state machine (the     *)
(* property instance) and checks, per Call record,                            *)
(*   C02  the server read exactly one LDAPMessage, nothing trailing, which an *)
(*        independent reader decodes to the request the call denotes with the *)
(*        predicted message ID and exactly the controls / search options set  *)
(*        since the previous call (value sets as multisets); nothing was sent *)
(*        for a locally rejected call; the call ended as predicted (timeout   *)
(*        after exactly the duration set for this call, hang, null);          *)
(*   C03  the returned struct and the helper outcomes equal                   *)
(*        ResultOf(DecodeResponse(bytes the server sent)).                    *)
(* A failed check prints <<"BAD", record, owner, ...>> and the replay goes on *)
(* with the specification's state.  Three shadow states follow the known      *)
(* deviations so that a C02 disagreement can be named after the deviation     *)
(* that explains it.                                                          *)
EXTENDS LdapSeq, TLC, Json, IOUtils

Rec == ndJsonDeserialize(IOEnv.TRACE)
VARIABLES l, altS, altL, altSL
tvars == <<mods, last, closed, pend, lastcall, l, altS, altL, altSL>>

Plain(st) == [mods |-> st.mods, last |-> st.last, closed |-> st.closed]

WireOk(res, e) == IF res.haswire THEN DecodeRequest(e.wire) = Denote(res.op, res.a, res.id, res.ctrls) ELSE e.wire = <<>>
(* "answered" only says that the server's bytes reached the caller; what they were read as is C03's *)
OutOk(res, e) == IF res.out = "answered" THEN e.out \notin {"timeout", "hang", "local-error", "null"}
                 ELSE e.out = res.out /\ (res.out = "timeout" => e.elapsed \in {res.tmo, res.tmo + 1})
C02Ok(res, e) == WireOk(res, e) /\ OutOk(res, e)

(* which modifier tells two predictions apart *)
WhichMod(p, q) == IF p.ctrls # q.ctrls \/ p.some # q.some THEN "controls"
                  ELSE IF p.out # q.out \/ p.tmo # q.tmo THEN "timeout" ELSE "search-options"
(* the part of the PDU / outcome that is not as predicted *)
Part(res, e) ==
  IF ~res.haswire THEN "sent-although-rejected"
  ELSE IF e.wire = <<>> THEN "nothing-sent"
  ELSE LET d == DecodeRequest(e.wire)
           w == Denote(res.op, res.a, res.id, res.ctrls)
       IN IF ~d.ok THEN "not-one-well-formed-request"
          ELSE IF d.op # w.op THEN "protocolOp"
          ELSE IF d.id # w.id THEN "messageID"
          ELSE IF d.a # w.a THEN (IF DOMAIN d.a = DOMAIN w.a THEN CHOOSE f \in DOMAIN w.a : d.a[f] # w.a[f] ELSE "shape")
          ELSE IF d.ctrls # w.ctrls THEN "controls"
          ELSE "outcome"
C02Tag(res, e, rS, rL, rSL) ==
  IF C02Ok(rS, e) THEN <<"c02", "mods", WhichMod(res, rS), "non-search-op">>
  ELSE IF C02Ok(rL, e) THEN <<"c02", "mods", WhichMod(res, rL), "local-error">>
  ELSE IF C02Ok(rSL, e) THEN <<"c02", "mods", WhichMod(res, rSL), "local-error+non-search-op">>
  ELSE <<"c02", "pdu", res.op, Part(res, e), e.out>>

C03Applies(res, e) == res.out = "answered" /\ e.out \notin {"timeout", "hang", "local-error", "null"} /\ e.resp # <<>>
C03Ok(res, e) ==
  C03Applies(res, e) =>
     LET d == DecodeResponse(e.resp) IN
     e.out = "answered" /\ d.ok /\ TextOk(d) /\ d.kind = RespTag(res.op) /\ e.ret = ResultOf(d)
C03Tag(res, e) ==
  IF e.out # "answered" THEN <<"c03", "ret", res.op, "no-result", e.out>>
  ELSE LET d == DecodeResponse(e.resp) IN
       IF ~(d.ok /\ TextOk(d) /\ d.kind = RespTag(res.op)) THEN <<"c03", "harness", res.op, "response-not-well-formed">>
       ELSE LET w == ResultOf(d) IN
            IF DOMAIN w # DOMAIN e.ret THEN <<"c03", "ret", res.op, "helper-payload">>
            ELSE <<"c03", "ret", res.op, CHOOSE f \in DOMAIN w : e.ret[f] # w[f]>>

TInit == /\ l = 1 /\ SeqInit(0)
         /\ altS = Fresh(0) /\ altL = Fresh(0) /\ altSL = Fresh(0)
TNext ==
  /\ l <= Len(Rec) /\ l' = l + 1
  /\ LET e == Rec[l] IN
     CASE e.ev = "Reset" ->
            /\ Reset(e.last)
            /\ altS' = Fresh(e.last) /\ altL' = Fresh(e.last) /\ altSL' = Fresh(e.last)
       [] e.ev = "With" ->
            /\ With(e.w)
            /\ altS' = [altS EXCEPT !.mods = ApplyWith(@, e.w)]
            /\ altL' = [altL EXCEPT !.mods = ApplyWith(@, e.w)]
            /\ altSL' = [altSL EXCEPT !.mods = ApplyWith(@, e.w)]
       [] e.ev = "Call" ->
            LET nS  == CallStep(altS, e.op, e.a, e.srv, TRUE, FALSE)
                nL  == CallStep(altL, e.op, e.a, e.srv, FALSE, TRUE)
                nSL == CallStep(altSL, e.op, e.a, e.srv, TRUE, TRUE)
            IN /\ Call(e.op, e.a, e.srv)
               /\ altS' = Plain(nS) /\ altL' = Plain(nL) /\ altSL' = Plain(nSL)
               /\ (C02Ok(lastcall'.res, e) \/ PrintT(<<"BAD", l>> \o C02Tag(lastcall'.res, e, nS.res, nL.res, nSL.res)))
               /\ (C03Ok(lastcall'.res, e) \/ PrintT(<<"BAD", l>> \o C03Tag(lastcall'.res, e)))
               /\ ModsOneShot'
Spec == TInit /\ [][TNext]_tvars
Accepted == IF TLCGet("stats").diameter - 1 = Len(Rec) THEN TRUE
            ELSE Print(<<"TRACE-NOT-CONSUMED", TLCGet("stats").diameter, Len(Rec)>>, FALSE)
=============================================================================
