SPECIFICATION Spec
CONSTANTS
  HPool = {2, 3, 6, 9, 10, 11}
  MaxStr = 2
  Ext3 = FALSE
  ByteVals = TRUE
  EmitVectors = TRUE
INVARIANTS TotalInv PrefixClosedInv OrigMsg OrigTail TruncNeedMore AltFormSame ScanDecAgree NeedMoreOnlyIfShort Emit
CHECK_DEADLOCK FALSE
