------------------------------- MODULE MsgId -------------------------------
(* The message-ID allocator on its own (C05): the probing definition used by LdapConn and its       *)
(* declarative characterisation, checked equal for every (last, used) of a small ID space, and the   *)
(* trace specification for allocator events recorded from the real code with the real MaxId.        *)
EXTENDS Integers, Sequences, FiniteSets, TLC

CONSTANT MaxId
Ids == 1..MaxId
Succ(n) == IF n = MaxId THEN 1 ELSE n + 1
RECURSIVE Probe(_, _)
Probe(n, u) == IF Succ(n) \notin u THEN Succ(n) ELSE Probe(Succ(n), u)
CycDist(a, b) == IF b > a THEN b - a ELSE b + MaxId - a
IsNextId(i, l, u) == /\ i \in Ids /\ i \notin u
                     /\ \A j \in Ids : CycDist(l, j) < CycDist(l, i) => j \in u

VARIABLES last, used
Init == last \in 0..MaxId /\ used \in SUBSET Ids /\ used # Ids
Alloc == /\ used # Ids
         /\ LET i == Probe(last, used) IN last' = i /\ used' = used \cup {i}
Release(i) == i \in used /\ used' = used \ {i} /\ UNCHANGED last
Next == Alloc \/ \E i \in Ids : Release(i)
Spec == Init /\ [][Next]_<<last, used>>

TypeOK == last \in 0..MaxId /\ used \subseteq Ids
AllocLawOK == used # Ids => IsNextId(Probe(last, used), last, used)
(* the allocated ID is never one in use, is in range, and wraps from MaxId to 1 *)
AllocFresh == [][last' # last => (last' \in Ids /\ last' \notin used)]_<<last, used>>
=============================================================================
