SPECIFICATION Spec
CONSTANTS
  Ops = {"o1", "o2"}
  NoOp = "none"
  MaxId = 4
  Last0 <- LastWrap
  MaxItems = 1
  ItemTypes <- EntOnly
  MaxOrphans = 0
  Kinds <- KindsAll
  Tmo = {0}
  Horizon = 0
  AllowFaults = TRUE
  OpenGarbage = FALSE
  AdapterErrors = FALSE
  AllowCancel = FALSE
  AllowStall = FALSE
  AbstractTime = TRUE
  LeakSearchIdOnDone = FALSE
  AbandonKeepsTargetId = FALSE
  DirectStaysActive = FALSE
  StaleInsertAfterScrub = FALSE
INVARIANTS TypeOK FailFast NotStuck UnbindCloses Routing
PROPERTIES DeliveredSurvives
CHECK_DEADLOCK FALSE
