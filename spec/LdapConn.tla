------------------------------ MODULE LdapConn ------------------------------
(***************************************************************************)
(* The ldap3 connection as a concurrent system: any number of handles      *)
(* start operations (reserve a message ID, enqueue a request, wait), one   *)
(* driver task select!s over the scrub queue, the request queue and the    *)
(* socket, a server answers in any order, the transport may fail, and      *)
(* virtual time advances.  One action per select! branch of turn() and one *)
(* per await-separated section of op_call / next_inner / finish_inner.     *)
(*                                                                         *)
(* Each driver action exists in a parametrised form (suffix P) taking the  *)
(* post-state of the bookkeeping variables (used, resmap, seamap); the     *)
(* plain form instantiates it with the reference bookkeeping.  The trace   *)
(* specification (TraceLdapConn) uses the P forms to adopt a logged value  *)
(* when it differs from the reference, recording who owns the difference.  *)
(*                                                                         *)
(* Properties: C01 Routing, C05 UniqueIds/IdRange/AllocLaw, C12 Timeout*,  *)
(* C13 NoLeak/AbandonEffect, C04 FailFast/NoInvention/Termination.         *)
(***************************************************************************)
EXTENDS Integers, Sequences, FiniteSets, TLC

CONSTANTS Ops,            \* operation slots; each is used for at most one operation per behaviour
          NoOp,           \* a value not in Ops
          MaxId,          \* top of the message-ID space (2147483647 in the code)
          Last0,          \* set of initial positions of the ID counter
          MaxItems,       \* non-final items the server may send per search
          ItemTypes,      \* subset of {"ent", "ref", "int"}
          MaxOrphans,     \* responses the server may send under IDs nobody is waiting on
          Kinds,          \* Kinds[o] : operation kinds slot o may take
          Tmo,            \* timeout values an operation may carry (0 = none, -1 = a zero-length timeout, n > 0 = n ticks)
          Horizon,        \* the clock stops advancing here (model checking only)
          AllowFaults,    \* transport faults enabled
          AllowStall,     \* the peer may stop reading: the driver blocks in the middle of a send until the peer resumes
          OpenGarbage,    \* the peer may send an undecodable frame and keep the connection open (SrvGarbageOpen)
          AdapterErrors,  \* an adapter of an adapted search may fail on an entry
          AllowCancel,    \* the caller may drop an operation future while it waits (select!, an outer timeout): no scrub is sent
          AbstractTime,   \* TRUE: a timer may fire at any moment (no clock); FALSE: explicit clock `now`
          \* named deviations of the pinned code; all FALSE = the design the properties describe
          LeakSearchIdOnDone, AbandonKeepsTargetId, DirectStaysActive, StaleInsertAfterScrub

VARIABLES last, used,                 \* msgmap: ID counter and in-use set (shared, under a mutex)
          reqQ, scrubQ,               \* unbounded channels handle -> driver
          resmap, seamap,             \* driver routing tables: ID -> op (owner of the reply sender / item sender)
          reply,                      \* reply[o]: the one-shot of op o
          itemQ, itemTx, itemRx,      \* search item channel of op o: queue, sender alive, receiver alive
          phase, kind, oid, target, tmo, adapted, sstate, sres, deadline,   \* caller-side state of op o
          drv, net, s2c, c2s, orphans, tok, hdrop,                          \* driver outcome, transport, server
          now,                        \* virtual time
          got, sentFor                \* history: what each op was handed / what the server sent for it

alloc   == <<last, used>>
queues  == <<reqQ, scrubQ>>
maps    == <<resmap, seamap>>
chans   == <<reply, itemQ, itemTx, itemRx>>
callerv == <<phase, kind, oid, target, tmo, adapted, sstate, sres, deadline>>
envv    == <<drv, net, s2c, c2s, orphans, tok, hdrop>>
hist    == <<got, sentFor>>
vars    == <<alloc, queues, maps, chans, callerv, envv, hist, now>>

Ids == 1..MaxId
Timed(t) == t # 0
(* t = -1: a zero-length timeout; t = -2: the largest Duration there is (it never fires; setting it must change nothing else) *)
Huge == 900000
Dur(t) == IF t = -1 THEN 0 ELSE IF t = -2 THEN Huge ELSE t
NoDeadline == 1000000
(* drv: "run" (in select!), "send" (blocked inside stream.send(): no other branch is served), "exitOk" / "exitErr" *)
DrvAlive == drv \in {"run", "send"}

(* ------------------------- C05: the allocator ------------------------- *)
Succ(n) == IF n = MaxId THEN 1 ELSE n + 1
RECURSIVE Probe(_, _)
Probe(n, u) == IF Succ(n) \notin u THEN Succ(n) ELSE Probe(Succ(n), u)
(* declarative characterisation of the same ID: free, and everything cyclically between is taken *)
CycDist(a, b) == IF b > a THEN b - a ELSE b + MaxId - a          \* steps from a forward to b, in 1..MaxId
IsNextId(i, l, u) == /\ i \in Ids /\ i \notin u
                     /\ \A j \in Ids : CycDist(l, j) < CycDist(l, i) => j \in u

NoMsg == [id |-> 0, typ |-> "none", tok |-> 0, for |-> NoOp]
R(st) == [st |-> st, m |-> NoMsg]
Without(f, k) == [x \in (DOMAIN f) \ {k} |-> f[x]]
With(f, k, v) == [x \in (DOMAIN f) \cup {k} |-> IF x = k THEN v ELSE f[x]]
Restrict(f, S) == [x \in (DOMAIN f) \cap S |-> f[x]]

Init ==
  /\ last \in Last0 /\ used = {}
  /\ reqQ = <<>> /\ scrubQ = <<>> /\ resmap = <<>> /\ seamap = <<>>
  /\ reply = [o \in Ops |-> R("none")]
  /\ itemQ = [o \in Ops |-> <<>>] /\ itemTx = [o \in Ops |-> FALSE] /\ itemRx = [o \in Ops |-> FALSE]
  /\ phase = [o \in Ops |-> "idle"] /\ kind = [o \in Ops |-> "none"]
  /\ oid = [o \in Ops |-> 0] /\ target = [o \in Ops |-> 0]
  /\ tmo = [o \in Ops |-> 0] /\ adapted = [o \in Ops |-> FALSE]
  /\ sstate = [o \in Ops |-> "Fresh"] /\ sres = [o \in Ops |-> NoMsg]
  /\ deadline = [o \in Ops |-> NoDeadline]
  /\ drv = "run" /\ net = "up" /\ s2c = <<>> /\ c2s = {} /\ orphans = 0 /\ tok = 0 /\ hdrop = FALSE
  /\ now = 0
  /\ got = [o \in Ops |-> <<>>] /\ sentFor = [o \in Ops |-> <<>>]

(* =========================== caller side =========================== *)

PushScrub(i) == IF DrvAlive THEN scrubQ' = Append(scrubQ, i) ELSE UNCHANGED scrubQ

(* next_msgid + tx.send: no await in between.  i is the ID handed out; AllocLaw says which it must be. *)
AllocLaw(i) == i = Probe(last, used)
StartP(o, k, t, a, tg, i) ==
  /\ phase[o] = "idle" /\ ~hdrop
  /\ last' = i /\ used' = used \cup {i}
  /\ oid' = [oid EXCEPT ![o] = i] /\ kind' = [kind EXCEPT ![o] = k] /\ tmo' = [tmo EXCEPT ![o] = t]
  /\ adapted' = [adapted EXCEPT ![o] = a] /\ target' = [target EXCEPT ![o] = tg]
  /\ IF DrvAlive
       THEN /\ reqQ' = Append(reqQ, [id |-> i, op |-> o])
            /\ reply' = [reply EXCEPT ![o] = R("empty")]
            /\ phase' = [phase EXCEPT ![o] = "wait"]
            /\ itemRx' = [itemRx EXCEPT ![o] = (k = "search")]
            /\ itemTx' = [itemTx EXCEPT ![o] = (k = "search")]
            /\ deadline' = [deadline EXCEPT ![o] = IF Timed(t) THEN now + Dur(t) ELSE NoDeadline]
       ELSE /\ phase' = [phase EXCEPT ![o] = "fail"]                      \* OpSend error, at once
            /\ UNCHANGED <<reqQ, reply, itemRx, itemTx, deadline>>
  /\ sstate' = [sstate EXCEPT ![o] = IF k = "search" /\ ~DrvAlive THEN "Error" ELSE @]
  /\ UNCHANGED <<scrubQ, maps, itemQ, sres, envv, hist, now>>
Start(o, k, t, a, tg) == Cardinality(used) < MaxId /\ StartP(o, k, t, a, tg, Probe(last, used))

(* the reply arrives: a result for a single op, Null for search start / abandon / unbind *)
RecvReply(o) ==
  /\ phase[o] = "wait" /\ reply[o].st \in {"null", "val"}
  /\ IF kind[o] = "search"
       THEN /\ phase' = [phase EXCEPT ![o] = "stream"]
            /\ sstate' = [sstate EXCEPT ![o] = "Active"] /\ UNCHANGED got
       ELSE /\ phase' = [phase EXCEPT ![o] = "done"] /\ UNCHANGED sstate
            /\ got' = [got EXCEPT ![o] = IF reply[o].st = "null" THEN @ ELSE Append(@, reply[o].m)]
  /\ reply' = [reply EXCEPT ![o] = R("none")]
  /\ deadline' = [deadline EXCEPT ![o] = NoDeadline]
  /\ UNCHANGED <<alloc, queues, maps, itemQ, itemTx, itemRx, kind, oid, target, tmo, adapted, sres, envv, sentFor, now>>

(* the reply sender was dropped (driver gone, scrubbed, abandoned): ResultRecv error *)
ReplyDropped(o) ==
  /\ phase[o] = "wait" /\ reply[o].st = "dropped"
  /\ phase' = [phase EXCEPT ![o] = "fail"]
  /\ sstate' = [sstate EXCEPT ![o] = IF kind[o] = "search" THEN "Error" ELSE @]
  /\ itemRx' = [itemRx EXCEPT ![o] = FALSE]
  /\ reply' = [reply EXCEPT ![o] = R("none")]
  /\ deadline' = [deadline EXCEPT ![o] = NoDeadline]
  /\ UNCHANGED <<alloc, queues, maps, itemQ, itemTx, kind, oid, target, tmo, adapted, sres, envv, hist, now>>

(* time::timeout elapsed while waiting for the reply; TimeGuard says when *)
TimeGuard(o) == AbstractTime \/ now = deadline[o]
TimeoutCore(o) ==
  /\ phase[o] = "wait" /\ Timed(tmo[o]) /\ reply[o].st = "empty"
  /\ PushScrub(oid[o])
  /\ phase' = [phase EXCEPT ![o] = "fail"]
  /\ sstate' = [sstate EXCEPT ![o] = IF kind[o] = "search" THEN "Error" ELSE @]
  /\ itemRx' = [itemRx EXCEPT ![o] = FALSE]
  /\ reply' = [reply EXCEPT ![o] = R("none")]                          \* receiver dropped with the future
  /\ deadline' = [deadline EXCEPT ![o] = NoDeadline]
  /\ UNCHANGED <<alloc, reqQ, maps, itemQ, itemTx, kind, oid, target, tmo, adapted, sres, envv, hist, now>>
Timeout(o) == TimeGuard(o) /\ TimeoutCore(o)

(* the caller drops the future of a waiting single operation (cancellation: select!, an outer timeout): the reply receiver
   goes away, nothing else happens - in particular no ID scrub is sent.  Phase "gone": the library was never told.
   Not part of any listed property; see DESIGN.md 12.4 *)
Cancel(o) ==
  /\ AllowCancel /\ phase[o] = "wait" /\ kind[o] = "single"
  /\ phase' = [phase EXCEPT ![o] = "gone"]
  /\ reply' = [reply EXCEPT ![o] = R("none")]
  /\ deadline' = [deadline EXCEPT ![o] = NoDeadline]
  /\ UNCHANGED <<alloc, queues, maps, itemQ, itemTx, itemRx, kind, oid, target, tmo, adapted, sstate, sres, envv, hist, now>>

(* SearchStream::next(): the call, then one of four returns *)
NextCall(o) ==
  /\ phase[o] = "stream" /\ sstate[o] = "Active"
  /\ phase' = [phase EXCEPT ![o] = "next"]
  /\ deadline' = [deadline EXCEPT ![o] = IF Timed(tmo[o]) THEN now + Dur(tmo[o]) ELSE NoDeadline]
  /\ UNCHANGED <<alloc, queues, maps, chans, kind, oid, target, tmo, adapted, sstate, sres, envv, hist, now>>

(* under EntriesOnly references and intermediate messages are absorbed inside the call; the per-item timer restarts *)
Absorbable(o) == phase[o] = "next" /\ adapted[o] /\ itemQ[o] # <<>> /\ Head(itemQ[o]).typ \in {"ref", "int"}
NextAbsorb(o) ==
  /\ Absorbable(o)
  /\ itemQ' = [itemQ EXCEPT ![o] = Tail(@)]
  /\ got' = [got EXCEPT ![o] = Append(@, Head(itemQ[o]))]        \* consumed by the operation's adapter chain
  /\ deadline' = [deadline EXCEPT ![o] = IF Timed(tmo[o]) THEN now + Dur(tmo[o]) ELSE NoDeadline]
  /\ UNCHANGED <<alloc, queues, maps, reply, itemTx, itemRx, phase, kind, oid, target, tmo, adapted, sstate, sres, envv, sentFor, now>>

NextItem(o) ==        \* an entry / referral / intermediate message
  /\ phase[o] = "next" /\ itemQ[o] # <<>> /\ Head(itemQ[o]).typ # "done" /\ ~Absorbable(o)
  /\ itemQ' = [itemQ EXCEPT ![o] = Tail(@)]
  /\ got' = [got EXCEPT ![o] = Append(@, Head(itemQ[o]))]
  /\ phase' = [phase EXCEPT ![o] = "stream"]
  /\ deadline' = [deadline EXCEPT ![o] = NoDeadline]
  /\ UNCHANGED <<alloc, queues, maps, reply, itemTx, itemRx, kind, oid, target, tmo, adapted, sstate, sres, envv, sentFor, now>>

(* an adapter of the chain (user code) fails on the entry it was handed: the entry is consumed, the stream is in Error, and -
   unlike a timeout - nothing has told the driver: finish() must still scrub *)
NextAdapterErr(o) ==
  /\ phase[o] = "next" /\ adapted[o] /\ itemQ[o] # <<>> /\ Head(itemQ[o]).typ = "ent"
  /\ itemQ' = [itemQ EXCEPT ![o] = Tail(@)]
  /\ got' = [got EXCEPT ![o] = Append(@, Head(itemQ[o]))]
  /\ sstate' = [sstate EXCEPT ![o] = "Error"]
  /\ phase' = [phase EXCEPT ![o] = "stream"]
  /\ deadline' = [deadline EXCEPT ![o] = NoDeadline]
  /\ UNCHANGED <<alloc, queues, maps, reply, itemTx, itemRx, kind, oid, target, tmo, adapted, sres, envv, sentFor, now>>

NextDone(o) ==        \* SearchResultDone: Ok(None), result stored, receiver dropped
  /\ phase[o] = "next" /\ itemQ[o] # <<>> /\ Head(itemQ[o]).typ = "done"
  /\ itemQ' = [itemQ EXCEPT ![o] = Tail(@)]
  /\ sres' = [sres EXCEPT ![o] = Head(itemQ[o])]
  /\ itemRx' = [itemRx EXCEPT ![o] = FALSE]
  /\ sstate' = [sstate EXCEPT ![o] = IF adapted[o] \/ ~DirectStaysActive THEN "Done" ELSE "Active"]
  /\ phase' = [phase EXCEPT ![o] = "stream"]
  /\ deadline' = [deadline EXCEPT ![o] = NoDeadline]
  /\ UNCHANGED <<alloc, queues, maps, reply, itemTx, kind, oid, target, tmo, adapted, envv, hist, now>>

NextClosed(o) ==      \* the item sender is gone and nothing is queued: EndOfStream
  /\ phase[o] = "next" /\ itemQ[o] = <<>> /\ ~itemTx[o]
  /\ sstate' = [sstate EXCEPT ![o] = "Error"]
  /\ itemRx' = [itemRx EXCEPT ![o] = FALSE]
  /\ phase' = [phase EXCEPT ![o] = "stream"]
  /\ deadline' = [deadline EXCEPT ![o] = NoDeadline]
  /\ UNCHANGED <<alloc, queues, maps, reply, itemQ, itemTx, kind, oid, target, tmo, adapted, sres, envv, hist, now>>

NextTimeoutCore(o) == \* nothing arrived for tmo[o] since the call began
  /\ phase[o] = "next" /\ itemQ[o] = <<>> /\ itemTx[o] /\ Timed(tmo[o])
  /\ PushScrub(oid[o])
  /\ sstate' = [sstate EXCEPT ![o] = "Error"]
  /\ phase' = [phase EXCEPT ![o] = "stream"]
  /\ deadline' = [deadline EXCEPT ![o] = NoDeadline]
  /\ UNCHANGED <<alloc, reqQ, maps, chans, kind, oid, target, tmo, adapted, sres, envv, hist, now>>
NextTimeout(o) == TimeGuard(o) /\ NextTimeoutCore(o)

(* SearchStream::finish(): scrub unless Done, Closed, receiver dropped *)
Finish(o) ==
  /\ phase[o] = "stream" /\ sstate[o] \in {"Active", "Done", "Error"}
  /\ IF sstate[o] # "Done" THEN PushScrub(oid[o]) ELSE UNCHANGED scrubQ
  /\ sstate' = [sstate EXCEPT ![o] = "Closed"]
  /\ itemRx' = [itemRx EXCEPT ![o] = FALSE]
  /\ phase' = [phase EXCEPT ![o] = "done"]
  /\ UNCHANGED <<alloc, reqQ, maps, reply, itemQ, itemTx, kind, oid, target, tmo, adapted, sres, deadline, envv, hist, now>>
(* what finish() returns: the stored result if the stream was read to the end, else synthetic 88 *)
FinishValue(o) == IF sres[o].typ = "done" THEN sres[o].tok ELSE 0

(* a search whose start failed leaves an Error stream object; finishing it scrubs its ID *)
FinishFailed(o) ==
  /\ phase[o] = "fail" /\ kind[o] = "search" /\ sstate[o] = "Error"
  /\ PushScrub(oid[o])
  /\ sstate' = [sstate EXCEPT ![o] = "Closed"]
  /\ UNCHANGED <<alloc, reqQ, maps, chans, phase, kind, oid, target, tmo, adapted, sres, deadline, envv, hist, now>>

(* a search stream is dropped without finish(): the item receiver goes away, no scrub is sent (SearchStream has no Drop) *)
StreamDrop(o) ==
  /\ AllowCancel /\ phase[o] = "stream"
  /\ phase' = [phase EXCEPT ![o] = "gone"]
  /\ itemRx' = [itemRx EXCEPT ![o] = FALSE]
  /\ UNCHANGED <<alloc, queues, maps, reply, itemQ, itemTx, kind, oid, target, tmo, adapted, sstate, sres, deadline, envv, hist, now>>

(* every handle, stream and adapter clone has been dropped *)
Terminal == {"idle", "done", "fail", "gone"}
NobodyActive == \A o \in Ops : phase[o] \in Terminal
DropHandles ==
  /\ ~hdrop /\ NobodyActive
  /\ hdrop' = TRUE
  /\ UNCHANGED <<alloc, queues, maps, chans, callerv, drv, net, s2c, c2s, orphans, tok, hist, now>>

(* ====================== driver: one action per select! branch ====================== *)

(* senders follow the routing tables: an entry that disappears without delivery drops its sender *)
DropAll ==   \* drop(self)
  /\ reply' = [o \in Ops |-> IF reply[o].st = "empty" THEN R("dropped") ELSE reply[o]]
  /\ itemTx' = [o \in Ops |-> FALSE]
  /\ reqQ' = <<>> /\ scrubQ' = <<>> /\ resmap' = <<>> /\ seamap' = <<>>

ReplyAfter(RS, delivered) ==    \* reply' when resmap becomes RS and `delivered` (an op or NoOp) got a value elsewhere
  [o \in Ops |-> IF o # delivered /\ reply[o].st = "empty" /\ (\E i \in DOMAIN resmap : resmap[i] = o /\ i \notin DOMAIN RS)
                   THEN R("dropped") ELSE reply[o]]
ItemTxAfter(SS) ==
  [o \in Ops |-> IF \E i \in DOMAIN seamap : seamap[i] = o /\ i \notin DOMAIN SS THEN FALSE ELSE itemTx[o]]

(* --- scrub branch --- *)
ScrubRef == LET i == Head(scrubQ) IN
  [u |-> used \ {i}, r |-> Restrict(resmap, DOMAIN resmap \ {i}), s |-> Restrict(seamap, DOMAIN seamap \ {i})]
DrvScrubP(U, RS, SS) ==
  /\ drv = "run" /\ scrubQ # <<>>
  /\ scrubQ' = Tail(scrubQ)
  /\ used' = U /\ resmap' = RS /\ seamap' = SS
  /\ reply' = ReplyAfter(RS, NoOp) /\ itemTx' = ItemTxAfter(SS)
  /\ UNCHANGED <<last, reqQ, itemQ, itemRx, callerv, envv, hist, now>>
DrvScrub == scrubQ # <<>> /\ DrvScrubP(ScrubRef.u, ScrubRef.r, ScrubRef.s)

(* --- request branch --- *)
ReqHead == Head(reqQ)
CallerGone(o) == kind[o] \in {"single", "search"} /\ reply[o].st = "none"
\* a request whose caller already gave up is still written, but (unless the pinned deviation is on) no routing
\* entry is kept for it and its ID reservation is dropped: nobody is waiting and no scrub may be left to come
\* stream.send fails: the driver returns Err, everything it owns is dropped
DrvOpSendFail ==
  /\ DrvAlive /\ reqQ # <<>>
  /\ net \notin {"up", "eof", "reset", "stall"}  \* a half-closed peer still accepts writes in the mock
  /\ drv' = "exitErr" /\ DropAll
  /\ UNCHANGED <<alloc, itemQ, itemRx, callerv, net, s2c, c2s, orphans, tok, hdrop, hist, now>>
OpRef == LET r == ReqHead  o == r.op  i == r.id  t == target[o] IN
  IF ~StaleInsertAfterScrub /\ CallerGone(o) THEN [u |-> used \ {i}, r |-> resmap, s |-> seamap] ELSE
  CASE kind[o] = "single"  -> [u |-> used, r |-> With(resmap, i, o), s |-> seamap]
    [] kind[o] = "search"  -> [u |-> used, r |-> resmap, s |-> With(seamap, i, o)]
    [] kind[o] = "abandon" -> [u |-> IF AbandonKeepsTargetId THEN used \ {i} ELSE used \ {i, t},
                               r |-> Restrict(resmap, DOMAIN resmap \ {t}), s |-> Restrict(seamap, DOMAIN seamap \ {t})]
    [] kind[o] = "unbind"  -> [u |-> used, r |-> resmap, s |-> seamap]
(* the peer does not read: the driver has dequeued the request (it stays at the head of reqQ in the model) and is stuck
   in stream.send(); it serves no other branch until the write goes through or fails *)
DrvOpBegin ==
  /\ drv = "run" /\ reqQ # <<>> /\ net = "stall"
  /\ drv' = "send"
  /\ UNCHANGED <<alloc, queues, maps, chans, callerv, net, s2c, c2s, orphans, tok, hdrop, hist, now>>
DrvOpSentP(U, RS, SS) ==
  /\ DrvAlive /\ reqQ # <<>> /\ drv' = "run"
  /\ net \in {"up", "eof", "reset"}
  /\ LET r == ReqHead  o == r.op  i == r.id IN
     /\ reqQ' = Tail(reqQ)
     /\ c2s' = c2s \cup {[id |-> i, op |-> o, kind |-> kind[o], tg |-> target[o], fin |-> kind[o] \in {"abandon", "unbind"}]}
     /\ used' = U /\ resmap' = RS /\ seamap' = SS
     /\ itemTx' = [ItemTxAfter(SS) EXCEPT ![o] = IF kind[o] = "search" THEN i \in DOMAIN SS ELSE @]
     /\ reply' = [p \in Ops |-> IF p = o /\ kind[o] # "single"
                                   THEN (IF reply[o].st = "empty" THEN R("null") ELSE reply[o])
                                   ELSE ReplyAfter(RS, NoOp)[p]]
     /\ net' = IF kind[o] = "unbind" /\ net = "up" THEN "closedByClient" ELSE net
  /\ UNCHANGED <<last, scrubQ, itemQ, itemRx, callerv, s2c, orphans, tok, hdrop, hist, now>>
DrvOpSent == reqQ # <<>> /\ DrvOpSentP(OpRef.u, OpRef.r, OpRef.s)
DrvOp == DrvOpSendFail \/ DrvOpSent \/ DrvOpBegin

(* --- receive branch --- *)
RecvRef == LET m == Head(s2c)  i == m.id IN
  IF i \in DOMAIN seamap THEN
       [u |-> IF m.typ = "done" /\ ~LeakSearchIdOnDone THEN used \ {i} ELSE used,
        r |-> resmap,
        s |-> IF m.typ = "done" \/ ~itemRx[seamap[i]] THEN Restrict(seamap, DOMAIN seamap \ {i}) ELSE seamap]
  ELSE IF i \in DOMAIN resmap THEN
       [u |-> used \ {i}, r |-> Restrict(resmap, DOMAIN resmap \ {i}), s |-> seamap]
  ELSE [u |-> used, r |-> resmap, s |-> seamap]
(* a well-formed envelope carrying a SearchResultDone whose body is not an LDAPResult: under the ID of a search being routed it
   cannot be delivered as the final result - the driver returns Err (under any other ID it is an unmatched response) *)
BadDoneHere == s2c # <<>> /\ Head(s2c).typ = "baddone" /\ Head(s2c).id \in DOMAIN seamap
DrvRecvBadDone ==
  /\ drv = "run" /\ BadDoneHere
  /\ drv' = "exitErr" /\ DropAll /\ s2c' = <<>>
  /\ UNCHANGED <<alloc, itemQ, itemRx, callerv, net, c2s, orphans, tok, hdrop, hist, now>>
DrvRecvP(U, RS, SS) ==
  /\ drv = "run" /\ s2c # <<>> /\ Head(s2c).typ # "garbage" /\ ~BadDoneHere
  /\ LET m == Head(s2c)  i == m.id IN
     /\ s2c' = Tail(s2c)
     /\ used' = U /\ resmap' = RS /\ seamap' = SS
     /\ IF i \in DOMAIN seamap THEN
            LET o == seamap[i] IN
            /\ itemQ' = IF itemRx[o] THEN [itemQ EXCEPT ![o] = Append(@, m)] ELSE itemQ
            /\ itemTx' = ItemTxAfter(SS)
            /\ reply' = ReplyAfter(RS, NoOp)
        ELSE IF i \in DOMAIN resmap THEN
            LET o == resmap[i] IN
            /\ reply' = [p \in Ops |-> IF p = o THEN (IF reply[o].st = "empty" THEN [st |-> "val", m |-> m] ELSE reply[o])
                                       ELSE ReplyAfter(RS, o)[p]]
            /\ itemTx' = ItemTxAfter(SS) /\ UNCHANGED itemQ
        ELSE /\ reply' = ReplyAfter(RS, NoOp) /\ itemTx' = ItemTxAfter(SS) /\ UNCHANGED itemQ   \* unmatched id: dropped
  /\ UNCHANGED <<last, queues, itemRx, callerv, drv, net, c2s, orphans, tok, hdrop, hist, now>>
DrvRecv == s2c # <<>> /\ DrvRecvP(RecvRef.u, RecvRef.r, RecvRef.s)

(* an undecodable frame: the driver returns Err *)
DrvRecvBad ==
  /\ drv = "run" /\ s2c # <<>> /\ Head(s2c).typ = "garbage"
  /\ drv' = "exitErr" /\ DropAll /\ s2c' = <<>>
  /\ UNCHANGED <<alloc, itemQ, itemRx, callerv, net, c2s, orphans, tok, hdrop, hist, now>>

(* stream.next() = None (EOF) or Err (reset) once everything buffered has been read *)
DrvEof ==
  /\ drv = "run" /\ s2c = <<>> /\ net \in {"eof", "reset"}
  /\ drv' = IF net = "eof" THEN "exitOk" ELSE "exitErr"
  /\ DropAll
  /\ UNCHANGED <<alloc, itemQ, itemRx, callerv, net, s2c, c2s, orphans, tok, hdrop, hist, now>>

(* rx.recv() = None: all handles dropped, queue drained *)
DrvReqClosed ==
  /\ drv = "run" /\ hdrop /\ reqQ = <<>>
  /\ drv' = "exitOk" /\ DropAll
  /\ UNCHANGED <<alloc, itemQ, itemRx, callerv, net, s2c, c2s, orphans, tok, hdrop, hist, now>>

(* ============================ server / environment ============================ *)
NonFinalSent(o) == Len(SelectSeq(sentFor[o], LAMBDA x : x.typ \in {"ent", "ref", "int"}))
SrvSend(r, typ) ==
  /\ net \in {"up", "wfail", "stall"} /\ r \in c2s /\ ~r.fin
  /\ \/ r.kind = "single" /\ typ = "res"
     \/ r.kind = "search" /\ typ = "done"
     \/ r.kind = "search" /\ typ \in ItemTypes /\ NonFinalSent(r.op) < MaxItems
  /\ tok' = tok + 1
  /\ LET m == [id |-> r.id, typ |-> typ, tok |-> tok + 1, for |-> r.op] IN
       /\ s2c' = Append(s2c, m)
       /\ sentFor' = [sentFor EXCEPT ![r.op] = Append(@, m)]
  /\ c2s' = IF typ \in {"res", "done"} THEN (c2s \ {r}) \cup {[r EXCEPT !.fin = TRUE]} ELSE c2s
  /\ UNCHANGED <<alloc, queues, maps, chans, callerv, drv, net, orphans, hdrop, got, now>>

(* a response nobody is waiting for: ID 0, or the ID of an operation that is already complete for the client *)
OrphanIds == {0} \cup {oid[p] : p \in {q \in Ops : phase[q] \in {"done", "fail"} /\ oid[q] # 0}}
SrvOrphan(i, typ) ==
  /\ net \in {"up", "wfail", "stall"} /\ orphans < MaxOrphans /\ i \in OrphanIds /\ typ \in {"res", "ent", "done"}
  /\ i \notin {r.id : r \in {x \in c2s : ~x.fin}}
  /\ i \notin {oid[p] : p \in {q \in Ops : phase[q] \in {"wait", "stream", "next"}}}
  /\ orphans' = orphans + 1 /\ tok' = tok + 1
  /\ s2c' = Append(s2c, [id |-> i, typ |-> typ, tok |-> tok + 1, for |-> NoOp])
  /\ UNCHANGED <<alloc, queues, maps, chans, callerv, drv, net, c2s, hdrop, hist, now>>

(* the server "answers" a search with a SearchResultDone it has botched (and considers the search answered) *)
SrvBadDone(r) ==
  /\ AllowFaults /\ net \in {"up", "wfail", "stall"} /\ r \in c2s /\ ~r.fin /\ r.kind = "search"
  /\ s2c' = Append(s2c, [id |-> r.id, typ |-> "baddone", tok |-> 0, for |-> NoOp])
  /\ c2s' = (c2s \ {r}) \cup {[r EXCEPT !.fin = TRUE]}
  /\ UNCHANGED <<alloc, queues, maps, chans, callerv, drv, net, orphans, tok, hdrop, hist, now>>

SrvGarbage ==
  /\ AllowFaults /\ net \in {"up", "wfail", "stall"}
  /\ s2c' = Append(s2c, [id |-> 0, typ |-> "garbage", tok |-> 0, for |-> NoOp])
  /\ net' = "eof"                                     \* nothing after it matters: the decoder is dead
  /\ UNCHANGED <<alloc, queues, maps, chans, callerv, drv, c2s, orphans, tok, hdrop, hist, now>>

(* the same, the peer keeping the connection open and going on as if nothing had happened: the client must not wait for more *)
SrvGarbageOpen ==
  /\ AllowFaults /\ OpenGarbage /\ net \in {"up", "wfail", "stall"}
  /\ drv \in {"run", "send"} /\ \A n \in 1..Len(s2c) : s2c[n].typ # "garbage"        \* once: what follows it is never read
  /\ s2c' = Append(s2c, [id |-> 0, typ |-> "garbage", tok |-> 0, for |-> NoOp])
  /\ UNCHANGED <<alloc, queues, maps, chans, callerv, drv, net, c2s, orphans, tok, hdrop, hist, now>>

SrvClose(how) ==      \* "eof": orderly close; "reset": read error; "wfail": writes start failing
  /\ how \in {"eof", "reset", "wfail"}
  /\ AllowFaults \/ (net = "closedByClient" /\ how = "eof")
  /\ net \in {"up", "closedByClient", "wfail", "stall"} /\ net # how /\ net' = how
  /\ UNCHANGED <<alloc, queues, maps, chans, callerv, drv, s2c, c2s, orphans, tok, hdrop, hist, now>>

(* the peer stops / resumes reading what the client writes (a full socket buffer): nothing is lost, writes just wait *)
SrvStall  == /\ AllowStall /\ net = "up" /\ net' = "stall"
             /\ UNCHANGED <<alloc, queues, maps, chans, callerv, drv, s2c, c2s, orphans, tok, hdrop, hist, now>>
SrvResume == /\ net = "stall" /\ net' = "up"
             /\ UNCHANGED <<alloc, queues, maps, chans, callerv, drv, s2c, c2s, orphans, tok, hdrop, hist, now>>

(* virtual time: Tokio's paused clock only moves when nothing is runnable; the harness moves it one unit at a time *)
TimerDue == \E o \in Ops : phase[o] \in {"wait", "next"} /\ deadline[o] <= now
TickCore == now < Horizon /\ now' = now + 1
            /\ UNCHANGED <<alloc, queues, maps, chans, callerv, envv, hist>>
Tick == ~TimerDue /\ TickCore

(* ================================= next-state ================================= *)
KnownIds == {oid[p] : p \in Ops} \ {0}
CallerStep == \E o \in Ops : RecvReply(o) \/ ReplyDropped(o) \/ Timeout(o)
                             \/ NextItem(o) \/ NextDone(o) \/ NextClosed(o) \/ NextTimeout(o) \/ NextAbsorb(o)
                             \/ (AdapterErrors /\ NextAdapterErr(o))
UserStep   == \E o \in Ops : NextCall(o) \/ Finish(o) \/ Cancel(o) \/ StreamDrop(o)      \* FinishFailed is unreachable through the public API
DriverStep == DrvScrub \/ DrvOp \/ DrvRecv \/ DrvRecvBad \/ DrvRecvBadDone \/ DrvEof \/ DrvReqClosed
StartStep  == \E o \in Ops, k \in {"single", "search", "abandon", "unbind"}, t \in Tmo, a \in BOOLEAN, tg \in KnownIds \cup {0} :
                 /\ k \in Kinds[o]
                 /\ (k = "abandon") <=> (tg # 0)
                 /\ (a => k = "search")
                 /\ (k \in {"abandon", "unbind"} => t = 0)
                 /\ Start(o, k, t, a, tg)
ServerStep == \/ \E r \in c2s, typ \in {"res", "ent", "ref", "int", "done"} : SrvSend(r, typ)
              \/ \E i \in 0..MaxId, typ \in {"res", "ent", "done"} : SrvOrphan(i, typ)
              \/ \E how \in {"eof", "reset", "wfail"} : SrvClose(how)
              \/ SrvGarbage \/ SrvGarbageOpen \/ SrvStall \/ SrvResume
              \/ \E r \in c2s : SrvBadDone(r)
Next == StartStep \/ CallerStep \/ UserStep \/ DriverStep \/ ServerStep \/ Tick \/ DropHandles

Spec == Init /\ [][Next]_vars

(* ================================== properties ================================== *)
TypeOK == /\ used \subseteq Ids /\ last \in 0..MaxId
          /\ DOMAIN resmap \subseteq Ids /\ DOMAIN seamap \subseteq Ids

(* ---- C01: what an operation is handed was sent under its own ID, in order; orphans reach nobody ---- *)
Routing == \A o \in Ops : \A n \in 1..Len(got[o]) :
              /\ got[o][n].for = o /\ got[o][n].id = oid[o]
              /\ n <= Len(sentFor[o]) /\ got[o][n] = sentFor[o][n]
(* a stored final result is the server's final message for that search *)
FinalIsFinal == \A o \in Ops : sres[o].typ # "none" =>
                    (sres[o].for = o /\ sres[o].typ = "done" /\ \E n \in 1..Len(sentFor[o]) : sentFor[o][n] = sres[o])

(* ---- C05 ---- *)
Outstanding(o) == phase[o] \in {"wait", "stream", "next"} /\ ~(kind[o] = "search" /\ sstate[o] = "Error")
UniqueIds == \A o, p \in Ops : (o # p /\ Outstanding(o) /\ Outstanding(p)) => oid[o] # oid[p]
IdRange   == \A o \in Ops : phase[o] # "idle" => oid[o] \in Ids
(* unanswered requests on the wire never share an ID *)
WireUnique == \A r, q \in c2s : (r # q /\ ~r.fin /\ ~q.fin) => r.id # q.id
(* an ID stays reserved for as long as a reply to it could still be routed to its owner *)
Protected == \A o \in Ops : (phase[o] = "wait" /\ kind[o] \in {"single", "search"} /\ reply[o].st = "empty") => oid[o] \in used
(* ... and for as long as the driver would still route a response under it to somebody who listens (a search being streamed) *)
LiveRoute(i) == \/ (i \in DOMAIN resmap /\ reply[resmap[i]].st = "empty")
                \/ (i \in DOMAIN seamap /\ itemRx[seamap[i]])
RoutedProtected == \A i \in DOMAIN resmap \cup DOMAIN seamap : LiveRoute(i) => i \in used
AllocAgrees == Cardinality(used) < MaxId => IsNextId(Probe(last, used), last, used)

(* ---- C12 ---- *)
Waiting(o) == (phase[o] = "wait" /\ Timed(tmo[o]) /\ reply[o].st = "empty")
              \/ (phase[o] = "next" /\ Timed(tmo[o]) /\ itemQ[o] = <<>> /\ itemTx[o])
TimeoutExact == AbstractTime \/ \A o \in Ops : Waiting(o) => now <= deadline[o]       \* nobody is still waiting past its deadline
(* liveness form (checked with AbstractTime, where a due timer is an enabled step, under weak fairness of the callers): a timed
   wait always ends - with the response, an error or the timeout - whatever the driver and the peer are doing, in particular
   while the driver is blocked inside a send *)
TimedWait(o) == phase[o] \in {"wait", "next"} /\ Timed(tmo[o])
TimedReturn == \A o \in Ops : TimedWait(o) ~> ~TimedWait(o)
TimeoutKeepsConn == [][(\E o \in Ops : Timeout(o) \/ NextTimeout(o)) => drv' = drv]_vars

(* ---- C13 ---- *)
Quiescent == /\ \A o \in Ops : phase[o] \in Terminal
             /\ reqQ = <<>> /\ scrubQ = <<>> /\ s2c = <<>> /\ drv = "run" /\ net = "up"
NoGhosts == \A o \in Ops : phase[o] # "gone"      \* every operation ended in a way the library was told about
NoLeak == (Quiescent /\ NoGhosts) => (used = {} /\ resmap = <<>> /\ seamap = <<>>)
(* observation (expected to fail, DESIGN.md 12.4): what operations the caller walked away from leave behind once the server
   has finally answered them *)
GhostsAnswered == \A r \in c2s : r.fin
GhostsRelease == (Quiescent /\ GhostsAnswered) => (used = {} /\ resmap = <<>> /\ seamap = <<>>)
MapsSubsetUsed == drv = "run" => (DOMAIN resmap \cup DOMAIN seamap) \subseteq (used \cup {oid[o] : o \in {p \in Ops : phase[p] \in {"done","fail","gone"}}})

(* ---- C10 at this level ---- *)
StreamOK == \A o \in Ops : /\ sstate[o] = "Done" => sres[o].typ = "done"
                          /\ (phase[o] = "stream" /\ sres[o].typ = "done") => sstate[o] = "Done"

(* ---- C04 ---- *)
(* once the driver is gone nobody waits on an empty one-shot or an open item channel *)
FailFast == (~DrvAlive) => \A o \in Ops : /\ (phase[o] = "wait" => reply[o].st # "empty")
                                            /\ (phase[o] = "next" => (itemQ[o] # <<>> \/ ~itemTx[o]))
(* nothing is invented: see Routing; delivered results survive: a value in a one-shot stays until received *)
DeliveredSurvives == [][\A o \in Ops : (reply[o].st = "val" /\ phase'[o] = "wait") => reply'[o] = reply[o]]_vars
UnbindCloses == \A r \in c2s : r.kind = "unbind" => net # "up"
NobodyWaits == \A o \in Ops : phase[o] \in Terminal \cup {"stream"}
Fair == WF_vars(CallerStep) /\ WF_vars(DriverStep)
FairSpec == Spec /\ Fair
Termination == [](net \in {"eof", "reset"} => <>(~DrvAlive /\ NobodyWaits))
(* safety form of the same: a state where the connection is dead, somebody waits, and no internal step is enabled *)
NotStuck == ((net \in {"eof", "reset"} \/ ~DrvAlive) /\ ~NobodyWaits) => ENABLED (CallerStep \/ DriverStep)
=============================================================================
