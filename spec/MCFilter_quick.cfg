SPECIFICATION Spec
CONSTANTS
  Spaces <- Spaces_q
  Attrs <- Attrs_q
  Rules <- Rules_q
  Vals <- Vals_q
  SubVals <- SubVals_q
  CoreAttrs <- CoreAttrs_q
  CoreRules <- CoreRules_q
  CoreVals <- CoreVals_q
  CoreSubVals <- CoreSubVals_q
  Sibs <- Sibs1
  LongLens = {122, 123, 128, 256}
  Plans <- Plans2
  WrapPlans <- Uniform
  MaxDepth = 2
  EmitVectors = TRUE
INVARIANTS StrCheck AstCheck SeedCheck
CHECK_DEADLOCK FALSE
