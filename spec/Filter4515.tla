----------------------------- MODULE Filter4515 -----------------------------
(***************************************************************************)
(* RFC 4515 "String Representation of Search Filters" and the RFC 4511     *)
(* Filter it denotes (property C08).  Written from RFC 4515 section 3,     *)
(* RFC 4512 section 1.4 (oid, descr, numericoid, options), RFC 4511        *)
(* section 4.5.1 (Filter ASN.1) and RFC 4526 (empty and/or), not from      *)
(* src/filter.rs.                                                           *)
(*                                                                         *)
(* A byte is a natural 0..255, a string a sequence of bytes.               *)
(*                                                                         *)
(* Syntax tree (uniform record so that TLC can compare any two):           *)
(*   [t, a, m, dn, v, k]                                                   *)
(*   t  in "and" "or" "not" "eq" "ge" "le" "approx" "pres" "sub" "ext"     *)
(*   a  attribute description bytes (<<>> = absent, only legal for "ext")  *)
(*   m  matching rule bytes ("ext" only, <<>> = absent)                    *)
(*   dn dnAttributes flag ("ext" only)                                     *)
(*   v  sequence of UNESCAPED assertion values: <<value>> for eq/ge/le/    *)
(*      approx/ext, <<>> for pres, <<initial, any.., final>> for sub       *)
(*      (length >= 2, initial/final may be <<>>, every any non-empty,      *)
(*      not all absent)                                                    *)
(*   k  sequence of sub-filters (and/or: any number, not: exactly one)     *)
(*                                                                         *)
(* Decisions where RFC 4515 is ambiguous or the library documents an       *)
(* extension (DESIGN.md 3.4):                                              *)
(*   E1 a bare item without the outer parentheses is a filter;             *)
(*   E2 "(&)" and "(|)" are filters (RFC 4526);                            *)
(*   D1 ":dn" is the dnAttributes flag only when it is followed by ":"     *)
(*      (":dnFoo:=" is the matching rule "dnFoo");                         *)
(*   D2 only lowercase ":dn" is required to be the flag; ParseCI gives the *)
(*      reading in which ABNF case-insensitivity is honoured, and either   *)
(*      reading is acceptable for a string on which they differ;           *)
(*   D3 a single number is read as an attribute type / matching rule       *)
(*      (RFC 4512 wants number 1*(DOT number)); such a string is not in    *)
(*      the strict grammar, so rejecting it is also acceptable;            *)
(*   D4 raw bytes >= 128 are read as value bytes whether or not they form  *)
(*      UTF-8; a string that is not well-formed UTF-8 is not in the strict *)
(*      grammar, so rejecting it is also acceptable.                       *)
(***************************************************************************)
EXTENDS Naturals, Sequences

Ber == INSTANCE Ber

LP == 40  RP == 41  AMP == 38  BAR == 124  BANG == 33  EQ == 61  STAR == 42  BSL == 92
COLON == 58  TILDE == 126  GT == 62  LT == 60  SEMI == 59  DOT == 46  HYP == 45
END == 256                                   \* what At() returns outside the string

IsAlpha(c) == (c >= 65 /\ c <= 90) \/ (c >= 97 /\ c <= 122)
IsDigit(c) == c >= 48 /\ c <= 57
IsHex(c)   == IsDigit(c) \/ (c >= 65 /\ c <= 70) \/ (c >= 97 /\ c <= 102)
HexVal(c)  == IF IsDigit(c) THEN c - 48 ELSE IF c >= 97 THEN c - 87 ELSE c - 55
IsKeyChar(c) == IsAlpha(c) \/ IsDigit(c) \/ c = HYP
At(s, p) == IF p >= 1 /\ p <= Len(s) THEN s[p] ELSE END

(* RFC 4515 section 3: characters that must be escaped in an assertion value *)
MustEsc == {0, LP, RP, STAR, BSL}

(* ------------------------------- syntax tree ---------------------------- *)
Node(t, a, m, dn, v, k) == [t |-> t, a |-> a, m |-> m, dn |-> dn, v |-> v, k |-> k]
FAnd(k)        == Node("and", <<>>, <<>>, FALSE, <<>>, k)
FOr(k)         == Node("or",  <<>>, <<>>, FALSE, <<>>, k)
FNot(f)        == Node("not", <<>>, <<>>, FALSE, <<>>, <<f>>)
FSimple(t, a, v) == Node(t, a, <<>>, FALSE, <<v>>, <<>>)          \* t in eq ge le approx
FPres(a)       == Node("pres", a, <<>>, FALSE, <<>>, <<>>)
FSub(a, parts) == Node("sub", a, <<>>, FALSE, parts, <<>>)
FExt(a, m, dn, v) == Node("ext", a, m, dn, <<v>>, <<>>)
IsComposite(x) == x.t \in {"and", "or", "not"}

(* ----------------------------- the recogniser --------------------------- *)
(* Every parser returns [ok, p, v, why]: p = position after what was read,  *)
(* v = the value, why = class of the failure when ~ok.                      *)
Ok(p, v)  == [ok |-> TRUE,  p |-> p, v |-> v,    why |-> ""]
Fail(why) == [ok |-> FALSE, p |-> 0, v |-> <<>>, why |-> why]

RECURSIVE SkipWhileKey(_, _)
SkipWhileKey(s, p) == IF IsKeyChar(At(s, p)) THEN SkipWhileKey(s, p + 1) ELSE p
RECURSIVE SkipDigits(_, _)
SkipDigits(s, p) == IF IsDigit(At(s, p)) THEN SkipDigits(s, p + 1) ELSE p
(* RFC 4512 number = DIGIT / (LDIGIT 1*DIGIT); 0 = no number here, else the position after it *)
PNumber(s, p) == LET q == SkipDigits(s, p) IN
                 IF q = p THEN 0 ELSE IF q - p > 1 /\ s[p] = 48 THEN 0 ELSE q
RECURSIVE PNumTail(_, _)
PNumTail(s, p) == IF At(s, p) = DOT /\ PNumber(s, p + 1) # 0 THEN PNumTail(s, PNumber(s, p + 1)) ELSE p
(* oid = descr / numericoid (with D3) *)
POid(s, p) == IF IsAlpha(At(s, p)) THEN SkipWhileKey(s, p + 1)
              ELSE IF PNumber(s, p) # 0 THEN PNumTail(s, PNumber(s, p)) ELSE 0
RECURSIVE POptions(_, _)
POptions(s, p) == IF At(s, p) = SEMI /\ SkipWhileKey(s, p + 1) > p + 1 THEN POptions(s, SkipWhileKey(s, p + 1)) ELSE p
(* attributedescription = attributetype options *)
PAttrDesc(s, p) == LET q == POid(s, p) IN IF q = 0 THEN 0 ELSE POptions(s, q)

ValidAttrDesc(a) == a # <<>> /\ PAttrDesc(a, 1) = Len(a) + 1
ValidOid(m)      == m # <<>> /\ POid(m, 1) = Len(m) + 1
(* D3: the type part (before any option) is a single number *)
BareNumber(a) == a # <<>> /\ PNumber(a, 1) # 0 /\ (PNumber(a, 1) = Len(a) + 1 \/ a[PNumber(a, 1)] = SEMI)

(* assertionvalue: stops in front of NUL ( ) * or the end; \hh is unescaped *)
RECURSIVE PValue(_, _, _)
PValue(s, p, acc) ==
  LET c == At(s, p) IN
  IF c = END \/ c = 0 \/ c = LP \/ c = RP \/ c = STAR THEN Ok(p, acc)
  ELSE IF c = BSL THEN
         IF IsHex(At(s, p + 1)) /\ IsHex(At(s, p + 2))
           THEN PValue(s, p + 3, Append(acc, 16 * HexVal(s[p + 1]) + HexVal(s[p + 2])))
           ELSE Fail("bad-escape")
  ELSE PValue(s, p + 1, Append(acc, c))

(* [initial] any [final] after the first value: a sequence of "*" value *)
RECURSIVE PStars(_, _, _)
PStars(s, p, parts) ==
  IF At(s, p) = STAR THEN
     LET r == PValue(s, p + 1, <<>>) IN
     IF ~r.ok THEN r ELSE PStars(s, r.p, Append(parts, r.v))
  ELSE Ok(p, parts)

NoEmptyMiddle(parts) == \A n \in 1..Len(parts) : (parts[n] = <<>>) => n = Len(parts)

IsD(c, ci) == c = 100 \/ (ci /\ c = 68)
IsN(c, ci) == c = 110 \/ (ci /\ c = 78)

(* item = simple / present / substring / extensible; ci: honour ABNF case-insensitivity of ":dn" (D2) *)
PItem(s, p, ci) ==
  LET a  == PAttrDesc(s, p)
      a0 == IF a = 0 THEN p ELSE a
      c  == At(s, a0)
      c1 == At(s, a0 + 1)
      attr == IF a = 0 THEN <<>> ELSE SubSeq(s, p, a - 1)
  IN
  IF c = EQ THEN
       IF a = 0 THEN Fail("empty-attribute") ELSE
       LET ini == PValue(s, a + 1, <<>>) IN
       IF ~ini.ok THEN ini ELSE
       LET st == PStars(s, ini.p, <<>>) IN
       IF ~st.ok THEN st
       ELSE IF ~NoEmptyMiddle(st.v) THEN Fail("adjacent-asterisks")
       ELSE IF st.v = <<>> THEN Ok(st.p, FSimple("eq", attr, ini.v))
       ELSE IF ini.v = <<>> /\ st.v = << <<>> >> THEN Ok(st.p, FPres(attr))
       ELSE Ok(st.p, FSub(attr, <<ini.v>> \o st.v))
  ELSE IF c \in {GT, LT, TILDE} /\ c1 = EQ THEN
       IF a = 0 THEN Fail("empty-attribute") ELSE
       LET v == PValue(s, a + 2, <<>>) IN
       IF ~v.ok THEN v
       ELSE Ok(v.p, FSimple(IF c = GT THEN "ge" ELSE IF c = LT THEN "le" ELSE "approx", attr, v.v))
  ELSE IF c = COLON THEN
       \* extensible = attr [":dn"] [":" oid] ":=" value  /  [":dn"] ":" oid ":=" value      (D1, D2)
       LET hasDn == IsD(c1, ci) /\ IsN(At(s, a0 + 2), ci) /\ At(s, a0 + 3) = COLON
           d == IF hasDn THEN a0 + 3 ELSE a0
           m == IF At(s, d + 1) # EQ THEN POid(s, d + 1) ELSE 0
           e == IF m # 0 THEN m ELSE d
       IN IF At(s, e) # COLON \/ At(s, e + 1) # EQ THEN Fail("syntax")
          ELSE IF a = 0 /\ m = 0 THEN Fail("empty-attribute")          \* neither type nor rule
          ELSE LET v == PValue(s, e + 2, <<>>) IN
               IF ~v.ok THEN v
               ELSE Ok(v.p, FExt(attr, IF m = 0 THEN <<>> ELSE SubSeq(s, d + 1, m - 1), hasDn, v.v))
  ELSE Fail("syntax")

RECURSIVE PFilter(_, _, _), PList(_, _, _, _)
(* filter = "(" filtercomp ")" *)
PFilter(s, p, ci) ==
  IF At(s, p) # LP THEN Fail("syntax") ELSE
  LET c == At(s, p + 1)
      body == IF c = AMP \/ c = BAR THEN
                 LET l == PList(s, p + 2, <<>>, ci) IN
                 IF ~l.ok THEN l ELSE Ok(l.p, IF c = AMP THEN FAnd(l.v) ELSE FOr(l.v))
              ELSE IF c = BANG THEN
                 LET f == PFilter(s, p + 2, ci) IN IF ~f.ok THEN f ELSE Ok(f.p, FNot(f.v))
              ELSE PItem(s, p + 1, ci)
  IN IF ~body.ok THEN body
     ELSE IF At(s, body.p) = RP THEN Ok(body.p + 1, body.v)
     ELSE IF At(s, body.p) = END THEN Fail("unbalanced-parens")
     ELSE IF ~IsComposite(body.v) THEN Fail("unescaped-special")      \* a value ended at NUL ( or *
     ELSE Fail("syntax")
(* filterlist = *filter  (E2: may be empty) *)
PList(s, p, acc, ci) ==
  IF At(s, p) = LP THEN LET f == PFilter(s, p, ci) IN IF ~f.ok THEN f ELSE PList(s, f.p, Append(acc, f.v), ci)
  ELSE Ok(p, acc)

ParseX(s, ci) == LET r == IF At(s, 1) = LP THEN PFilter(s, 1, ci) ELSE PItem(s, 1, ci) IN     \* E1
                 IF ~r.ok THEN r
                 ELSE IF r.p = Len(s) + 1 THEN r
                 ELSE IF At(s, 1) # LP /\ At(s, r.p) \in {0, LP, STAR} THEN Fail("unescaped-special")
                 ELSE Fail("trailing-text")
Parse(s)   == ParseX(s, FALSE)
ParseCI(s) == ParseX(s, TRUE)

(* D2: does the string contain ":" d n ":" with an uppercase letter (the only place the readings differ) *)
HasUpperDn(s) == \E p \in 1..Len(s) :
                   /\ s[p] = COLON /\ At(s, p + 3) = COLON
                   /\ At(s, p + 1) \in {100, 68} /\ At(s, p + 2) \in {110, 78}
                   /\ (At(s, p + 1) = 68 \/ At(s, p + 2) = 78)

(* ------------------------ strictness (D3, D4) --------------------------- *)
(* Unicode table 3-7 = RFC 4512 UTF8 production *)
RECURSIVE Utf8From(_, _)
Utf8From(s, p) ==
  IF p > Len(s) THEN TRUE ELSE
  LET b == s[p]  c1 == At(s, p + 1)  c2 == At(s, p + 2)  c3 == At(s, p + 3)
      Cont(x) == x >= 128 /\ x <= 191
  IN IF b < 128 THEN Utf8From(s, p + 1)
     ELSE IF b >= 194 /\ b <= 223 THEN Cont(c1) /\ Utf8From(s, p + 2)
     ELSE IF b = 224 THEN c1 >= 160 /\ c1 <= 191 /\ Cont(c2) /\ Utf8From(s, p + 3)
     ELSE IF (b >= 225 /\ b <= 236) \/ b = 238 \/ b = 239 THEN Cont(c1) /\ Cont(c2) /\ Utf8From(s, p + 3)
     ELSE IF b = 237 THEN c1 >= 128 /\ c1 <= 159 /\ Cont(c2) /\ Utf8From(s, p + 3)
     ELSE IF b = 240 THEN c1 >= 144 /\ c1 <= 191 /\ Cont(c2) /\ Cont(c3) /\ Utf8From(s, p + 4)
     ELSE IF b >= 241 /\ b <= 243 THEN Cont(c1) /\ Cont(c2) /\ Cont(c3) /\ Utf8From(s, p + 4)
     ELSE IF b = 244 THEN c1 >= 128 /\ c1 <= 143 /\ Cont(c2) /\ Cont(c3) /\ Utf8From(s, p + 4)
     ELSE FALSE
WellFormedUtf8(s) == Utf8From(s, 1)

RECURSIVE UsesBareNumber(_)
UsesBareNumber(x) == BareNumber(x.a) \/ BareNumber(x.m) \/ \E i \in 1..Len(x.k) : UsesBareNumber(x.k[i])

(* the string s, which Parse read as x, is in the strict RFC 4515 grammar (plus E1, E2) *)
InGrammar(s, x) == WellFormedUtf8(s) /\ ~UsesBareNumber(x)

(* ------------- the listed classes of strings that must be rejected ------- *)
RECURSIVE ParenDepthOk(_, _, _)
ParenDepthOk(s, p, d) == IF p > Len(s) THEN d = 0
                         ELSE IF s[p] = LP THEN ParenDepthOk(s, p + 1, d + 1)
                         ELSE IF s[p] = RP THEN d > 0 /\ ParenDepthOk(s, p + 1, d - 1)
                         ELSE ParenDepthOk(s, p + 1, d)
Unbalanced(s)   == ~ParenDepthOk(s, 1, 0)
BadEscape(s)    == \E p \in 1..Len(s) : s[p] = BSL /\ ~(IsHex(At(s, p + 1)) /\ IsHex(At(s, p + 2)))
DoubleStar(s)   == \E p \in 1..Len(s) : s[p] = STAR /\ At(s, p + 1) = STAR
EmptyAttr(s)    == \E p \in 0..Len(s) : (p = 0 \/ At(s, p) = LP) /\
                      (At(s, p + 1) = EQ \/ (At(s, p + 1) \in {GT, LT, TILDE} /\ At(s, p + 2) = EQ))
TrailingText(s) == \E n \in 1..(Len(s) - 1) : Parse(SubSeq(s, 1, n)).ok
(* s is not a filter (Parse(s) failed with class why) and falls in a class C08 says must be rejected *)
MustReject(s, why) == why # "syntax" \/ Unbalanced(s) \/ BadEscape(s) \/ DoubleStar(s) \/ EmptyAttr(s) \/ TrailingText(s)

(* --------------------- RFC 4511 Filter of a syntax tree ------------------ *)
(*  Filter ::= CHOICE { and [0] SET OF Filter, or [1] SET OF Filter, not [2] Filter,
      equalityMatch [3] AVA, substrings [4] SubstringFilter, greaterOrEqual [5] AVA, lessOrEqual [6] AVA,
      present [7] AttributeDescription, approxMatch [8] AVA, extensibleMatch [9] MatchingRuleAssertion }
    SubstringFilter ::= SEQUENCE { type, substrings SEQUENCE OF CHOICE { initial [0], any [1], final [2] } }
    MatchingRuleAssertion ::= SEQUENCE { matchingRule [1] OPTIONAL, type [2] OPTIONAL, matchValue [3],
      dnAttributes [4] BOOLEAN DEFAULT FALSE }   (IMPLICIT tags; "not" is explicit because Filter is a CHOICE) *)
Ctx == 2
AvaTag(t) == CASE t = "eq" -> 3 [] t = "ge" -> 5 [] t = "le" -> 6 [] t = "approx" -> 8

RECURSIVE Tree(_)
Tree(x) ==
  CASE x.t = "and" -> Ber!Cons(Ctx, 0, [i \in 1..Len(x.k) |-> Tree(x.k[i])])
    [] x.t = "or"  -> Ber!Cons(Ctx, 1, [i \in 1..Len(x.k) |-> Tree(x.k[i])])
    [] x.t = "not" -> Ber!Cons(Ctx, 2, <<Tree(x.k[1])>>)
    [] x.t \in {"eq", "ge", "le", "approx"} -> Ber!Cons(Ctx, AvaTag(x.t), <<Ber!TOct(x.a), Ber!TOct(x.v[1])>>)
    [] x.t = "pres" -> Ber!Prim(Ctx, 7, x.a)
    [] x.t = "sub" -> LET n    == Len(x.v)
                          ini  == IF x.v[1] = <<>> THEN <<>> ELSE <<Ber!Prim(Ctx, 0, x.v[1])>>
                          anys == [i \in 1..(n - 2) |-> Ber!Prim(Ctx, 1, x.v[i + 1])]
                          fin  == IF x.v[n] = <<>> THEN <<>> ELSE <<Ber!Prim(Ctx, 2, x.v[n])>>
                      IN Ber!Cons(Ctx, 4, <<Ber!TOct(x.a), Ber!TSeq(ini \o anys \o fin)>>)
    [] x.t = "ext" -> Ber!Cons(Ctx, 9, (IF x.m = <<>> THEN <<>> ELSE <<Ber!Prim(Ctx, 1, x.m)>>)
                                    \o (IF x.a = <<>> THEN <<>> ELSE <<Ber!Prim(Ctx, 2, x.a)>>)
                                    \o <<Ber!Prim(Ctx, 3, x.v[1])>>
                                    \o (IF x.dn THEN <<Ber!Prim(Ctx, 4, Ber!BoolContent(TRUE))>> ELSE <<>>))
(* the bytes on the wire (minimal definite lengths, RFC 4511 section 5.1) *)
FTree(x) == Ber!Enc(Tree(x))

(* ------- reading an RFC 4511 Filter back (validating; independent of Tree) ------- *)
NoAst == [ok |-> FALSE, v |-> <<>>]
YesAst(x) == [ok |-> TRUE, v |-> x]
IsOctet(t) == t.c = 0 /\ t.n = 4 /\ t.prim
IsCtxPrim(t, n) == t.c = Ctx /\ t.n = n /\ t.prim

UnSub(t) ==           \* t = the substrings SEQUENCE OF
  LET n == Len(t.k) IN
  IF ~(t.c = 0 /\ t.n = 16 /\ ~t.prim /\ n >= 1) THEN NoAst
  ELSE IF ~(\A i \in 1..n : /\ t.k[i].c = Ctx /\ t.k[i].prim /\ t.k[i].n \in {0, 1, 2} /\ t.k[i].v # <<>>
                            /\ (t.k[i].n = 0 => i = 1) /\ (t.k[i].n = 2 => i = n)) THEN NoAst
  ELSE LET hasI == t.k[1].n = 0
           hasF == t.k[n].n = 2 /\ ~(n = 1 /\ hasI)
           lo == IF hasI THEN 2 ELSE 1
           hi == IF hasF THEN n - 1 ELSE n
       IN YesAst((IF hasI THEN <<t.k[1].v>> ELSE << <<>> >>)
                 \o [i \in 1..(hi - lo + 1) |-> t.k[lo + i - 1].v]
                 \o (IF hasF THEN <<t.k[n].v>> ELSE << <<>> >>))

UnExt(k) ==           \* k = the components of a MatchingRuleAssertion
  LET n == Len(k)
      hasM == n >= 1 /\ IsCtxPrim(k[1], 1)
      ia == IF hasM THEN 2 ELSE 1
      hasA == n >= ia /\ IsCtxPrim(k[ia], 2)
      iv == IF hasA THEN ia + 1 ELSE ia
      hasV == n >= iv /\ IsCtxPrim(k[iv], 3)
      hasD == n = iv + 1 /\ IsCtxPrim(k[iv + 1], 4) /\ k[iv + 1].v = <<255>>
  IN IF hasV /\ (n = iv \/ hasD) /\ (hasM \/ hasA)
        /\ (hasM => ValidOid(k[1].v)) /\ (hasA => ValidAttrDesc(k[ia].v))
     THEN YesAst(FExt(IF hasA THEN k[ia].v ELSE <<>>, IF hasM THEN k[1].v ELSE <<>>, hasD, k[iv].v))
     ELSE NoAst

RECURSIVE UnTree(_)
UnTree(t) ==
  IF t.c # Ctx THEN NoAst
  ELSE IF t.n \in {0, 1} /\ ~t.prim THEN
         LET ks == [i \in 1..Len(t.k) |-> UnTree(t.k[i])] IN
         IF \A i \in 1..Len(ks) : ks[i].ok
           THEN YesAst((IF t.n = 0 THEN FAnd([i \in 1..Len(ks) |-> ks[i].v]) ELSE FOr([i \in 1..Len(ks) |-> ks[i].v])))
           ELSE NoAst
  ELSE IF t.n = 2 /\ ~t.prim /\ Len(t.k) = 1 THEN
         LET f == UnTree(t.k[1]) IN IF f.ok THEN YesAst(FNot(f.v)) ELSE NoAst
  ELSE IF t.n \in {3, 5, 6, 8} /\ ~t.prim THEN
         IF Len(t.k) = 2 /\ IsOctet(t.k[1]) /\ IsOctet(t.k[2]) /\ ValidAttrDesc(t.k[1].v)
           THEN YesAst(FSimple(CASE t.n = 3 -> "eq" [] t.n = 5 -> "ge" [] t.n = 6 -> "le" [] t.n = 8 -> "approx",
                               t.k[1].v, t.k[2].v))
           ELSE NoAst
  ELSE IF t.n = 7 /\ t.prim THEN IF ValidAttrDesc(t.v) THEN YesAst(FPres(t.v)) ELSE NoAst
  ELSE IF t.n = 4 /\ ~t.prim THEN
         IF Len(t.k) = 2 /\ IsOctet(t.k[1]) /\ ValidAttrDesc(t.k[1].v)
           THEN LET ps == UnSub(t.k[2]) IN IF ps.ok THEN YesAst(FSub(t.k[1].v, ps.v)) ELSE NoAst
           ELSE NoAst
  ELSE IF t.n = 9 /\ ~t.prim THEN UnExt(t.k)
  ELSE NoAst

DecodeFilter(bytes) == LET d == Ber!DecOne(bytes) IN IF d.ok THEN UnTree(d.t) ELSE NoAst

(* ------------------------------- printing ------------------------------- *)
HexDigit(n, upper) == IF n < 10 THEN 48 + n ELSE IF upper THEN 55 + n ELSE 87 + n
HexEsc(b, upper) == <<BSL, HexDigit(b \div 16, upper), HexDigit(b % 16, upper)>>
(* escaping styles: 0 = raw where RFC 4515 allows it (else \hh), 1 = \hh lowercase, 2 = \HH uppercase,
   3 = canonical: \hh for the characters that must be escaped and for bytes >= 128, everything else raw *)
EscByte(b, style) ==
  CASE style = 0 -> IF b \in MustEsc THEN HexEsc(b, FALSE) ELSE <<b>>
    [] style = 1 -> HexEsc(b, FALSE)
    [] style = 2 -> HexEsc(b, TRUE)
    [] OTHER     -> IF b \in MustEsc \/ b >= 128 THEN HexEsc(b, FALSE) ELSE <<b>>
(* byte j of every value is written in style e[((j-1) mod Len(e)) + 1] *)
RenderVal(v, e) == Ber!Flat([j \in 1..Len(v) |-> EscByte(v[j], e[((j - 1) % Len(e)) + 1])])

RECURSIVE Render(_, _)
Render(x, e) ==
  <<LP>> \o
  (CASE x.t = "and" -> <<AMP>> \o Ber!Flat([i \in 1..Len(x.k) |-> Render(x.k[i], e)])
     [] x.t = "or"  -> <<BAR>> \o Ber!Flat([i \in 1..Len(x.k) |-> Render(x.k[i], e)])
     [] x.t = "not" -> <<BANG>> \o Render(x.k[1], e)
     [] x.t = "eq"  -> x.a \o <<EQ>> \o RenderVal(x.v[1], e)
     [] x.t = "ge"  -> x.a \o <<GT, EQ>> \o RenderVal(x.v[1], e)
     [] x.t = "le"  -> x.a \o <<LT, EQ>> \o RenderVal(x.v[1], e)
     [] x.t = "approx" -> x.a \o <<TILDE, EQ>> \o RenderVal(x.v[1], e)
     [] x.t = "pres" -> x.a \o <<EQ, STAR>>
     [] x.t = "sub" -> x.a \o <<EQ>> \o RenderVal(x.v[1], e)
                       \o Ber!Flat([i \in 1..(Len(x.v) - 1) |-> <<STAR>> \o RenderVal(x.v[i + 1], e)])
     [] x.t = "ext" -> x.a \o (IF x.dn THEN <<COLON, 100, 110>> ELSE <<>>)
                       \o (IF x.m = <<>> THEN <<>> ELSE <<COLON>> \o x.m) \o <<COLON, EQ>> \o RenderVal(x.v[1], e))
  \o <<RP>>

(* canonical string of a syntax tree *)
Print(x) == Render(x, <<3>>)

(* escape-insensitive token sequence: a raw byte c is the token c, "\hh" is the token hh when hh may also be
   written raw and 256 + hh when it must be escaped; a backslash that does not start an escape is a raw byte *)
RECURSIVE NormFrom(_, _)
NormFrom(s, p) ==
  IF p > Len(s) THEN <<>>
  ELSE IF s[p] = BSL /\ IsHex(At(s, p + 1)) /\ IsHex(At(s, p + 2))
         THEN LET b == 16 * HexVal(s[p + 1]) + HexVal(s[p + 2]) IN
              <<IF b \in MustEsc THEN 256 + b ELSE b>> \o NormFrom(s, p + 3)
         ELSE <<s[p]>> \o NormFrom(s, p + 1)
Norm(s) == NormFrom(s, 1)
Wrap(s) == IF At(s, 1) = LP THEN s ELSE <<LP>> \o s \o <<RP>>           \* E1

(* "decoding the BER and printing it canonically reproduces the input up to escaping" *)
MeansWhatItSays(s, bytes) == LET d == DecodeFilter(bytes) IN d.ok /\ Norm(Print(d.v)) = Norm(Wrap(s))

(* ------------------------------ the verdict ------------------------------ *)
(* Is the observable outcome (accepted?, bytes) of compiling s one that C08 allows? *)
Allowed(s, ok, bytes) ==
  LET r  == Parse(s)
      rc == IF HasUpperDn(s) THEN ParseCI(s) ELSE r
  IN IF ok THEN \/ r.ok /\ bytes = FTree(r.v)
                \/ rc.ok /\ bytes = FTree(rc.v)
                \/ ~r.ok /\ ~rc.ok /\ ~MustReject(s, r.why) /\ MeansWhatItSays(s, bytes)
     ELSE ~(r.ok /\ InGrammar(s, r.v))

(* ------------------------ labels for class keys -------------------------- *)
StartsWithDn(m) == Len(m) >= 2 /\ m[1] = 100 /\ m[2] = 110
LeafKind(x) == IF x.t = "ext" /\ StartsWithDn(x.m) THEN "ext:mrule-prefix-dn" ELSE x.t
RECURSIVE LeafKinds(_)
LeafKinds(x) == IF ~IsComposite(x) THEN {LeafKind(x)}
                ELSE IF x.k = <<>> THEN {x.t \o "-empty"}                         \* E2 is a feature of its own
                ELSE UNION {LeafKinds(x.k[i]) : i \in 1..Len(x.k)}
=============================================================================
