\* the deviation D-PAGED-STALE-RESULT switched on: TLC must find that FinishLaw (what C10 states) does not hold
SPECIFICATION Spec
CONSTANTS
  StaleResultAfterSplice = TRUE
  Envs <- C16EnvsQuick
  SearchEnvs <- NoEnvs
  Alphabet <- AlphaAll
  MaxCalls = 0
  Plans <- C16Plans
INVARIANTS FinishLaw
CHECK_DEADLOCK FALSE
