SPECIFICATION GSpec
CONSTANTS
  Ops = {"o1", "o2"}
  NoOp = "none"
  MaxId = 6
  Last0 <- LastZero
  MaxItems = 1
  ItemTypes <- EntOnly
  MaxOrphans = 0
  Kinds <- KindsAll
  Tmo = {0}
  Horizon = 2
  AllowFaults = TRUE
  OpenGarbage = TRUE
  AdapterErrors = FALSE
  AllowCancel = FALSE
  AllowStall = FALSE
  AbstractTime = FALSE
  LeakSearchIdOnDone = FALSE
  AbandonKeepsTargetId = FALSE
  DirectStaysActive = FALSE
  StaleInsertAfterScrub = FALSE
  ScriptLen = 5
INVARIANTS Emit Routing NoLeak UniqueIds
CHECK_DEADLOCK FALSE
