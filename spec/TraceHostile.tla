---------------------------- MODULE TraceHostile ----------------------------
(* I -> S for C11: seeded random and multiply mutated byte strings that the  *)
(* harness pushed through ldap3's frame decoder; the specification           *)
(* recomputes the verdict of each.  r = "none" | "some" | "err" | "panic",   *)
(* left = octets left in the buffer afterwards.                              *)
EXTENDS Framing, TLC, Json, IOUtils

Rec == ndJsonDeserialize(IOEnv.TRACE)
VARIABLE l

Check(e) ==
  LET f == Frame(e.b) IN
  /\ e.r # "panic"
  /\ CASE f.v = "NeedMore" -> e.r \in {"none", "err"} /\ (e.r = "none" => e.left = Len(e.b))
       [] f.v = "Any"      -> TRUE
       [] f.v = "Msg"      -> /\ e.r = "some" /\ e.left = Len(e.b) - f.n
                              /\ e.id = f.m.id /\ e.op = f.m.op /\ e.ctrls = f.m.ctrls
       [] f.v = "Bad"      -> e.r = "err"
       [] f.v = "Either"   -> e.r \in {"some", "err"} /\ (e.r = "some" => e.left = Len(e.b) - f.n)

(* the decoder machine of Framing is not run here: its variables are parked *)
Init == l = 1 /\ FInit(<<>>)
Next == /\ l <= Len(Rec) /\ l' = l + 1 /\ UNCHANGED fvars
        /\ (Check(Rec[l]) \/ (PrintT(<<"BADREC", l>>) /\ PrintT(<<"WHY", l, Frame(Rec[l].b).v, Frame(Rec[l].b).why>>)))
Spec == Init /\ [][Next]_<<l, fvars>>
Accepted == IF TLCGet("stats").diameter - 1 = Len(Rec) THEN TRUE
            ELSE Print(<<"TRACE-NOT-CONSUMED", TLCGet("stats").diameter, Len(Rec)>>, FALSE)
=============================================================================
