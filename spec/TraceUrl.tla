----------------------------- MODULE TraceUrl -----------------------------
(* I -> S for C20: every record is (URL bytes, what get_url_params          *)
(* returned); the URL was produced by the harness' own formatter from       *)
(* random components.  The specification re-reads the URL bytes with the    *)
(* reference ParseUrl of Url4516 and compares.  One state per record; a     *)
(* record the spec disagrees with is printed as <<"BADREC", index>>, a      *)
(* record outside the RFC 4516 grammar (no verdict) as <<"UNSPEC", index>>. *)
(*                                                                          *)
(* Comparison: base, scope, filter equal; the attribute list equal to the   *)
(* decoded list or to the list as written (decoding is documented for base, *)
(* filter and extension values only); extensions compared as sets of        *)
(* <<kind, value>> (the implementation returns a set keyed by kind).        *)
EXTENDS Url4516, TLC, Json, IOUtils, FiniteSets

Rec == ndJsonDeserialize(IOEnv.TRACE)
VARIABLE l

Same(p, o) ==
  /\ o.base = p.base
  /\ (o.attrs = p.attrs \/ o.attrs = p.attrs_raw)
  /\ o.scope = p.scope
  /\ o.filter = p.filter
  /\ Len(o.exts) = Len(p.exts)
  /\ ExtSet(o.exts) = ExtSet(p.exts)

Check(e) ==
  LET p == ParseUrl(e.url)  o == e.out IN
  CASE p.ok = "unspec" -> PrintT(<<"UNSPEC", l>>)
    [] p.ok = "no"     -> ~o.ok
    [] p.ok = "yes"    -> o.ok /\ Same(p, o)
    [] p.ok = "either" -> ~o.ok \/ Same(p, o)

Init == l = 1
Next == /\ l <= Len(Rec) /\ l' = l + 1
        /\ (Check(Rec[l]) \/ PrintT(<<"BADREC", l>>))
Spec == Init /\ [][Next]_l
Accepted == IF TLCGet("stats").diameter - 1 = Len(Rec) THEN TRUE
            ELSE Print(<<"TRACE-NOT-CONSUMED", TLCGet("stats").diameter, Len(Rec)>>, FALSE)
=============================================================================
