---------------------------- MODULE MCControls ----------------------------
(* Model-checking instance and vector generator for Controls (C19).        *)
(* A seed state per (direction, kind, selector); its successors enumerate  *)
(* every value of that kind built from the pools (one state = one vector). *)
(* Invariants: the decode(encode(v)) = v laws on the specification itself, *)
(* over every alternative length form; Emit prints one VEC line per state. *)
EXTENDS Controls, TLC, Json

CONSTANTS SizeNats,      \* non-negative sizes (request and response)
          NegSizes,      \* n such that -n is used as a request size
          CookieLens,    \* cookie lengths
          StrLens,       \* lengths of the long UTF-8 strings (authzId, passwords, identifiers)
          Forms,         \* numbers of length octets used for non-minimal long forms (subset of 1..4)
          Deep,          \* TRUE: larger list pools (thorough tier)
          EmitVectors

(* ---------------- pools ---------------- *)
Neg(n) == LET p == B8OfNat(n - 1) IN [i \in 1..8 |-> 255 - p[i]]          \* 8-octet two's complement of -n
ReqSizes  == {B8OfNat(n) : n \in SizeNats} \cup {Neg(n) : n \in NegSizes}
RespSizes == {B8OfNat(n) : n \in SizeNats}                                \* RFC 2696: INTEGER (0..maxInt)

Cookie(n) == [i \in 1..n |-> CASE i % 3 = 1 -> 0 [] i % 3 = 2 -> 255 [] OTHER -> (i * 7) % 256]
Cookies == {Cookie(n) : n \in CookieLens} \cup {<<255>>}
OptCookies == {[has |-> FALSE, c |-> <<>>]} \cup {[has |-> TRUE, c |-> c] : c \in Cookies}

Long(n) == [i \in 1..n |-> 97 + (i % 26)]
sCN == <<99, 110>>  sSN == <<115, 110>>  sOC == <<111, 98, 106, 101, 99, 116, 67, 108, 97, 115, 115>>
sA == <<97>>  sB == <<98>>  sC == <<99>>
sOid123 == <<49, 46, 50, 46, 51>>
sRule == <<50, 46, 53, 46, 49, 51, 46, 50>>                                \* "2.5.13.2"
sUtf == <<117, 58, 195, 188, 226, 130, 172, 240, 157, 132, 158>>           \* "u:" U+00FC U+20AC U+1D11E
sDn == <<117, 105, 100, 61, 117, 44, 100, 99, 61, 101, 120, 97, 109, 112, 108, 101, 44, 100, 99, 61, 99, 111, 109>>
(* UTF-8 strings (the library's String / &str fields) *)
Strs == {<<>>, <<120>>, <<100, 110, 58, 99, 110, 61, 97>>, sUtf} \cup {Long(n) : n \in StrLens}
OptStrs == {[has |-> FALSE, s |-> <<>>]} \cup {[has |-> TRUE, s |-> s] : s \in Strs}

AttrSeq == <<sCN, <<43>>, <<42>>, <<49, 46, 49>>, Long(130)>>               \* "cn" "+" "*" "1.1" long

Eq(a, v) == [op |-> "eq", a |-> a, v |-> v]
Sub(a, hasi, i, anys, hasf, f) == [op |-> "substr", a |-> a, hasi |-> hasi, i |-> i, anys |-> anys, hasf |-> hasf, f |-> f]
Ext(hasrule, rule, hasa, a, v, dn) == [op |-> "ext", hasrule |-> hasrule, rule |-> rule, hasa |-> hasa, a |-> a, v |-> v, dn |-> dn]
Pres(a) == [op |-> "present", a |-> a]
FilterSeq == <<
  Eq(sCN, sA),
  Eq(sCN, <<>>),
  Eq(sCN, <<42, 40, 41, 92, 0>>),                                           \* every byte needs escaping
  Eq(sOC, <<97, 32, 98, 44, 99, 61, 100>>),                                 \* "a b,c=d" literal
  Eq(sCN, Long(130)),                                                       \* nested long-form lengths
  Eq(<<99, 110, 59, 108, 97, 110, 103, 45, 101, 110>>, <<195, 188>>),       \* option; non-ASCII value
  Pres(sOC),
  [op |-> "ge", a |-> sSN, v |-> sB],
  [op |-> "le", a |-> sSN, v |-> sB],
  [op |-> "approx", a |-> sSN, v |-> sB],
  Sub(sCN, TRUE, sA, <<sB>>, TRUE, sC),
  Sub(sCN, FALSE, <<>>, <<>>, TRUE, sC),
  Sub(sCN, TRUE, sA, <<>>, FALSE, <<>>),
  Sub(sCN, FALSE, <<>>, <<sB, sC>>, FALSE, <<>>),
  Ext(TRUE, sRule, TRUE, sCN, sA, TRUE),
  Ext(FALSE, <<>>, TRUE, sCN, sA, FALSE),
  Ext(TRUE, sRule, FALSE, <<>>, sA, FALSE),
  Ext(TRUE, sRule, FALSE, <<>>, sA, TRUE),
  Ext(FALSE, <<>>, TRUE, sOid123, sA, TRUE),
  [op |-> "and", k |-> <<Eq(sCN, sA), Pres(sOC)>>],
  [op |-> "or", k |-> <<Eq(sCN, sA), [op |-> "not", k |-> <<Eq(sSN, sB)>>]>>],
  [op |-> "not", k |-> <<Pres(sOC)>>],
  [op |-> "and", k |-> <<[op |-> "or", k |-> <<Eq(sCN, sA), Eq(sCN, sB), Eq(sCN, sC)>>],
                         [op |-> "not", k |-> <<Sub(sSN, TRUE, sA, <<>>, FALSE, <<>>)>>]>>],
  [op |-> "and", k |-> <<Eq(sCN, sA)>>] >>
ItemSeq == <<Eq(sCN, sA), Sub(sCN, TRUE, sA, <<sB>>, TRUE, sC), [op |-> "ge", a |-> sSN, v |-> sB],
             [op |-> "le", a |-> sSN, v |-> sB], Pres(sOC), [op |-> "approx", a |-> sSN, v |-> sB],
             Ext(TRUE, sRule, TRUE, sCN, sA, FALSE), Ext(FALSE, <<>>, TRUE, sCN, <<0, 255>>, FALSE), Eq(sCN, Long(130))>>

(* Hand-assembled anchors from RFC 4511 4.5.1 / RFC 4515 section 4 / RFC 3876 section 2: the AST machinery above
   must reproduce these literal (string, bytes) pairs. *)
Anchors == <<
  [ast |-> Eq(sCN, sA), s |-> <<40, 99, 110, 61, 97, 41>>,                                                \* (cn=a)
   b |-> <<163, 7, 4, 2, 99, 110, 4, 1, 97>>],
  [ast |-> [op |-> "and", k |-> <<Eq(sCN, sA), Pres(sOC)>>],                                            \* (&(cn=a)(objectClass=*))
   s |-> <<40, 38, 40, 99, 110, 61, 97, 41, 40, 111, 98, 106, 101, 99, 116, 67, 108, 97, 115, 115, 61, 42, 41, 41>>,
   b |-> <<160, 22, 163, 7, 4, 2, 99, 110, 4, 1, 97, 135, 11, 111, 98, 106, 101, 99, 116, 67, 108, 97, 115, 115>>],
  [ast |-> Ext(TRUE, sRule, TRUE, sCN, sA, TRUE),                                                         \* (cn:dn:2.5.13.2:=a)
   s |-> <<40, 99, 110, 58, 100, 110, 58, 50, 46, 53, 46, 49, 51, 46, 50, 58, 61, 97, 41>>,
   b |-> <<169, 20, 129, 8, 50, 46, 53, 46, 49, 51, 46, 50, 130, 2, 99, 110, 131, 1, 97, 132, 1, 255>>],
  [ast |-> Sub(sCN, TRUE, sA, <<sB>>, TRUE, sC), s |-> <<40, 99, 110, 61, 97, 42, 98, 42, 99, 41>>,       \* (cn=a*b*c)
   b |-> <<164, 15, 4, 2, 99, 110, 48, 9, 128, 1, 97, 129, 1, 98, 130, 1, 99>>] >>
ASSUME AnchorsHold == \A i \in 1..Len(Anchors) : FStr(Anchors[i].ast) = Anchors[i].s /\ Enc(FTree(Anchors[i].ast)) = Anchors[i].b
ASSUME MVAnchor ==                                                                                        \* ((cn=a)(sn>=b))
  LET items == <<Eq(sCN, sA), [op |-> "ge", a |-> sSN, v |-> sB]>> IN
  /\ MVStr(items) = <<40, 40, 99, 110, 61, 97, 41, 40, 115, 110, 62, 61, 98, 41, 41>>
  /\ Enc(MVTree(items)) = <<48, 18, 163, 7, 4, 2, 99, 110, 4, 1, 97, 165, 7, 4, 2, 115, 110, 4, 1, 98>>
(* RFC 2696 / 4533 / 3062 / 5805 example-sized anchors, assembled by hand *)
ASSUME ValueAnchors ==
  /\ ReqValue("PagedResults", [size |-> B8OfNat(256), cookie |-> <<0, 255>>]).b = <<48, 8, 2, 2, 1, 0, 4, 2, 0, 255>>
  /\ ReqValue("PagedResults", [size |-> Neg(1), cookie |-> <<>>]).b = <<48, 5, 2, 1, 255, 4, 0>>
  /\ ReqValue("PagedResults", [size |-> B8OfNat(2147483647), cookie |-> <<>>]).b = <<48, 8, 2, 4, 127, 255, 255, 255, 4, 0>>
  /\ ReqValue("SyncRequest", [mode |-> "RefreshAndPersist", hascookie |-> TRUE, cookie |-> <<7>>, reload |-> TRUE]).b
       = <<48, 9, 10, 1, 3, 4, 1, 7, 1, 1, 255>>
  /\ ReqValue("SyncRequest", [mode |-> "RefreshOnly", hascookie |-> FALSE, cookie |-> <<>>, reload |-> FALSE]).b = <<48, 3, 10, 1, 1>>
  /\ ReqValue("PasswordModify", [hasuser |-> FALSE, user |-> <<>>, hasold |-> TRUE, old |-> <<120>>, hasnew |-> TRUE, new |-> <<>>]).b
       = <<48, 5, 129, 1, 120, 130, 0>>
  /\ ReqValue("EndTxn", [txn_id |-> <<120>>, commit |-> FALSE]).b = <<48, 6, 1, 1, 0, 4, 1, 120>>
  /\ ReqValue("EndTxn", [txn_id |-> <<120>>, commit |-> TRUE]).b = <<48, 3, 4, 1, 120>>
  /\ Oid("PagedResults") = <<49, 46, 50, 46, 56, 52, 48, 46, 49, 49, 51, 53, 53, 54, 46, 49, 46, 52, 46, 51, 49, 57>>

Uuid(x) == [i \in 1..16 |-> (x + i * 17) % 256]
UuidLists == {<<>>, <<Uuid(0)>>, <<Uuid(0), Uuid(200)>>}

(* attributes of a Pre/Post-Read response entry; distinct types *)
AVSeq == <<[type |-> sCN, vals |-> <<sA>>],
           [type |-> <<109, 97, 105, 108>>, vals |-> <<sB, sA>>],                          \* two text values, order kept
           [type |-> <<106, 112, 101, 103, 80, 104, 111, 116, 111>>, vals |-> <<<<255, 216>>>>],   \* binary
           [type |-> sSN, vals |-> <<sA, <<255>>, sB>>],                                    \* mixed -> binary
           [type |-> sOC, vals |-> <<>>],                                                   \* no values
           [type |-> <<99, 110, 59, 108, 97, 110, 103, 45, 101, 110>>, vals |-> <<sUtf>>], \* multi-byte UTF-8
           [type |-> sOid123, vals |-> <<Long(130)>>]>>
Dns == {<<>>, sDn}

(* envelope pools *)
Ctl(oid, crit, hasval, val) == [oid |-> oid, crit |-> crit, hasval |-> hasval, val |-> val]
CtlOids == <<Oid("PagedResults"), Oid("ManageDsaIt"), sOid123>>
CtlVals == <<[has |-> FALSE, v |-> <<>>], [has |-> TRUE, v |-> <<>>], [has |-> TRUE, v |-> <<1, 0, 255>>], [has |-> TRUE, v |-> Long(130)]>>
CtlPool == {Ctl(CtlOids[o], cr, CtlVals[x].has, CtlVals[x].v) : o \in 1..3, cr \in BOOLEAN, x \in 1..4}
SmallPool == {Ctl(sOid123, FALSE, FALSE, <<>>), Ctl(Oid("SyncState"), TRUE, TRUE, <<1, 0, 255>>),
              Ctl(Oid("PagedResults"), TRUE, FALSE, <<>>), Ctl(sOid123, FALSE, TRUE, <<>>)}
AllOidCtls == {Ctl(Oid(k), FALSE, TRUE, <<48, 0>>) : k \in RequestControls \cup Exops \cup {"SyncState", "SyncDone", "SyncInfo"}}
CtlFirst == CtlPool \cup AllOidCtls
CtlLists(first) ==
  {<<first>>} \cup {<<first, c>> : c \in (IF Deep THEN CtlPool ELSE SmallPool)}
  \cup (IF first \in SmallPool \/ Deep THEN {<<first, c, d>> : c \in SmallPool, d \in SmallPool} ELSE {})
MsgIds == {1, 128}

(* ---------------- kinds and selectors ---------------- *)
RespKinds == {"PagedResults", "SyncState", "SyncDone", "SyncInfo", "PreReadResp", "PostReadResp",
              "WhoAmIResp", "PasswordModifyResp", "StartTxnResp"}
Dirs == {"req", "exop", "resp", "envenc", "envdec"}
KindsOf(d) == CASE d = "req" -> RequestControls [] d = "exop" -> Exops [] d = "resp" -> RespKinds
                [] d \in {"envenc", "envdec"} -> {"Envelope"}
(* MakeCritical is reachable through the public API for these only (PreRead/PostRead/MatchedValues have private
   fields and can be built with new() alone; ProxyAuth/TxnSpec are always critical) *)
CanCritical == {"PagedResults", "SyncRequest", "Assertion", "ManageDsaIt", "RelaxRules"}
Crits(k) == IF k \in CanCritical THEN BOOLEAN ELSE {FALSE}

ZeroSel == Ctl(<<>>, FALSE, FALSE, <<>>)                                    \* selector of the empty list

Sels(d, k) ==
  CASE d = "req" /\ k = "PagedResults" -> ReqSizes
    [] d = "req" /\ k = "SyncRequest" -> OptCookies
    [] d = "req" /\ k \in {"PreRead", "PostRead"} -> 0..Len(AttrSeq)
    [] d = "req" /\ k = "Assertion" -> 1..Len(FilterSeq)
    [] d = "req" /\ k = "MatchedValues" -> 1..Len(ItemSeq)
    [] d = "exop" /\ k = "PasswordModify" -> OptStrs
    [] d = "resp" /\ k = "PagedResults" -> RespSizes
    [] d = "resp" /\ k \in {"SyncState", "SyncDone", "SyncInfo"} -> OptCookies
    [] d = "resp" /\ k \in {"PreReadResp", "PostReadResp"} -> 0..Len(AVSeq)
    [] d \in {"envenc", "envdec"} -> CtlFirst \cup {ZeroSel}
    [] OTHER -> {0}

(* alternative encodings of a value carried inside an OCTET STRING of an outer element *)
Nested(inner, Outer(_)) ==
  {Enc(Outer(e)) : e \in AltEncs(inner, Forms)} \cup AltEncs(Outer(Enc(inner)), Forms)

RespVec(k, f, expl, fields, encs) == [d |-> "resp", kind |-> k, strict |-> ~expl, f |-> f, fields |-> fields, encs |-> encs]

Vals(d, k, s) ==
  CASE d = "req" /\ k = "PagedResults" ->
         {[d |-> d, kind |-> k, critical |-> cr, f |-> [size |-> s, cookie |-> c]] : c \in Cookies, cr \in BOOLEAN}
    [] d = "req" /\ k = "SyncRequest" ->
         {[d |-> d, kind |-> k, critical |-> cr, f |-> [mode |-> m, hascookie |-> s.has, cookie |-> s.c, reload |-> r]] :
            m \in {"RefreshOnly", "RefreshAndPersist"}, r \in BOOLEAN, cr \in BOOLEAN}
    [] d = "req" /\ k \in {"PreRead", "PostRead"} ->
         {[d |-> d, kind |-> k, critical |-> FALSE, f |-> [attrs |-> l]] :
            l \in IF s = 0 THEN {<<>>} ELSE {<<AttrSeq[s]>>} \cup {<<AttrSeq[s], AttrSeq[j]>> : j \in 1..Len(AttrSeq)}}
    [] d = "req" /\ k = "Assertion" ->
         {[d |-> d, kind |-> k, critical |-> cr, f |-> [filter |-> FStr(FilterSeq[s])], ast |-> FilterSeq[s]] : cr \in BOOLEAN}
    [] d = "req" /\ k = "MatchedValues" ->
         {[d |-> d, kind |-> k, critical |-> FALSE, f |-> [filter |-> MVStr(l)], items |-> l] :
            l \in {<<ItemSeq[s]>>} \cup {<<ItemSeq[s], ItemSeq[j]>> : j \in 1..Len(ItemSeq)}}
    [] d = "req" /\ k = "ProxyAuth" -> {[d |-> d, kind |-> k, critical |-> FALSE, f |-> [authzid |-> x]] : x \in Strs}
    [] d = "req" /\ k = "TxnSpec" -> {[d |-> d, kind |-> k, critical |-> FALSE, f |-> [txn_id |-> x]] : x \in Strs}
    [] d = "req" /\ k \in {"ManageDsaIt", "RelaxRules"} -> {[d |-> d, kind |-> k, critical |-> cr, f |-> [x |-> 0]] : cr \in BOOLEAN}
    [] d = "exop" /\ k \in {"WhoAmI", "StartTxn"} -> {[d |-> d, kind |-> k, f |-> [x |-> 0]]}
    [] d = "exop" /\ k = "PasswordModify" ->
         {[d |-> d, kind |-> k, f |-> [hasuser |-> s.has, user |-> s.s, hasold |-> o.has, old |-> o.s, hasnew |-> n.has, new |-> n.s]] :
            o \in OptStrs, n \in OptStrs}
    [] d = "exop" /\ k = "EndTxn" -> {[d |-> d, kind |-> k, f |-> [txn_id |-> x, commit |-> c]] : x \in Strs, c \in BOOLEAN}
    [] d = "resp" /\ k = "PagedResults" ->
         {LET f == [size |-> s, cookie |-> c] IN RespVec(k, f, FALSE, f, AltEncs(PagedTree(f), Forms)) : c \in Cookies}
    [] d = "resp" /\ k = "SyncState" ->
         {LET f == [state |-> st, uuid |-> u, hascookie |-> s.has, cookie |-> s.c] IN
            RespVec(k, f, FALSE, f, AltEncs(SyncStateTree(f), Forms)) :
            st \in {"Present", "Add", "Modify", "Delete"}, u \in {Uuid(0), Uuid(200)}}
    [] d = "resp" /\ k = "SyncDone" ->
         {LET f == [hascookie |-> s.has, cookie |-> s.c, rd |-> r] IN
            RespVec(k, f, x, f, AltEncs(SyncDoneTree(f, x), Forms)) : r \in BOOLEAN, x \in BOOLEAN}
    [] d = "resp" /\ k = "SyncInfo" ->
         LET V(f, x) == RespVec(k, f, x, SyncInfoFields(f), Nested(SyncInfoValueTree(f, x), IntermediateTree)) IN
         (IF s.has THEN {V([choice |-> "NewCookie", cookie |-> s.c], FALSE)} ELSE {})
         \cup {V([choice |-> ch, hascookie |-> s.has, cookie |-> s.c, flag |-> fl], x) :
                 ch \in {"RefreshDelete", "RefreshPresent"}, fl \in BOOLEAN, x \in BOOLEAN}
         \cup {V([choice |-> "SyncIdSet", hascookie |-> s.has, cookie |-> s.c, flag |-> fl, uuids |-> us], x) :
                 fl \in BOOLEAN, us \in UuidLists, x \in BOOLEAN}
    [] d = "resp" /\ k \in {"PreReadResp", "PostReadResp"} ->
         {LET e == [dn |-> dn, attrs |-> l] IN RespVec(k, e, FALSE, ReadEntryFields(l), AltEncs(EntryTree(e), Forms)) :
            dn \in Dns,
            l \in IF s = 0 THEN {<<>>} ELSE {<<AVSeq[s]>>} \cup {<<AVSeq[s], AVSeq[j]>> : j \in (1..Len(AVSeq)) \ {s}}}
    [] d = "resp" /\ k \in {"WhoAmIResp", "StartTxnResp"} ->
         {RespVec(k, [s |-> x], FALSE, [s |-> x], {x}) : x \in Strs}
    [] d = "resp" /\ k = "PasswordModifyResp" ->
         {LET f == [gen |-> x] IN RespVec(k, f, FALSE, f, AltEncs(PassModRespTree(f), Forms)) : x \in Strs}
    [] d = "envenc" ->
         (IF s = ZeroSel THEN {[d |-> d, kind |-> k, id |-> 1, some |-> FALSE, ctrls |-> <<>>], [d |-> d, kind |-> k, id |-> 1, some |-> TRUE, ctrls |-> <<>>]}
          ELSE {[d |-> d, kind |-> k, id |-> i, some |-> TRUE, ctrls |-> l] : i \in MsgIds, l \in CtlLists(s)})
    [] d = "envdec" ->
         (IF s = ZeroSel THEN {[d |-> d, kind |-> k, id |-> 1, strict |-> TRUE, ctrls |-> <<>>,
                          encs |-> AltEncs(MsgTree(1, OpResp, <<>>), Forms) \cup AltEncs(MsgTree(1, OpResp, <<CtlsTree(<<>>, FALSE)>>), Forms)]}
          ELSE {[d |-> d, kind |-> k, id |-> 128, strict |-> ~x, ctrls |-> l,
                 encs |-> AltEncs(MsgTree(128, OpResp, <<CtlsTree(l, x)>>), Forms)] : l \in CtlLists(s), x \in BOOLEAN})

VARIABLES dir, kind, sel, ph, v
vars == <<dir, kind, sel, ph, v>>

Init == /\ dir \in Dirs /\ kind \in KindsOf(dir) /\ sel \in Sels(dir, kind) /\ ph = 0 /\ v = <<>>
Next == /\ ph = 0 /\ ph' = 1 /\ UNCHANGED <<dir, kind, sel>>
        /\ v' \in Vals(dir, kind, sel)
Spec == Init /\ [][Next]_vars

(* ---------------- expected values ---------------- *)
ReqFields(x) == IF x.kind = "Assertion" THEN [ast |-> x.ast] ELSE IF x.kind = "MatchedValues" THEN [items |-> x.items] ELSE x.f
Expect(x) ==
  CASE x.d = "req"  -> Req(x.kind, ReqFields(x), x.critical)
    [] x.d = "exop" -> ExopReq(x.kind, x.f)
    [] x.d = "envenc" ->
         EnvExpected(B8OfNat(x.id), x.some, x.ctrls)
    [] x.d = "envdec" -> [id |-> B8OfNat(x.id), app |-> 11, ctrls |-> WithKnown(x.ctrls)]

(* ---------------- laws on the specification itself ---------------- *)
(* Decode(Encode(v)) = v for every modelled response codec and every alternative length form *)
RespRoundTrip ==
  (ph = 1 /\ dir = "resp") =>
     /\ v.encs # {}
     /\ \A e \in v.encs : LET r == DecoderOf(kind, e) IN r.ok /\ r.f = v.fields
EnvRoundTrip ==
  (ph = 1 /\ dir = "envdec") =>
     \A e \in v.encs : LET r == DecMsg(e) IN r.ok /\ r.id = B8OfNat(v.id) /\ r.app = 11 /\ r.ctrls = WithKnown(v.ctrls)
(* the request envelope decodes back to the list that was encoded (absent criticality = FALSE, absent value = none) *)
EnvEncDec ==
  (ph = 1 /\ dir = "envenc") =>
     \A e \in Expect(v) : LET r == DecMsg(e) IN r.ok /\ r.app = 10 /\ r.ctrls = WithKnown(v.ctrls)
(* the request value of a BER-valued control is itself well-formed BER; PagedResults request = response codec *)
ReqWellFormed ==
  (ph = 1 /\ dir \in {"req", "exop"}) =>
     LET e == Expect(v) IN
     /\ (kind \in {"PagedResults", "SyncRequest", "PreRead", "PostRead", "Assertion", "MatchedValues", "EndTxn"}
           => e.hasval /\ DecOne(e.val).ok)
     /\ (kind = "PagedResults" => DecPaged(e.val).ok /\ DecPaged(e.val).f = v.f)
     /\ (kind \in {"ManageDsaIt", "RelaxRules", "WhoAmI", "StartTxn"} => ~e.hasval)
     /\ (dir = "req" => e.crit = (v.critical \/ kind \in {"ProxyAuth", "TxnSpec"}))
(* every alternative length form is a legal one *)
ASSUME FormsLegal == \A n \in {0, 1, 127, 128, 255, 256, 65535, 65536} : \A k \in Forms \cup {0} : LenForm(n, k) \in AltLen(n)

(* ---------------- vector output ---------------- *)
Emit ==
  ~EmitVectors \/ ph = 0 \/
  CASE dir \in {"req", "exop"} -> PrintT(<<"VEC", ToJson([d |-> dir, kind |-> kind, critical |-> (dir = "req" /\ v.critical), f |-> v.f, expect |-> Expect(v)])>>)
    [] dir = "resp"   -> PrintT(<<"VEC", ToJson([d |-> dir, kind |-> kind, strict |-> v.strict, expect |-> v.fields, encs |-> v.encs])>>)
    [] dir = "envenc" -> PrintT(<<"VEC", ToJson([d |-> dir, kind |-> kind, id |-> v.id, some |-> v.some, op |-> OpReq, ctrls |-> v.ctrls, expect |-> Expect(v)])>>)
    [] dir = "envdec" -> PrintT(<<"VEC", ToJson([d |-> dir, kind |-> kind, strict |-> v.strict, expect |-> Expect(v), encs |-> v.encs])>>)
=============================================================================
