----------------------------- MODULE Controls -----------------------------
(***************************************************************************)
(* Controls and extended operations of LDAP as the defining documents give *)
(* them (oracle of C19; the table of DESIGN.md section 3.5):               *)
(*   RFC 2696 (paged results), RFC 4533 (content sync), RFC 4527 (pre/post *)
(*   read), RFC 4528 (assertion), RFC 3876 (matched values), RFC 4370      *)
(*   (proxied authorization), RFC 5805 (transactions), RFC 3296            *)
(*   (ManageDsaIT), draft-zeilenga-ldap-relax, RFC 4532 (Who am I?),       *)
(*   RFC 3062 (password modify), RFC 4511 4.1.11 (Controls envelope).      *)
(* Written from those documents, not from ldap3.  Strings are sequences of *)
(* bytes; 64-bit integers are 8-octet two's-complement sequences (Ber).    *)
(***************************************************************************)
EXTENDS Ber, FiniteSets

(* ------------------------------------------------------------------ *)
(* ASCII helpers                                                       *)
(* ------------------------------------------------------------------ *)
RECURSIVE Dec10(_)
Dec10(n) == IF n < 10 THEN <<48 + n>> ELSE Dec10(n \div 10) \o <<48 + (n % 10)>>
RECURSIVE Dotted(_)
Dotted(arcs) == IF Len(arcs) = 1 THEN Dec10(arcs[1]) ELSE Dec10(arcs[1]) \o <<46>> \o Dotted(Tail(arcs))

(* ------------------------------------------------------------------ *)
(* OID table (arcs exactly as printed in the RFCs)                     *)
(* ------------------------------------------------------------------ *)
OidArcs(kind) ==
  CASE kind = "PagedResults"   -> <<1, 2, 840, 113556, 1, 4, 319>>          \* RFC 2696 section 2
    [] kind = "SyncRequest"    -> <<1, 3, 6, 1, 4, 1, 4203, 1, 9, 1, 1>>    \* RFC 4533 section 2.2
    [] kind = "SyncState"      -> <<1, 3, 6, 1, 4, 1, 4203, 1, 9, 1, 2>>    \* RFC 4533 section 2.3
    [] kind = "SyncDone"       -> <<1, 3, 6, 1, 4, 1, 4203, 1, 9, 1, 3>>    \* RFC 4533 section 2.4
    [] kind = "SyncInfo"       -> <<1, 3, 6, 1, 4, 1, 4203, 1, 9, 1, 4>>    \* RFC 4533 section 2.5
    [] kind = "PreRead"        -> <<1, 3, 6, 1, 1, 13, 1>>                  \* RFC 4527 section 3.1
    [] kind = "PostRead"       -> <<1, 3, 6, 1, 1, 13, 2>>                  \* RFC 4527 section 3.2
    [] kind = "Assertion"      -> <<1, 3, 6, 1, 1, 12>>                     \* RFC 4528 section 3
    [] kind = "MatchedValues"  -> <<1, 2, 826, 0, 1, 3344810, 2, 3>>        \* RFC 3876 section 2
    [] kind = "ProxyAuth"      -> <<2, 16, 840, 1, 113730, 3, 4, 18>>       \* RFC 4370 section 3
    [] kind = "TxnSpec"        -> <<1, 3, 6, 1, 1, 21, 2>>                  \* RFC 5805 section 2.2
    [] kind = "ManageDsaIt"    -> <<2, 16, 840, 1, 113730, 3, 4, 2>>        \* RFC 3296 section 3
    [] kind = "RelaxRules"     -> <<1, 3, 6, 1, 4, 1, 4203, 666, 5, 12>>    \* draft-zeilenga-ldap-relax
    [] kind = "WhoAmI"         -> <<1, 3, 6, 1, 4, 1, 4203, 1, 11, 3>>      \* RFC 4532 section 2.1
    [] kind = "PasswordModify" -> <<1, 3, 6, 1, 4, 1, 4203, 1, 11, 1>>      \* RFC 3062 section 2
    [] kind = "StartTxn"       -> <<1, 3, 6, 1, 1, 21, 1>>                  \* RFC 5805 section 2.1
    [] kind = "EndTxn"         -> <<1, 3, 6, 1, 1, 21, 3>>                  \* RFC 5805 section 2.3
Oid(kind) == Dotted(OidArcs(kind))

RequestControls == {"PagedResults", "SyncRequest", "PreRead", "PostRead", "Assertion", "MatchedValues",
                    "ProxyAuth", "TxnSpec", "ManageDsaIt", "RelaxRules"}
Exops == {"WhoAmI", "PasswordModify", "StartTxn", "EndTxn"}

(* criticality the constructor must produce (RFC 4370 section 3 and RFC 5805 section 2.2: MUST be TRUE) *)
DefaultCrit(kind) == kind \in {"ProxyAuth", "TxnSpec"}

(* ------------------------------------------------------------------ *)
(* RFC 4511 Filter and RFC 4515 string form for a small filter AST     *)
(*   [op |-> "and"|"or", k |-> <<ast...>>]   [op |-> "not", k |-> <<ast>>] *)
(*   [op |-> "eq"|"ge"|"le"|"approx", a, v]  [op |-> "present", a]     *)
(*   [op |-> "substr", a, hasi, i, anys, hasf, f]                      *)
(*   [op |-> "ext", hasrule, rule, hasa, a, v, dn]                     *)
(* ------------------------------------------------------------------ *)
RECURSIVE FTree(_)
FTree(x) ==
  CASE x.op = "and"     -> Cons(2, 0, [i \in 1..Len(x.k) |-> FTree(x.k[i])])
    [] x.op = "or"      -> Cons(2, 1, [i \in 1..Len(x.k) |-> FTree(x.k[i])])
    [] x.op = "not"     -> Cons(2, 2, <<FTree(x.k[1])>>)
    [] x.op = "eq"      -> Cons(2, 3, <<TOct(x.a), TOct(x.v)>>)
    [] x.op = "substr"  -> Cons(2, 4, <<TOct(x.a),
                              TSeq((IF x.hasi THEN <<Prim(2, 0, x.i)>> ELSE <<>>)
                                   \o [j \in 1..Len(x.anys) |-> Prim(2, 1, x.anys[j])]
                                   \o (IF x.hasf THEN <<Prim(2, 2, x.f)>> ELSE <<>>))>>)
    [] x.op = "ge"      -> Cons(2, 5, <<TOct(x.a), TOct(x.v)>>)
    [] x.op = "le"      -> Cons(2, 6, <<TOct(x.a), TOct(x.v)>>)
    [] x.op = "present" -> Prim(2, 7, x.a)
    [] x.op = "approx"  -> Cons(2, 8, <<TOct(x.a), TOct(x.v)>>)
    [] x.op = "ext"     -> Cons(2, 9, (IF x.hasrule THEN <<Prim(2, 1, x.rule)>> ELSE <<>>)
                                      \o (IF x.hasa THEN <<Prim(2, 2, x.a)>> ELSE <<>>)
                                      \o <<Prim(2, 3, x.v)>>
                                      \o (IF x.dn THEN <<Prim(2, 4, <<255>>)>> ELSE <<>>))

HexDigit(d) == IF d < 10 THEN 48 + d ELSE 87 + d
(* RFC 4515: NUL ( ) * \ must be escaped; this rendering also escapes everything outside printable ASCII *)
EscByte(b) == IF b >= 32 /\ b <= 126 /\ b \notin {40, 41, 42, 92} THEN <<b>>
              ELSE <<92, HexDigit(b \div 16), HexDigit(b % 16)>>
EscVal(v) == Flat([i \in 1..Len(v) |-> EscByte(v[i])])

RECURSIVE FStr(_)
FStr(x) ==
  LET Simple(sym) == <<40>> \o x.a \o sym \o EscVal(x.v) \o <<41>> IN
  CASE x.op = "and"     -> <<40, 38>> \o Flat([i \in 1..Len(x.k) |-> FStr(x.k[i])]) \o <<41>>
    [] x.op = "or"      -> <<40, 124>> \o Flat([i \in 1..Len(x.k) |-> FStr(x.k[i])]) \o <<41>>
    [] x.op = "not"     -> <<40, 33>> \o FStr(x.k[1]) \o <<41>>
    [] x.op = "eq"      -> Simple(<<61>>)
    [] x.op = "ge"      -> Simple(<<62, 61>>)
    [] x.op = "le"      -> Simple(<<60, 61>>)
    [] x.op = "approx"  -> Simple(<<126, 61>>)
    [] x.op = "present" -> <<40>> \o x.a \o <<61, 42, 41>>
    [] x.op = "substr"  -> <<40>> \o x.a \o <<61>> \o (IF x.hasi THEN EscVal(x.i) ELSE <<>>)
                             \o Flat([j \in 1..Len(x.anys) |-> <<42>> \o EscVal(x.anys[j])]) \o <<42>>
                             \o (IF x.hasf THEN EscVal(x.f) ELSE <<>>) \o <<41>>
    [] x.op = "ext"     -> <<40>> \o (IF x.hasa THEN x.a ELSE <<>>) \o (IF x.dn THEN <<58, 100, 110>> ELSE <<>>)
                             \o (IF x.hasrule THEN <<58>> \o x.rule ELSE <<>>) \o <<58, 61>> \o EscVal(x.v) \o <<41>>

(* RFC 3876: ValuesReturnFilter ::= SEQUENCE OF SimpleFilterItem; string form "(" 1*( "(" item ")" ) ")" *)
MVTree(items) == TSeq([i \in 1..Len(items) |-> FTree(items[i])])
MVStr(items)  == <<40>> \o Flat([i \in 1..Len(items) |-> FStr(items[i])]) \o <<41>>

(* ------------------------------------------------------------------ *)
(* Request side: fields -> [oid, crit, hasval, val]                    *)
(* ------------------------------------------------------------------ *)
NoVal  == [has |-> FALSE, b |-> <<>>]
Val(b) == [has |-> TRUE, b |-> b]
Opt(has, t) == IF has THEN <<t>> ELSE <<>>

ModeNumber(m) == IF m = "RefreshOnly" THEN 1 ELSE 3          \* RFC 4533 2.2: refreshOnly (1), refreshAndPersist (3)

ReqValue(kind, f) ==
  CASE kind = "PagedResults"  -> Val(Enc(TSeq(<<TInt(f.size), TOct(f.cookie)>>)))
    [] kind = "SyncRequest"   -> Val(Enc(TSeq(<<TEnumN(ModeNumber(f.mode))>> \o Opt(f.hascookie, TOct(f.cookie))
                                              \o Opt(f.reload, TBool(TRUE)))))
    [] kind \in {"PreRead", "PostRead"} -> Val(Enc(TSeq([i \in 1..Len(f.attrs) |-> TOct(f.attrs[i])])))
    [] kind = "Assertion"     -> Val(Enc(FTree(f.ast)))
    [] kind = "MatchedValues" -> Val(Enc(MVTree(f.items)))
    [] kind = "ProxyAuth"     -> Val(f.authzid)
    [] kind = "TxnSpec"       -> Val(f.txn_id)
    [] kind \in {"ManageDsaIt", "RelaxRules"} -> NoVal
    [] kind \in {"WhoAmI", "StartTxn"} -> NoVal
    [] kind = "PasswordModify" ->
         IF ~f.hasuser /\ ~f.hasold /\ ~f.hasnew THEN NoVal
         ELSE Val(Enc(TSeq(Opt(f.hasuser, Prim(2, 0, f.user)) \o Opt(f.hasold, Prim(2, 1, f.old))
                           \o Opt(f.hasnew, Prim(2, 2, f.new)))))
    [] kind = "EndTxn"        -> Val(Enc(TSeq(Opt(~f.commit, TBool(FALSE)) \o <<TOct(f.txn_id)>>)))

Req(kind, f, critical) ==
  LET v == ReqValue(kind, f) IN
  [oid |-> Oid(kind), crit |-> (DefaultCrit(kind) \/ critical), hasval |-> v.has, val |-> v.b]
ExopReq(kind, f) ==
  LET v == ReqValue(kind, f) IN [oid |-> Oid(kind), hasval |-> v.has, val |-> v.b]

(* ------------------------------------------------------------------ *)
(* Alternative (non-minimal) definite length forms                     *)
(* ------------------------------------------------------------------ *)
(* k = 0: minimal; k >= 1: long form with max(k, needed) length octets *)
LenForm(n, k) == IF k = 0 THEN LenOct(n)
                 ELSE LET d == Digits(n)
                          p == IF k > Len(d) THEN k - Len(d) ELSE 0
                      IN <<128 + Len(d) + p>> \o Zeros(p) \o d
RECURSIVE EncK(_, _)
EncK(t, k) == LET body == IF t.prim THEN t.v ELSE Flat([i \in 1..Len(t.k) |-> EncK(t.k[i], k)])
              IN <<Ident(t)>> \o LenForm(Len(body), k) \o body
RECURSIVE NodeCount(_), CountAll(_)
NodeCount(t) == IF t.prim THEN 1 ELSE 1 + CountAll(t.k)
CountAll(ks) == IF ks = <<>> THEN 0 ELSE NodeCount(Head(ks)) + CountAll(Tail(ks))
(* the i-th node in preorder uses form k, all others the minimal form *)
RECURSIVE EncAt(_, _, _), EncKids(_, _, _)
EncAt(t, i, k) == LET body == IF t.prim THEN t.v ELSE EncKids(t.k, i - 1, k)
                  IN <<Ident(t)>> \o (IF i = 1 THEN LenForm(Len(body), k) ELSE LenOct(Len(body))) \o body
EncKids(ks, i, k) == IF ks = <<>> THEN <<>>
                     ELSE LET nc == NodeCount(Head(ks)) IN
                          (IF i >= 1 /\ i <= nc THEN EncAt(Head(ks), i, k) ELSE Enc(Head(ks)))
                          \o EncKids(Tail(ks), i - nc, k)
AltEncs(t, forms) == {EncK(t, k) : k \in forms \cup {0}} \cup
                     {EncAt(t, i, k) : i \in 1..NodeCount(t), k \in forms \ {0}}

(* ------------------------------------------------------------------ *)
(* Response side: fields -> tree (encoder direction) and bytes ->      *)
(* fields (decoder direction, independent of the encoder)              *)
(* ------------------------------------------------------------------ *)
Fail == [ok |-> FALSE]
IsU(t, n) == t.c = 0 /\ t.n = n /\ t.prim
IsSeqT(t) == t.c = 0 /\ t.n = 16 /\ ~t.prim
MinimalInt(c) == Len(c) >= 1 /\ Len(c) <= 8 /\ IntContent(IntValue(c)) = c
BoolOf(t) == t.v[1] # 0
IsBool(t) == IsU(t, 1) /\ Len(t.v) = 1

(* RFC 2696: realSearchControlValue ::= SEQUENCE { size INTEGER (0..maxInt), cookie OCTET STRING } *)
PagedTree(f) == TSeq(<<TInt(f.size), TOct(f.cookie)>>)
DecPaged(b) ==
  LET d == DecOne(b) IN
  IF d.ok /\ IsSeqT(d.t) /\ Len(d.t.k) = 2 /\ IsU(d.t.k[1], 2) /\ MinimalInt(d.t.k[1].v) /\ IsU(d.t.k[2], 4)
  THEN [ok |-> TRUE, f |-> [size |-> IntValue(d.t.k[1].v), cookie |-> d.t.k[2].v]] ELSE Fail

(* RFC 4533 2.3: syncStateValue ::= SEQUENCE { state ENUMERATED { present (0), add (1), modify (2), delete (3) },
                                               entryUUID syncUUID, cookie syncCookie OPTIONAL } *)
StateName(n) == CASE n = 0 -> "Present" [] n = 1 -> "Add" [] n = 2 -> "Modify" [] n = 3 -> "Delete"
StateNumber(s) == CASE s = "Present" -> 0 [] s = "Add" -> 1 [] s = "Modify" -> 2 [] s = "Delete" -> 3
SyncStateTree(f) == TSeq(<<TEnumN(StateNumber(f.state)), TOct(f.uuid)>> \o Opt(f.hascookie, TOct(f.cookie)))
DecSyncState(b) ==
  LET d == DecOne(b) IN
  IF d.ok /\ IsSeqT(d.t) /\ Len(d.t.k) \in {2, 3} /\ IsU(d.t.k[1], 10) /\ Len(d.t.k[1].v) = 1 /\ d.t.k[1].v[1] <= 3
     /\ IsU(d.t.k[2], 4) /\ (Len(d.t.k) = 3 => IsU(d.t.k[3], 4))
  THEN [ok |-> TRUE, f |-> [state |-> StateName(d.t.k[1].v[1]), uuid |-> d.t.k[2].v,
                            hascookie |-> (Len(d.t.k) = 3), cookie |-> IF Len(d.t.k) = 3 THEN d.t.k[3].v ELSE <<>>]]
  ELSE Fail

(* optional cookie followed by an optional BOOLEAN: shared by syncDoneValue and the refresh* alternatives.
   `expl` = encode the BOOLEAN even when it has its default value (legal BER, excluded by RFC 4511 5.1). *)
CookieFlag(hascookie, cookie, flag, default, expl) ==
  Opt(hascookie, TOct(cookie)) \o Opt(flag # default \/ expl, TBool(flag))
DecCookieFlag(k, default) ==
  LET n  == Len(k)
      hc == n >= 1 /\ IsU(k[1], 4)
      p  == IF hc THEN 2 ELSE 1
      hb == n >= p /\ IsBool(k[p])
  IN [ok |-> TRUE, hascookie |-> hc, cookie |-> IF hc THEN k[1].v ELSE <<>>,
      flag |-> IF hb THEN BoolOf(k[p]) ELSE default, next |-> IF hb THEN p + 1 ELSE p]

(* RFC 4533 2.4: syncDoneValue ::= SEQUENCE { cookie syncCookie OPTIONAL, refreshDeletes BOOLEAN DEFAULT FALSE } *)
SyncDoneTree(f, expl) == TSeq(CookieFlag(f.hascookie, f.cookie, f.rd, FALSE, expl))
DecSyncDone(b) ==
  LET d == DecOne(b) IN
  IF d.ok /\ IsSeqT(d.t)
  THEN LET c == DecCookieFlag(d.t.k, FALSE) IN
       IF c.next = Len(d.t.k) + 1
       THEN [ok |-> TRUE, f |-> [hascookie |-> c.hascookie, cookie |-> c.cookie, rd |-> c.flag]] ELSE Fail
  ELSE Fail

(* RFC 4533 2.5: syncInfoValue ::= CHOICE {
     newcookie [0] syncCookie,
     refreshDelete  [1] SEQUENCE { cookie syncCookie OPTIONAL, refreshDone BOOLEAN DEFAULT TRUE },
     refreshPresent [2] SEQUENCE { cookie syncCookie OPTIONAL, refreshDone BOOLEAN DEFAULT TRUE },
     syncIdSet [3] SEQUENCE { cookie syncCookie OPTIONAL, refreshDeletes BOOLEAN DEFAULT FALSE,
                              syncUUIDs SET OF syncUUID } }
   carried in IntermediateResponse ::= [APPLICATION 25] SEQUENCE { responseName [0] LDAPOID OPTIONAL,
                                                                   responseValue [1] OCTET STRING OPTIONAL } *)
SyncInfoValueTree(f, expl) ==
  CASE f.choice = "NewCookie"      -> Prim(2, 0, f.cookie)
    [] f.choice = "RefreshDelete"  -> Cons(2, 1, CookieFlag(f.hascookie, f.cookie, f.flag, TRUE, expl))
    [] f.choice = "RefreshPresent" -> Cons(2, 2, CookieFlag(f.hascookie, f.cookie, f.flag, TRUE, expl))
    [] f.choice = "SyncIdSet"      -> Cons(2, 3, CookieFlag(f.hascookie, f.cookie, f.flag, FALSE, expl)
                                                 \o <<TSet([i \in 1..Len(f.uuids) |-> TOct(f.uuids[i])])>>)
IntermediateTree(valbytes) == Cons(1, 25, <<Prim(2, 0, Oid("SyncInfo")), Prim(2, 1, valbytes)>>)

RECURSIVE AllOct(_)
AllOct(ks) == ks = <<>> \/ (IsU(Head(ks), 4) /\ AllOct(Tail(ks)))
Range(s) == {s[i] : i \in 1..Len(s)}

(* decoded fields; syncUUIDs as a set (the struct holds a HashSet) *)
DecSyncInfoValue(b) ==
  LET d == DecOne(b) IN
  IF ~d.ok \/ d.t.c # 2 THEN Fail
  ELSE IF d.t.n = 0 /\ d.t.prim THEN [ok |-> TRUE, f |-> [choice |-> "NewCookie", cookie |-> d.t.v]]
  ELSE IF d.t.n \in {1, 2} /\ ~d.t.prim THEN
       LET c == DecCookieFlag(d.t.k, TRUE) IN
       IF c.next = Len(d.t.k) + 1
       THEN [ok |-> TRUE, f |-> [choice |-> IF d.t.n = 1 THEN "RefreshDelete" ELSE "RefreshPresent",
                                 hascookie |-> c.hascookie, cookie |-> c.cookie, flag |-> c.flag]]
       ELSE Fail
  ELSE IF d.t.n = 3 /\ ~d.t.prim THEN
       LET c == DecCookieFlag(d.t.k, FALSE) IN
       IF c.next = Len(d.t.k) /\ d.t.k[c.next].c = 0 /\ d.t.k[c.next].n = 17 /\ ~d.t.k[c.next].prim
          /\ AllOct(d.t.k[c.next].k)
       THEN [ok |-> TRUE, f |-> [choice |-> "SyncIdSet", hascookie |-> c.hascookie, cookie |-> c.cookie,
                                 flag |-> c.flag, uuidset |-> {u.v : u \in Range(d.t.k[c.next].k)}]]
       ELSE Fail
  ELSE Fail
DecSyncInfo(b) ==
  LET d == DecOne(b) IN
  IF d.ok /\ d.t.c = 1 /\ d.t.n = 25 /\ ~d.t.prim /\ Len(d.t.k) = 2
     /\ d.t.k[1] = Prim(2, 0, Oid("SyncInfo")) /\ d.t.k[2].c = 2 /\ d.t.k[2].n = 1 /\ d.t.k[2].prim
  THEN DecSyncInfoValue(d.t.k[2].v) ELSE Fail
(* the same shape for the encoder's field record *)
SyncInfoFields(f) ==
  IF f.choice = "SyncIdSet"
  THEN [choice |-> f.choice, hascookie |-> f.hascookie, cookie |-> f.cookie, flag |-> f.flag, uuidset |-> Range(f.uuids)]
  ELSE f

(* RFC 3629 / Unicode table 3-7: well-formed UTF-8 *)
RECURSIVE Utf8From(_, _)
Utf8From(s, i) ==
  IF i > Len(s) THEN TRUE ELSE
  LET b == s[i]
      In(j, lo, hi) == j <= Len(s) /\ s[j] >= lo /\ s[j] <= hi
      Cont(j) == In(j, 128, 191)
  IN IF b < 128 THEN Utf8From(s, i + 1)
     ELSE IF b >= 194 /\ b <= 223 THEN Cont(i + 1) /\ Utf8From(s, i + 2)
     ELSE IF b = 224 THEN In(i + 1, 160, 191) /\ Cont(i + 2) /\ Utf8From(s, i + 3)
     ELSE IF (b >= 225 /\ b <= 236) \/ b = 238 \/ b = 239 THEN Cont(i + 1) /\ Cont(i + 2) /\ Utf8From(s, i + 3)
     ELSE IF b = 237 THEN In(i + 1, 128, 159) /\ Cont(i + 2) /\ Utf8From(s, i + 3)
     ELSE IF b = 240 THEN In(i + 1, 144, 191) /\ Cont(i + 2) /\ Cont(i + 3) /\ Utf8From(s, i + 4)
     ELSE IF b >= 241 /\ b <= 243 THEN Cont(i + 1) /\ Cont(i + 2) /\ Cont(i + 3) /\ Utf8From(s, i + 4)
     ELSE IF b = 244 THEN In(i + 1, 128, 143) /\ Cont(i + 2) /\ Cont(i + 3) /\ Utf8From(s, i + 4)
     ELSE FALSE
IsUtf8(s) == Utf8From(s, 1)

(* RFC 4527 3.1/3.2: the response control value is a BER-encoded SearchResultEntry
     [APPLICATION 4] SEQUENCE { objectName LDAPDN, attributes SEQUENCE OF SEQUENCE { type, vals SET OF value } }
   entry = [dn, attrs: <<[type, vals]...>>].  The library's struct keeps the attributes only: an attribute whose
   values are all UTF-8 is textual (values in order), otherwise binary (values as a multiset, as in C15). *)
EntryTree(e) == Cons(1, 4, <<TOct(e.dn), TSeq([i \in 1..Len(e.attrs) |->
                                   TSeq(<<TOct(e.attrs[i].type), TSet([j \in 1..Len(e.attrs[i].vals) |-> TOct(e.attrs[i].vals[j])])>>)])>>)
AllText(vals) == \A j \in 1..Len(vals) : IsUtf8(vals[j])
ReadEntryFields(attrs) == [text |-> SelectSeq(attrs, LAMBDA a : AllText(a.vals)),
                           bin  |-> SelectSeq(attrs, LAMBDA a : ~AllText(a.vals))]
RECURSIVE AttrsOf(_)
AttrsOf(ks) ==
  IF ks = <<>> THEN [ok |-> TRUE, a |-> <<>>]
  ELSE LET h == Head(ks) IN
       IF IsSeqT(h) /\ Len(h.k) = 2 /\ IsU(h.k[1], 4) /\ h.k[2].c = 0 /\ h.k[2].n = 17 /\ ~h.k[2].prim /\ AllOct(h.k[2].k)
       THEN LET r == AttrsOf(Tail(ks)) IN
            IF r.ok THEN [ok |-> TRUE, a |-> <<[type |-> h.k[1].v, vals |-> [j \in 1..Len(h.k[2].k) |-> h.k[2].k[j].v]]>> \o r.a]
            ELSE r
       ELSE [ok |-> FALSE, a |-> <<>>]
DecReadEntry(b) ==
  LET d == DecOne(b) IN
  IF d.ok /\ d.t.c = 1 /\ d.t.n = 4 /\ ~d.t.prim /\ Len(d.t.k) = 2 /\ IsU(d.t.k[1], 4) /\ IsSeqT(d.t.k[2])
  THEN LET r == AttrsOf(d.t.k[2].k) IN IF r.ok THEN [ok |-> TRUE, f |-> ReadEntryFields(r.a)] ELSE Fail
  ELSE Fail

(* RFC 3062: PasswdModifyResponseValue ::= SEQUENCE { genPasswd [0] OCTET STRING OPTIONAL } *)
PassModRespTree(f) == TSeq(<<Prim(2, 0, f.gen)>>)
DecPassModResp(b) ==
  LET d == DecOne(b) IN
  IF d.ok /\ IsSeqT(d.t) /\ Len(d.t.k) = 1 /\ d.t.k[1].c = 2 /\ d.t.k[1].n = 0 /\ d.t.k[1].prim
  THEN [ok |-> TRUE, f |-> [gen |-> d.t.k[1].v]] ELSE Fail

(* RFC 4532 2.2 (authzId, UTF-8) and RFC 5805 2.1 (transaction identifier): the response value is the raw string *)
DecRaw(b) == [ok |-> TRUE, f |-> [s |-> b]]

(* ------------------------------------------------------------------ *)
(* RFC 4511 4.1.1 / 4.1.11: LDAPMessage envelope with Controls         *)
(*   Control ::= SEQUENCE { controlType LDAPOID, criticality BOOLEAN DEFAULT FALSE,                       *)
(*                          controlValue OCTET STRING OPTIONAL }                                          *)
(* control = [oid, crit, hasval, val]                                  *)
(* ------------------------------------------------------------------ *)
CtlTree(c, expl) == TSeq(<<TOct(c.oid)>> \o Opt(c.crit \/ expl, TBool(c.crit)) \o Opt(c.hasval, TOct(c.val)))
CtlsTree(cs, expl) == Cons(2, 0, [i \in 1..Len(cs) |-> CtlTree(cs[i], expl)])
MsgTree8(id8, op, ctls) == TSeq(<<TInt(id8), op>> \o ctls)          \* ctls: <<>> or <<CtlsTree(..)>>
MsgTree(id, op, ctls) == MsgTree8(B8OfNat(id), op, ctls)
(* fixed protocolOps used around the control lists *)
OpReq  == Prim(1, 10, <<99, 110, 61, 120>>)                                  \* DelRequest "cn=x"
OpResp == Cons(1, 11, <<TEnumN(0), TOct(<<>>), TOct(<<>>)>>)                 \* DelResponse success
(* encodings the request envelope may have: `some` = a control vector was supplied; an empty vector may be
   sent as an empty Controls element or left out *)
EnvExpected(id8, some, ctrls) ==
  IF ~some THEN {Enc(MsgTree8(id8, OpReq, <<>>))}
  ELSE IF ctrls = <<>> THEN {Enc(MsgTree8(id8, OpReq, <<>>)), Enc(MsgTree8(id8, OpReq, <<CtlsTree(<<>>, FALSE)>>))}
  ELSE {Enc(MsgTree8(id8, OpReq, <<CtlsTree(ctrls, FALSE)>>))}

(* ControlType the library documents for recognised response controls *)
KnownType(oid) ==
  CASE oid = Oid("PagedResults")  -> "PagedResults"
    [] oid = Oid("PostRead")      -> "PostReadResp"
    [] oid = Oid("PreRead")       -> "PreReadResp"
    [] oid = Oid("SyncDone")      -> "SyncDone"
    [] oid = Oid("SyncState")     -> "SyncState"
    [] oid = Oid("ManageDsaIt")   -> "ManageDsaIt"
    [] oid = Oid("MatchedValues") -> "MatchedValues"
    [] OTHER -> "None"

RECURSIVE DecCtls(_)
DecCtls(ks) ==
  IF ks = <<>> THEN [ok |-> TRUE, c |-> <<>>]
  ELSE LET h == Head(ks) IN
       IF ~(IsSeqT(h) /\ Len(h.k) >= 1 /\ IsU(h.k[1], 4)) THEN [ok |-> FALSE, c |-> <<>>]
       ELSE LET n  == Len(h.k)
                hb == n >= 2 /\ IsBool(h.k[2])
                p  == IF hb THEN 3 ELSE 2
                hv == n >= p /\ IsU(h.k[p], 4)
                r  == DecCtls(Tail(ks))
            IN IF (IF hv THEN p ELSE p - 1) # n \/ ~r.ok THEN [ok |-> FALSE, c |-> <<>>]
               ELSE [ok |-> TRUE,
                     c |-> <<[oid |-> h.k[1].v, crit |-> IF hb THEN BoolOf(h.k[2]) ELSE FALSE,
                              hasval |-> hv, val |-> IF hv THEN h.k[p].v ELSE <<>>,
                              known |-> KnownType(h.k[1].v)]>> \o r.c]
(* [ok, id (8 octets), app (application tag number of the protocolOp), ctrls] *)
DecMsg(b) ==
  LET d == DecOne(b) IN
  IF d.ok /\ IsSeqT(d.t) /\ Len(d.t.k) \in {2, 3} /\ IsU(d.t.k[1], 2) /\ MinimalInt(d.t.k[1].v) /\ d.t.k[2].c = 1
  THEN IF Len(d.t.k) = 2 THEN [ok |-> TRUE, id |-> IntValue(d.t.k[1].v), app |-> d.t.k[2].n, ctrls |-> <<>>]
       ELSE IF d.t.k[3].c = 2 /\ d.t.k[3].n = 0 /\ ~d.t.k[3].prim
            THEN LET r == DecCtls(d.t.k[3].k) IN
                 IF r.ok THEN [ok |-> TRUE, id |-> IntValue(d.t.k[1].v), app |-> d.t.k[2].n, ctrls |-> r.c] ELSE Fail
            ELSE Fail
  ELSE Fail
DecoderOf(k, b) ==
  CASE k = "PagedResults" -> DecPaged(b)
    [] k = "SyncState" -> DecSyncState(b)
    [] k = "SyncDone" -> DecSyncDone(b)
    [] k = "SyncInfo" -> DecSyncInfo(b)
    [] k \in {"PreReadResp", "PostReadResp"} -> DecReadEntry(b)
    [] k \in {"WhoAmIResp", "StartTxnResp"} -> DecRaw(b)
    [] k = "PasswordModifyResp" -> DecPassModResp(b)

WithKnown(cs) == [i \in 1..Len(cs) |-> [oid |-> cs[i].oid, crit |-> cs[i].crit, hasval |-> cs[i].hasval,
                                         val |-> cs[i].val, known |-> KnownType(cs[i].oid)]]
=============================================================================
