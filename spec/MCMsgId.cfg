SPECIFICATION Spec
CONSTANTS MaxId = 6
INVARIANTS TypeOK AllocLawOK Emit
PROPERTIES AllocFresh
CHECK_DEADLOCK FALSE
