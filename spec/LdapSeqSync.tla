---------------------------- MODULE LdapSeqSync ----------------------------
(* C14 - "The synchronous API is observationally identical to the asynchronous one".            *)
(*                                                                                              *)
(* A deterministic, sequential model of ONE handle (LdapConn + EntryStream, resp. Ldap +        *)
(* SearchStream used by one task) driven by a script.  A script is a sequence of steps; a step  *)
(* is   (optional modifiers)  +  a call of the public surface  +  the behaviour of the server   *)
(* for the request that call produces.  For each step the model predicts                        *)
(*   - the abstract request(s) the server sees (protocol operation, message ID, which argument  *)
(*     tuple of the pool, which controls, whether search options are applied),                  *)
(*   - the abstract return value (outcome class, error variant, result code, the message ID     *)
(*     echoed by the server, entry tokens in order, number of referrals, scalar value),         *)
(*   - for a streaming search: the return of every EntryStream call made on the stream,         *)
(*   - last_id() and is_closed() after the step.                                                *)
(* The property itself is EQUALITY of the two lanes (TraceSync); the model supplies the common  *)
(* reference both lanes are compared with, written from the documentation:                      *)
(*   - with_controls / with_timeout / with_search_options affect exactly the next operation     *)
(*     ("Pass the provided request control(s) to the next LDAP operation", "Perform the next    *)
(*     operation with the timeout", "options will be silently discarded when [a non-Search]     *)
(*     operation is invoked");                                                                  *)
(*   - message IDs are allocated consecutively (RFC 4511 4.1.1.1: unique among outstanding);     *)
(*   - once the connection is gone every later operation fails and is_closed() is true;         *)
(*   - SearchStream protocol: next() until Ok(None), then finish(); early finish() gives the     *)
(*     synthetic rc 88; search() = EntriesOnly adapter (referrals collected into the result).   *)
(* No TLC-only operators here.                                                                  *)
EXTENDS Integers, Sequences, FiniteSets

-----------------------------------------------------------------------------
(* Surface *)
SingleOps == {"simple_bind", "sasl_external_bind", "add", "compare", "delete", "modify", "modifydn", "extended"}
NoRespOps == {"abandon", "unbind"}
StreamOps == {"streaming_search", "streaming_search_with"}
SearchOps == {"search"} \cup StreamOps
Ops       == SingleOps \cup NoRespOps \cup SearchOps
NonOps    == {"last_id", "is_closed", "get_peer_certificate", "noop"}     \* noop: modifiers only, no call
Calls     == Ops \cup NonOps
SubCalls  == {"next", "lastid", "result"}                                  \* EntryStream::next / last_id / result

(* Wire-level operation name and argument-tuple number of a call *)
WireOp(call) == CASE call \in {"simple_bind", "sasl_external_bind"} -> "bind"
                  [] call \in SearchOps -> "search"
                  [] OTHER -> call
(* rejected by the library before anything is sent *)
LocalReject(st) == \/ st.call = "add" /\ st.arg = 1          \* an attribute with an empty value set
                   \/ st.call = "modify" /\ st.arg = 1       \* Mod::Add with an empty value set
                   \/ st.call \in SearchOps /\ st.arg = 3    \* unparsable filter
LocalVar(st) == IF st.call \in SearchOps THEN "FilterParsing" ELSE "AddNoValues"

-----------------------------------------------------------------------------
(* Return projection: one uniform record *)
Ret(out, var, rc, mid, ents, refs, val) ==
  [out |-> out, var |-> var, rc |-> rc, mid |-> mid, ents |-> ents, refs |-> refs, val |-> val]
RPlain       == Ret("ok", "", -1, -1, <<>>, 0, -1)              \* Ok(()) / Ok(stream)
RVal(v)      == Ret("ok", "", -1, -1, <<>>, 0, v)
RErr(c, v)   == Ret(c, v, -1, -1, <<>>, 0, -1)
RRes(rc, mid, ents, refs, val) == Ret("ok", "", rc, mid, ents, refs, val)
RSome(tok)   == Ret("ok", "", -1, -1, <<tok>>, 0, 1)
RNone        == Ret("ok", "", -1, -1, <<>>, 0, 0)
RHang        == RErr("hang", "")
RAny         == RErr("any", "")

(* Server behaviours *)
Rc(srv) == CASE srv = "e6" -> 6 [] srv = "e10" -> 10 [] srv = "e32" -> 32 [] OTHER -> 0
RefsOf(rc) == IF rc = 10 THEN 1 ELSE 0
Ent(n)   == [t |-> "ent", n |-> n]
RefItem  == [t |-> "ref", n |-> 0]
DoneI(rc) == [t |-> "done", n |-> rc]
SilI     == [t |-> "sil", n |-> 0]
DisI     == [t |-> "dis", n |-> 0]
PageI    == [t |-> "page", n |-> 0]      \* end of a page: a SearchResultDone whose paged-results control carries a cookie
Items(srv) == CASE srv = "k1"  -> <<Ent(1), DoneI(0)>>
                [] srv = "k2"  -> <<Ent(1), Ent(2), DoneI(0)>>
                [] srv = "ref" -> <<Ent(1), RefItem, Ent(2), DoneI(0)>>
                [] srv = "k1s" -> <<Ent(1), SilI>>
                [] srv = "k1d" -> <<Ent(1), DisI>>
                [] srv = "sil" -> <<SilI>>
                [] srv = "dis" -> <<DisI>>
                [] srv = "p2"  -> <<Ent(1), DoneI(0)>>          \* a paging server asked without the control: everything at once
                [] OTHER       -> <<DoneI(Rc(srv))>>
(* "p2" asked through the PagedResults adapter (ad = 2): two pages of one entry; the adapter reads the end of page one, *)
(* sends the search again with the cookie (the next message ID) and goes on with the entries of page two               *)
PagedItems == <<Ent(1), PageI, Ent(2), DoneI(0)>>
SrvSingle == {"ok", "e6", "e10", "e32", "sil", "dis"}
SrvSearch == {"ok", "k1", "k2", "ref", "e32", "e10", "sil", "dis", "k1s", "k1d", "p2"}

-----------------------------------------------------------------------------
(* Handle state *)
H0 == [mid |-> 0, lastid |-> 0, lastany |-> 0, pc |-> 0, pt |-> 0, ps |-> 0, conn |-> "up", unst |-> FALSE]
(* conn: "up" | "down" (connection gone) | "hung" (blocked for ever: the script ends)              *)
(* unst: the driver task may or may not have noticed that the peer went away (after unbind, or    *)
(*       after a stream was dropped with an unread disconnect): is_closed() and the exact error   *)
(*       variant of later calls are then scheduling-dependent and only the class is predicted.    *)
ClosedOf(h) == IF h.unst \/ h.conn = "hung" THEN 2 ELSE IF h.conn = "down" THEN 1 ELSE 0     \* 2 = either

SelectEnts(items) == LET F[i \in 0..Len(items)] ==
                           IF i = 0 THEN <<>> ELSE IF items[i].t = "ent" THEN Append(F[i-1], items[i].n) ELSE F[i-1]
                     IN F[Len(items)]
CountRefs(items) == Cardinality({i \in 1..Len(items) : items[i].t = "ref"})

(* ---- EntryStream / SearchStream ---- *)
SS0 == [pos |-> 1, sst |-> "Active", res |-> -1, acc |-> 0, sawdis |-> FALSE, hung |-> FALSE, pages |-> 0]
(* one stream call; ctx = [items, eo, tmo, id] *)
SubStep(ss, sub, ctx) ==
  CASE sub = "lastid" -> [ss |-> ss, ret |-> RVal(ctx.id + ss.pages)]      \* the ID of the search in progress: the latest page's
    [] sub = "result" ->
         [ss  |-> [ss EXCEPT !.sst = "Closed"],
          ret |-> IF ss.sst = "Done"
                  THEN RRes(ss.res, ctx.id + ss.pages, <<>>, RefsOf(ss.res) + ss.acc, -1)
                  ELSE RRes(88, -1, <<>>, ss.acc, -1)]
    [] sub = "next" ->
         IF ss.sst # "Active" THEN [ss |-> ss, ret |-> RNone]
         ELSE LET skip == ctx.eo = 1 /\ ctx.items[ss.pos].t = "ref"      \* EntriesOnly swallows a referral
                  turn == ctx.items[ss.pos].t = "page"                    \* PagedResults asks for the next page
                  p    == IF skip \/ turn THEN ss.pos + 1 ELSE ss.pos
                  s1   == [ss EXCEPT !.acc = IF skip THEN @ + 1 ELSE @, !.pages = IF turn THEN @ + 1 ELSE @]
                  it   == ctx.items[p]
              IN CASE it.t = "ent"  -> [ss |-> [s1 EXCEPT !.pos = p + 1], ret |-> RSome(it.n)]
                   [] it.t = "ref"  -> [ss |-> [s1 EXCEPT !.pos = p + 1], ret |-> RSome(0)]
                   [] it.t = "done" -> [ss |-> [s1 EXCEPT !.pos = p + 1, !.sst = "Done", !.res = it.n], ret |-> RNone]
                   [] it.t = "sil"  -> IF ctx.tmo = 1
                                       THEN [ss |-> [s1 EXCEPT !.pos = p, !.sst = "Error"], ret |-> RErr("timeout", "Timeout")]
                                       ELSE [ss |-> [s1 EXCEPT !.pos = p, !.hung = TRUE], ret |-> RHang]
                   [] OTHER         -> [ss |-> [s1 EXCEPT !.pos = p, !.sst = "Error", !.sawdis = TRUE],
                                        ret |-> RErr("eos", "EndOfStream")]
    [] OTHER -> [ss |-> ss, ret |-> RAny]

RECURSIVE RunSubs(_, _, _, _, _)
RunSubs(subs, i, ss, rets, ctx) ==
  IF i > Len(subs) \/ ss.hung THEN [ss |-> ss, rets |-> rets]
  ELSE LET r == SubStep(ss, subs[i], ctx) IN RunSubs(subs, i + 1, r.ss, Append(rets, r.ret), ctx)

-----------------------------------------------------------------------------
(* One step.  st = [call, arg, ad, sub, ctl, tmo, so, srv]; result = [h, ev]                      *)
(* ev = [reqs, ret, subs, lastid, lastalt, closed, unst]                                          *)
Ev(reqs, ret, subs, h2, unst) ==
  [reqs |-> reqs, ret |-> ret, subs |-> subs, lastid |-> h2.lastid, lastalt |-> h2.lastany,
   closed |-> ClosedOf(h2), unst |-> IF unst THEN 1 ELSE 0]

AbandonTarget(h, arg) == IF arg = 0 THEN h.lastid ELSE IF arg = 1 THEN 1 ELSE 9
WireArg(h, st) == CASE st.call = "sasl_external_bind" -> 2
                    [] st.call = "abandon" -> AbandonTarget(h, st.arg)
                    [] OTHER -> st.arg

Step(h, st) ==
  LET pc1 == IF st.ctl # 0 THEN st.ctl ELSE h.pc
      pt1 == IF st.tmo # 0 THEN 1 ELSE h.pt
      ps1 == IF st.so # 0 THEN 1 ELSE h.ps
  IN
  IF st.call \in NonOps THEN
      LET h2  == [h EXCEPT !.pc = pc1, !.pt = pt1, !.ps = ps1]      \* not an operation: modifiers stay pending
          ret == CASE st.call = "last_id" -> RVal(h.lastid)
                   [] st.call = "is_closed" -> RVal(ClosedOf(h))
                   [] st.call = "get_peer_certificate" ->
                        IF h.unst THEN RAny ELSE IF h.conn = "down" THEN RErr("conn", "MiscSend") ELSE RVal(0)
                   [] OTHER -> RPlain
      IN [h |-> h2, ev |-> Ev(<<>>, ret, <<>>, h2, h.unst)]
  ELSE
  LET h1 == [h EXCEPT !.pc = 0, !.pt = 0, !.ps = 0] IN                \* an operation consumes the modifiers
  IF LocalReject(st) THEN [h |-> h1, ev |-> Ev(<<>>, RErr("local", LocalVar(st)), <<>>, h1, h.unst)]
  ELSE
  LET id   == h.mid + 1
      srch == st.call \in SearchOps
      h2   == [h1 EXCEPT !.mid = id, !.lastany = id, !.lastid = IF srch THEN @ ELSE id]
      paged == st.call = "streaming_search_with" /\ st.ad = 2
      \* pg: 0 no paged-results control, 1 the control with an empty cookie, 2 with the server's cookie; ctl abstracts the
      \* other controls (the adapter's list is never an empty Controls element: token 3 becomes "none")
      req  == [op |-> WireOp(st.call), id |-> id, arg |-> WireArg(h, st), ctl |-> IF paged /\ pc1 = 3 THEN 0 ELSE pc1,
               so |-> IF srch THEN ps1 ELSE 0, pg |-> IF paged THEN 1 ELSE 0]
  IN
  IF h.conn # "up" THEN
      [h |-> h2, ev |-> Ev(<<>>, RErr("conn", IF h.unst THEN "" ELSE "OpSend"), <<>>, h2, h.unst)]
  ELSE IF st.call = "abandon" THEN [h |-> h2, ev |-> Ev(<<req>>, RPlain, <<>>, h2, FALSE)]
  ELSE IF st.call = "unbind" THEN
      LET h3 == [h2 EXCEPT !.conn = "down", !.unst = TRUE] IN [h |-> h3, ev |-> Ev(<<req>>, RPlain, <<>>, h3, FALSE)]
  ELSE IF st.call \in SingleOps THEN
      CASE st.srv = "sil" ->
             IF pt1 = 1 THEN [h |-> h2, ev |-> Ev(<<req>>, RErr("timeout", "Timeout"), <<>>, h2, FALSE)]
             ELSE LET h3 == [h2 EXCEPT !.conn = "hung"] IN [h |-> h3, ev |-> Ev(<<req>>, RHang, <<>>, h3, FALSE)]
        [] st.srv = "dis" ->
             LET h3 == [h2 EXCEPT !.conn = "down"] IN [h |-> h3, ev |-> Ev(<<req>>, RErr("conn", "ResultRecv"), <<>>, h3, FALSE)]
        [] OTHER ->
             LET rc == Rc(st.srv) IN
             [h |-> h2, ev |-> Ev(<<req>>, RRes(rc, id, <<>>, RefsOf(rc), IF st.call = "extended" THEN id ELSE -1), <<>>, h2, FALSE)]
  ELSE IF st.call = "search" THEN
      LET items == Items(st.srv)
          term  == items[Len(items)]
          front == SubSeq(items, 1, Len(items) - 1)
      IN CASE term.t = "done" ->
                [h |-> h2, ev |-> Ev(<<req>>, RRes(term.n, id, SelectEnts(front), CountRefs(front) + RefsOf(term.n), -1), <<>>, h2, FALSE)]
           [] term.t = "sil" ->
                IF pt1 = 1 THEN [h |-> h2, ev |-> Ev(<<req>>, RErr("timeout", "Timeout"), <<>>, h2, FALSE)]
                ELSE LET h3 == [h2 EXCEPT !.conn = "hung"] IN [h |-> h3, ev |-> Ev(<<req>>, RHang, <<>>, h3, FALSE)]
           [] OTHER ->
                LET h3 == [h2 EXCEPT !.conn = "down"] IN [h |-> h3, ev |-> Ev(<<req>>, RErr("eos", "EndOfStream"), <<>>, h3, FALSE)]
  ELSE  \* streaming_search / streaming_search_with: open, then the calls in st.sub on the stream, then the stream is dropped
      LET items == IF paged /\ st.srv = "p2" THEN PagedItems ELSE Items(st.srv)
          ctx   == [items |-> items, eo |-> st.ad, tmo |-> pt1, id |-> id]
          r     == RunSubs(st.sub, 1, SS0, <<>>, ctx)
          unread == items[Len(items)].t = "dis" /\ ~r.ss.sawdis
          hp    == [h2 EXCEPT !.mid = @ + r.ss.pages]                     \* every page is a search of its own, with its own ID
          h3    == IF r.ss.hung THEN [hp EXCEPT !.conn = "hung"]
                   ELSE IF r.ss.sawdis THEN [hp EXCEPT !.conn = "down"]
                   ELSE IF unread THEN [hp EXCEPT !.conn = "down", !.unst = TRUE]
                   ELSE hp
          reqs  == <<req>> \o [k \in 1..r.ss.pages |-> [req EXCEPT !.id = id + k, !.pg = 2]]
      IN [h |-> h3, ev |-> Ev(reqs, RPlain, r.rets, h3, FALSE)]

(* The whole script: sequence of events; stops after a hang *)
RECURSIVE RunFrom(_, _, _, _)
RunFrom(h, script, i, evs) ==
  IF i > Len(script) \/ h.conn = "hung" THEN evs
  ELSE LET r == Step(h, script[i]) IN RunFrom(r.h, script, i + 1, Append(evs, r.ev))
Run(script) == RunFrom(H0, script, 1, <<>>)

-----------------------------------------------------------------------------
(* State machine form (used by MCSync): the script grows by one step at a time *)
VARIABLES script, h, evs
vars == <<script, h, evs>>
InitSeq == script = <<>> /\ h = H0 /\ evs = <<>>
Extend(st) == /\ h.conn # "hung"
              /\ script' = Append(script, st)
              /\ LET r == Step(h, st) IN h' = r.h /\ evs' = Append(evs, r.ev)

-----------------------------------------------------------------------------
(* Laws the property states, formulated on (script, evs) independently of the bookkeeping in Step *)
IsOpStep(i) == script[i].call \in Ops
PrevOp(i) == LET S == {j \in 1..(i-1) : IsOpStep(j)} IN IF S = {} THEN 0 ELSE CHOOSE j \in S : \A k \in S : k <= j
(* value of modifier f in force at step i: the last one set since the previous operation *)
InForce(i, f) == LET S == {k \in (PrevOp(i)+1)..i : script[k][f] # 0}
                 IN IF S = {} THEN 0 ELSE script[CHOOSE k \in S : \A m \in S : m <= k][f]

(* modifiers affect exactly the next operation *)
ModsExactlyNext ==
  \A i \in 1..Len(evs) :
     /\ \A q \in 1..Len(evs[i].reqs) :
          /\ evs[i].reqs[q].ctl = IF evs[i].reqs[q].pg # 0 /\ InForce(i, "ctl") = 3 THEN 0 ELSE InForce(i, "ctl")
          /\ evs[i].reqs[q].so = IF script[i].call \in SearchOps THEN InForce(i, "so") ELSE 0
     /\ (evs[i].ret.out = "timeout" \/ \E s \in 1..Len(evs[i].subs) : evs[i].subs[s].out = "timeout") => InForce(i, "tmo") # 0
     /\ (evs[i].ret.out = "hang" \/ \E s \in 1..Len(evs[i].subs) : evs[i].subs[s].out = "hang") => InForce(i, "tmo") = 0

(* after the connection is gone every later call fails, nothing more reaches the server, is_closed() is not false *)
SawGone(i) == \/ evs[i].ret.var \in {"ResultRecv", "EndOfStream"}
              \/ \E s \in 1..Len(evs[i].subs) : evs[i].subs[s].var = "EndOfStream"
              \/ script[i].call = "unbind" /\ evs[i].ret.out = "ok"
AfterDisconnectFail ==
  \A i \in 1..Len(evs) : \A j \in (i+1)..Len(evs) :
     SawGone(i) =>
        /\ evs[j].reqs = <<>>
        /\ IsOpStep(j) => evs[j].ret.out \in {"conn", "local"}
        /\ script[j].call = "is_closed" => evs[j].ret.val # 0
        /\ evs[j].closed # 0

(* message IDs on the wire: 1, 2, 3, ... *)
AllReqs == LET F[i \in 0..Len(evs)] == IF i = 0 THEN <<>> ELSE F[i-1] \o evs[i].reqs IN F[Len(evs)]
IdsIncrease == \A k \in 1..Len(AllReqs) : AllReqs[k].id = k

(* a request is produced exactly by operations that are not rejected locally while the connection is up *)
(* - one request, except that the PagedResults adapter repeats the search, with the server's cookie, once per further page *)
IsPaged(i) == script[i].call = "streaming_search_with" /\ script[i].ad = 2
OneRequestPerOp ==
  \A i \in 1..Len(evs) :
     /\ Len(evs[i].reqs) <= IF IsPaged(i) THEN 2 ELSE 1
     /\ evs[i].reqs # <<>> => IsOpStep(i) /\ ~LocalReject(script[i])
     /\ \A q \in 1..Len(evs[i].reqs) : evs[i].reqs[q].pg = IF IsPaged(i) THEN q ELSE 0
     /\ Len(evs[i].reqs) = 2 => evs[i].reqs[2] = [evs[i].reqs[1] EXCEPT !.id = @ + 1, !.pg = 2]

TypeOK == /\ Len(evs) <= Len(script)
          /\ \A i \in 1..Len(evs) : evs[i].ret.out \in {"ok", "timeout", "conn", "eos", "local", "hang", "any"}
=============================================================================
