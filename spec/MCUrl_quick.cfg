SPECIFICATION Spec
CONSTANTS
  XBases = {1, 2, 3, 4, 5, 7}
  XAttrs = {1, 2, 3, 4, 6}
  XScopes = {1, 2, 3, 4, 5, 6}
  XFilters = {1, 2, 3, 4, 6, 8}
  XExts = {2, 3, 5, 7, 9, 10, 12, 13, 14, 16, 21}
  XMaxExts = 1
  YBases = {1, 3}
  YAttrs = {1, 3}
  YScopes = {1, 3}
  YFilters = {1, 3}
  YExts = {1, 2, 3, 4, 5, 6, 7, 8, 9, 10, 11, 12, 13, 14, 15, 16, 17, 18, 19, 20, 21}
  YMaxExts = 2
  ZBases = {4}
  ZAttrs = {1, 6}
  ZScopes = {1, 2}
  ZFilters = {1, 8}
  ZExts = {2, 3, 6, 8, 9, 11}
  ZMaxExts = 3
  NHosts = 2
  Styles = {"max", "min"}
  EmitVectors = TRUE
INVARIANTS Laws Emit
CHECK_DEADLOCK FALSE
