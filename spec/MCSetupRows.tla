---------------------------- MODULE MCSetupRows ----------------------------
(* C18: TLC enumerates the whole decision table of Setup!Decide (one state  *)
(* per row of the cross product), checks the table's consistency laws on    *)
(* every row and prints one vector per canonical row: the row, what Decide  *)
(* says and concrete URL spellings of the row's URL class for setup-run to  *)
(* instantiate ({P} = the port of the row's listener, {EP} = the            *)
(* percent-encoded path of the row's Unix socket; the socket file name      *)
(* contains a space).                                                       *)
EXTENDS Setup, TLC, Json

CONSTANTS XSchemes, XHosts, XPorts, XPaths, XStreams, XStarttls, XTimeouts, XEndpoints
ASSUME /\ XSchemes \subseteq Schemes /\ XHosts \subseteq Hosts /\ XPorts \subseteq Ports
       /\ XPaths \subseteq Paths /\ XStreams \subseteq Streams /\ XStarttls \subseteq BOOLEAN
       /\ XTimeouts \subseteq Timeouts /\ XEndpoints \subseteq Endpoints

VARIABLE r

HostSpell(h) == CASE h = "name" -> <<"localhost", "LOCALHOST", "user:pw@localhost", "u@localhost">>
                  [] h = "ipv4" -> <<"127.0.0.2", "u:p@127.0.0.2", "127.0.0.2", "127.0.0.2">>
                  [] h = "ipv6" -> <<"[::1]", "[0:0:0:0:0:0:0:1]", "u@[::1]", "[::1]">>
                  [] OTHER      -> <<"", "", "", "">>
SchemeSpell(s) == CASE s = "ldap"  -> <<"ldap", "LDAP", "ldap", "Ldap">>
                    [] s = "ldaps" -> <<"ldaps", "LDAPS", "ldaps", "LdapS">>
                    [] OTHER       -> <<"http", "ldapx", "cldap", "LDAPSS">>
TailSpell == <<"", "/", "/dc=example,dc=org", "/dc=x??sub?(cn=a%20b)">>

(* scheme://host[:port]tail, four spellings *)
NetSpell(s, h, p) ==
  [i \in 1..4 |-> SchemeSpell(s)[i] \o "://" \o HostSpell(h)[i]
                  \o (IF p = "given" THEN ":{P}" ELSE IF i = 4 /\ h # "absent" THEN ":" ELSE "") \o TailSpell[i]]

Spellings(x) ==
  CASE x.scheme = "unparsable" ->
         <<"localhost", "", "://localhost", "ldap://localhost:99999/", "ldap://[::1", "ldap://local host/",
           "ldap://localhost:3x9/", "1dap://localhost/", "//localhost", "ldap://[::1]x/">>
    [] x.scheme = "ldapi" ->
         (CASE x.path = "absent"   -> <<"ldapi:///", "ldapi://", "ldapi:", "LDAPI:///", "ldapi:{RAWPATH}", "ldapi:///{RAWPATH}">>
            [] x.path = "encoded"  -> <<"ldapi://{EP}", "ldapi://{EP}/", "LDAPI://{EP}", "ldapi://u@{EP}/", "ldapi://{EPL}", "ldapi://{EP}/dc=x">>
            [] x.path = "withport" -> <<"ldapi://{EP}:33", "ldapi://{EP}:33/", "LDAPI://{EP}:389", "ldapi://{EPL}:0">>
            [] OTHER               -> <<"ldapi://:33", "ldapi://:33/">>)
    [] x.host = "absent" /\ x.port = "absent" ->
         (IF x.scheme = "other"
          THEN <<"ldapx:///", "foo://", "localhost:{P}", "ldapx:localhost", "x-ldap:">>
          ELSE LET s == IF x.scheme = "ldap" THEN "ldap" ELSE "ldaps" IN
               <<s \o ":///", s \o "://", s \o ":localhost", s \o ":", s \o ":///dc=example",
                 (IF s = "ldap" THEN "LDAP" ELSE "LDAPS") \o ":///", s \o ":/">>)
    [] OTHER -> NetSpell(x.scheme, x.host, x.port)

\* ("huge" behaves as "none" in Decide; its rows with a silent endpoint - where the only observation is "still pending" - are left
\* to "none")
XRows == {x \in [scheme : XSchemes, host : XHosts, port : XPorts, path : XPaths, stream : XStreams,
                 starttls : XStarttls, timeout : XTimeouts, endpoint : XEndpoints] :
            x.timeout = "huge" => x.endpoint # "silent"}

Init == r \in XRows
Next == r' = r
Spec == Init /\ [][Next]_r

Laws == TableLaws(r)

Vec(x) == LET d == Decide(x) IN
  [row |-> x, kind |-> d.kind, route |-> d.route, errs |-> d.errs, urls |-> Spellings(x)]

Emit == Canonical(r) => PrintT(<<"VEC", ToJson(Vec(r))>>)
=============================================================================
