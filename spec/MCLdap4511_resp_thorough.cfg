SPECIFICATION Spec
CONSTANTS
  Dir = "resp"
  Forms = {1, 2, 3, 4, 9}
  Deep = TRUE
  EmitVectors = TRUE
INVARIANTS RespRoundTrip Emit
CHECK_DEADLOCK FALSE
