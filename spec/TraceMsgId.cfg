SPECIFICATION TrSpec
CONSTANTS MaxId = 2147483647
POSTCONDITION Accepted
CHECK_DEADLOCK FALSE
