SPECIFICATION Spec
CONSTANTS
  MaxAttrs = 2
  MaxVals1 = 3
  Pool1 <- FullPool
  MaxVals2 = 3
  Pool2 <- TinyPool
  SmallVals = 2
  MaxU = 4
  Alphabet <- BoundarySmall
  Lead4 <- SomeLead4
  EmitVectors = TRUE
INVARIANTS Scope ExactlyOneMap TextIffAllWellFormed ValuesPreserved Utf8TableIsDefinition EncodingReadsBack Emit
CHECK_DEADLOCK FALSE
