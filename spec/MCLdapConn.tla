---------------------------- MODULE MCLdapConn ----------------------------
(* Bounded instances of LdapConn for TLC. *)
EXTENDS LdapConn

KindsAll   == [o \in Ops |-> {"single", "search", "abandon", "unbind"}]
KindsNoUnb == [o \in Ops |-> {"single", "search", "abandon"}]
\* three operations with fixed roles: a single op, a search, and a single-or-abandon
KindsRoles == [o \in Ops |-> IF o = "o1" THEN {"single"} ELSE IF o = "o2" THEN {"search"} ELSE {"single", "abandon"}]
KindsRoles2 == [o \in Ops |-> IF o = "o1" THEN {"search"} ELSE IF o = "o2" THEN {"search"} ELSE {"single", "abandon"}]
KindsTimed == [o \in Ops |-> IF o = "o1" THEN {"single"} ELSE {"single", "search"}]
LastWrap == {0, MaxId - 1}
LastZero == {0}
TmoGen == {0, -1, 1}
TmoZero == {0, -1, 2}
TmoHuge == {0, 2, -2}          \* none, two ticks, the largest Duration there is
View == <<alloc, queues, maps, chans, callerv, envv, now>>     \* history variables hidden
EntOnly == {"ent"}
AllItems == {"ent", "ref", "int"}
=============================================================================
