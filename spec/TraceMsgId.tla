----------------------------- MODULE TraceMsgId -----------------------------
(* Allocator events recorded from the real code (sequence numbers taken under the msgmap lock, so   *)
(* the order of events is the lock order, also across OS threads) against MsgId with the real MaxId. *)
EXTENDS MsgId, Json, IOUtils

Rec == ndJsonDeserialize(IOEnv.TRACE)
VARIABLE l
E == Rec[l]
Is(e) == l <= Len(Rec) /\ Rec[l].ev = e
Diag(tag) == PrintT(<<"DIAG", l, tag>>)
Chk(c, tag) == IF c THEN TRUE ELSE Diag(tag)
SetOfSeq(sq) == {sq[n] : n \in 1..Len(sq)}

TReset   == Is("Reset") /\ l' = l + 1 /\ last' = 0 /\ used' = {}
TSetMap  == Is("SetMap") /\ l' = l + 1 /\ last' = E.last /\ used' = SetOfSeq(E.used)
TAlloc   == /\ Is("IdAlloc") /\ l' = l + 1
            /\ Chk(E.lastb = last, "alloc:last-before")
            /\ Chk(E.id \in Ids /\ E.id \notin used, "alloc:fresh-in-range")
            /\ Chk(E.id = Probe(last, used), "alloc:law")
            /\ last' = E.id /\ used' = used \cup {E.id}
TRelease == Is("IdRelease") /\ l' = l + 1 /\ used' = used \ {E.id} /\ UNCHANGED last
TOther   == l <= Len(Rec) /\ E.ev \notin {"Reset", "SetMap", "IdAlloc", "IdRelease"} /\ l' = l + 1 /\ UNCHANGED <<last, used>>
TrNext == TReset \/ TSetMap \/ TAlloc \/ TRelease \/ TOther
TrSpec == (last = 0 /\ used = {} /\ l = 1) /\ [][TrNext]_<<last, used, l>>
Accepted == IF TLCGet("stats").diameter - 1 = Len(Rec) THEN TRUE
            ELSE Print(<<"TRACE-NOT-CONSUMED", TLCGet("stats").diameter, Len(Rec)>>, FALSE)
=============================================================================
