----------------------------- MODULE TraceBer -----------------------------
(* I -> S for C07: every record is an input/output pair produced by lber;  *)
(* the specification recomputes it.  One state per record; a record the     *)
(* spec disagrees with is printed as <<"BADREC", index>> and counted.       *)
EXTENDS Ber, TLC, Json, IOUtils

Rec == ndJsonDeserialize(IOEnv.TRACE)
VARIABLE l

NullTree == Prim(0, 0, <<>>)

Check(e) ==
  CASE e.m = "tree" ->
         /\ Enc(e.tree) = e.bytes                              \* encoder output is the canonical encoding
         /\ DecOne(e.bytes).ok /\ DecOne(e.bytes).t = e.tree    \* and an independent decoder reads the tree back
         /\ e.parsed = e.tree /\ e.rest = 2                     \* lber's parser returned it, trailing bytes untouched
    [] e.m = "int" ->
         /\ e.content = IntContent(e.b8)
    [] OTHER -> FALSE

Init == l = 1
Next == /\ l <= Len(Rec) /\ l' = l + 1
        /\ (Check(Rec[l]) \/ PrintT(<<"BADREC", l>>))
Spec == Init /\ [][Next]_l
Accepted == IF TLCGet("stats").diameter - 1 = Len(Rec) THEN TRUE
            ELSE Print(<<"TRACE-NOT-CONSUMED", TLCGet("stats").diameter, Len(Rec)>>, FALSE)
=============================================================================
