SPECIFICATION Spec
CONSTANTS
  HPool = {1, 2, 3, 6, 8, 9, 10, 11}
  MaxStr = 2
  Ext3 = TRUE
  ByteVals = TRUE
  EmitVectors = TRUE
INVARIANTS TotalInv PrefixClosedInv OrigMsg OrigTail TruncNeedMore AltFormSame ScanDecAgree NeedMoreOnlyIfShort Emit
CHECK_DEADLOCK FALSE
