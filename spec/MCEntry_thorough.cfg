SPECIFICATION Spec
CONSTANTS
  MaxAttrs = 2
  MaxVals1 = 3
  Pool1 <- FullPool
  MaxVals2 = 3
  Pool2 <- MidPool
  SmallVals = 3
  MaxU = 4
  Alphabet <- Boundary
  Lead4 <- AllLead4
  EmitVectors = TRUE
INVARIANTS Scope ExactlyOneMap TextIffAllWellFormed ValuesPreserved Utf8TableIsDefinition EncodingReadsBack Emit
CHECK_DEADLOCK FALSE
