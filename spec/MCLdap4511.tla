---------------------------- MODULE MCLdap4511 ----------------------------
(* Model-checking instance and vector generator for Ldap4511.                *)
(*   Dir = "req"  (C02): every state is one request model (operation,         *)
(*     arguments, message ID, controls); invariants = the laws of the request *)
(*     side on the specification itself; Emit prints the acceptable encodings.*)
(*   Dir = "resp" (C03): every state is one response model with all its       *)
(*     alternative definite-length encodings; invariant = DecodeResponse      *)
(*     reads every one of them back; Emit prints encodings + expected result. *)
(* A seed state per (operation or kind, group); its successors are the values.*)
EXTENDS Ldap4511, TLC, Json

CONSTANTS Dir,          \* "req" or "resp"
          Forms,        \* numbers of length octets of the non-minimal long forms (subset of 1..4)
          Deep,         \* TRUE: larger pools (thorough tier)
          EmitVectors

(* ------------------------------- strings ------------------------------- *)
Long(n) == [i \in 1..n |-> 97 + (i % 26)]
sCN == <<99, 110>>  sSN == <<115, 110>>  sUID == <<117, 105, 100>>
sOC == <<111, 98, 106, 101, 99, 116, 67, 108, 97, 115, 115>>
sCNX == <<99, 110, 61, 120>>                                                             \* "cn=x"
sDn == <<117, 105, 100, 61, 117, 44, 100, 99, 61, 101, 120, 97, 109, 112, 108, 101, 44, 100, 99, 61, 99, 111, 109>>
sUtfDn == <<99, 110, 61, 195, 188, 226, 130, 172, 240, 157, 132, 158>>                   \* "cn=" U+00FC U+20AC U+1D11E
sUtf == <<195, 169, 116, 195, 169, 32, 226, 130, 172>>                                   \* "ete" with accents, " ", euro
sPW == <<112, 119>>
sMsg == <<110, 111, 32, 115, 117, 99, 104, 32, 111, 98, 106, 101, 99, 116>>              \* "no such object"
sCertBin == <<117, 115, 101, 114, 67, 101, 114, 116, 105, 102, 105, 99, 97, 116, 101, 59, 98, 105, 110, 97, 114, 121>>
sStar == <<42>>  sPlus == <<43>>  sNoAttrs == <<49, 46, 49>>
sOidWho == <<49, 46, 51, 46, 54, 46, 49, 46, 52, 46, 49, 46, 52, 50, 48, 51, 46, 49, 46, 49, 49, 46, 51>>    \* 1.3.6.1.4.1.4203.1.11.3
sOid123 == <<49, 46, 50, 46, 51>>
sOidDsaIt == <<50, 46, 49, 54, 46, 56, 52, 48, 46, 49, 46, 49, 49, 51, 55, 51, 48, 46, 51, 46, 52, 46, 50>>  \* 2.16.840.1.113730.3.4.2
sUrl1 == <<108, 100, 97, 112, 58, 47, 47, 97, 47, 100, 99, 61, 120>>                     \* ldap://a/dc=x
sUrl2 == <<108, 100, 97, 112, 115, 58, 47, 47, 195, 188, 46, 101, 120, 47, 63, 63, 115, 117, 98>>   \* ldaps://<u umlaut>.ex/??sub
sRule == <<50, 46, 53, 46, 49, 51, 46, 50>>                                              \* 2.5.13.2
sExact == <<99, 97, 115, 101, 69, 120, 97, 99, 116, 77, 97, 116, 99, 104>>               \* caseExactMatch
sPerson == <<112, 101, 114, 115, 111, 110>>
sA == <<97>>  sB == <<98>>  sC == <<99>>  sABC == <<97, 98, 99>>
vNul == <<0>>  vFF == <<255>>  vBin == <<0, 255, 128, 127>>

DNs == <<<<>>, sDn, sUtfDn, Long(130)>>
Vals == <<<<>>, vNul, vFF, vBin, sABC, Long(128)>>
MaxI == 2147483647
MinI == -MaxI - 1
Limits == {0, 1, 127, 128, 255, 256, 32767, 32768, MaxI, -1, -128, -129, MinI}
IdCorners == {1, 2, 127, 128, 255, 256, 32767, 32768, 65535, 65536, 8388607, 8388608, MaxI}

(* ------------------------------- filters ------------------------------- *)
FilterAsts == <<
  F!FPres(sOC),
  F!FSimple("eq", sCN, sABC),
  F!FAnd(<<F!FSimple("eq", sOC, sPerson),
           F!FOr(<<F!FSub(sCN, <<sA, sB, sC>>), F!FSimple("ge", sSN, sB)>>),
           F!FNot(F!FSimple("le", sUID, sC))>>),
  F!FSimple("approx", sCN, <<195, 188>>),
  F!FExt(sCN, sRule, TRUE, sA),
  F!FExt(<<>>, sExact, FALSE, sB),
  F!FSimple("eq", sCN, <<0, 255, 42, 40, 41, 92>>),
  F!FAnd(<<>>),
  F!FSimple("eq", sCN, Long(130)),
  F!FSub(sSN, <<<<>>, sB, <<>>>>)>>
Unparen(s) == SubSeq(s, 2, Len(s) - 1)
(* strings handed to the library: canonical print, all-escaped print, and bare items without parentheses.
   An operator with a parameter, so that TLC does not evaluate the strings while it starts up: the start-up thread has a
   small stack, and printing/parsing a 130-octet value is a deep recursion (it belongs on a worker thread). *)
NFilters == Len(FilterAsts) + 3
FilterStr(i) == IF i <= Len(FilterAsts) THEN F!Print(FilterAsts[i])
                ELSE IF i = Len(FilterAsts) + 1 THEN F!Render(FilterAsts[2], <<1>>)
                ELSE IF i = Len(FilterAsts) + 2 THEN Unparen(F!Print(FilterAsts[2]))
                ELSE Unparen(F!Print(FilterAsts[5]))
ASSUME FiltersParse == \A i \in (1..NFilters) \ {9} : F!Parse(FilterStr(i)).ok        \* the long one: see ReqTags
BadFilter == <<40, 99, 110, 61>>                                                        \* "(cn="
ASSUME ~F!Parse(BadFilter).ok

AttrLists == <<<<>>, <<sCN>>, <<sCN, sSN>>, <<sStar, sPlus>>, <<sNoAttrs>>, <<Long(130), sCertBin, sCN>>>>

(* ------------------------------- controls ------------------------------ *)
Ctl(oid, crit, hasval, val) == [oid |-> oid, crit |-> crit, hasval |-> hasval, val |-> val]
CtlValOpts == <<[has |-> FALSE, v |-> <<>>], [has |-> TRUE, v |-> <<>>], [has |-> TRUE, v |-> <<48, 3, 2, 1, 0, 255>>]>>
CtlPool == {Ctl(o, cr, CtlValOpts[x].has, CtlValOpts[x].v) : o \in {sOidDsaIt, sOid123}, cr \in BOOLEAN, x \in 1..3}
CtlLong == Ctl(sOid123, TRUE, TRUE, Long(130))
PairA == <<Ctl(sOidDsaIt, TRUE, FALSE, <<>>), Ctl(sOid123, FALSE, TRUE, vBin)>>
(* 0, 1 and 2 controls with every criticality/value combination *)
AllCtlLists == {<<>>} \cup {<<c>> : c \in CtlPool} \cup {<<c, d>> : c \in CtlPool, d \in CtlPool} \cup {<<CtlLong>>, <<CtlLong, CtlLong>>}
FewCtlLists == {<<>>, PairA} \cup (IF Deep THEN {<<c>> : c \in CtlPool} \cup {<<c, CtlLong>> : c \in CtlPool} ELSE {})

(* ------------------------------- requests ------------------------------ *)
SArgs(base, scope, deref, size, time, typesonly, filter, attrs) ==
  [base |-> base, scope |-> scope, deref |-> deref, size |-> size, time |-> time, typesonly |-> typesonly,
   filter |-> filter, attrs |-> attrs]
At(type, vals) == [type |-> type, vals |-> vals]
AttrPool == <<At(sCN, <<sABC>>), At(sSN, <<vNul, vFF>>), At(sCertBin, <<vBin>>), At(sOC, <<<<>>>>), At(sUID, <<sA, sB, sC>>)>>
Md(kind, type, vals) == [kind |-> kind, type |-> type, vals |-> vals]
ModPool == <<Md("Add", sCN, <<sABC>>), Md("Add", sSN, <<vNul, vFF>>),
             Md("Delete", sCN, <<>>), Md("Delete", sSN, <<sA>>), Md("Delete", sCertBin, <<vBin, vFF>>),
             Md("Replace", sCN, <<>>), Md("Replace", sSN, <<sUtf>>), Md("Replace", sUID, <<sA, sB>>),
             Md("Increment", sUID, <<<<49>>>>), Md("Increment", sUID, <<<<45, 53>>>>)>>
Lists(pool) == {<<>>} \cup {<<pool[i]>> : i \in 1..Len(pool)} \cup {<<pool[i], pool[j]>> : i \in 1..Len(pool), j \in 1..Len(pool)}

BaseArgs(op) ==
  CASE op = "bind" -> [dn |-> sDn, pw |-> sPW]
    [] op \in {"saslext", "unbind"} -> [x |-> 0]
    [] op = "search" -> SArgs(sDn, "Subtree", "Never", 0, 0, FALSE, FilterStr(1), <<sCN>>)
    [] op = "add" -> [dn |-> sDn, attrs |-> <<AttrPool[1], AttrPool[2]>>]
    [] op = "compare" -> [dn |-> sDn, attr |-> sCN, val |-> sABC]
    [] op = "delete" -> [dn |-> sDn]
    [] op = "modify" -> [dn |-> sDn, mods |-> <<ModPool[2], ModPool[3]>>]
    [] op = "modifydn" -> [dn |-> sDn, rdn |-> sCNX, delold |-> TRUE, hassup |-> FALSE, sup |-> <<>>]
    [] op = "extended" -> [name |-> sOidWho, hasval |-> FALSE, val |-> <<>>]
    [] op = "abandon" -> [target |-> 1]

SearchPoolOf(deep) ==
  {SArgs(sDn, sc, de, 0, 0, ty, FilterStr(1), <<sCN>>) : sc \in Scopes, de \in Derefs, ty \in BOOLEAN}
  \cup {SArgs(sDn, "Subtree", "Never", n, 0, FALSE, FilterStr(1), <<>>) : n \in Limits}
  \cup {SArgs(sDn, "Subtree", "Never", 0, n, FALSE, FilterStr(1), <<>>) : n \in Limits}
  \cup {SArgs(<<>>, "Base", "Always", n, n, TRUE, FilterStr(1), <<>>) : n \in {1, 128, MaxI, -1, MinI}}
  \cup {SArgs(sDn, "OneLevel", "Finding", 0, 0, FALSE, FilterStr(i), <<sCN>>) : i \in 1..NFilters}
  \cup {SArgs(sDn, "OneLevel", "Searching", 0, 0, FALSE, FilterStr(2), AttrLists[i]) : i \in 1..Len(AttrLists)}
  \cup {SArgs(DNs[i], "Base", "Never", 0, 0, FALSE, FilterStr(2), <<>>) : i \in 1..Len(DNs)}
  \cup {SArgs(DNs[b], sc, "Always", 1, MaxI, TRUE, FilterStr(f), AttrLists[at]) : b \in 1..3, sc \in Scopes, f \in {3, 5, 7, 12}, at \in {1, 3, 6}}
  \cup (IF deep THEN {SArgs(sUtfDn, sc, de, n, m, ty, FilterStr(3), <<sCN, sSN>>) :
                        sc \in Scopes, de \in Derefs, ty \in BOOLEAN, n \in {0, 127, 128, MaxI, -129}, m \in {0, 255, 256, 32768, MinI}}
        ELSE {})

ArgPool(op) ==
  CASE op = "bind" -> {[dn |-> DNs[i], pw |-> p] : i \in 1..Len(DNs), p \in {<<>>, sPW, sUtf, Long(130)}}
    [] op \in {"saslext", "unbind"} -> {[x |-> 0]}
    [] op = "search" -> SearchPoolOf(Deep)
    [] op = "add" -> {[dn |-> d, attrs |-> l] : d \in {<<>>, sDn}, l \in Lists(AttrPool)}
    [] op = "compare" -> {[dn |-> d, attr |-> t, val |-> Vals[i]] : d \in {<<>>, sUtfDn}, t \in {sCN, sCertBin}, i \in 1..Len(Vals)}
    [] op = "delete" -> {[dn |-> DNs[i]] : i \in 1..Len(DNs)}
    [] op = "modify" -> {[dn |-> d, mods |-> l] : d \in {<<>>, sDn}, l \in Lists(ModPool)}
    [] op = "modifydn" -> {[dn |-> d, rdn |-> r, delold |-> o, hassup |-> s.has, sup |-> s.v] :
                             d \in {sDn, sUtfDn}, r \in {sCNX, sUtfDn}, o \in BOOLEAN,
                             s \in {[has |-> FALSE, v |-> <<>>], [has |-> TRUE, v |-> <<>>], [has |-> TRUE, v |-> sDn], [has |-> TRUE, v |-> sUtfDn]}}
    [] op = "extended" -> {[name |-> n, hasval |-> v.has, val |-> v.v] : n \in {sOidWho, sOid123, <<>>},
                             v \in {[has |-> FALSE, v |-> <<>>], [has |-> TRUE, v |-> <<>>], [has |-> TRUE, v |-> vBin], [has |-> TRUE, v |-> Long(130)]}}
    [] op = "abandon" -> {[target |-> t] : t \in {0, 1, 127, 128, 255, 256, 32767, 32768, MaxI}}

RV(op, a, id, some, ctrls) == [op |-> op, a |-> a, id |-> id, some |-> some, ctrls |-> ctrls]
ReqGroups == {"args", "ctrls", "ids"}
ReqVals(op, g) ==
  CASE g = "args"  -> {RV(op, a, IF cl = <<>> THEN 1 ELSE 128, cl # <<>>, cl) : a \in ArgPool(op), cl \in FewCtlLists}
    [] g = "ctrls" -> {RV(op, BaseArgs(op), 1, TRUE, cl) : cl \in AllCtlLists}
    [] g = "ids"   -> {RV(op, BaseArgs(op), i, FALSE, <<>>) : i \in IdCorners}

(* ------------------------------- responses ----------------------------- *)
Rcs == {0, 1, 5, 6, 10, 14, 49, 80, 88, 127, 128, 255, 256, 65535, MaxI}
RefLists == <<<<>>, <<sUrl1>>, <<sUrl1, sUrl2>>>>
Texts == <<<<>>, sMsg, sUtf>>
Matcheds == <<<<>>, sDn, sUtfDn>>
(* text that is valid UTF-8 but easy to mangle: NUL at the end (what Active Directory sends), in the middle and alone,
   control characters, leading / trailing blanks, a trailing newline, a lone BOM *)
OddTexts == << <<109, 115, 103, 0>>, <<108, 0, 114>>, <<0>>, <<0, 0>>, <<9, 10, 13>>, <<32, 97, 32>>, <<32>>, <<97, 10>>,
               <<239, 187, 191>>, <<97, 13, 10>> >>
RespCtlLists == <<<<>>, <<Ctl(sOid123, FALSE, TRUE, vBin)>>, PairA>>
OptB(has, v) == [has |-> has, v |-> v]
Resp(kind, id, rc, matched, text, refs, sasl, name, value, ctrls) ==
  [kind |-> kind, id |-> id, rc |-> rc, matched |-> matched, text |-> text, refs |-> refs,
   hassasl |-> sasl.has, sasl |-> sasl.v, hasname |-> name.has, name |-> name.v, hasvalue |-> value.has, value |-> value.v,
   ctrls |-> ctrls]
None == OptB(FALSE, <<>>)
Plain(kind, rc, matched, text, refs, ctrls) == Resp(kind, 1, rc, matched, text, refs, None, None, None, ctrls)
(* a response vector: the model, how the control list is written, and nothing else *)
XV(r, emptyctl, expl) == [r |-> r, emptyctl |-> emptyctl, expl |-> expl]
RespGroups == {"rc", "strings", "odd", "ctrls", "cross", "ids", "special"}
RespVals(kind, g) ==
  CASE g = "rc" -> {XV(Plain(kind, rc, Matcheds[m], Texts[m], <<>>, <<>>), FALSE, FALSE) : rc \in Rcs, m \in {1, 2}}
    [] g = "strings" -> {XV(Plain(kind, IF r = 1 THEN 0 ELSE 10, Matcheds[m], Texts[t], RefLists[r], <<>>), FALSE, FALSE) :
                           r \in 1..3, m \in 1..3, t \in 1..3}
    [] g = "odd" -> {XV(Plain(kind, 49, OddTexts[m], OddTexts[t], <<>>, <<>>), FALSE, FALSE) : m \in {1, 6}, t \in 1..Len(OddTexts)}
                    \cup {XV(Plain(kind, 10, <<>>, sMsg, <<OddTexts[t]>>, <<>>), FALSE, FALSE) : t \in {1, 6, 8}}
    [] g = "ctrls" -> {XV(Plain(kind, 0, <<>>, sMsg, <<>>, cl), FALSE, x) :
                         cl \in {<<c>> : c \in CtlPool} \cup {<<c, CtlLong>> : c \in CtlPool} \cup {<<CtlLong>>}, x \in BOOLEAN}
                      \cup {XV(Plain(kind, 0, <<>>, <<>>, <<>>, <<>>), TRUE, FALSE)}
    [] g = "cross" -> {XV(Plain(kind, rc, Matcheds[m], Texts[m], RefLists[r], RespCtlLists[c]), FALSE, FALSE) :
                         rc \in Rcs, r \in 1..3, c \in 1..3, m \in IF Deep THEN 1..3 ELSE {2}}
    [] g = "ids" -> {XV(Resp(kind, i, 0, <<>>, <<>>, <<>>, None, None, None, <<>>), FALSE, FALSE) : i \in {1, 127, 128, 255, 256, 65535, MaxI}}
    [] g = "special" ->
         IF kind = 24 THEN {XV(Resp(kind, 1, rc, <<>>, sMsg, RefLists[r], None, n, v, <<>>), FALSE, FALSE) :
                              rc \in {0, 80}, r \in {1, 2},
                              n \in {None, OptB(TRUE, sOidWho), OptB(TRUE, <<>>)},
                              v \in {None, OptB(TRUE, <<>>), OptB(TRUE, vBin), OptB(TRUE, Long(130))}}
         ELSE IF kind = 1 THEN {XV(Resp(kind, 1, rc, <<>>, sMsg, RefLists[r], s, None, None, RespCtlLists[c]), FALSE, FALSE) :
                                  rc \in {0, 14, 49}, r \in {1, 2}, c \in {1, 2},
                                  s \in {None, OptB(TRUE, <<>>), OptB(TRUE, vBin), OptB(TRUE, Long(130))}}
         ELSE {}

(* ------------------------------- the state machine --------------------- *)
VARIABLES what, grp, ph, v
vars == <<what, grp, ph, v>>
(* Dir = "badrc": responses whose resultCode cannot be reported (2^32, 2^32 + 10, the same with a leading zero octet, 2^64,
   2^64 - 2^32, and no content at all) *)
BadRcOctets == {<<>>, <<1, 0, 0, 0, 0>>, <<1, 0, 0, 0, 10>>, <<0, 1, 0, 0, 0, 0>>, <<1, 0, 0, 0, 0, 0, 0, 0, 0>>,
                <<255, 255, 255, 255, 0, 0, 0, 0>>}
Init == /\ ph = 0 /\ v = <<>>
        /\ IF Dir = "req" THEN what \in Ops /\ grp \in ReqGroups
           ELSE IF Dir = "badrc" THEN what \in RespKinds /\ grp = "badrc"
           ELSE what \in RespKinds /\ grp \in RespGroups
Next == /\ ph = 0 /\ ph' = 1 /\ UNCHANGED <<what, grp>>
        /\ v' \in IF Dir = "req" THEN ReqVals(what, grp)
                  ELSE IF Dir = "badrc" THEN {[kind |-> what, id |-> 1, rcoct |-> o] : o \in BadRcOctets}
                  ELSE RespVals(what, grp)
Spec == Init /\ [][Next]_vars

Encs(x) == AltEncs(Response(x.r, x.emptyctl, x.expl), Forms)

(* ------------------------------- laws on the specification itself ------- *)
(* the independent reader maps every acceptable encoding of a request to what the request denotes *)
ReqRoundTrip ==
  (ph = 1 /\ Dir = "req") =>
     LET es == RequestEncodings(v.op, v.a, v.id, v.some, v.ctrls) IN
     /\ Enc(Request(v.op, v.a, v.id, v.ctrls)) \in es
     /\ \A e \in es : DecodeRequest(e) = Denote(v.op, v.a, v.id, v.ctrls)
(* the application tag is the one RFC 4511 assigns, and the response tag follows it *)
ReqTags ==
  (ph = 1 /\ Dir = "req") =>
     LET t == OpTree(v.op, v.a) IN
     /\ t.c = 1 /\ t.n = AppTag(v.op) /\ t.n \in {0, 2, 3, 6, 8, 10, 12, 14, 16, 23}
     /\ (RespTag(v.op) # 0 => RespTag(v.op) = AppTag(v.op) + 1 + (IF v.op = "search" THEN 1 ELSE 0))
     /\ (v.op = "search" => F!Parse(v.a.filter).ok)
(* every definite-length encoding of a response is read back as the response *)
RespRoundTrip ==
  (ph = 1 /\ Dir = "resp") =>
     /\ Encs(v) # {}
     /\ Enc(Response(v.r, v.emptyctl, v.expl)) \in Encs(v)
     /\ \A e \in Encs(v) : LET d == DecodeResponse(e) IN d = NormResp(v.r) /\ TextOk(d)
(* an unreportable result code is refused by the reader, whatever the response kind *)
BadRcRefused ==
  (ph = 1 /\ Dir = "badrc") => /\ RcUnreportable(v.rcoct)
                               /\ ~DecodeResponse(Enc(RawRcResponse(v.kind, v.id, v.rcoct))).ok
(* the helper table (result.rs documentation; RFC 4511 appendix A.1) *)
ASSUME HelperTable ==
  /\ \A rc \in Rcs : Success(rc) = (rc = 0) /\ NonError(rc) = (rc = 0 \/ rc = 10) /\ CmpNonError(rc) = (rc \in {5, 6, 10})
  /\ CmpEqual(5) = "false" /\ CmpEqual(6) = "true" /\ \A rc \in Rcs \ {5, 6} : CmpEqual(rc) = "error"

(* hand-assembled anchors (RFC 4511 appendix B, assembled octet by octet) *)
ASSUME Anchors ==
  /\ Enc(Request("delete", [dn |-> sCNX], 1, <<>>)) = <<48, 9, 2, 1, 1, 74, 4, 99, 110, 61, 120>>
  /\ Enc(Request("bind", [dn |-> sCNX, pw |-> sPW], 1, <<>>))
       = <<48, 18, 2, 1, 1, 96, 13, 2, 1, 3, 4, 4, 99, 110, 61, 120, 128, 2, 112, 119>>
  /\ Enc(Request("unbind", [x |-> 0], 3, <<>>)) = <<48, 5, 2, 1, 3, 66, 0>>
  /\ Enc(Request("abandon", [target |-> 5], 6, <<>>)) = <<48, 6, 2, 1, 6, 80, 1, 5>>
  /\ Enc(Request("search", SArgs(<<>>, "Base", "Never", 0, 0, FALSE, <<40>> \o sOC \o <<61, 42, 41>>, <<>>), 1, <<>>))
       = <<48, 37, 2, 1, 1, 99, 32, 4, 0, 10, 1, 0, 10, 1, 0, 2, 1, 0, 2, 1, 0, 1, 1, 0,
           135, 11, 111, 98, 106, 101, 99, 116, 67, 108, 97, 115, 115, 48, 0>>
  /\ Enc(Request("saslext", [x |-> 0], 1, <<>>))
       = <<48, 24, 2, 1, 1, 96, 19, 2, 1, 3, 4, 0, 163, 12, 4, 8, 69, 88, 84, 69, 82, 78, 65, 76, 4, 0>>
  /\ Enc(Request("modifydn", [dn |-> sCNX, rdn |-> sCNX, delold |-> TRUE, hassup |-> TRUE, sup |-> sA], 2, <<>>))
       = <<48, 23, 2, 1, 2, 108, 18, 4, 4, 99, 110, 61, 120, 4, 4, 99, 110, 61, 120, 1, 1, 255, 128, 1, 97>>
  /\ Enc(Request("modify", [dn |-> sA, mods |-> <<Md("Increment", sB, <<sC>>)>>], 1, <<>>))
       = <<48, 25, 2, 1, 1, 102, 20, 4, 1, 97, 48, 15, 48, 13, 10, 1, 3, 48, 8, 4, 1, 98, 49, 3, 4, 1, 99>>
  /\ Enc(Request("extended", [name |-> sOid123, hasval |-> TRUE, val |-> vFF], 1, <<>>))
       = <<48, 15, 2, 1, 1, 119, 10, 128, 5, 49, 46, 50, 46, 51, 129, 1, 255>>
  /\ Enc(Request("delete", [dn |-> sCNX], 1, <<Ctl(sOidDsaIt, TRUE, FALSE, <<>>)>>))
       = <<48, 41, 2, 1, 1, 74, 4, 99, 110, 61, 120, 160, 30, 48, 28, 4, 23>> \o sOidDsaIt \o <<1, 1, 255>>
  /\ Enc(Response(Plain(1, 0, <<>>, <<>>, <<>>, <<>>), FALSE, FALSE)) = <<48, 12, 2, 1, 1, 97, 7, 10, 1, 0, 4, 0, 4, 0>>
  /\ Enc(Response(Resp(24, 1, 0, <<>>, <<>>, <<sA>>, None, OptB(TRUE, sB), OptB(TRUE, sC), <<>>), FALSE, FALSE))
       = <<48, 23, 2, 1, 1, 120, 18, 10, 1, 0, 4, 0, 4, 0, 163, 3, 4, 1, 97, 138, 1, 98, 139, 1, 99>>
  /\ Enc(Response(Resp(1, 1, 14, <<>>, <<>>, <<>>, OptB(TRUE, sA), None, None, <<>>), FALSE, FALSE))
       = <<48, 15, 2, 1, 1, 97, 10, 10, 1, 14, 4, 0, 4, 0, 135, 1, 97>>

(* ------------------------------- vector output ------------------------- *)
PreRefs == << <<108, 100, 97, 112, 58, 47, 47, 120, 47>>, <<108, 100, 97, 112, 58, 47, 47, 121, 47, 111, 61, 122>> >>   \* "ldap://x/", "ldap://y/o=z"
Emit ==
  ~EmitVectors \/ ph = 0 \/
  IF Dir = "badrc"
  THEN PrintT(<<"VEC", ToJson([k |-> "respfail", kind |-> v.kind, op |-> KindName(v.kind), id |-> v.id, rcoct |-> v.rcoct,
                               bytes |-> Enc(RawRcResponse(v.kind, v.id, v.rcoct))])>>)
  ELSE IF Dir = "req"
  THEN PrintT(<<"VEC", ToJson([k |-> "req", op |-> v.op, a |-> v.a, id |-> v.id, some |-> v.some, ctrls |-> v.ctrls,
                               encs |-> RequestEncodings(v.op, v.a, v.id, v.some, v.ctrls)])>>)
  ELSE PrintT(<<"VEC", ToJson([k |-> "resp", kind |-> v.r.kind, op |-> KindName(v.r.kind), id |-> v.r.id, grp |-> grp,
                               expect |-> ResultOf(NormResp(v.r)), min |-> Enc(Response(v.r, v.emptyctl, v.expl)),
                               encs |-> Encs(v),
                               \* a Search answered with a reference message first: the final result keeps its own referrals
                               pre |-> IF v.r.kind = 5 THEN Enc(RefMsgTree(v.r.id, PreRefs)) ELSE <<>>,
                               expect_pre |-> IF v.r.kind = 5 THEN SearchResultOf(NormResp(v.r), PreRefs) ELSE ResultOf(NormResp(v.r))])>>)
=============================================================================
