SPECIFICATION TrSpec
CONSTANTS
  Ops = {"o1", "o2", "o3", "o4", "o5", "o6", "o7", "o8"}
  NoOp = "none"
  MaxId = 2147483647
  Last0 = {0}
  MaxItems = 100000
  ItemTypes = {"ent", "ref", "int"}
  MaxOrphans = 100000
  Kinds <- KindsAllT
  Tmo = {0}
  Horizon = 100000000
  AllowFaults = TRUE
  OpenGarbage = TRUE
  AdapterErrors = TRUE
  AllowCancel = TRUE
  AllowStall = TRUE
  AbstractTime = FALSE
  LeakSearchIdOnDone = TRUE
  AbandonKeepsTargetId = TRUE
  DirectStaysActive = TRUE
  StaleInsertAfterScrub = TRUE
POSTCONDITION Accepted
CHECK_DEADLOCK FALSE
