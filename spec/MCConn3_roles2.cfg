SPECIFICATION Spec
CONSTANTS
  Ops = {"o1", "o2", "o3"}
  NoOp = "none"
  MaxId = 5
  Last0 <- LastWrap
  MaxItems = 1
  ItemTypes <- EntOnly
  MaxOrphans = 0
  Kinds <- KindsRoles2
  Tmo = {0}
  Horizon = 0
  AllowFaults = FALSE
  OpenGarbage = FALSE
  AdapterErrors = FALSE
  AllowCancel = FALSE
  AllowStall = FALSE
  AbstractTime = TRUE
  LeakSearchIdOnDone = FALSE
  AbandonKeepsTargetId = FALSE
  DirectStaysActive = FALSE
  StaleInsertAfterScrub = FALSE
INVARIANTS TypeOK Routing FinalIsFinal StreamOK UniqueIds NoLeak Protected RoutedProtected

CHECK_DEADLOCK FALSE
