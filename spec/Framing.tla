------------------------------ MODULE Framing ------------------------------
(***************************************************************************)
(* The LDAP stream decoder as a state machine (C06, C11).                  *)
(*                                                                         *)
(* RFC 4511 section 5.1/5.2: the byte stream is a concatenation of BER     *)
(* encoded LDAPMessage PDUs, definite lengths only.  4.1.1:                *)
(*   LDAPMessage ::= SEQUENCE { messageID INTEGER (0 .. maxInt),           *)
(*                              protocolOp CHOICE { ... application tags },*)
(*                              controls [0] Controls OPTIONAL }           *)
(*   maxInt = 2^31 - 1.                                                    *)
(*   Control ::= SEQUENCE { controlType LDAPOID, criticality BOOLEAN       *)
(*                          DEFAULT FALSE, controlValue OCTET STRING       *)
(*                          OPTIONAL }                                     *)
(* Written from the RFC and X.690, not from ldap3.                         *)
(*                                                                         *)
(* Frame(buf) is the verdict of the reference decoder on a buffer:         *)
(*   NeedMore        the outer header is incomplete, or fewer than         *)
(*                   hdr + L octets are buffered (and in no other case);   *)
(*   Msg  (m, n)     the first n = hdr + L octets are a well-formed        *)
(*                   LDAPMessage envelope with contents m;                 *)
(*   Bad  (why, n)   they are not, under any reading;                      *)
(*   Either (why, n) the first n octets are complete, but contain a BER    *)
(*                   form outside the domain of the properties (tag number *)
(*                   31 = high-tag-number form, indefinite length 0x80,    *)
(*                   more than 4 length octets) or a deviation a liberal   *)
(*                   decoder may tolerate (non-minimal INTEGER, trailing   *)
(*                   components, odd control component tags): delivering   *)
(*                   and rejecting are both acceptable, waiting is not;    *)
(*   Any             the OUTER header itself is outside the domain: the    *)
(*                   specification does not say where the frame ends.      *)
(* The verdict is decided only by the outer header and the outer length:   *)
(* nothing inside the frame can turn a complete frame into NeedMore.       *)
(***************************************************************************)
EXTENDS Ber

MaxInt31Octets == <<127, 255, 255, 255>>

(* ------------------------------------------------------------------ *)
(* outer header                                                        *)
(* ------------------------------------------------------------------ *)
NLen(l0) == IF l0 < 128 THEN 0 ELSE l0 - 128
OodHeader(id, l0) == id % 32 = 31 \/ l0 = 128 \/ NLen(l0) > MaxLenOct

(* [st, h (header octets), L (content octets)]; st = "short": header incomplete; "ood": outside the domain;
   "huge": a four-octet length of 2^30 or more, never folded (TLC integers are 32 bit) and never satisfiable here *)
Hdr(buf) ==
  IF Len(buf) < 2 THEN [st |-> "short", h |-> 0, L |-> 0]
  ELSE LET l0 == buf[2]  nlen == NLen(l0) IN
       IF OodHeader(buf[1], l0) THEN [st |-> "ood", h |-> 0, L |-> 0]
       ELSE IF Len(buf) < 2 + nlen THEN [st |-> "short", h |-> 0, L |-> 0]
       ELSE IF nlen = 4 /\ buf[3] >= 64 THEN [st |-> "huge", h |-> 6, L |-> 0]
       ELSE [st |-> "ok", h |-> 2 + nlen, L |-> IF l0 < 128 THEN l0 ELSE Fold(buf, 3, nlen)]

(* ------------------------------------------------------------------ *)
(* inner structure: "ok" | "bad" | "ood", first problem in document    *)
(* order (the order in which any recursive-descent reader meets them)  *)
(* elements occupy s[p .. e-1]                                         *)
(* ------------------------------------------------------------------ *)
RECURSIVE Scan(_, _, _)
Scan(s, p, e) ==
  IF p = e THEN "ok"
  ELSE IF p + 1 >= e THEN "bad"                                   \* no room for identifier + length octet
  ELSE LET id == s[p]  l0 == s[p + 1]  nlen == NLen(l0) IN
       IF OodHeader(id, l0) THEN "ood"
       ELSE IF p + 2 + nlen > e THEN "bad"                        \* length octets overrun the parent
       ELSE IF nlen = 4 /\ s[p + 2] >= 64 THEN "bad"              \* 2^30 or more cannot fit in the parent
       ELSE LET len  == IF l0 < 128 THEN l0 ELSE Fold(s, p + 2, nlen)
                c0   == p + 2 + nlen
                cend == c0 + len
            IN IF cend > e THEN "bad"                             \* contents overrun the parent
               ELSE LET inner == IF (id \div 32) % 2 = 1 THEN Scan(s, c0, cend) ELSE "ok"
                    IN IF inner # "ok" THEN inner ELSE Scan(s, cend, e)

(* ------------------------------------------------------------------ *)
(* envelope                                                            *)
(* ------------------------------------------------------------------ *)
NoMsg == [id |-> 0, op |-> Prim(0, 0, <<>>), ctrls |-> <<>>]
V(v, why, m) == [v |-> v, why |-> why, n |-> 0, m |-> m]
NeedMoreV == V("NeedMore", "", NoMsg)
AnyV      == V("Any", "outer-header-out-of-domain", NoMsg)
BadV(why)    == V("Bad", why, NoMsg)
EitherV(why) == V("Either", why, NoMsg)

RECURSIVE StripZ(_)
StripZ(c) == IF Len(c) > 1 /\ c[1] = 0 THEN StripZ(Tail(c)) ELSE c

(* messageID: [v: "ok" | "either" | "bad", why, id] *)
IdVerdict(e) ==
  IF ~(e.c = 0 /\ e.n = 2 /\ e.prim) THEN [v |-> "bad", why |-> "msgid-not-integer", id |-> 0]
  ELSE IF Len(e.v) = 0 THEN [v |-> "bad", why |-> "msgid-empty", id |-> 0]
  ELSE IF e.v[1] >= 128 THEN [v |-> "bad", why |-> "msgid-negative", id |-> 0]
  ELSE LET z == StripZ(e.v) IN
       IF Len(z) > 4 \/ (Len(z) = 4 /\ z[1] >= 128) THEN [v |-> "bad", why |-> "msgid-too-large", id |-> 0]
       ELSE IF Strip(e.v) = e.v THEN [v |-> "ok", why |-> "", id |-> NatOf(z)]
       ELSE [v |-> "either", why |-> "msgid-nonminimal", id |-> NatOf(z)]

IsDigitDot(b) == (b >= 48 /\ b <= 57) \/ b = 46
NumericOid(o) == Len(o) >= 1 /\ \A i \in 1..Len(o) : IsDigitDot(o[i])

(* one control: [v, why, c] *)
NoCtl == [oid |-> <<>>, crit |-> FALSE, hasval |-> FALSE, val |-> <<>>]
CtlVerdict(t) ==
  IF t.prim THEN [v |-> "bad", why |-> "control-not-constructed", c |-> NoCtl]
  ELSE IF Len(t.k) = 0 THEN [v |-> "bad", why |-> "control-empty", c |-> NoCtl]
  ELSE IF ~t.k[1].prim THEN [v |-> "bad", why |-> "control-type-constructed", c |-> NoCtl]
  ELSE LET n  == Len(t.k)
           b2 == n >= 2 /\ t.k[2].c = 0 /\ t.k[2].n = 1
       IN IF b2 /\ ~t.k[2].prim THEN [v |-> "bad", why |-> "criticality-constructed", c |-> NoCtl]
          ELSE IF b2 /\ Len(t.k[2].v) = 0 THEN [v |-> "bad", why |-> "criticality-empty", c |-> NoCtl]
          ELSE LET hb == b2 /\ Len(t.k[2].v) = 1
                   p  == IF hb THEN 3 ELSE 2
                   hv == n >= p /\ t.k[p].c = 0 /\ t.k[p].n = 4 /\ t.k[p].prim
                   strict == /\ t.c = 0 /\ t.n = 16
                             /\ t.k[1].c = 0 /\ t.k[1].n = 4 /\ NumericOid(t.k[1].v)
                             /\ n = (IF hv THEN p ELSE p - 1)
               IN IF strict
                  THEN [v |-> "ok", why |-> "",
                        c |-> [oid |-> t.k[1].v, crit |-> IF hb THEN t.k[2].v[1] # 0 ELSE FALSE,
                               hasval |-> hv, val |-> IF hv THEN t.k[p].v ELSE <<>>]]
                  ELSE [v |-> "either", why |-> "control-liberal", c |-> NoCtl]

RECURSIVE CtlsVerdict(_)
CtlsVerdict(ks) ==
  IF ks = <<>> THEN [v |-> "ok", why |-> "", c |-> <<>>]
  ELSE LET h == CtlVerdict(Head(ks)) IN
       IF h.v = "bad" THEN [v |-> "bad", why |-> h.why, c |-> <<>>]
       ELSE LET r == CtlsVerdict(Tail(ks)) IN
            IF r.v = "bad" THEN r
            ELSE IF h.v = "either" THEN [v |-> "either", why |-> h.why, c |-> <<>>]
            ELSE IF r.v = "either" THEN r
            ELSE [v |-> "ok", why |-> "", c |-> <<h.c>> \o r.c]

(* verdict on exactly one complete top-level element with an in-domain header *)
Envelope(b) ==
  LET sc == Scan(b, 1, Len(b) + 1) IN
  IF sc = "bad" THEN BadV("ber")
  ELSE IF sc = "ood" THEN EitherV("ber-out-of-domain")
  ELSE LET t == DecOne(b).t IN
       IF ~(t.c = 0 /\ t.n = 16 /\ ~t.prim) THEN BadV("root-not-sequence")
       ELSE IF Len(t.k) < 2 THEN BadV("too-few-elements")
       ELSE LET iv == IdVerdict(t.k[1]) IN
            IF iv.v = "bad" THEN BadV(iv.why)
            ELSE IF t.k[2].c # 1 THEN BadV("op-not-application")
            ELSE LET cv == IF Len(t.k) = 2 THEN [v |-> "ok", why |-> "", c |-> <<>>]
                           ELSE IF Len(t.k) = 3 /\ t.k[3].c = 2 /\ t.k[3].n = 0 /\ ~t.k[3].prim
                                THEN CtlsVerdict(t.k[3].k)
                           ELSE [v |-> "either", why |-> "trailing-components", c |-> <<>>]
                 IN IF cv.v = "bad" THEN BadV(cv.why)
                    ELSE IF iv.v = "either" THEN EitherV(iv.why)
                    ELSE IF cv.v = "either" THEN EitherV(cv.why)
                    ELSE V("Msg", "", [id |-> iv.id, op |-> t.k[2], ctrls |-> cv.c])

WellFormedEnvelope(b) == Envelope(b).v = "Msg"

Frame(buf) ==
  LET h == Hdr(buf) IN
  CASE h.st = "short" -> NeedMoreV
    [] h.st = "ood"   -> AnyV
    [] h.st = "huge"  -> NeedMoreV                       \* buffers of 2^30 octets are outside every bound used here
    [] OTHER -> IF Len(buf) < h.h + h.L THEN NeedMoreV
                ELSE [Envelope(SubSeq(buf, 1, h.h + h.L)) EXCEPT !.n = h.h + h.L]

(* "once the bytes announced by a frame's outer length have arrived the frame is always either delivered or rejected" *)
OuterSatisfied(buf) == LET h == Hdr(buf) IN h.st = "ok" /\ Len(buf) >= h.h + h.L
Total(buf) == OuterSatisfied(buf) => Frame(buf).v \in {"Msg", "Bad", "Either"}
(* the verdict on a complete frame does not depend on what follows it *)
PrefixClosed(buf, tail) == OuterSatisfied(buf) => Frame(buf \o tail) = Frame(buf)

(* ------------------------------------------------------------------ *)
(* the stream decoder                                                  *)
(*   pending: octets the transport has not delivered yet               *)
(*   buf    : octets delivered and not consumed                        *)
(*   out    : messages emitted                                         *)
(*   status : "read" (wants octets) | "decode" | "dead" | "ood"        *)
(* ------------------------------------------------------------------ *)
VARIABLES buf, pending, out, status
fvars == <<buf, pending, out, status>>

FInit(stream) == buf = <<>> /\ pending = stream /\ out = <<>> /\ status = "read"

Read(k) == /\ status = "read" /\ k >= 1 /\ k <= Len(pending)
           /\ buf' = buf \o SubSeq(pending, 1, k)
           /\ pending' = SubSeq(pending, k + 1, Len(pending))
           /\ status' = "decode"
           /\ UNCHANGED out

UnknownMsg == [id |-> 0, op |-> Prim(0, 0, <<>>), ctrls |-> <<>>, unknown |-> TRUE]
Consume(n) == buf' = SubSeq(buf, n + 1, Len(buf))

Decode == /\ status = "decode"
          /\ LET f == Frame(buf) IN
             CASE f.v = "NeedMore" -> status' = "read" /\ UNCHANGED <<buf, out, pending>>
               [] f.v = "Msg"      -> out' = Append(out, f.m) /\ Consume(f.n) /\ UNCHANGED <<status, pending>>
               [] f.v = "Bad"      -> status' = "dead" /\ UNCHANGED <<buf, out, pending>>
               [] f.v = "Either"   -> \/ status' = "dead" /\ UNCHANGED <<buf, out, pending>>
                                      \/ out' = Append(out, UnknownMsg) /\ Consume(f.n) /\ UNCHANGED <<status, pending>>
               [] f.v = "Any"      -> status' = "ood" /\ UNCHANGED <<buf, out, pending>>

FNext == Decode \/ \E k \in 1..Len(pending) : Read(k)
=============================================================================
