SPECIFICATION Spec
CONSTANTS
  LeafClasses = {0, 1, 2, 3}
  LeafNums = {0, 1, 2, 4, 5, 10, 16, 30}
  NodeClasses = {0, 1, 2, 3}
  NodeNums = {0, 3, 16, 17, 30}
  PayloadLens = {0, 1, 2, 3, 124, 125, 126, 127, 128, 129, 252, 253, 254, 255, 256, 257}
  GrowLens = {124, 125, 126, 252, 253}
  SmallLens = {0, 1, 2}
  OuterShapes <- OuterShapes4
  MaxDepth = 2
  IntBytes = {0, 1, 127, 128, 254, 255}
  Lens = {0, 1, 126, 127, 128, 129, 254, 255, 256, 257, 65534, 65535, 65536, 65537, 16777215, 16777216, 16777217}
  EmitVectors = TRUE
INVARIANTS RoundTrip AltsDecode EncIsAnAlt LenMinimal IntLaws BoolLaw Emit
CHECK_DEADLOCK FALSE
