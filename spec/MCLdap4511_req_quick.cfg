SPECIFICATION Spec
CONSTANTS
  Dir = "req"
  Forms = {1}
  Deep = FALSE
  EmitVectors = TRUE
INVARIANTS ReqRoundTrip ReqTags Emit
CHECK_DEADLOCK FALSE
