----------------------------- MODULE MCHostile -----------------------------
(* C11: from each valid message of a pool EVERY single-field mutation      *)
(* expressible on the encoding, plus all byte strings up to MaxStr octets; *)
(* one state per vector, the reference decoder's verdict Frame(buf) per    *)
(* vector (VEC lines) for replay into ldap3::verif::decode and, sampled,   *)
(* into a live connection driver.                                          *)
(*                                                                         *)
(* Byte-level mutations change one field and leave everything else as it   *)
(* is (so lengths become inconsistent); tree-level mutations change one    *)
(* node and re-encode (so lengths stay consistent).                        *)
EXTENDS FramePool, TLC, Json, FiniteSets

CONSTANTS HPool,        \* pool indices that are mutated
          MaxStr,       \* all byte strings of length <= MaxStr (0..2)
          Ext3,         \* TRUE: also the verdicts of all 256 one-octet extensions of every 2-octet string (VEC3 lines)
          ByteVals,     \* TRUE: every octet replaced by boundary values
          EmitVectors

(* ---- elements of a valid encoding with their positions: [p, h, l, cons] ---- *)
RECURSIVE Els(_, _, _)
Els(s, p, e) ==
  IF p >= e THEN {}
  ELSE LET l0 == s[p + 1]  nlen == NLen(l0)
           len == IF l0 < 128 THEN l0 ELSE Fold(s, p + 2, nlen)
           c0 == p + 2 + nlen  cend == c0 + len
           cons == (s[p] \div 32) % 2 = 1
       IN {[p |-> p, h |-> 2 + nlen, l |-> len, cons |-> cons]}
          \cup (IF cons THEN Els(s, c0, cend) ELSE {}) \cup Els(s, cend, e)
AllEls(s) == Els(s, 1, Len(s) + 1)

Splice(s, from, to, mid) == SubSeq(s, 1, from - 1) \o mid \o SubSeq(s, to + 1, Len(s))     \* replace s[from..to] by mid
M(k, b) == [k |-> k, b |-> b]

(* each length field: -1, +1, +100, -> 0, -> 0x84FFFFFFFF, other definite forms, out-of-domain forms *)
LenForms(x) ==
  (IF x.l > 0 THEN {<<"len-1", LenOct(x.l - 1)>>, <<"len=0", <<0>>>>} ELSE {})
  \cup {<<"len+1", LenOct(x.l + 1)>>, <<"len+100", LenOct(x.l + 100)>>,
        <<"len=84ffffffff", <<132, 255, 255, 255, 255>>>>,
        <<"len=8400ffffff", <<132, 0, 255, 255, 255>>>>,
        <<"len-altform-81", <<129, x.l>>>>, <<"len-altform-84", <<132, 0, 0, 0, x.l>>>>,
        <<"len-indefinite-80", <<128>>>>, <<"len-5-octets", <<133, 0, 0, 0, 0, x.l>>>>,
        <<"len-127-octets", <<255>>>>}
LenMutants(s) == UNION { { M(f[1], Splice(s, x.p + 1, x.p + x.h - 1, f[2])) : f \in LenForms(x) } : x \in AllEls(s) }

(* each identifier octet: class, constructed bit, number *)
TagForms(id) ==
  LET cls == id \div 64  cb == (id \div 32) % 2  num == id % 32 IN
  { <<"tag-class", c * 64 + cb * 32 + num>> : c \in (0..3) \ {cls} }
  \cup {<<"tag-constructed-bit", cls * 64 + (1 - cb) * 32 + num>>}
  \cup { <<"tag-number", cls * 64 + cb * 32 + n>> : n \in {0, (num + 1) % 31, 30} \ {num} }
  \cup {<<"tag-number-31", cls * 64 + cb * 32 + 31>>}
TagMutants(s) == UNION { { M(f[1], [s EXCEPT ![x.p] = f[2]]) : f \in TagForms(s[x.p]) } : x \in AllEls(s) }

(* each element cut out / each primitive emptied, nothing else touched *)
CutMutants(s) == { M("cut-element-raw", Splice(s, x.p, x.p + x.h + x.l - 1, <<>>)) : x \in AllEls(s) }
EmptyRawMutants(s) == { M("empty-raw", Splice(s, x.p + 1, x.p + x.h + x.l - 1, <<0>>)) : x \in {y \in AllEls(s) : y.l > 0} }
TruncMutants(s) == { M("trunc", SubSeq(s, 1, k)) : k \in 0..(Len(s) - 1) }
DelByteMutants(s) == { M("delete-octet", Splice(s, k, k, <<>>)) : k \in 1..Len(s) }
Vals(x) == {0, 1, 4, 5, 48, 127, 128, 129, 130, 132, 255, (x + 1) % 256, (x + 255) % 256, (x + 100) % 256} \ {x}
ByteMutants(s) == IF ByteVals THEN UNION { { M("octet", [s EXCEPT ![i] = b]) : b \in Vals(s[i]) } : i \in 1..Len(s) } ELSE {}
TailMutants(s) == {M("orig+tail", s \o <<48>>), M("orig+tail", s \o s), M("orig+tail", s \o <<255, 255, 255>>)}

(* ---- tree level ---- *)
RECURSIVE Paths(_)
Paths(t) == {<<>>} \cup (IF t.prim THEN {} ELSE UNION { { <<i>> \o p : p \in Paths(t.k[i]) } : i \in 1..Len(t.k) })
RECURSIVE At(_, _)
At(t, p) == IF p = <<>> THEN t ELSE At(t.k[Head(p)], Tail(p))
RECURSIVE ReplaceAt(_, _, _)
ReplaceAt(t, p, u) == IF p = <<>> THEN u
                      ELSE [t EXCEPT !.k = [i \in 1..Len(t.k) |-> IF i = Head(p) THEN ReplaceAt(t.k[i], Tail(p), u) ELSE t.k[i]]]
RECURSIVE SpliceAt(_, _, _)      \* replace the element at p (p # <<>>) by the sequence of elements us
SpliceAt(t, p, us) ==
  IF Len(p) = 1 THEN [t EXCEPT !.k = SubSeq(t.k, 1, p[1] - 1) \o us \o SubSeq(t.k, p[1] + 1, Len(t.k))]
  ELSE [t EXCEPT !.k = [i \in 1..Len(t.k) |-> IF i = Head(p) THEN SpliceAt(t.k[i], Tail(p), us) ELSE t.k[i]]]
Emptied(u) == IF u.prim THEN Prim(u.c, u.n, <<>>) ELSE Cons(u.c, u.n, <<>>)

TreeMutants(t) ==
  UNION { { M("remove-element", Enc(SpliceAt(t, p, <<>>))),
            M("empty-element", Enc(ReplaceAt(t, p, Emptied(At(t, p))))),
            M("duplicate-element", Enc(SpliceAt(t, p, <<At(t, p), At(t, p)>>))),
            M("replace-by-octet-string", Enc(ReplaceAt(t, p, TOct(<<65>>)))),
            M("replace-by-empty-sequence", Enc(ReplaceAt(t, p, TSeq(<<>>)))),
            M("replace-by-integer", Enc(ReplaceAt(t, p, TIntN(5)))) } : p \in Paths(t) \ {<<>>} }
  \cup { M("empty-element", Enc(Emptied(t))), M("replace-by-octet-string", Enc(TOct(<<65>>))) }

(* message ID family: element 1 replaced; k = the ID of the valid message *)
IdContents(k) == { <<"msgid-empty", <<>>>>, <<"msgid-max", MaxInt31Octets>>, <<"msgid-2^31", <<0, 128, 0, 0, 0>>>>,
                   <<"msgid-2^32-1", <<0, 255, 255, 255, 255>>>>, <<"msgid-2^32+k", <<1, 0, 0, 0, k>>>>,
                   <<"msgid-2^32+k", <<1, 0, 0, 0, (k % 3) + 1>>>>, <<"msgid-2^31+2^32+k", <<1, 128, 0, 0, k>>>>,
                   <<"msgid-2^64+k", <<1, 0, 0, 0, 0, 0, 0, 0, k>>>>, <<"msgid-2^63-1", <<127, 255, 255, 255, 255, 255, 255, 255>>>>,
                   <<"msgid-negative", <<255>>>>, <<"msgid-negative", <<128, 0, 0, k>>>>, <<"msgid-negative", <<255, 255, 255, 255, 255, 255, 255, 255>>>>,
                   <<"msgid-nonminimal", <<0, k>>>>, <<"msgid-nonminimal", <<0, 0, 0, 0, 0, 0, 0, 0, k>>>>,
                   <<"msgid-zero", <<0>>>> }
IdMutants(t, k) == { M(c[1], Enc(ReplaceAt(t, <<1>>, Prim(0, 2, c[2])))) : c \in IdContents(k) }
                   \cup { M("msgid-not-integer", Enc(ReplaceAt(t, <<1>>, Prim(0, 10, <<k>>)))),
                          M("msgid-not-integer", Enc(ReplaceAt(t, <<1>>, Prim(2, 2, <<k>>)))),
                          M("msgid-not-integer", Enc(ReplaceAt(t, <<1>>, Cons(0, 2, <<>>)))) }

(* protocolOp family: element 2 replaced by an operation the client does not expect / does not know *)
FullResult == <<TEnumN(0), TOct(<<>>), TOct(<<>>)>>
OpForms == { <<"op-extended-response", Cons(1, 24, FullResult)>>, <<"op-extended-response-empty", Cons(1, 24, <<>>)>>,
             <<"op-primitive", Prim(1, 24, <<>>)>>, <<"op-search-done-empty", Cons(1, 5, <<>>)>>,
             <<"op-search-done-primitive", Prim(1, 5, <<1>>)>>, <<"op-bind-response-empty", Cons(1, 1, <<>>)>>,
             <<"op-bind-response-no-text", Cons(1, 1, <<TEnumN(0), TOct(<<>>)>>)>>,
             <<"op-bind-response-bad-rc", Cons(1, 1, <<TOct(<<>>), TOct(<<>>), TOct(<<>>)>>)>>,
             <<"op-bind-response-non-utf8", Cons(1, 1, <<TEnumN(0), TOct(<<255, 254>>), TOct(<<>>)>>)>>,
             <<"op-bind-response-bad-referral", Cons(1, 1, FullResult \o <<Prim(2, 3, <<120>>)>>)>>,
             <<"op-unknown-30", Cons(1, 30, FullResult)>>, <<"op-unknown-2", Prim(1, 2, <<>>)>>,
             <<"op-request-tag", Cons(1, 3, FullResult)>>, <<"op-intermediate", Cons(1, 25, <<>>)>>,
             <<"op-entry-empty", Cons(1, 4, <<>>)>>, <<"op-reference-empty", Cons(1, 19, <<>>)>>,
             <<"op-universal", TSeq(FullResult)>>, <<"op-context", Cons(2, 1, FullResult)>>, <<"op-private", Cons(3, 1, FullResult)>>,
             <<"op-universal-number-4", TOct(<<120>>)>> }
OpMutants(t) == { M(o[1], Enc(ReplaceAt(t, <<2>>, o[2]))) : o \in OpForms }
                \cup { M(o[1] \o "/no-controls", Enc(Msg8(t.k[1].v, o[2], <<>>))) : o \in OpForms }

(* controls family: element 3 replaced / added *)
BadOid == <<255, 254>>
CtlForms == { <<"control-not-sequence", TOct(Oid12)>>, <<"control-empty", TSeq(<<>>)>>,
              <<"control-type-constructed", TSeq(<<TSeq(<<>>)>>)>>, <<"control-type-constructed", TSeq(<<Cons(0, 4, <<>>)>>)>>,
              <<"criticality-empty", TSeq(<<TOct(Oid12), Prim(0, 1, <<>>)>>)>>,
              <<"criticality-two-octets", TSeq(<<TOct(Oid12), Prim(0, 1, <<1, 2>>)>>)>>,
              <<"criticality-constructed", TSeq(<<TOct(Oid12), Cons(0, 1, <<>>)>>)>>,
              <<"criticality-context-empty", TSeq(<<TOct(Oid12), Prim(2, 1, <<>>)>>)>>,
              <<"control-value-constructed", TSeq(<<TOct(Oid12), TBool(TRUE), Cons(0, 4, <<>>)>>)>>,
              <<"control-value-constructed", TSeq(<<TOct(Oid12), Cons(0, 4, <<>>)>>)>>,
              <<"control-unknown-component", TSeq(<<TOct(Oid12), TIntN(5)>>)>>,
              <<"control-unknown-component", TSeq(<<TOct(Oid12), TBool(TRUE), TIntN(5)>>)>>,
              <<"control-type-not-utf8", TSeq(<<TOct(BadOid)>>)>>, <<"control-type-not-oid", TSeq(<<TOct(<<120>>)>>)>>,
              <<"control-type-empty", TSeq(<<TOct(<<>>)>>)>>,
              <<"control-trailing", TSeq(<<TOct(Oid12), TOct(<<120>>), TOct(<<120>>)>>)>>,
              <<"control-as-set", TSet(<<TOct(Oid12)>>)>>, <<"control-application-class", Cons(1, 16, <<TOct(Oid12)>>)>>,
              <<"control-type-context", TSeq(<<Prim(2, 4, Oid12)>>)>> }
ThirdForms == { <<"controls-primitive", Prim(2, 0, <<>>)>>, <<"controls-primitive", Prim(2, 0, <<48, 0>>)>>,
                <<"third-context-10", Prim(2, 10, Oid12)>>, <<"third-context-10", Cons(2, 10, <<>>)>>,
                <<"third-universal", TOct(<<>>)>>, <<"third-context-1", Cons(2, 1, <<>>)>>, <<"controls-universal-sequence", TSeq(<<>>)>> }
CtlMutants(t) ==
  LET id == t.k[1]  op == t.k[2]  good == Ctl(Oid12, FALSE, FALSE, FALSE, <<>>) IN
  { M(c[1], Enc(TSeq(<<id, op, Ctls(<<c[2]>>)>>))) : c \in CtlForms }
  \cup { M(c[1] \o "/after-good", Enc(TSeq(<<id, op, Ctls(<<good, c[2]>>)>>))) : c \in CtlForms }
  \cup { M(c[1], Enc(TSeq(<<id, op, c[2]>>))) : c \in ThirdForms }
  \cup { M("fourth-element", Enc(TSeq(<<id, op, Ctls(<<good>>), c[2]>>))) : c \in ThirdForms }
  \cup { M("fourth-element", Enc(TSeq(<<id, op, c[2], Ctls(<<good>>)>>))) : c \in ThirdForms }

(* envelope shape *)
ShapeMutants(t) ==
  LET id == t.k[1]  op == t.k[2]  good == Ctls(<<Ctl(Oid12, FALSE, FALSE, FALSE, <<>>)>>) IN
  { M("envelope-empty", Enc(TSeq(<<>>))), M("envelope-only-msgid", Enc(TSeq(<<id>>))), M("envelope-only-op", Enc(TSeq(<<op>>))),
    M("envelope-only-controls", Enc(TSeq(<<good>>))), M("envelope-op-controls", Enc(TSeq(<<op, good>>))),
    M("envelope-msgid-controls", Enc(TSeq(<<id, good>>))), M("envelope-swapped", Enc(TSeq(<<op, id>>))),
    M("envelope-leading-element", Enc(TSeq(<<TOct(<<>>), id, op>>))), M("envelope-leading-element", Enc(TSeq(<<id, id, op>>))),
    M("envelope-leading-element", Enc(TSeq(<<TOct(<<>>), id, op, good>>))), M("envelope-leading-element", Enc(TSeq(<<id, id, op, good>>))),
    M("envelope-two-ops", Enc(TSeq(<<id, op, op>>))), M("envelope-as-set", Enc(TSet(<<id, op>>))),
    M("envelope-application-class", Enc(Cons(1, 16, <<id, op>>))), M("envelope-primitive", Enc(Prim(0, 16, Enc(id) \o Enc(op)))),
    M("envelope-in-envelope", Enc(TSeq(<<t>>))) }

(* the outer length in every definite form (valid), and with five length octets (outside the domain) *)
OuterForms(t) == { M("outer-altform", EncLong(t, k)) : k \in 1..4 }
                 \cup { M("outer-5-length-octets", LET e == EncLong(t, 4) IN <<e[1], 133, 0>> \o SubSeq(e, 3, Len(e))) }

MutantsOf(i) ==
  LET s == PoolB(i)  t == PoolT(i) IN
  {M("orig", s)} \cup OuterForms(t) \cup LenMutants(s) \cup TagMutants(s) \cup CutMutants(s) \cup EmptyRawMutants(s) \cup TruncMutants(s)
  \cup DelByteMutants(s) \cup ByteMutants(s) \cup TailMutants(s) \cup TreeMutants(t)
  \cup IdMutants(t, t.k[1].v[1]) \cup OpMutants(t) \cup CtlMutants(t) \cup ShapeMutants(t)

Strs(n) == IF n = 0 THEN {<<>>}
           ELSE IF n = 1 THEN {<<>>} \cup {<<a>> : a \in 0..255}
           ELSE {<<>>} \cup {<<a>> : a \in 0..255} \cup {<<a, b>> : a \in 0..255, b \in 0..255}

VARIABLES kind, src
vars == <<kind, src, buf, pending, out, status>>

Init == /\ pending = <<>> /\ out = <<>> /\ status = "decode"
        /\ \/ \E i \in HPool : \E x \in MutantsOf(i) : src = i /\ kind = x.k /\ buf = x.b
           \/ src = 0 /\ kind = "str" /\ buf \in Strs(MaxStr)
Next == UNCHANGED vars
Spec == Init /\ [][Next]_vars

(* ---- the specification's own laws on every vector ---- *)
TotalInv == Total(buf)
PrefixClosedInv == PrefixClosed(buf, <<48>>) /\ PrefixClosed(buf, <<0, 255>>)
OrigMsg == kind = "orig" => LET f == Frame(buf) IN f.v = "Msg" /\ f.n = Len(buf) /\ f.m = PoolDef[src].m
OrigTail == kind = "orig+tail" => LET f == Frame(buf) IN f.v = "Msg" /\ f.n = Len(PoolB(src)) /\ f.m = PoolDef[src].m
TruncNeedMore == kind = "trunc" => Frame(buf).v = "NeedMore"
AltFormSame == kind = "outer-altform" => LET f == Frame(buf) IN f.v = "Msg" /\ f.n = Len(buf) /\ f.m = PoolDef[src].m
ScanDecAgree == OuterSatisfied(buf) =>
                  LET f == Frame(buf)  fb == SubSeq(buf, 1, f.n)  sc == Scan(fb, 1, f.n + 1) IN
                  \* ("ood": a form outside the domain this module reasons about, e.g. a length padded to more than four octets,
                  \*  which the general reader of Ber.tla now follows - no claim either way)
                  /\ (sc = "ok") => DecOne(fb).ok
                  /\ (sc = "bad") => ~DecOne(fb).ok
(* waiting is the verdict only while the announced octets are missing *)
NeedMoreOnlyIfShort == Frame(buf).v = "NeedMore" => ~OuterSatisfied(buf)

(* ---- vectors ---- *)
IsPoolPrefix == \E i \in 1..NPool : Len(buf) < Len(PoolB(i)) /\ buf = SubSeq(PoolB(i), 1, Len(buf))
Code(v) == CASE v = "NeedMore" -> 0 [] v = "Msg" -> 1 [] v = "Bad" -> 2 [] v = "Either" -> 3 [] v = "Any" -> 4
Emit ==
  ~EmitVectors \/
  LET f == Frame(buf) IN
  /\ PrintT(<<"VEC", ToJson([k |-> kind, src |-> src, b |-> buf, v |-> f.v, why |-> f.why, n |-> f.n,
                            strict |-> (f.v = "NeedMore" /\ IsPoolPrefix),
                            m |-> IF f.v = "Msg" THEN <<f.m>> ELSE <<>>])>>)
  /\ (Ext3 /\ kind = "str" /\ Len(buf) = 2) =>
        PrintT(<<"VEC3", ToJson([b |-> buf, x |-> [c \in 1..256 |-> Code(Frame(buf \o <<c - 1>>).v)]])>>)
=============================================================================
