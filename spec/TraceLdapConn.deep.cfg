SPECIFICATION TrSpec
CONSTANTS
  Ops = {"o1", "o2", "o3", "o4", "o5", "o6", "o7", "o8", "o9", "o10", "o11", "o12", "o13", "o14", "o15", "o16", "o17", "o18", "o19", "o20", "o21", "o22", "o23", "o24", "o25", "o26", "o27", "o28", "o29", "o30", "o31", "o32", "o33", "o34", "o35", "o36", "o37", "o38", "o39", "o40", "o41", "o42", "o43", "o44", "o45", "o46", "o47", "o48", "o49", "o50", "o51", "o52", "o53", "o54", "o55", "o56", "o57", "o58", "o59", "o60", "o61", "o62", "o63", "o64", "o65", "o66", "o67", "o68", "o69", "o70", "o71", "o72", "o73", "o74", "o75", "o76", "o77", "o78", "o79", "o80", "o81", "o82", "o83", "o84", "o85", "o86", "o87", "o88", "o89", "o90", "o91", "o92", "o93", "o94", "o95", "o96", "o97", "o98", "o99", "o100", "o101", "o102", "o103", "o104", "o105", "o106", "o107", "o108", "o109", "o110", "o111", "o112", "o113", "o114", "o115", "o116", "o117", "o118", "o119", "o120", "o121", "o122", "o123", "o124", "o125", "o126", "o127", "o128", "o129", "o130", "o131", "o132", "o133", "o134", "o135", "o136", "o137", "o138", "o139", "o140"}
  NoOp = "none"
  MaxId = 2147483647
  Last0 = {0}
  MaxItems = 100000
  ItemTypes = {"ent", "ref", "int"}
  MaxOrphans = 100000
  Kinds <- KindsAllT
  Tmo = {0}
  Horizon = 100000000
  AllowFaults = TRUE
  OpenGarbage = TRUE
  AdapterErrors = TRUE
  AllowCancel = TRUE
  AllowStall = TRUE
  AbstractTime = FALSE
  LeakSearchIdOnDone = FALSE
  AbandonKeepsTargetId = FALSE
  DirectStaysActive = FALSE
  StaleInsertAfterScrub = FALSE
POSTCONDITION Accepted
CHECK_DEADLOCK FALSE
