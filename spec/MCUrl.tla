------------------------------ MODULE MCUrl ------------------------------
(* Model-checking instance and vector generator for Url4516 (C20).         *)
(* Stage 0 (initial states) picks base, attribute list, scope word and     *)
(* filter from the pools; one step adds the extension list, the host, the  *)
(* encoding style and the number of '?' written (trailing empty fields may *)
(* be cut).  Every stage-1 state is one URL: Laws is checked on it and     *)
(* Emit prints it as one vector for replay into get_url_params.            *)
(* Three families of states: "X" crosses rich base/attrs/scope/filter      *)
(* pools with short extension lists, "Y" and "Z" cross small pools with    *)
(* longer extension lists (pairs over every single extension; triples      *)
(* over a subset).  Pools are selected by index in the cfg.                *)
(* RULE: an extension list never holds two extensions of the same          *)
(* recognised kind (the result is a set keyed by kind); unknown names may  *)
(* repeat.                                                                 *)
EXTENDS Url4516, TLC, Json, FiniteSets

CONSTANTS XBases, XAttrs, XScopes, XFilters, XExts, XMaxExts,
          YBases, YAttrs, YScopes, YFilters, YExts, YMaxExts,
          ZBases, ZAttrs, ZScopes, ZFilters, ZExts, ZMaxExts,
          NHosts,          \* how many of Hosts are used (the host is a function of the other choices)
          Styles, EmitVectors

(* ---- pools (byte strings; the text is in the comment) ---- *)
Bases == <<
  <<>>,   \* 1: ""
  <<100,99,61,101,120,97,109,112,108,101,44,100,99,61,99,111,109>>,   \* 2: "dc=example,dc=com"
  <<99,110,61,97,63,98,44,111,61,120,32,121>>,   \* 3: "cn=a?b,o=x y"
  <<99,110,61,53,48,37,43,35,49,44,111,61,195,169>>,   \* 4: "cn=50%+#1,o=\xC3\xA9"
  <<111,117,61,97,47,46,46,47,98,44,111,61,37,52,49>>,   \* 5: "ou=a/../b,o=%41"
  <<99,110,61,226,130,172,240,157,132,158>>,   \* 6: "cn=\xE2\x82\xAC\xF0\x9D\x84\x9E"
  <<99,110,61,255>>,   \* 7: "cn=\xFF"
  <<99,110,61,237,160,128>>,   \* 8: "cn=\xED\xA0\x80"
  <<99,110,61,195>>,   \* 9: "cn=\xC3"
  <<111,61,97,59,98,38,99,39,100,40,101,41,42,33,36,58,64,91,93>>    \* 10: "o=a;b&c'd(e)*!$:@[]"
>>
Filters == <<
  <<>>,   \* 1: ""
  <<40,99,110,61,97,41>>,   \* 2: "(cn=a)"
  <<40,38,40,97,61,98,63,99,41,40,100,61,101,44,102,41,41>>,   \* 3: "(&(a=b?c)(d=e,f))"
  <<40,124,40,99,110,61,53,48,37,41,40,120,61,35,49,32,43,50,41,41>>,   \* 4: "(|(cn=50%)(x=#1 +2))"
  <<40,111,61,195,169,42,41>>,   \* 5: "(o=\xC3\xA9*)"
  <<40,99,110,61,255,41>>,   \* 6: "(cn=\xFF)"
  <<40,111,98,106,101,99,116,67,108,97,115,115,61,42,41>>,   \* 7: "(objectClass=*)"
  <<40,97,61,92,50,97,37,51,70,41>>,   \* 8: "(a=\2a%3F)"
  <<40,99,110,61,192,128,41>>,   \* 9: "(cn=\xC0\x80)"
  <<40,33,40,97,58,100,110,58,61,120,47,121,41,41>>    \* 10: "(!(a:dn:=x/y))"
>>
AttrLists == <<
  <<>>,   \* 1: []
  <<<<99,110>>>>,   \* 2: ["cn"]
  <<<<99,110>>, <<115,110,59,108,97,110,103,45,100,101>>, <<50,46,53,46,52,46,51>>>>,   \* 3: ["cn", "sn;lang-de", "2.5.4.3"]
  <<<<42>>, <<43>>>>,   \* 4: ["*", "+"]
  <<<<49,46,49>>>>,   \* 5: ["1.1"]
  <<<<97,44,98>>, <<99>>>>,   \* 6: ["a,b", "c"]
  <<<<120,63,121>>, <<122,37,50,67,119>>>>,   \* 7: ["x?y", "z%2Cw"]
  <<<<109,97,105,108>>, <<195,169>>>>    \* 8: ["mail", "\xC3\xA9"]
>>
ScopeWords == <<
  <<>>,   \* 1: ""
  <<98,97,115,101>>,   \* 2: "base"
  <<111,110,101>>,   \* 3: "one"
  <<115,117,98>>,   \* 4: "sub"
  <<115,117,98,116,114,101,101>>,   \* 5: "subtree"
  <<66,65,83,69>>,   \* 6: "BASE"
  <<79,110,101>>,   \* 7: "One"
  <<98,97,115>>,   \* 8: "bas"
  <<111,110,101,108,101,118,101,108>>    \* 9: "onelevel"
>>
ExtSingles == <<
  [crit |-> FALSE, name |-> <<98,105,110,100,110,97,109,101>>, hasval |-> TRUE, val |-> <<99,110,61,97,44,100,99,61,98>>],   \* 1: bindname=cn=a,dc=b
  [crit |-> TRUE, name |-> <<66,105,110,100,78,97,109,101>>, hasval |-> TRUE, val |-> <<99,110,61,120,63,121,44,111,61,195,169,37>>],   \* 2: !BindName=cn=x?y,o=\xC3\xA9%
  [crit |-> FALSE, name |-> <<120,45,98,105,110,100,112,119>>, hasval |-> TRUE, val |-> <<112,37,52,49,61,119,35,44,43,32,122>>],   \* 3: x-bindpw=p%41=w#,+ z
  [crit |-> FALSE, name |-> <<88,45,66,73,78,68,80,87>>, hasval |-> FALSE, val |-> <<>>],   \* 4: X-BINDPW
  [crit |-> TRUE, name |-> <<49,46,51,46,54,46,49,46,52,46,49,46,49,48,48,57,52,46,49,46,53,46,49>>, hasval |-> TRUE, val |-> <<115,51,99,114,61,116>>],   \* 5: !1.3.6.1.4.1.10094.1.5.1=s3cr=t
  [crit |-> FALSE, name |-> <<49,46,51,46,54,46,49,46,52,46,49,46,49,48,48,57,52,46,49,46,53,46,50>>, hasval |-> TRUE, val |-> <<69,88,84,69,82,78,65,76>>],   \* 6: 1.3.6.1.4.1.10094.1.5.2=EXTERNAL
  [crit |-> FALSE, name |-> <<49,46,51,46,54,46,49,46,52,46,49,46,49,52,54,54,46,50,48,48,51,55>>, hasval |-> FALSE, val |-> <<>>],   \* 7: 1.3.6.1.4.1.1466.20037
  [crit |-> TRUE, name |-> <<49,46,51,46,54,46,49,46,52,46,49,46,49,52,54,54,46,50,48,48,51,55>>, hasval |-> FALSE, val |-> <<>>],   \* 8: !1.3.6.1.4.1.1466.20037
  [crit |-> FALSE, name |-> <<120,45,102,111,111>>, hasval |-> TRUE, val |-> <<98,97,114,44,98,97,122>>],   \* 9: x-foo=bar,baz
  [crit |-> TRUE, name |-> <<120,45,102,111,111>>, hasval |-> TRUE, val |-> <<49>>],   \* 10: !x-foo=1
  [crit |-> FALSE, name |-> <<101,45,98,97,114>>, hasval |-> FALSE, val |-> <<>>],   \* 11: e-bar
  [crit |-> FALSE, name |-> <<98,105,110,100,110,97,109,101>>, hasval |-> TRUE, val |-> <<255>>],   \* 12: bindname=\xFF
  [crit |-> FALSE, name |-> <<120,45,102,111,111>>, hasval |-> TRUE, val |-> <<255>>],   \* 13: x-foo=\xFF
  [crit |-> FALSE, name |-> <<98,105,110,100,110,97,109>>, hasval |-> TRUE, val |-> <<118>>],   \* 14: bindnam=v
  [crit |-> FALSE, name |-> <<49,46,51,46,54,46,49,46,52,46,49,46,49,48,48,57,52,46,49,46,53,46,51>>, hasval |-> TRUE, val |-> <<118>>],   \* 15: 1.3.6.1.4.1.10094.1.5.3=v
  [crit |-> FALSE, name |-> <<98,105,110,100,110,97,109,101>>, hasval |-> TRUE, val |-> <<>>],   \* 16: bindname=
  [crit |-> TRUE, name |-> <<98,105,110,100,110,97,109,101,120>>, hasval |-> TRUE, val |-> <<118>>],   \* 17: !bindnamex=v
  [crit |-> TRUE, name |-> <<49,46,51,46,54,46,49,46,52,46,49,46,49,48,48,57,52,46,49,46,53,46,50>>, hasval |-> TRUE, val |-> <<71,83,83,65,80,73>>],   \* 18: !1.3.6.1.4.1.10094.1.5.2=GSSAPI
  [crit |-> TRUE, name |-> <<88,45,66,105,110,100,80,87>>, hasval |-> TRUE, val |-> <<112,119,44,50>>],   \* 19: !X-BindPW=pw,2
  [crit |-> FALSE, name |-> <<49,46,51,46,54,46,49,46,52,46,49,46,49,48,48,57,52,46,49,46,53,46,49>>, hasval |-> TRUE, val |-> <<97,61,98,61,99>>],   \* 20: 1.3.6.1.4.1.10094.1.5.1=a=b=c
  [crit |-> FALSE, name |-> <<66,73,78,68,78,65,77,69>>, hasval |-> TRUE, val |-> <<99,110,61,122>>]    \* 21: BINDNAME=cn=z
>>
Hosts == << <<104>>,                                                       \* 1: "h"
            <<>>,                                                          \* 2: ""  (ldap:///...)
            <<108,100,97,112,46,101,120,97,109,112,108,101,58,51,56,57>>,  \* 3: "ldap.example:389"
            <<91,58,58,49,93,58,51,56,57>> >>                              \* 4: "[::1]:389"

(* extension lists as sequences of indices into ExtSingles: distinct entries, recognised kinds distinct *)
KindAt(i) == Kind(ExtSingles[i].name)
Compatible(l, e) == \A k \in 1..Len(l) : l[k] # e /\ (KindAt(l[k]) = "unknown" \/ KindAt(l[k]) # KindAt(e))
RECURSIVE ExtSeqs(_, _)
ExtSeqs(S, n) ==
  IF n = 0 THEN {<<>>} ELSE
  LET P == ExtSeqs(S, n - 1)
  IN P \cup { Append(le[1], le[2]) : le \in { x \in P \X S : Len(x[1]) = n - 1 /\ Compatible(x[1], x[2]) } }

VARIABLES fam, b, a, s, f, xs, h, st, nq, stage
vars == <<fam, b, a, s, f, xs, h, st, nq, stage>>

Init == /\ \/ fam = "X" /\ b \in XBases /\ a \in XAttrs /\ s \in XScopes /\ f \in XFilters
           \/ fam = "Y" /\ b \in YBases /\ a \in YAttrs /\ s \in YScopes /\ f \in YFilters
           \/ fam = "Z" /\ b \in ZBases /\ a \in ZAttrs /\ s \in ZScopes /\ f \in ZFilters
        /\ xs = <<>> /\ h = 1 /\ st = "max" /\ nq = 0 /\ stage = 0

Base == Bases[b]   Attrs == AttrLists[a]   ScopeW == ScopeWords[s]   Filter == Filters[f]
ExtsOf(l) == [i \in 1..Len(l) |-> ExtSingles[l[i]]]
Exts == ExtsOf(xs)

Next == /\ stage = 0 /\ stage' = 1
        /\ xs' \in (CASE fam = "X" -> ExtSeqs(XExts, XMaxExts) [] fam = "Y" -> ExtSeqs(YExts, YMaxExts) [] fam = "Z" -> ExtSeqs(ZExts, ZMaxExts))
        /\ h' = 1 + ((b + a + s + f + Len(xs')) % NHosts)
        /\ \/ /\ st' \in Styles
              /\ nq' \in MinQ(Attrs, ScopeW, Filter, ExtsOf(xs'))..4
           \/ /\ st' = "bare" /\ nq' = 0                           \* nothing to say: "ldap://host"
              /\ Base = <<>> /\ MinQ(Attrs, ScopeW, Filter, ExtsOf(xs')) = 0
        /\ UNCHANGED <<fam, b, a, s, f>>
Spec == Init /\ [][Next]_vars

Url == IF st = "bare" THEN FormatBare(Hosts[h]) ELSE FormatWith(Hosts[h], Base, Attrs, ScopeW, Filter, Exts, st, nq)
Exp == Expected(Base, Attrs, ScopeW, Filter, Exts)
RawAttrs == IF Attrs = <<>> THEN <<AllAttrs>> ELSE [i \in 1..Len(Attrs) |-> Enc("attr", st, Attrs[i])]

Count(u, d) == Cardinality({i \in 1..Len(u) : u[i] = d})

(* --- the law of C20 on the specification itself: the reference reader inverts the formatter
       and yields the documented result, for every style and every number of cut fields --- *)
Laws ==
  stage = 1 =>
    LET u == Url  p == ParseUrl(u)  e == Exp IN
      /\ p.ok = e.ok
      /\ e.ok # "no" => /\ p.base = e.base /\ p.attrs = e.attrs /\ p.attrs_raw = RawAttrs
                        /\ p.scope = e.scope /\ p.filter = e.filter /\ p.exts = e.exts
      /\ (e.ok = "no") = (ErrorReasons(Base, ScopeW, Filter, Exts) # {})
      /\ UrlAlphabetOk(u)                                   \* RFC 4516 s.2.1: reserved / unreserved / pct-encoded only
      /\ Count(u, QM) = nq /\ Count(u, HASH) = 0            \* every delimiter inside a component was encoded
      /\ (st = "max" /\ nq = MinQ(Attrs, ScopeW, Filter, Exts)) => u = Format(Hosts[h], Base, Attrs, ScopeW, Filter, Exts)

(* --- vector output (S -> I) --- *)
Emit ==
  stage = 0 \/ ~EmitVectors \/
  LET e == Exp IN
  PrintT(<<"VEC", ToJson([url |-> Url,
                          expect |-> [ok |-> e.ok, base |-> e.base, attrs |-> e.attrs,
                                      attrs_raw |-> IF e.ok = "no" THEN <<>> ELSE RawAttrs,
                                      scope |-> e.scope, filter |-> e.filter, exts |-> e.exts],
                          why |-> ErrorReasons(Base, ScopeW, Filter, Exts),
                          id |-> [fam |-> fam, b |-> b, a |-> a, s |-> s, f |-> f, xs |-> xs, h |-> h, st |-> st, nq |-> nq]])>>)
=============================================================================
