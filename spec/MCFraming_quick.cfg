SPECIFICATION Spec
CONSTANTS
  Pool3 = {1, 2, 4}
  Pool2 = {3, 5, 6, 8, 9, 12}
  MaxMsgs = 3
  EmitVectors = TRUE
INVARIANTS OutPrefix NotEarly NotLate BufferSuffix Alive AllOut PrefixNeedMore
CHECK_DEADLOCK FALSE
