SPECIFICATION Spec
CONSTANTS
  Dir = "badrc"
  Forms = {1}
  Deep = FALSE
  EmitVectors = TRUE
INVARIANTS BadRcRefused Emit
CHECK_DEADLOCK FALSE
