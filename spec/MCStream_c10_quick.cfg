SPECIFICATION Spec
CONSTANTS
  StaleResultAfterSplice = FALSE
  Envs <- C10EnvsQuick
  SearchEnvs <- C10SearchQuick
  Alphabet <- AlphaNF
  MaxCalls = 6
  Plans <- NoPlans
INVARIANTS ItemsLaw FinishLaw StateLaw PagingLaw SearchLaw NoPanic Emit
CHECK_DEADLOCK FALSE
