----------------------------- MODULE MCLdapSeq -----------------------------
(* Generator / model-checking instance for LdapSeq (C02, modifier discipline). *)
(* A state is a call history on one handle: rounds [ws (the With* calls made   *)
(* before the operation), op, a, srv].  Invariants: ModsOneShot on the state   *)
(* machine, and agreement of the machine with the pure fold RunRounds.  Emit   *)
(* prints, per history, what every call must put on the wire and how it must   *)
(* end, plus the predictions of the known deviations where they differ (used   *)
(* only to name a disagreement precisely).                                     *)
EXTENDS LdapSeq, TLC, Json

CONSTANTS MaxLen,       \* rounds per history
          Wide,         \* TRUE: wider pools in rounds 2 and 3 (thorough tier)
          EmitVectors

sCN == <<99, 110>>  sSN == <<115, 110>>
sOC == <<111, 98, 106, 101, 99, 116, 67, 108, 97, 115, 115>>
sCNX == <<99, 110, 61, 120>>
sDn == <<117, 105, 100, 61, 117, 44, 100, 99, 61, 101, 120, 97, 109, 112, 108, 101, 44, 100, 99, 61, 99, 111, 109>>
sPW == <<112, 119>>
sABC == <<97, 98, 99>>
vBin == <<0, 255, 128, 127>>
sOid123 == <<49, 46, 50, 46, 51>>
sOidDsaIt == <<50, 46, 49, 54, 46, 56, 52, 48, 46, 49, 46, 49, 49, 51, 55, 51, 48, 46, 51, 46, 52, 46, 50>>
sOidWho == <<49, 46, 51, 46, 54, 46, 49, 46, 52, 46, 49, 46, 52, 50, 48, 51, 46, 49, 46, 49, 49, 46, 51>>
sFilter == <<40>> \o sOC \o <<61, 42, 41>>                        \* (objectClass=*)
BadFilter == <<40, 99, 110, 61>>                                  \* "(cn="
MaxI == 2147483647

Ctl(oid, crit, hasval, val) == [oid |-> oid, crit |-> crit, hasval |-> hasval, val |-> val]
C1 == <<Ctl(sOidDsaIt, TRUE, FALSE, <<>>)>>
C2 == <<Ctl(sOid123, FALSE, TRUE, vBin), Ctl(sOidDsaIt, FALSE, FALSE, <<>>)>>
T1 == 250
T2 == 5000
S1 == [deref |-> "Always", typesonly |-> TRUE, size |-> 5, time |-> 7]
S2 == [deref |-> "Finding", typesonly |-> FALSE, size |-> -1, time |-> MaxI]
WC(c) == [what |-> "controls", c |-> c]
WT(ms) == [what |-> "timeout", ms |-> ms]
WS(s) == [what |-> "sopts", s |-> s]
(* every modifier, each set twice: the later value must win *)
All1 == <<WC(C2), WS(S2), WT(T2), WT(T1), WC(C1), WS(S1)>>
All2 == <<WT(T2), WC(C2), WS(S2)>>
HasT(ws) == \E i \in 1..Len(ws) : ws[i].what = "timeout"

CallOf(name) ==
  CASE name = "bind"       -> [op |-> "bind", a |-> [dn |-> sDn, pw |-> sPW]]
    [] name = "saslext"    -> [op |-> "saslext", a |-> [x |-> 0]]
    [] name = "search"     -> [op |-> "search", a |-> [base |-> sDn, scope |-> "OneLevel", filter |-> sFilter, attrs |-> <<sCN>>]]
    [] name = "search-bad" -> [op |-> "search", a |-> [base |-> sDn, scope |-> "Base", filter |-> BadFilter, attrs |-> <<>>]]
    [] name = "add"        -> [op |-> "add", a |-> [dn |-> sDn, attrs |-> <<[type |-> sCN, vals |-> <<sABC>>]>>]]
    [] name = "add-rej"    -> [op |-> "add", a |-> [dn |-> sDn, attrs |-> <<[type |-> sCN, vals |-> <<sABC>>], [type |-> sSN, vals |-> <<>>]>>]]
    [] name = "modify"     -> [op |-> "modify", a |-> [dn |-> sDn, mods |-> <<[kind |-> "Replace", type |-> sCN, vals |-> <<>>]>>]]
    [] name = "modify-rej" -> [op |-> "modify", a |-> [dn |-> sDn, mods |-> <<[kind |-> "Delete", type |-> sCN, vals |-> <<>>],
                                                                               [kind |-> "Add", type |-> sSN, vals |-> <<>>]>>]]
    [] name = "compare"    -> [op |-> "compare", a |-> [dn |-> sDn, attr |-> sCN, val |-> sABC]]
    [] name = "delete"     -> [op |-> "delete", a |-> [dn |-> sCNX]]
    [] name = "modifydn"   -> [op |-> "modifydn", a |-> [dn |-> sDn, rdn |-> sCNX, delold |-> FALSE, hassup |-> TRUE, sup |-> sCNX]]
    [] name = "extended"   -> [op |-> "extended", a |-> [name |-> sOidWho, hasval |-> FALSE, val |-> <<>>]]
    [] name = "abandon"    -> [op |-> "abandon", a |-> [target |-> 1]]
    [] name = "unbind"     -> [op |-> "unbind", a |-> [x |-> 0]]
WideCalls == {"bind", "saslext", "search", "search-bad", "add", "add-rej", "modify", "modify-rej", "compare", "delete",
              "modifydn", "extended", "abandon"}
Narrow2 == {"delete", "search", "add-rej", "compare", "bind", "unbind"}
Narrow3 == {"delete", "search", "unbind"}

Rnd(ws, name, srv) == [ws |-> ws, op |-> CallOf(name).op, a |-> CallOf(name).a, srv |-> srv, clone |-> FALSE]
RndC(ws, name) == [ws |-> ws, op |-> CallOf(name).op, a |-> CallOf(name).a, srv |-> "answer", clone |-> TRUE]
(* modifiers set on the handle, the operation invoked on a clone made afterwards; then (round 2) the handle's own operation *)
ClonePool(pos) == IF pos = 1 THEN {RndC(ws, n) : ws \in {<<WC(C1)>>, <<WS(S1)>>, All1}, n \in {"delete", "search"}}
                  ELSE IF pos = 2 THEN {RndC(<<>>, "search")} ELSE {}
Srvs(name, ws, pos) ==
  IF ~HasResponse(CallOf(name).op) \/ LocalReject(CallOf(name).op, CallOf(name).a) THEN {"answer"}
  ELSE IF pos = 1 /\ ~(HasT(ws) \/ ws = <<>>) THEN {"answer"} ELSE {"answer", "silent"}
RoundPool(pos, start) ==
  IF start # 0 THEN {Rnd(<<>>, n, "answer") : n \in {"delete", "search"}}
  ELSE LET ps == CASE pos = 1 -> {<<>>, <<WC(C1)>>, <<WC(<<>>)>>, <<WT(T1)>>, <<WS(S1)>>, All1}
                   [] pos = 2 -> {<<>>, <<WC(C2)>>, All2} \cup (IF Wide THEN {<<WT(T2)>>, <<WS(S2)>>} ELSE {})
                   [] OTHER   -> {<<>>} \cup (IF Wide THEN {<<WC(C2)>>} ELSE {})
           ns == CASE pos = 1 -> WideCalls
                   [] pos = 2 -> IF Wide THEN Narrow2 \cup {"modify-rej", "search-bad", "extended"} ELSE Narrow2
                   [] OTHER   -> Narrow3
       IN {Rnd(t[1], t[2], t[3]) : t \in {u \in ps \X ns \X {"answer", "silent"} : u[3] \in Srvs(u[2], u[1], pos)}} \cup ClonePool(pos)
Starts == {0, 126, 127, 254, 255, 32766, 32767, MaxI - 2, MaxI - 1, MaxI}

VARIABLES start, hist, exp
vars == <<mods, last, closed, pend, lastcall, start, hist, exp>>
GenInit == /\ start \in Starts /\ SeqInit(start) /\ hist = <<>> /\ exp = <<>>
GenNext == /\ Len(hist) < MaxLen
           /\ \E r \in RoundPool(Len(hist) + 1, start) :
                /\ Round(r)
                /\ hist' = Append(hist, r)
                /\ exp' = Append(exp, lastcall'.res)
           /\ UNCHANGED start
Spec == GenInit /\ [][GenNext]_vars

(* the state machine and the pure fold agree (FALSE/FALSE instance only) *)
Consistent == (SoptsSurviveNonSearch \/ ModsSurviveLocalError) \/ exp = RunRounds(Fresh(start), hist, FALSE, FALSE)

ExpOf(res) == [haswire |-> res.haswire, op |-> res.op, id |-> res.id, out |-> res.out, tmo |-> res.tmo,
               encs |-> IF res.haswire THEN RequestEncodings(res.op, res.a, res.id, res.some, res.ctrls) ELSE {}]
Exps(rs) == [i \in 1..Len(rs) |-> ExpOf(rs[i])]
Alt(name, devS, devL) == LET rs == RunRounds(Fresh(start), hist, devS, devL) IN
                         IF rs = exp THEN <<>> ELSE <<[dev |-> name, expect |-> Exps(rs)]>>
Emit ==
  ~EmitVectors \/ hist = <<>> \/
  PrintT(<<"VEC", ToJson([k |-> "hist", start |-> start, calls |-> hist, expect |-> Exps(exp),
                          alts |-> Alt("non-search-op", TRUE, FALSE) \o Alt("local-error", FALSE, TRUE)
                                   \o Alt("local-error+non-search-op", TRUE, TRUE)])>>)
=============================================================================
