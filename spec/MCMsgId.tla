------------------------------ MODULE MCMsgId ------------------------------
EXTENDS MsgId, Json
SetToSeq(S) == LET RECURSIVE F(_) F(T) == IF T = {} THEN <<>> ELSE LET x == CHOOSE y \in T : \A z \in T : y <= z IN <<x>> \o F(T \ {x}) IN F(S)
Emit == used # Ids => PrintT(<<"VEC", ToJson([maxid |-> MaxId, last |-> last, used |-> SetToSeq(used), next |-> Probe(last, used)])>>)
=============================================================================
