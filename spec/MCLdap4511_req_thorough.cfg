SPECIFICATION Spec
CONSTANTS
  Dir = "req"
  Forms = {1}
  Deep = TRUE
  EmitVectors = TRUE
INVARIANTS ReqRoundTrip ReqTags Emit
CHECK_DEADLOCK FALSE
