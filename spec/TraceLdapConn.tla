--------------------------- MODULE TraceLdapConn ---------------------------
(***************************************************************************)
(* Trace validation of the real connection code against LdapConn.          *)
(* The harness (conn-run) records one event per specification action; this *)
(* module consumes them in order, each event conjoined with the            *)
(* corresponding action of LdapConn and the logged fields bound to the     *)
(* primed variables.  Scenarios are separated by Reset events.             *)
(*                                                                         *)
(* Degradation instead of a hard stop: when a logged observable differs    *)
(* from the reference value the difference is printed as                   *)
(*     <<"DIAG", line, tag>>                                               *)
(* and the logged value is adopted, so that the rest of the trace is still *)
(* checked and each difference can be attributed to the property that owns *)
(* it (tags: alloc, book, time, route, stream, close, inv:<Name>,          *)
(* core:<event>, hang, panic).  An event that no action explains even      *)
(* after adoption is core:<event>; the scenario is then skipped up to the  *)
(* next Reset.                                                             *)
(***************************************************************************)
EXTENDS LdapConn, Json, IOUtils

Rec == ndJsonDeserialize(IOEnv.TRACE)
KindsAllT == [o \in Ops |-> {"single", "search", "abandon", "unbind"}]

VARIABLES l,        \* index of the next event
          pend,     \* the Call event waiting for its IdAlloc
          dead,     \* scenario abandoned after an unexplainable event
          started,  \* slot of the operation whose start failed at once (driver gone), awaiting its Ret
          seen      \* message IDs of the requests the scripted server has read in this scenario
tv == <<vars, l, pend, dead, started, seen>>

E == Rec[l]
Is(e) == l <= Len(Rec) /\ Rec[l].ev = e
Adv == l' = l + 1
SetOfSeq(sq) == {sq[n] : n \in 1..Len(sq)}
Diag(tag) == PrintT(<<"DIAG", l, tag>>)
Keep == UNCHANGED <<pend, dead, started, seen>>
Chk(c, tag) == IF c THEN TRUE ELSE Diag(tag)     \* never a disjunction: TLC would explore both branches

HasOwner(i) == \E o \in Ops : oid[o] = i
OwnerOf(i) == CHOOSE o \in Ops : oid[o] = i
AdoptMap(f, D) == [i \in D |-> IF i \in DOMAIN f THEN f[i] ELSE OwnerOf(i)]
Adoptable(f, D) == \A i \in D : i \in DOMAIN f \/ HasOwner(i)
LU == SetOfSeq(E.s.used)
LR == SetOfSeq(E.s.res)
LS == SetOfSeq(E.s.sea)
SameBook(ref) == ref.u = LU /\ DOMAIN ref.r = LR /\ DOMAIN ref.s = LS
(* "more": the implementation keeps something the reference has dropped (a leak, C13);
   "less": it has dropped something the reference still keeps (whether that hurts shows in the invariants) *)
(* "less" must never concern an operation whose caller is still listening: a routing entry the reference keeps, the
   implementation has dropped, and whose reply sender / item sender somebody still waits on (C01: nothing that happens to
   other IDs disturbs an operation) *)
LostOK(ref) == \A i \in ((DOMAIN ref.r \ LR) \cup (DOMAIN ref.s \ LS)) : ~LiveRoute(i)
BookTag(ref) == IF LU \subseteq ref.u /\ LR \subseteq DOMAIN ref.r /\ LS \subseteq DOMAIN ref.s THEN "book:less" ELSE "book:more"

(* ------------------------------ scenario control ------------------------------ *)
TReset ==
  /\ Is("Reset") /\ Adv
  /\ last' = 0 /\ used' = {} /\ reqQ' = <<>> /\ scrubQ' = <<>> /\ resmap' = <<>> /\ seamap' = <<>>
  /\ reply' = [o \in Ops |-> R("none")] /\ itemQ' = [o \in Ops |-> <<>>]
  /\ itemTx' = [o \in Ops |-> FALSE] /\ itemRx' = [o \in Ops |-> FALSE]
  /\ phase' = [o \in Ops |-> "idle"] /\ kind' = [o \in Ops |-> "none"] /\ oid' = [o \in Ops |-> 0]
  /\ target' = [o \in Ops |-> 0] /\ tmo' = [o \in Ops |-> 0] /\ adapted' = [o \in Ops |-> FALSE]
  /\ sstate' = [o \in Ops |-> "Fresh"] /\ sres' = [o \in Ops |-> NoMsg] /\ deadline' = [o \in Ops |-> NoDeadline]
  /\ drv' = "run" /\ net' = "up" /\ s2c' = <<>> /\ c2s' = {} /\ orphans' = 0 /\ tok' = 0 /\ hdrop' = FALSE
  /\ now' = 0 /\ got' = [o \in Ops |-> <<>>] /\ sentFor' = [o \in Ops |-> <<>>]
  /\ pend' = [ev |-> "none"] /\ dead' = FALSE /\ started' = NoOp /\ seen' = {}

TSetLast == Is("SetLast") /\ Adv /\ Keep /\ used = {} /\ last' = E.last
            /\ UNCHANGED <<used, queues, maps, chans, callerv, envv, hist, now>>

(* ---------------------------------- callers ---------------------------------- *)
TCall == Is("Call") /\ Adv /\ pend' = E /\ UNCHANGED <<vars, dead, started, seen>>

TStart ==
  /\ Is("IdAlloc") /\ pend.ev = "Call" /\ Adv
  /\ Chk(AllocLaw(E.id), "alloc")
  /\ StartP(pend.o, pend.k, pend.t, pend.ad, pend.tg, E.id)
  /\ pend' = [ev |-> "none"] /\ started' = IF DrvAlive THEN started ELSE pend.o
  /\ UNCHANGED <<dead, seen>>

(* is_closed() as reported right after the call returned: true exactly when the driver is gone (absent on returns of
   stream starts, where the handle is inside the stream) *)
ClosedOK == ("closed" \notin DOMAIN E) \/ (E.closed <=> ~DrvAlive)
TRet ==
  /\ Is("Ret") /\ Adv /\ UNCHANGED <<pend, dead, seen>>
  /\ Chk(ClosedOK, "closed")
  /\ LET o == E.o IN
     \/ /\ E.r = "val" /\ reply[o].st = "val" /\ RecvReply(o)
        /\ Chk(reply[o].m.tok = E.tok, "route") /\ UNCHANGED started
     \/ /\ E.r = "null" /\ reply[o].st = "null" /\ RecvReply(o) /\ UNCHANGED started
     \/ /\ E.r = "err" /\ started # o /\ ReplyDropped(o) /\ UNCHANGED started
     \/ /\ E.r = "err" /\ started = o /\ phase[o] = "fail" /\ started' = NoOp /\ UNCHANGED vars   \* OpSend: failed at once
     \/ /\ E.r = "timeout" /\ Chk(TimeGuard(o), "time") /\ TimeoutCore(o) /\ UNCHANGED started

TCallNext ==
  /\ Is("CallNext") /\ Adv /\ Keep
  /\ IF E.active THEN NextCall(E.o)
     ELSE phase[E.o] = "stream" /\ sstate[E.o] # "Active" /\ UNCHANGED vars

TRetNext ==
  /\ Is("RetNext") /\ Adv /\ Keep
  /\ LET o == E.o IN
     \/ /\ E.r = "item" /\ NextItem(o) /\ Chk(Head(itemQ[o]).tok = E.tok, "route")
     \/ /\ E.r = "done" /\ NextDone(o)
     \/ /\ E.r = "closed" /\ NextClosed(o)
     \/ /\ E.r = "timeout" /\ Chk(TimeGuard(o), "time") /\ NextTimeoutCore(o)
     \/ /\ E.r = "noop" /\ phase[o] = "stream" /\ sstate[o] # "Active" /\ UNCHANGED vars
     \/ /\ E.r = "aderr" /\ NextAdapterErr(o)
  /\ Chk(sstate'[E.o] = E.st, "stream")

(* what the innermost tap saw: a reference / intermediate message absorbed by EntriesOnly is a step of its own;
   an entry is handed on to the caller (the RetNext that follows) *)
TInner ==
  /\ Is("Inner") /\ Adv /\ Keep
  /\ IF E.typ \in {"ref", "int"}
       THEN NextAbsorb(E.o) /\ Chk(Head(itemQ[E.o]).tok = E.tok, "route")
       ELSE phase[E.o] = "next" /\ itemQ[E.o] # <<>> /\ UNCHANGED vars

TFinish ==
  /\ Is("Finish") /\ Adv /\ Keep
  /\ Finish(E.o)
  /\ Chk((E.tok = FinishValue(E.o) /\ (E.rc = 88 <=> sres[E.o].typ # "done") /\ E.st = "Closed"), "stream")

TDropHandles == Is("DropHandles") /\ Adv /\ Keep /\ DropHandles
(* the caller walks away: an operation future dropped by an outer select!/timeout, a stream dropped without finish() *)
TCancel == Is("Cancel") /\ Adv /\ Keep /\ Cancel(E.o)
TStreamDrop == Is("StreamDrop") /\ Adv /\ Keep /\ StreamDrop(E.o)

(* ---------------------------------- driver ---------------------------------- *)
(* what the properties state outright about a scrub (C12: the late reply is delivered to nobody, the ID is reusable) and
   about an Abandon (C13: the target's routing state and ID are released) is not adoptable: it is checked on the logged
   post-state itself *)
TDrvScrub ==
  /\ Is("DrvScrub") /\ Adv /\ Keep
  /\ Chk(E.id \notin (LU \cup LR \cup LS), "effect:scrub")
  /\ scrubQ # <<>> /\ Head(scrubQ) = E.id
  /\ IF SameBook(ScrubRef) THEN DrvScrubP(ScrubRef.u, ScrubRef.r, ScrubRef.s)
     ELSE /\ Adoptable(resmap, LR) /\ Adoptable(seamap, LS) /\ Diag(BookTag(ScrubRef))
          /\ Chk(LostOK(ScrubRef), "effect:lost-route")
          /\ DrvScrubP(LU, AdoptMap(resmap, LR), AdoptMap(seamap, LS))

(* a scrub the model did not expect (for instance finish() on a stream the model considers Done): harmless by itself,
   so its effect is adopted and it is only noted; what it may break shows up in the invariants *)
TDrvScrubX ==
  /\ Is("DrvScrub") /\ Adv /\ Keep
  /\ \A n \in 1..Len(scrubQ) : scrubQ[n] # E.id
  /\ Adoptable(resmap, LR) /\ Adoptable(seamap, LS) /\ Diag("xscrub")
  /\ Chk(\A i \in ((DOMAIN resmap \ LR) \cup (DOMAIN seamap \ LS)) : ~LiveRoute(i), "effect:lost-route")
  /\ used' = LU /\ resmap' = AdoptMap(resmap, LR) /\ seamap' = AdoptMap(seamap, LS)
  /\ reply' = ReplyAfter(AdoptMap(resmap, LR), NoOp) /\ itemTx' = ItemTxAfter(AdoptMap(seamap, LS))
  /\ UNCHANGED <<last, queues, itemQ, itemRx, callerv, envv, hist, now>>

TDrvOp ==
  /\ Is("DrvOp") /\ Adv /\ Keep
  /\ reqQ # <<>> /\ ReqHead.id = E.id /\ kind[ReqHead.op] = E.k
  /\ Chk(E.k # "abandon" \/ ~E.ok \/ (E.tg = target[ReqHead.op] /\ E.tg \notin (LU \cup LR \cup LS)), "effect:abandon")
  /\ IF ~E.ok THEN DrvOpSendFail
     ELSE IF SameBook(OpRef) THEN DrvOpSentP(OpRef.u, OpRef.r, OpRef.s)
     ELSE /\ Adoptable(resmap, LR) /\ Adoptable(seamap, LS) /\ Diag(BookTag(OpRef))
          /\ Chk(LostOK(OpRef), "effect:lost-route")
          /\ DrvOpSentP(LU, AdoptMap(resmap, LR), AdoptMap(seamap, LS))

TDrvRecv ==
  /\ Is("DrvRecv") /\ Adv /\ Keep
  /\ s2c # <<>> /\ Head(s2c).id = E.id
  /\ IF SameBook(RecvRef) THEN DrvRecvP(RecvRef.u, RecvRef.r, RecvRef.s)
     ELSE /\ Adoptable(resmap, LR) /\ Adoptable(seamap, LS) /\ Diag(BookTag(RecvRef))
          /\ Chk(LostOK(RecvRef), "effect:lost-route")
          /\ DrvRecvP(LU, AdoptMap(resmap, LR), AdoptMap(seamap, LS))

TDrvExit ==
  /\ Is("DrvExit") /\ Adv /\ Keep
  /\ \/ drv = E.how /\ UNCHANGED vars                     \* already exited in the model (failed send)
     \/ drv = "run" /\ (DrvEof \/ DrvReqClosed \/ DrvRecvBad \/ DrvRecvBadDone) /\ drv' = E.how

(* ----------------------------- server / environment ----------------------------- *)
TSrvSend == /\ Is("SrvSend") /\ Adv /\ Keep
            /\ \E r \in c2s : r.id = E.id /\ ~r.fin /\ SrvSend(r, E.typ) /\ tok' = E.tok
TSrvOrphan == Is("SrvOrphan") /\ Adv /\ Keep /\ SrvOrphan(E.id, E.typ) /\ tok' = E.tok
TSrvGarbage == Is("SrvGarbage") /\ Adv /\ Keep /\ IF "open" \in DOMAIN E /\ E.open THEN SrvGarbageOpen ELSE SrvGarbage
TSrvBadDone == Is("SrvBadDone") /\ Adv /\ Keep /\ \E r \in c2s : r.id = E.id /\ ~r.fin /\ SrvBadDone(r)
TSrvClose == Is("SrvClose") /\ Adv /\ Keep /\ SrvClose(E.how)
(* the peer stops reading / reads again; WBlocked is logged by the transport the first time a write finds the peer not
   reading: the driver is now inside stream.send() and serves nothing else until the write completes (its DrvOp event) *)
TSrvStall == Is("SrvStall") /\ Adv /\ Keep /\ SrvStall
TSrvResume == Is("SrvResume") /\ Adv /\ Keep /\ SrvResume
TWBlocked == Is("WBlocked") /\ Adv /\ Keep /\ DrvOpBegin
(* what the scripted server decoded from the bytes it read: the request must be one the model put on the wire, of the
   same kind, and an AbandonRequest must name the ID the caller gave *)
AppOfKind(k) == CASE k = "single" -> {0, 10, 14} [] k = "search" -> {3} [] k = "abandon" -> {16} [] k = "unbind" -> {2} [] OTHER -> {}
TSrvGot == /\ Is("SrvGot") /\ Adv /\ UNCHANGED <<vars, pend, dead, started>> /\ seen' = seen \cup {E.id}
           /\ Chk(E.id >= 1 /\ E.id <= MaxId, "wire:id-range")        \* C05: what leaves the client carries an ID in 1..2^31-1
           /\ Chk(\E r \in c2s : r.id = E.id /\ E.app \in AppOfKind(r.kind), "wire")
           /\ Chk(E.app # 16 \/ \E r \in c2s : r.id = E.id /\ r.tg = E.tg, "wire:abandon")
TTick == Is("Tick") /\ Adv /\ Keep /\ Chk(~TimerDue, "time") /\ TickCore /\ now' = E.now

(* ------------------------------ observations ------------------------------ *)
(* at the quiescent point everything the model put on the wire has been read by the scripted server (C13: Abandon sends
   an AbandonRequest naming the given ID - also for an ID that is no longer routed) *)
TQuiet == /\ Is("Quiet") /\ Adv /\ Keep /\ UNCHANGED vars
          /\ Chk(scrubQ = <<>> /\ reqQ = <<>>, "quiet:pending")      \* the system is idle: what the model still has queued was never sent
          /\ Chk(\A r \in c2s : r.kind = "abandon" => r.id \in seen, "wire:missing:abandon")
          /\ Chk(\A r \in c2s : r.kind # "abandon" => r.id \in seen, "wire:missing")
          /\ Chk(SetOfSeq(E.used) \subseteq used, "quiet:more") /\ Chk(used \subseteq SetOfSeq(E.used) /\ E.last = last, "quiet:less")
TClientClosed == /\ Is("ClientClosed") /\ Adv /\ Keep /\ UNCHANGED vars
                 /\ Chk((~DrvAlive => (E.shutdown \/ E.dropped)), "close")
                 (* C04: "Unbind and dropping the last handle close the transport" - an Unbind that went out was followed by
                    the client shutting its side down, whether or not its caller was still waiting *)
                 /\ Chk((\E r \in c2s : r.kind = "unbind") => E.shutdown, "close")
TIgnored == (Is("IdRelease") \/ Is("SrvPartial")) /\ Adv /\ Keep /\ UNCHANGED vars

Explained ==
  \/ TSetLast \/ TCall \/ TStart \/ TRet \/ TCallNext \/ TRetNext \/ TInner \/ TFinish \/ TDropHandles \/ TCancel \/ TStreamDrop
  \/ TDrvScrub \/ TDrvScrubX \/ TDrvOp \/ TDrvRecv \/ TDrvExit
  \/ TSrvGot \/ TSrvSend \/ TSrvOrphan \/ TSrvGarbage \/ TSrvBadDone \/ TSrvClose \/ TSrvStall \/ TSrvResume \/ TWBlocked \/ TTick \/ TQuiet \/ TClientClosed \/ TIgnored

(* Hang / Panic are observations no action explains *)
TUnexplained ==
  /\ l <= Len(Rec) /\ E.ev # "Reset" /\ Adv
  /\ Diag(<<"core", E.ev>>)
  /\ dead' = TRUE /\ UNCHANGED <<vars, pend, started, seen>>
TSkip == l <= Len(Rec) /\ E.ev # "Reset" /\ Adv /\ UNCHANGED <<vars, pend, dead, started, seen>>

(* invariants evaluated on every new state of a live scenario; differences are reported, not fatal *)
InvDiag ==
  /\ Chk(Routing'     , <<"inv", "Routing">>)
  /\ Chk(NoLeak'      , <<"inv", "NoLeak">>)
  /\ Chk(UniqueIds'   , <<"inv", "UniqueIds">>)
  /\ Chk(WireUnique'  , <<"inv", "WireUnique">>)
  /\ Chk(IdRange'     , <<"inv", "IdRange">>)
  /\ Chk(Protected'   , <<"inv", "Protected">>)
  /\ Chk(RoutedProtected', <<"inv", "RoutedProtected">>)
  /\ Chk(TimeoutExact', <<"inv", "TimeoutExact">>)
  /\ Chk(FailFast'    , <<"inv", "FailFast">>)
  /\ Chk(StreamOK'    , <<"inv", "StreamOK">>)

TrNext ==
  \/ TReset
  \/ /\ ~Is("Reset")
     /\ IF dead THEN TSkip
        ELSE IF ENABLED Explained THEN Explained /\ InvDiag
        ELSE TUnexplained

TrInit == /\ Init /\ last = 0 /\ l = 1 /\ pend = [ev |-> "none"] /\ dead = FALSE /\ started = NoOp /\ seen = {}
TrSpec == TrInit /\ [][TrNext]_tv

Accepted == IF TLCGet("stats").diameter - 1 = Len(Rec) THEN TRUE
            ELSE Print(<<"TRACE-NOT-CONSUMED", TLCGet("stats").diameter, Len(Rec)>>, FALSE)
=============================================================================
