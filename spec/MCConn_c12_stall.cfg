SPECIFICATION Spec
CONSTANTS
  Ops = {"o1", "o2"}
  NoOp = "none"
  MaxId = 4
  Last0 <- LastWrap
  MaxItems = 1
  ItemTypes <- EntOnly
  MaxOrphans = 0
  Kinds <- KindsTimed
  Tmo = {0, 2}
  Horizon = 3
  AllowFaults = FALSE
  OpenGarbage = FALSE
  AdapterErrors = FALSE
  AllowCancel = FALSE
  AllowStall = TRUE
  AbstractTime = FALSE
  LeakSearchIdOnDone = FALSE
  AbandonKeepsTargetId = FALSE
  DirectStaysActive = FALSE
  StaleInsertAfterScrub = FALSE
INVARIANTS TypeOK TimeoutExact Routing NoLeak
PROPERTIES TimeoutKeepsConn
CHECK_DEADLOCK FALSE
