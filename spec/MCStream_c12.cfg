SPECIFICATION Spec
CONSTANTS
  StaleResultAfterSplice = FALSE
  Envs <- C12Envs
  SearchEnvs <- NoEnvs
  Alphabet <- AlphaAll
  MaxCalls = 0
  Plans <- C12Plans
INVARIANTS ItemsLaw FinishLaw StateLaw PagingLaw TimeoutLaw NoPanic Emit
CHECK_DEADLOCK FALSE
