------------------------------ MODULE MCEntry ------------------------------
(* Model-checking instance and vector generator for Entry (C15).            *)
(* One state = one search entry [dn, attrs].                                *)
(*   mode "entry": entries grown attribute by attribute, value by value,    *)
(*                 from pools of well-formed and ill-formed UTF-8 values;   *)
(*   mode "utf8" : an entry with one attribute holding one value that is    *)
(*                 grown byte by byte over a boundary alphabet (every       *)
(*                 border of Unicode table 3-7).                            *)
(* Attribute i of an entry has the i-th description of `types`, so no entry *)
(* repeats an attribute description (outside the property: one map key      *)
(* cannot hold two attributes, and RFC 4512 forbids it).                    *)
(* INVARIANTs are the laws C15 states, checked on the specification; Emit   *)
(* prints one vector per state: the entry, its BER encoding computed by     *)
(* the specification, and the expected text / binary maps.                  *)
EXTENDS Entry, TLC, Json

CONSTANTS MaxAttrs,        \* attributes per entry
          MaxVals1, Pool1, \* first attribute: number of values, value pool
          MaxVals2, Pool2, \* further attributes
          SmallVals,       \* total number of values of entries with a non-default dn / type sequence
          MaxU, Alphabet,  \* utf8 mode: value length, byte alphabet
          Lead4,           \* utf8 mode: a value is grown to 4 bytes only behind these first bytes
          EmitVectors

(* ---- pools -------------------------------------------------------------- *)
Ascii    == <<97>>                     \* "a"
TwoByte  == <<195, 169>>               \* U+00E9
ThreeByte == <<226, 130, 172>>         \* U+20AC
FourByte == <<240, 159, 152, 128>>     \* U+1F600
EmptyVal == <<>>
LoneCont == <<128>>
Overlong == <<192, 128>>
Surrogate == <<237, 160, 128>>
Truncated == <<226, 130>>
FF       == <<255>>
TooBig   == <<244, 144, 128, 128>>     \* U+110000
AsciiThenBad == <<97, 128>>            \* valid prefix, ill-formed tail
MaxScalar == <<244, 143, 191, 191>>    \* U+10FFFF

ValidPool   == {Ascii, TwoByte, ThreeByte, FourByte, EmptyVal}
InvalidPool == {LoneCont, Overlong, Surrogate, Truncated, FF, TooBig}
FullPool    == ValidPool \cup InvalidPool
MidPool     == {Ascii, ThreeByte, EmptyVal, LoneCont, Overlong, Truncated, FF, TooBig}
BigPool     == FullPool \cup {AsciiThenBad, MaxScalar}
TinyPool    == {Ascii, LoneCont}

(* known answers: the table must classify the pools as labelled *)
ASSUME \A v \in ValidPool \cup {MaxScalar} : WellFormedUtf8(v) /\ Utf8Walk(v) /\ Utf8ByDefinition(v)
ASSUME \A v \in InvalidPool \cup {AsciiThenBad} : ~WellFormedUtf8(v) /\ ~Utf8Walk(v) /\ ~Utf8ByDefinition(v)

(* every border of table 3-7 *)
Boundary == {0, 127, 128, 143, 144, 159, 160, 191, 192, 193, 194, 223, 224, 225, 236, 237, 238, 239,
             240, 241, 243, 244, 245, 255}
BoundarySmall == {65, 127, 128, 143, 144, 159, 160, 191, 192, 194, 224, 237, 239, 240, 244, 245}
AllLead4 == 0..255
SomeLead4 == {194, 224, 239, 240, 244}

CN    == <<99, 110>>                                                           \* cn
PHOTO == <<106, 112, 101, 103, 80, 104, 111, 116, 111, 59, 98, 105, 110, 97, 114, 121>> \* jpegPhoto;binary
OIDT  == <<50, 46, 53, 46, 52, 46, 51>>                                        \* 2.5.4.3
UPPER == <<83, 78, 59, 108, 97, 110, 103, 45, 101, 110>>                       \* SN;lang-en
DefaultTypes == <<CN, PHOTO, OIDT>>
TypeSeqs == {DefaultTypes, <<OIDT, UPPER, CN>>, <<PHOTO, CN, UPPER>>}

DefaultDN == <<99, 110, 61, 97, 44, 100, 99, 61, 120>>                         \* cn=a,dc=x
DNs == {DefaultDN, <<>>, <<99, 110, 61, 195, 169, 226, 130, 172, 44, 111, 61, 240, 159, 152, 128>>} \* cn=<U+E9><U+20AC>,o=<U+1F600>

ASSUME \A ts \in TypeSeqs : Len(ts) >= MaxAttrs /\ InScope(DefaultDN, [i \in 1..Len(ts) |-> [t |-> ts[i], vals |-> <<>>]])
ASSUME \A d \in DNs : WellFormedUtf8(d)
(* the scope predicate itself: things RFC 4512 does not allow as attribute descriptions *)
ASSUME \A s \in {<<>>, <<59>>, <<99, 110, 59>>, <<49>>, <<49, 46>>, <<49, 46, 46, 50>>, <<48, 49, 46, 50>>, <<45, 97>>,
                 <<99, 110, 59, 59, 120>>, <<99, 32, 110>>, <<195, 169>>} : ~IsAttrDescription(s)
ASSUME ~InScope(DefaultDN, <<[t |-> CN, vals |-> <<>>], [t |-> <<67, 78>>, vals |-> <<>>]>>)   \* cn and CN

VARIABLES mode, dn, types, attrs
vars == <<mode, dn, types, attrs>>

TotalVals == LET RECURSIVE Sum(_)
                 Sum(i) == IF i = 0 THEN 0 ELSE Sum(i - 1) + Len(attrs[i].vals)
             IN Sum(Len(attrs))
Default == dn = DefaultDN /\ types = DefaultTypes

Init == \/ mode = "entry" /\ dn \in DNs /\ types \in TypeSeqs /\ attrs = <<>>
        \/ mode = "utf8" /\ dn = DefaultDN /\ types = DefaultTypes /\ attrs = <<[t |-> CN, vals |-> <<<<>>>>]>>

AddAttr == /\ Len(attrs) < MaxAttrs
           /\ attrs' = Append(attrs, [t |-> types[Len(attrs) + 1], vals |-> <<>>])
AddVal  == /\ attrs # <<>>
           /\ LET i == Len(attrs) IN
                /\ Len(attrs[i].vals) < (IF i = 1 THEN MaxVals1 ELSE MaxVals2)
                /\ Default \/ TotalVals < SmallVals
                /\ \E v \in (IF i = 1 THEN Pool1 ELSE Pool2) :
                      attrs' = [attrs EXCEPT ![i].vals = Append(@, v)]
AddByte == LET s == attrs[1].vals[1] IN
           /\ Len(s) < MaxU
           /\ Len(s) = 3 => s[1] \in Lead4
           /\ \E b \in Alphabet : attrs' = [attrs EXCEPT ![1].vals[1] = Append(@, b)]

Next == /\ UNCHANGED <<mode, dn, types>>
        /\ \/ mode = "entry" /\ (AddAttr \/ AddVal)
           \/ mode = "utf8" /\ AddByte

Spec == Init /\ [][Next]_vars

(* ---- the laws of C15 on the specification itself ------------------------ *)
(* (r is passed around so that TLC evaluates Construct once per state and law) *)

(* number of positions of q satisfying P *)
CountIn(q, P(_)) == Cardinality({i \in DOMAIN q : P(q[i])})

(* every attribute appears in exactly one of the two maps, and nothing else does *)
ExactlyOneMap ==
  LET r == Construct(dn, attrs) IN
  /\ \A i \in DOMAIN attrs :
       LET Has(e) == e.t = attrs[i].t IN CountIn(r.text, Has) + CountIn(r.bin, Has) = 1
  /\ \A j \in DOMAIN r.text : \E i \in DOMAIN attrs : attrs[i].t = r.text[j].t
  /\ \A j \in DOMAIN r.bin : \E i \in DOMAIN attrs : attrs[i].t = r.bin[j].t
  /\ Len(r.text) + Len(r.bin) = Len(attrs)

(* text iff all values are well-formed UTF-8, and then the values are the received ones, in order *)
TextIffAllWellFormed ==
  LET r == Construct(dn, attrs) IN
  \A i \in DOMAIN attrs :
    LET allwf == \A k \in DOMAIN attrs[i].vals : Utf8ByDefinition(attrs[i].vals[k])
    IN /\ allwf <=> \E j \in DOMAIN r.text : r.text[j].t = attrs[i].t
       /\ allwf => \E j \in DOMAIN r.text : r.text[j] = attrs[i]
       /\ ~allwf => \E j \in DOMAIN r.bin : r.bin[j].t = attrs[i].t

(* no value lost, duplicated or altered: per (attribute, value) the number of occurrences is preserved *)
OccIn(a, v) == Cardinality({k \in DOMAIN a.vals : a.vals[k] = v})
RECURSIVE OccText(_, _, _, _), OccBin(_, _, _, _)
OccText(text, j, t, v) == IF j = 0 THEN 0
                          ELSE OccText(text, j - 1, t, v) + (IF text[j].t = t THEN OccIn(text[j], v) ELSE 0)
OccBin(bin, j, t, v)   == IF j = 0 THEN 0
                          ELSE OccBin(bin, j - 1, t, v)
                               + (IF bin[j].t = t /\ v \in DOMAIN bin[j].vals THEN bin[j].vals[v] ELSE 0)
ValuesPreserved ==
  LET r == Construct(dn, attrs)
      text == r.text
      bin == r.bin
      all == UNION ({Range(attrs[i].vals) : i \in DOMAIN attrs}
                    \cup {Range(text[j].vals) : j \in DOMAIN text}
                    \cup {DOMAIN bin[j].vals : j \in DOMAIN bin})
  IN
  /\ r.dn = dn
  /\ \A i \in DOMAIN attrs : \A v \in all :
       OccText(text, Len(text), attrs[i].t, v) + OccBin(bin, Len(bin), attrs[i].t, v) = OccIn(attrs[i], v)
  /\ \A j \in DOMAIN bin : \A v \in DOMAIN bin[j].vals : bin[j].vals[v] >= 1

(* table 3-7, read position by position or as a left-to-right walk, agrees with the definition
   (D92 + shortest form) *)
Utf8TableIsDefinition ==
  \A i \in DOMAIN attrs : \A k \in DOMAIN attrs[i].vals :
     LET s == attrs[i].vals[k] IN
       /\ WellFormedUtf8(s) = Utf8ByDefinition(s)
       /\ Utf8Walk(s) = Utf8ByDefinition(s)

(* the bytes handed to the implementation are a BER encoding of this entry and of nothing else *)
EncodingReadsBack ==
  LET e == EntryBytes(dn, attrs)  d == DecOne(e) IN
    /\ e[1] = 100                                              \* 0x64
    /\ d.ok /\ d.t = EntryTree(dn, attrs)
    /\ d.t.k[1].v = dn
    /\ Len(d.t.k[2].k) = Len(attrs)
    /\ \A i \in DOMAIN attrs :
         LET pa == d.t.k[2].k[i] IN
           /\ pa.k[1].v = attrs[i].t
           /\ pa.k[2].c = 0 /\ pa.k[2].n = 17 /\ ~pa.k[2].prim
           /\ [j \in 1..Len(pa.k[2].k) |-> pa.k[2].k[j].v] = attrs[i].vals

Scope == InScope(dn, attrs)

(* ---- vector output (S -> I) ---------------------------------------------- *)
BagJson(b) == {[v |-> x, n |-> b[x]] : x \in DOMAIN b}
(* label of an attribute, used by the harness only to name the class of a failure and to count coverage *)
Kind(a) == IF a.vals = <<>> THEN "empty"
           ELSE IF AllText(a.vals) THEN "text"
           ELSE IF \A i \in DOMAIN a.vals : ~WellFormedUtf8(a.vals[i]) THEN "binary"
           ELSE "mixed"
Emit ==
  ~EmitVectors \/
  LET R == Construct(dn, attrs) IN
  PrintT(<<"VEC", ToJson([m    |-> mode,
                          dn   |-> dn,
                          attrs |-> attrs,
                          kinds |-> [i \in 1..Len(attrs) |-> Kind(attrs[i])],
                          enc  |-> EntryBytes(dn, attrs),
                          text |-> R.text,
                          bin  |-> [j \in 1..Len(R.bin) |-> [t |-> R.bin[j].t, vals |-> BagJson(R.bin[j].vals)]]])>>)
=============================================================================
