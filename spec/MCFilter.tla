------------------------------ MODULE MCFilter ------------------------------
(* Model-checking instance and vector generator for Filter4515 (C08).          *)
(*                                                                             *)
(* mode "str": one state per byte string over an alphabet Spaces[sp].al up to  *)
(*   length Spaces[sp].n (every string is reached by appending one symbol).    *)
(*   The specification classifies each one; ACCEPTED strings are printed with  *)
(*   the RFC 4511 bytes they denote, the harness enumerates the same space and *)
(*   must see the same accept set with the same bytes (everything else must be *)
(*   rejected without a panic).                                                *)
(* mode "ast": one state per (syntax tree, escaping plan); trees are items     *)
(*   over pools, wrapped by not/and/or up to MaxDepth.  Printed as (string,    *)
(*   bytes) vectors.                                                           *)
(* Invariants = the laws C08 states, checked on the specification itself.      *)
EXTENDS Filter4515, Json, FiniteSets
T == INSTANCE TLC          \* named: TLC!Print would clash with the canonical printer Filter4515!Print

CONSTANTS Spaces,        \* sequence of [al |-> set of bytes, n |-> maximal length]
          Attrs, Rules, Vals,          \* pools of the broad item set (depth 0, every plan)
          SubVals,                     \* pool for substring components
          CoreAttrs, CoreRules, CoreVals, CoreSubVals, Sibs,   \* pools of the items that are wrapped by not/and/or, siblings
          LongLens,                    \* lengths of long values (BER long-form lengths)
          Plans, WrapPlans,            \* escaping plans (sequences of styles 0..2) at depth 0 / when wrapped
          MaxDepth, EmitVectors

(* --------------------------- pools (bytes) --------------------------------- *)
cA == <<97>>                         \* a
cCN == <<99, 110>>                   \* cn
cOID == <<50, 46, 53, 46, 52, 46, 51>>       \* 2.5.4.3
cOPT == <<97, 59, 120, 45, 49>>      \* a;x-1
cDN == <<100, 110>>                  \* dn
cNUM == <<50>>                       \* 2   (D3)
cM == <<109>>                        \* m
cDNX == <<100, 110, 120>>            \* dnx
cDNSUB == <<100, 110, 83, 117, 98>>  \* dnSub
cMOID == <<50, 46, 53, 46, 49, 51, 46, 53>>  \* 2.5.13.5
cUDN == <<68, 78>>                   \* DN  (D2: a matching rule under the lowercase-only reading)

vV == <<118>>                        \* v
vSTAR == <<42>>  vLP == <<40>>  vRP == <<41>>  vBSL == <<92>>  vNUL == <<0>>
vUTF == <<196, 135>>                 \* U+0107
vUTF3 == <<226, 130, 172>>           \* U+20AC
vFF == <<255>>                       \* not UTF-8 (D4)
vMIX == <<97, 42, 98>>               \* a*b
vSP == <<74, 32, 68>>                \* J D
vOPS == <<61, 58, 126>>              \* =:~  (legal raw in a value)
vHEX == <<92, 50, 97>>               \* \2a as literal value bytes: the backslash must be escaped
vKLM == <<171, 205>>                 \* hex digits a-f in both nibbles (upper/lower case escapes differ)

Attrs_q == {cA, cOID, cOPT, cDN}
Rules_q == {cM, cDN, cDNX, cMOID}
Vals_q  == {<<>>, vV, vSTAR, vBSL, vUTF, vFF, vMIX, vKLM}
SubVals_q == {vV, vSTAR, vKLM}
Attrs_t == {cA, cCN, cOID, cOPT, cDN, cNUM}
Rules_t == {cM, cDN, cDNX, cDNSUB, cMOID, cUDN, cNUM}
Vals_t  == {<<>>, vV, vSTAR, vLP, vRP, vBSL, vNUL, vUTF, vUTF3, vFF, vMIX, vSP, vOPS, vHEX, vKLM}
SubVals_t == {vV, vSTAR, vBSL, vUTF}
CoreAttrs_q == {cA}
CoreRules_q == {cDNX}
CoreVals_q == {vV, vSTAR}
CoreSubVals_q == {vV}
CoreSubVals_t == {vV, vSTAR}
CoreAttrs_t == {cA, cOPT}
CoreRules_t == {cDNX, cMOID}
CoreVals_t == {<<>>, vV, vSTAR, vUTF}
Plans2 == {<<x, y>> : x \in 0..2, y \in 0..2}
Plans3 == {<<x, y, z>> : x \in 0..2, y \in 0..2, z \in 0..2}
Uniform == {<<0>>, <<1>>, <<2>>}

Spaces_none == <<>>
Space12(n) == [al |-> {40, 41, 38, 124, 33, 61, 42, 92, 97, 50, 58, 126}, n |-> n]    \* ( ) & | ! = * \ a 2 : ~
SpaceDn(n) == [al |-> {40, 41, 61, 58, 97, 100, 110, 50}, n |-> n]                    \* ( ) = : a d n 2
SpaceSub(n) == [al |-> {40, 41, 61, 42, 92, 97, 50, 0}, n |-> n]                      \* ( ) = * \ a 2 NUL
SpaceAttr(n) == [al |-> {40, 41, 61, 97, 48, 49, 46, 59}, n |-> n]                    \* ( ) = a 0 1 . ;
SpaceAttrH(n) == [al |-> {40, 41, 61, 97, 48, 49, 46, 59, 45}, n |-> n]               \* ( ) = a 0 1 . ; -
SpaceOp(n) == [al |-> {40, 41, 61, 60, 62, 126, 58, 97, 38, 33}, n |-> n]             \* ( ) = < > ~ : a & !
SpaceNest(n) == [al |-> {40, 41, 38, 33, 61, 97}, n |-> n]                            \* ( ) & ! = a
SpaceEsc(n) == [al |-> {40, 41, 61, 97, 92, 43, 45, 102, 50, 71}, n |-> n]              \* ( ) = a \ + - f 2 G : what may follow a backslash
SpaceEscB(n) == [al |-> {61, 97, 92, 47, 48, 57, 58, 64, 71, 96, 103}, n |-> n]             \* = a \ / 0 9 : @ G ` g : the neighbours of the hex digits
Spaces_dev == <<Space12(4), SpaceDn(5)>>
Spaces_q == <<Space12(5), SpaceDn(7), SpaceSub(6), SpaceAttr(6), SpaceOp(5), SpaceNest(7), SpaceEsc(6), SpaceEscB(6)>>
Spaces_t == <<Space12(7), SpaceDn(8), SpaceSub(7), SpaceAttrH(7), SpaceOp(6), SpaceNest(8), SpaceEsc(7), SpaceEscB(6)>>

(* --------------------------- syntax-tree pools ------------------------------ *)
AnySeqs(pool) == {<<>>} \cup {<<x>> : x \in pool} \cup {<<x, y>> : x \in pool, y \in pool}
ItemsOver(attrs, rules, vals, subvals) ==
  {FSimple(t, a, v) : t \in {"eq", "ge", "le", "approx"}, a \in attrs, v \in vals}
  \cup {FPres(a) : a \in attrs}
  \cup {FSub(a, <<i>> \o anys \o <<fi>>) : a \in attrs, i \in subvals \cup {<<>>}, anys \in AnySeqs(subvals), fi \in subvals \cup {<<>>}}
  \cup {FExt(a, m, dn, v) : a \in attrs \cup {<<>>}, m \in rules \cup {<<>>}, dn \in BOOLEAN, v \in vals}
(* not expressible in RFC 4515: a substring filter without components is "present"; an extensible match needs a
   type or a rule; a rule named "dn" without the dnAttributes flag reads as the flag (D1) *)
Expressible(x) == /\ ~(x.t = "sub" /\ \A i \in 1..Len(x.v) : x.v[i] = <<>>)
                  /\ ~(x.t = "ext" /\ x.a = <<>> /\ x.m = <<>>)
                  /\ ~(x.t = "ext" /\ x.m = cDN /\ ~x.dn)
LongVal(n) == [i \in 1..n |-> 65 + (i % 26)]
LongItems == {FSimple("eq", cA, LongVal(n)) : n \in LongLens}
             \cup {FSub(cA, <<LongVal(n), <<>> >>) : n \in LongLens}
             \cup {FExt(cA, cMOID, TRUE, LongVal(n)) : n \in LongLens}
             \cup {FAnd(<<FSimple("eq", cA, LongVal(n)), FPres(cCN)>>) : n \in LongLens}
Items == {x \in ItemsOver(Attrs, Rules, Vals, SubVals) : Expressible(x)} \cup {FAnd(<<>>), FOr(<<>>)}
CoreItems == {x \in ItemsOver(CoreAttrs, CoreRules, CoreVals, CoreSubVals) : Expressible(x)} \cup {FAnd(<<>>), FOr(<<>>)}
Sibs1 == {FSimple("eq", cCN, vV)}
Sibs2 == {FSimple("eq", cCN, vV), FPres(cA)}

Nil == FAnd(<<>>)

VARIABLES mode, sp, s, f, e, d
vars == <<mode, sp, s, f, e, d>>

(* Syntax trees are produced by a step from one seed state per (kind, attribute): TLC evaluates the invariants of
   initial states serially on the main thread (whose stack is also too small for the recursion over a 256-byte
   value), successor states are spread over the workers. *)
Types == {"and", "or", "eq", "ge", "le", "approx", "pres", "sub", "ext"}
Seed(t, a) == Node(t, a, <<>>, FALSE, <<>>, <<>>)
Init == \/ mode = "str" /\ sp \in 1..Len(Spaces) /\ s = <<>> /\ f = Nil /\ e = <<3>> /\ d = 0
        \/ mode = "seed" /\ sp = 0 /\ s = <<>> /\ f \in {Seed(t, a) : t \in Types, a \in Attrs \cup CoreAttrs \cup {<<>>}}
                         /\ e = <<3>> /\ d = 0
        \/ mode = "long" /\ sp = 0 /\ s = <<>> /\ f = Nil /\ e = <<3>> /\ d = 0

Next == \/ /\ mode = "str" /\ Len(s) < Spaces[sp].n
           /\ \E c \in Spaces[sp].al : s' = Append(s, c)
           /\ UNCHANGED <<mode, sp, f, e, d>>
        \/ /\ mode = "ast" /\ d < MaxDepth /\ e \in WrapPlans /\ (d = 0 => f \in CoreItems)
           /\ d' = d + 1
           /\ \/ f' = FNot(f)
              \/ \E u \in Sibs : f' \in {FAnd(<<f>>), FOr(<<f>>), FAnd(<<f, u>>), FAnd(<<u, f>>), FOr(<<f, u>>), FOr(<<u, f>>)}
           /\ UNCHANGED <<mode, sp, s, e>>
        \/ /\ mode = "seed" /\ mode' = "ast" /\ d' = 0
           /\ \/ f' \in {x \in Items : x.t = f.t /\ x.a = f.a} /\ e' \in Plans
              \/ f' \in {x \in CoreItems : x.t = f.t /\ x.a = f.a} /\ e' \in WrapPlans
           /\ UNCHANGED <<sp, s>>
        \/ /\ mode = "long" /\ mode' = "ast" /\ f' \in LongItems /\ e' = <<0>> /\ d' = MaxDepth
           /\ UNCHANGED <<sp, s>>
Spec == Init /\ [][Next]_vars

Law(name, cond) == cond \/ T!Print(<<"LAW-FAILED", name, mode, s, f, e>>, FALSE)

Reasons == {"syntax", "bad-escape", "empty-attribute", "adjacent-asterisks", "unbalanced-parens", "unescaped-special", "trailing-text"}

Vec(m, str, x, bare) ==
  T!PrintT(<<"VEC", ToJson([m |-> m, sp |-> sp, s |-> str, ber |-> FTree(x), must |-> InGrammar(str, x),
                          top |-> x.t, k |-> LeafKinds(x), bare |-> bare, d |-> d])>>)

(* every string: classification, and for accepted strings the laws of C08 *)
StrCheck ==
  mode = "str" =>
    LET r == Parse(s) IN
    IF r.ok THEN
      LET b == FTree(r.v)  pr == Print(r.v)  back == Parse(pr) IN
      /\ Law("decode-inverts-encode", DecodeFilter(b) = YesAst(r.v))
      /\ Law("print-parses-to-same-tree", back.ok /\ back.v = r.v)
      /\ Law("print-reproduces-input-up-to-escaping", Norm(pr) = Norm(Wrap(s)))
      /\ Law("means-what-it-says", MeansWhatItSays(s, b))
      /\ Law("accepted-string-in-no-reject-class", ~(Unbalanced(s) \/ BadEscape(s) \/ DoubleStar(s) \/ EmptyAttr(s)))
      /\ Law("allowed-accept", Allowed(s, TRUE, b))
      /\ Law("case-insensitive-reading-agrees", HasUpperDn(s) \/ ParseCI(s) = r)
      /\ (~EmitVectors \/ Vec("str", s, r.v, FALSE))
    ELSE
      /\ Law("reason-known", r.why \in Reasons)
      /\ (s # <<>> \/ ~EmitVectors \/
            T!PrintT(<<"VEC", ToJson([m |-> "space", sp |-> sp, al |-> Spaces[sp].al, n |-> Spaces[sp].n])>>))

SeedCheck == mode \in {"seed", "long"} => (~EmitVectors \/ T!PrintT(<<"VEC", ToJson([m |-> "seed"])>>))

(* every tree x escaping plan *)
AstCheck ==
  mode = "ast" =>
    LET str == Render(f, e)  r == Parse(str)  b == FTree(f)
        bare == SubSeq(str, 2, Len(str) - 1)  rb == Parse(bare)
        pr == Print(f)  rp == Parse(pr)
    IN
    /\ Law("parse-inverts-render", r.ok /\ r.v = f)
    /\ Law("decode-inverts-encode", DecodeFilter(b) = YesAst(f))
    /\ Law("print-reproduces-input-up-to-escaping", Norm(pr) = Norm(str))
    /\ Law("print-is-a-rendering", rp.ok /\ rp.v = f)
    /\ Law("bare-item", IsComposite(f) \/ (rb.ok /\ rb.v = f /\ Norm(pr) = Norm(Wrap(bare))))
    /\ Law("composite-needs-parens", ~IsComposite(f) \/ ~rb.ok)
    /\ Law("allowed-accept", Allowed(str, TRUE, b))
    /\ (~EmitVectors \/ Vec("ast", str, f, ~IsComposite(f)))
=============================================================================
