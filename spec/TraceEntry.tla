---------------------------- MODULE TraceEntry ----------------------------
(* I -> S for C15: every record is an entry handed to                       *)
(* ldap3::SearchEntry::construct and what came out:                         *)
(*   [dn, attrs: <<[t, vals]...>>, enc: the bytes that were parsed,         *)
(*    out: [ok, dn, text: <<[t, vals]...>>, bin: <<[t, vals]...>>]]         *)
(* (ok = FALSE: construct panicked; dn/text/bin are then empty).            *)
(* The specification recomputes Construct and compares: attributes in any   *)
(* order (the implementation keeps them in unordered maps), text values in  *)
(* order, binary values as a multiset.  Entries outside the property's      *)
(* scope (Entry!InScope) are accepted whatever the implementation did.      *)
(* A record whose `enc` is not the specification's encoding of the entry    *)
(* is a harness fault and is reported separately (BADENC).                  *)
EXTENDS Entry, TLC, Json, IOUtils

Rec == ndJsonDeserialize(IOEnv.TRACE)
VARIABLE l

AsSet(q) == {q[i] : i \in DOMAIN q}

OutOk(e) ==
  LET r == Construct(e.dn, e.attrs)
      o == e.out
  IN /\ o.ok
     /\ o.dn = r.dn
     /\ Len(o.text) = Len(r.text)
     /\ AsSet(o.text) = AsSet(r.text)
     /\ Len(o.bin) = Len(r.bin)
     /\ {[t |-> o.bin[i].t, vals |-> BagOf(o.bin[i].vals)] : i \in DOMAIN o.bin} = AsSet(r.bin)

Check(e) == ~InScope(e.dn, e.attrs) \/ OutOk(e)
EncOk(e) == e.enc = EntryBytes(e.dn, e.attrs)

Init == l = 1
Next == /\ l <= Len(Rec) /\ l' = l + 1
        /\ (EncOk(Rec[l]) \/ PrintT(<<"BADENC", l>>))
        /\ (Check(Rec[l]) \/ PrintT(<<"BADREC", l>>))
Spec == Init /\ [][Next]_l
Accepted == IF TLCGet("stats").diameter - 1 = Len(Rec) THEN TRUE
            ELSE Print(<<"TRACE-NOT-CONSUMED", TLCGet("stats").diameter, Len(Rec)>>, FALSE)
=============================================================================
