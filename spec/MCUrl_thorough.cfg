SPECIFICATION Spec
CONSTANTS
  XBases = {1, 2, 3, 4, 5, 6, 7, 8, 9, 10}
  XAttrs = {1, 2, 3, 4, 5, 6, 7, 8}
  XScopes = {1, 2, 3, 4, 5, 6, 7, 8, 9}
  XFilters = {1, 2, 3, 4, 5, 6, 7, 8, 9, 10}
  XExts = {1, 2, 3, 4, 5, 6, 7, 8, 9, 10, 11, 12, 13, 14, 15, 16, 17, 18, 19, 20, 21}
  XMaxExts = 1
  YBases = {1, 3, 4}
  YAttrs = {1, 3, 6}
  YScopes = {1, 3, 5}
  YFilters = {1, 3, 8}
  YExts = {1, 2, 3, 4, 5, 6, 7, 8, 9, 10, 11, 12, 13, 14, 15, 16, 17, 18, 19, 20, 21}
  YMaxExts = 2
  ZBases = {1, 4}
  ZAttrs = {1, 6}
  ZScopes = {1, 2}
  ZFilters = {1, 8}
  ZExts = {1, 2, 3, 5, 6, 8, 9, 10, 11, 13, 15, 19}
  ZMaxExts = 3
  NHosts = 4
  Styles = {"max", "min"}
  EmitVectors = TRUE
INVARIANTS Laws Emit
CHECK_DEADLOCK FALSE
