----------------------------- MODULE FramePool -----------------------------
(* Pool of valid LDAPMessages shared by MCFraming (C06) and MCHostile      *)
(* (C11), built from RFC 4511 constructors as Ber trees.                   *)
(*   t  : the message as a tree      lf : outer length form (0 = minimal,  *)
(*   k >= 1 = long form with exactly k length octets, X.690 8.1.3.5)       *)
(*   m  : contents as constructed: message ID, protocolOp, controls        *)
EXTENDS Framing

Oid12  == <<49, 46, 50>>                                         \* "1.2"
OidPR  == <<49, 46, 50, 46, 56, 52, 48, 46, 49, 49, 51, 53, 53, 54, 46, 49, 46, 52, 46, 51, 49, 57>>  \* 1.2.840.113556.1.4.319
Ctl(oid, crit, explicit, hasval, val) ==
  TSeq(<<TOct(oid)>> \o (IF crit \/ explicit THEN <<TBool(crit)>> ELSE <<>>) \o (IF hasval THEN <<TOct(val)>> ELSE <<>>))
Ctls(cs) == Cons(2, 0, cs)
LdapResult(app, rc, matched, text, extra) == Cons(1, app, <<TEnumN(rc), TOct(matched), TOct(text)>> \o extra)
Msg8(idc, op, ctls) == TSeq(<<Prim(0, 2, idc), op>> \o ctls)
Attr(name, vals) == TSeq(<<TOct(name), TSet([i \in 1..Len(vals) |-> TOct(vals[i])])>>)
Entry(dn, attrs) == Cons(1, 4, <<TOct(dn), TSeq(attrs)>>)

EncLong(t, k) ==
  LET body == Flat([i \in 1..Len(t.k) |-> Enc(t.k[i])])
      d == Digits(Len(body))
  IN <<Ident(t), 128 + k>> \o Zeros(k - Len(d)) \o d \o body

RunBytes(n) == [i \in 1..n |-> 97 + (i % 26)]

PagedVal == Enc(TSeq(<<TIntN(0), TOct(<<>>)>>))
C12(crit, hasval) == [oid |-> Oid12, crit |-> crit, hasval |-> hasval, val |-> IF hasval THEN <<120>> ELSE <<>>]

P(idc, id, op, ctltrees, ctls, lf) ==
  [t |-> Msg8(idc, op, IF ctltrees = <<>> THEN <<>> ELSE <<Ctls(ctltrees[1])>>), lf |-> lf,
   m |-> [id |-> id, op |-> op, ctrls |-> ctls]]

PoolDef == <<
  \* 1: 7 octets: SearchResultEntry with no contents, id 3
  P(<<3>>, 3, Cons(1, 4, <<>>), <<>>, <<>>, 0),
  \* 2: BindResponse id 1 with one control (criticality TRUE, value)
  P(<<1>>, 1, LdapResult(1, 0, <<>>, <<>>, <<>>), << <<Ctl(Oid12, TRUE, FALSE, TRUE, <<120>>)>> >>, <<C12(TRUE, TRUE)>>, 0),
  \* 3: SearchResultEntry id 3, one attribute with two values
  P(<<3>>, 3, Entry(<<99, 110, 61, 101>>, <<Attr(<<99, 110>>, <<<<97>>, <<98, 99, 100>>>>)>>), <<>>, <<>>, 0),
  \* 4: CompareResponse id 2, outer length in long form with one length octet (30 81 0c ...)
  P(<<2>>, 2, LdapResult(15, 6, <<>>, <<>>, <<>>), <<>>, <<>>, 1),
  \* 5: SearchResultDone id 3 with a paged-results control, outer length in long form with two length octets
  P(<<3>>, 3, LdapResult(5, 0, <<>>, <<111, 107>>, <<>>), << <<Ctl(OidPR, FALSE, FALSE, TRUE, PagedVal)>> >>,
    <<[oid |-> OidPR, crit |-> FALSE, hasval |-> TRUE, val |-> PagedVal]>>, 2),
  \* 6: ExtendedResponse with the largest message ID (2^31 - 1) and a responseName [10]
  P(MaxInt31Octets, 2147483647, LdapResult(24, 0, <<>>, <<>>, <<Prim(2, 10, Oid12)>>), <<>>, <<>>, 0),
  \* 7: SearchResultEntry id 3 whose outer length needs the long form (> 127 octets of contents)
  P(<<3>>, 3, Entry(<<99, 110, 61, 108>>, <<Attr(<<108>>, <<RunBytes(120)>>)>>), <<>>, <<>>, 0),
  \* 8: message ID 0 (unsolicited notification), explicit criticality FALSE, control without value
  P(<<0>>, 0, LdapResult(24, 52, <<>>, <<>>, <<>>), << <<Ctl(Oid12, FALSE, TRUE, FALSE, <<>>)>> >>, <<C12(FALSE, FALSE)>>, 0),
  \* 9: SearchResultReference id 3 with an empty Controls element
  P(<<3>>, 3, Cons(1, 19, <<TOct(<<108, 100, 97, 112, 58, 47, 47, 120>>)>>), << <<>> >>, <<>>, 0),
  \* 10: CompareResponse id 2, minimal encoding (source of mutations for the second pending operation)
  P(<<2>>, 2, LdapResult(15, 6, <<>>, <<>>, <<>>), <<>>, <<>>, 0),
  \* 11: SearchResultDone id 3 with a paged-results control, minimal encoding
  P(<<3>>, 3, LdapResult(5, 0, <<>>, <<111, 107>>, <<>>), << <<Ctl(OidPR, FALSE, FALSE, TRUE, PagedVal)>> >>,
    <<[oid |-> OidPR, crit |-> FALSE, hasval |-> TRUE, val |-> PagedVal]>>, 0),
  \* 12: CompareResponse id 2, outer length in long form with four length octets (30 84 00 00 00 0c ..., the form Active
  \*     Directory uses for every length)
  P(<<2>>, 2, LdapResult(15, 5, <<>>, <<>>, <<>>), <<>>, <<>>, 4)
>>
NPool == Len(PoolDef)
PoolT(i) == PoolDef[i].t
PoolB(i) == IF PoolDef[i].lf = 0 THEN Enc(PoolDef[i].t) ELSE EncLong(PoolDef[i].t, PoolDef[i].lf)
=============================================================================
