------------------------------ MODULE GenConn ------------------------------
(* S -> I for the connection lane: TLC enumerates environment scripts of LdapConn in quiescent-step semantics       *)
(* (an environment stimulus is taken only when no internal step - caller return, driver turn - is enabled, which is  *)
(* how the harness runs: stimulus, then settle) and prints every script of the given length.  conn-run executes each *)
(* script against the real code; the recorded events are validated by TraceLdapConn like any other trace.           *)
EXTENDS MCLdapConn, Json

CONSTANT ScriptLen
VARIABLE script

Internal == CallerStep \/ DriverStep
L(lbl) == script' = Append(script, lbl)
SlotOfId(i) == CHOOSE o \in Ops : oid[o] = i
OpOrder == <<"o1", "o2", "o3", "o4">>
Rank(o) == CHOOSE n \in 1..4 : OpOrder[n] = o

Env ==
  \/ \E o \in Ops, k \in {"single", "search", "abandon", "unbind"}, t \in Tmo, a \in BOOLEAN, tg \in KnownIds \cup {0} :
        /\ k \in Kinds[o] /\ ((k = "abandon") <=> (tg # 0)) /\ (a => k = "search")
        /\ \A p \in Ops : (Rank(p) < Rank(o)) => phase[p] # "idle"                 \* slots are used in order (symmetry)
        /\ Start(o, k, t, a, tg)
        /\ L([a |-> "start", o |-> o, k |-> k, t |-> t, ad |-> a, tg |-> IF tg = 0 THEN "none" ELSE SlotOfId(tg)])
  \/ \E o \in Ops : NextCall(o) /\ L([a |-> "next", o |-> o])
  \/ \E o \in Ops : Finish(o) /\ L([a |-> "finish", o |-> o])
  \/ \E r \in c2s, typ \in {"res", "ent", "ref", "int", "done"} : SrvSend(r, typ) /\ L([a |-> "srv", o |-> r.op, typ |-> typ])
  \/ \E i \in 0..MaxId, typ \in {"res", "ent", "done"} : SrvOrphan(i, typ) /\ L([a |-> "orphan", o |-> IF i = 0 THEN "none" ELSE SlotOfId(i), typ |-> typ])
  \/ \E how \in {"eof", "reset", "wfail"} : SrvClose(how) /\ L([a |-> "close", how |-> how])
  \/ SrvGarbage /\ L([a |-> "garbage"])
  \/ SrvGarbageOpen /\ L([a |-> "garbage-open"])
  \/ \E r \in c2s : SrvBadDone(r) /\ L([a |-> "baddone", o |-> r.op])
  \/ SrvStall /\ L([a |-> "stall"])
  \/ SrvResume /\ L([a |-> "resume"])
  \/ Tick /\ L([a |-> "tick"])

GNext == \/ (Internal /\ UNCHANGED script)
         \/ (~ENABLED Internal /\ Len(script) < ScriptLen /\ Env)
GInit == Init /\ script = <<>>
GSpec == GInit /\ [][GNext]_<<vars, script>>

Emit == (Len(script) = ScriptLen /\ ~ENABLED Internal) =>
          PrintT(<<"VEC", ToJson([script |-> script, used |-> Cardinality(used), res |-> Cardinality(DOMAIN resmap),
                                  sea |-> Cardinality(DOMAIN seamap), drv |-> drv])>>)
=============================================================================
