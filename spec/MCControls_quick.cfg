SPECIFICATION Spec
CONSTANTS
  SizeNats = {0, 1, 127, 128, 255, 256, 65535, 2147483647}
  NegSizes = {1}
  CookieLens = {0, 1, 127, 128, 255, 256, 300}
  StrLens = {130}
  Forms = {1, 2, 3, 4}
  Deep = FALSE
  EmitVectors = TRUE
INVARIANTS RespRoundTrip EnvRoundTrip EnvEncDec ReqWellFormed Emit
CHECK_DEADLOCK FALSE
