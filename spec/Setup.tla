------------------------------- MODULE Setup -------------------------------
(* Connection setup of an LDAP client library (properties C17, C18).        *)
(*                                                                          *)
(* Part 1 - Decide: the decision table of DESIGN.md section 3.5, a pure      *)
(* function from (URL class, settings, environment) to what connection      *)
(* setup has to do.  Written from the property text and the rustdoc of      *)
(* LdapConnAsync::new / LdapConnSettings, not from new_tcp/new_unix.        *)
(*                                                                          *)
(* Part 2 - the establishment machine Tcp -> (StartTlsSent ->                *)
(* StartTlsResp) -> Handshake(cert) -> Ready | Failed | Pending against a    *)
(* scripted adversarial server, as an acceptor of observable events         *)
(* (Step), with the invariants of C17.                                      *)
(*                                                                          *)
(* No TLC-only operators here; MCSetup / TraceSetup add enumeration and IO. *)
EXTENDS Naturals, Sequences, FiniteSets

-----------------------------------------------------------------------------
(* Part 1: the decision table                                               *)

Schemes   == {"ldap", "ldaps", "ldapi", "other", "unparsable"}
Hosts     == {"name", "absent", "ipv4", "ipv6"}
Ports     == {"absent", "given"}
(* the ldapi "path" is the host component of the URL *)
Paths     == {"absent", "encoded", "withport", "emptywithport"}
Streams   == {"none", "tcp", "unix", "invalid"}
(* "huge": conn_timeout set to the largest Duration there is - it never fires, and setting it must not change anything else *)
Timeouts  == {"none", "short", "huge"}
Endpoints == {"listening", "refused", "silent"}

Rows == [scheme : Schemes, host : Hosts, port : Ports, path : Paths, stream : Streams,
         starttls : BOOLEAN, timeout : Timeouts, endpoint : Endpoints]

ErrClasses == {"UrlParsing", "UnknownScheme", "EmptyUnixPath", "PortInUnixPath",
               "MismatchedStreamType", "Io", "Timeout"}

(* Canonical rows: a dimension that cannot influence the row is held at its *)
(* first value (host/port for ldapi, path for the rest, everything but the  *)
(* stream for an unparsable string).                                        *)
Canonical(r) ==
  /\ r.scheme = "ldapi" => r.host = "name" /\ r.port = "absent"
  /\ r.scheme # "ldapi" => r.path = "absent"
  /\ r.scheme = "unparsable" => r.host = "name" /\ r.port = "absent"

(* Error rows 1-8.  Where several apply, any of their classes is accepted.  *)
(* An authority with an empty host and a port (":389", ldapi "://:33") is   *)
(* something RFC 3986 can express but URL parsers commonly refuse: such a    *)
(* class may also be reported as unparsable.                                *)
SetupErrs(r) ==
  (IF r.scheme = "unparsable" THEN {"UrlParsing"} ELSE {})
  \cup (IF r.scheme = "ldapi" /\ r.stream \in {"tcp", "invalid"} THEN {"MismatchedStreamType"} ELSE {})
  \cup (IF r.scheme = "ldapi" /\ r.stream = "none" /\ r.path \in {"absent", "emptywithport"}
        THEN {"EmptyUnixPath"} ELSE {})
  \cup (IF r.scheme = "ldapi" /\ r.stream = "none" /\ r.path \in {"withport", "emptywithport"}
        THEN {"PortInUnixPath"} ELSE {})
  \cup (IF r.scheme = "other" THEN {"UnknownScheme"} ELSE {})
  \cup (IF r.scheme \in {"ldap", "ldaps", "other"} /\ r.stream \in {"unix", "invalid"}
        THEN {"MismatchedStreamType"} ELSE {})

(* "either" rows: the URL class has no spelling every parser accepts *)
MayNotParse(r) ==
  \/ r.scheme \in {"ldap", "ldaps", "other"} /\ r.host = "absent" /\ r.port = "given"
  \/ r.scheme = "ldapi" /\ r.path = "emptywithport"

Sec(r) == IF r.scheme = "ldaps" THEN "tls"
          ELSE IF r.scheme = "ldap" /\ r.starttls THEN "starttls" ELSE "plain"

(* outcome constructors *)
ConnectTcp(h, p)   == [via |-> "tcp", host |-> h, port |-> p, sec |-> "plain"]
ConnectTls(h, p)   == [via |-> "tcp", host |-> h, port |-> p, sec |-> "tls"]
StartTlsOver(h, p) == [via |-> "tcp", host |-> h, port |-> p, sec |-> "starttls"]
ConnectUnix        == [via |-> "unix", host |-> "path", port |-> "none", sec |-> "plain"]
UseStream(s)       == [via |-> "stream", host |-> "stream", port |-> "none", sec |-> s]
NoRoute            == [via |-> "none", host |-> "none", port |-> "none", sec |-> "none"]

TargetHost(r) == IF r.host = "absent" THEN "localhost" ELSE r.host
TargetPort(r) == IF r.port = "given" THEN "url" ELSE IF r.scheme = "ldaps" THEN "p636" ELSE "p389"

Route(r) ==
  IF r.scheme = "ldapi" THEN (IF r.stream = "unix" THEN UseStream("plain") ELSE ConnectUnix)
  ELSE IF r.stream = "tcp" THEN UseStream(Sec(r))
  ELSE CASE Sec(r) = "plain"    -> ConnectTcp(TargetHost(r), TargetPort(r))
         [] Sec(r) = "tls"      -> ConnectTls(TargetHost(r), TargetPort(r))
         [] Sec(r) = "starttls" -> StartTlsOver(TargetHost(r), TargetPort(r))

(* kind: "Ok"      the call must succeed and use `route`                     *)
(*       "Err"     the call must fail with a class in `errs`                 *)
(*       "OkOrErr" either of the two                                         *)
(*       "Pending" no timeout was configured and the peer never answers:     *)
(*                 the call may block for ever (or fail), never succeed      *)
(* endpoint describes the address the URL names; a pre-opened stream is      *)
(* connected to a live peer, which is silent iff endpoint = "silent".        *)
Decide(r) ==
  LET errs  == SetupErrs(r)
      route == Route(r)
      dials == route.via \in {"tcp", "unix"}
      needsPeer == route.sec \in {"tls", "starttls"}
  IN
  IF errs # {} THEN [kind |-> "Err", route |-> NoRoute,
                      errs |-> errs \cup (IF MayNotParse(r) THEN {"UrlParsing"} ELSE {})]
  ELSE IF dials /\ r.endpoint = "refused" THEN
        [kind |-> "Err", route |-> NoRoute,
         errs |-> {"Io"} \cup (IF MayNotParse(r) THEN {"UrlParsing"} ELSE {})
                       \cup (IF r.timeout = "short" /\ route.via = "tcp" THEN {"Timeout"} ELSE {})]
  ELSE IF needsPeer /\ r.endpoint = "silent" THEN
        (IF r.timeout = "short"
         THEN [kind |-> "Err", route |-> NoRoute,
               errs |-> {"Timeout"} \cup (IF MayNotParse(r) THEN {"UrlParsing"} ELSE {})]
         ELSE [kind |-> "Pending", route |-> NoRoute, errs |-> ErrClasses])
  ELSE IF MayNotParse(r) THEN [kind |-> "OkOrErr", route |-> route, errs |-> {"UrlParsing"}]
  ELSE [kind |-> "Ok", route |-> route, errs |-> {}]

Kinds == {"Ok", "Err", "OkOrErr", "Pending"}      \* "Panic" is not a kind

(* consistency laws of the table (checked by TLC over all of Rows) *)
TableLaws(r) ==
  LET d == Decide(r) IN
  /\ d.kind \in Kinds
  /\ d.kind # "Panic"
  /\ d.errs \subseteq ErrClasses
  /\ (d.kind \in {"Ok", "OkOrErr"}) <=> (d.route # NoRoute)
  /\ (d.kind = "Ok") <=> (d.errs = {})
  /\ d.kind = "Pending" => r.timeout # "short"                 \* row 11: a timeout bounds every row
  /\ r.scheme = "ldapi" /\ d.route # NoRoute => d.route.sec = "plain"
  /\ r.scheme = "ldaps" /\ d.route # NoRoute => d.route.sec = "tls"      \* never downgraded by a table row
  /\ r.scheme = "ldap" /\ r.starttls /\ d.route # NoRoute => d.route.sec = "starttls"
  /\ d.route.via = "stream" => r.stream \in {"tcp", "unix"}
  /\ r.stream \in {"tcp", "unix"} /\ d.route # NoRoute => d.route.via = "stream"
  (* dimensions that must not matter do not *)
  /\ \A h \in Hosts, p \in Ports, pa \in Paths :
       LET r2 == [r EXCEPT !.host = h, !.port = p, !.path = pa] IN
       (/\ (r.scheme = "ldapi" => r2.path = r.path)
        /\ (r.scheme \in {"ldap", "ldaps", "other"} => r2.host = r.host /\ r2.port = r.port))
       => Decide(r2) = d
  /\ (r.scheme # "ldap" => Decide([r EXCEPT !.starttls = ~r.starttls]) = d)     \* starttls matters for ldap only

(* Is an observation of the implementation on row r what the table says?    *)
(* o = [result, cls, via, where, fam, sec, late]                            *)
(*   result \in {"ok","err","pending","panic"}; cls = error class;          *)
(*   via/where/sec: which listener was reached and what arrived there       *)
(*   (where \in {"url","p389","p636","stream","unix","none"}; fam = address  *)
(*   family of the listener reached: "v4", "v6", "unix", "none");           *)
(*   late: a timeout was configured and the call took far longer.           *)
FamOK(h, fam) == CASE h = "ipv4" -> fam = "v4" [] h = "ipv6" -> fam = "v6" [] OTHER -> fam \in {"v4", "v6"}

RouteSeen(rt, o) ==
  /\ o.sec = rt.sec
  /\ CASE rt.via = "stream" -> o.where = "stream"
       [] rt.via = "unix"   -> o.where = "unix"
       [] rt.via = "tcp"    -> o.where = rt.port /\ FamOK(rt.host, o.fam)

RowOK(r, o) ==
  LET d == Decide(r) IN
  /\ o.result # "panic"
  /\ ~o.late
  /\ CASE o.result = "ok"      -> d.kind \in {"Ok", "OkOrErr"} /\ RouteSeen(d.route, o)
       [] o.result = "err"     -> d.kind = "Pending" \/ (d.kind \in {"Err", "OkOrErr"} /\ o.cls \in d.errs)
       [] o.result = "pending" -> d.kind = "Pending"
       [] OTHER -> FALSE

-----------------------------------------------------------------------------
(* Part 2: the establishment machine                                        *)

Modes      == {"ldaps", "starttls"}
Connectors == {"custom", "default"}
(* via: how the transport comes about and how the settings object was built - the library dials the URL; or the caller hands in a
   connected TcpStream with set_std_stream() as the last ("stream-last") or the first ("stream-first") setter of the chain.  The
   machine does not depend on it: what was requested must hold whichever way the settings were assembled. *)
(* "unix": the caller hands in a connected Unix-domain stream together with an ldap:// or ldaps:// URL - a mismatch the library
   refuses (MismatchedStreamType): whatever the peer would do, establishment fails and nothing is sent *)
Vias == {"dial", "stream-last", "stream-first", "unix"}
(* host: the URL names the server by DNS name or by IP literal (the CA-signed leaf is valid for both, the wrong-name leaf for
   neither); store: the trust store the default connector draws on - the system's, which does not know the test CA, or one that
   contains it (SSL_CERT_FILE) *)
AddrForms == {"name", "ip", "absent"}      \* absent: ldaps:/// over a pre-connected stream - the certificate is checked against the library's substitute, "localhost"
Stores == {"system", "withCA"}
Cfgs == [mode : Modes, verify : BOOLEAN, connector : Connectors, timeout : Timeouts, via : Vias, host : AddrForms, store : Stores]

Certs == {"trusted", "untrusted", "wrongName"}
(* what the server does with the StartTLS request *)
(* ("hangup" = the connection is closed as soon as it is accepted, "close" =  *)
(* after the request has been read)                                         *)
Resps == {"success", "refuse", "garbage", "close", "hangup", "wrongid", "stall"}
(* cleartext LDAP injected by the server: before / in the same write as /   *)
(* in a later write than the StartTLS response (ldaps: before the handshake) *)
Injs == {"none", "before", "with", "after"}
(* what the server does once it is ready for the ClientHello                 *)
Hss == Certs \cup {"stall", "close", "garbage"}

(* result codes of a refusal: any non-zero code, including the "non-error"   *)
(* ones (referral 10, saslBindInProgress 14) - only success (0) starts TLS   *)
(* 1000000 stands for 2^32 (TLC's integers are 32 bit): a non-zero code whose low 32 bits are all zero *)
RefuseCodes == {1, 2, 10, 14, 52, 53, 1000000}
Scripts == [resp : Resps \cup {"na"}, rc : {0} \cup RefuseCodes, inj : Injs, hs : Hss]
ScriptFor(cfg, sc) ==
  /\ (sc.resp = "refuse") <=> (sc.rc # 0)
  /\ IF cfg.mode = "ldaps" THEN sc.resp = "na" /\ sc.inj \in {"none", "before"}
     ELSE sc.resp # "na" /\ (sc.inj # "none" => sc.resp = "success")

(* The private test CA is known to the custom connector; the default connector *)
(* uses the trust store, which knows it only under store = "withCA".  A name   *)
(* that does not match is never trusted, however the server is addressed.     *)
Trust(cfg, c) == c = "trusted" /\ (cfg.connector = "custom" \/ cfg.store = "withCA")

(* results allowed for the handshake stage *)
HsResults(cfg, hs) ==
  CASE hs \in Certs ->
         IF Trust(cfg, hs) THEN {"ok"}
         ELSE IF cfg.verify THEN {"err"}
         ELSE {"ok", "err"}            \* verification off: a custom connector may still verify
    [] hs = "stall" -> IF cfg.timeout = "short" THEN {"err"} ELSE {"pending", "err"}
    [] OTHER -> {"err"}

(* results allowed for a whole script: the oracle the harness compares with *)
Verdict(cfg, sc) ==
  IF cfg.via = "unix" THEN {"err"} ELSE
  IF cfg.mode = "ldaps"
  THEN HsResults(cfg, sc.hs) \cup (IF sc.inj = "before" THEN {"err"} ELSE {})
  ELSE CASE sc.resp = "success" ->
              HsResults(cfg, sc.hs) \cup (IF sc.inj \in {"before", "after"} THEN {"err"} ELSE {})
         [] sc.resp = "stall" -> IF cfg.timeout = "short" THEN {"err"} ELSE {"pending", "err"}
         [] OTHER -> {"err"}           \* refuse / garbage / close / hangup / wrongid: Failed, never pending

(* machine state *)
EInit == [phase |-> "Init", tls |-> FALSE, cert |-> "none", sent |-> <<>>, rbuf |-> "none",
          parsed |-> FALSE, stalled |-> FALSE, bind |-> "none", held |-> 0]
(* held: message IDs the client's bookkeeping holds (C13): the StartTLS exchange is an operation like any other - it takes *)
(* an ID when the request goes out and has given it back by the time with_settings returns the connection                  *)

Phases == {"Init", "Tcp", "StartTlsSent", "Handshake", "Ready", "Bound", "Failed", "Pending"}

(* Events (records with field e):                                           *)
(*   accept                      the server accepted the TCP connection      *)
(*   clear(k)                    a cleartext LDAP PDU of kind k arrived      *)
(*                               (k = "starttls" | "bind" | "unbind" | "other"  *)
(*                               | "junk")                                   *)
(*   hello                       a TLS ClientHello arrived                   *)
(*   result(r, late, held)       with_settings returned (r = ok|err|pending); *)
(*                               held = IDs its handle holds (-1 not seen)   *)
(*   bindseen(ch)                a BindRequest arrived, ch = "tls"|"clear"   *)
(*   bindresult(rc)              what the client's bind returned (rc or -1)  *)
(* Step(cfg, sc, s, ev) = set of successor states; {} = not a behaviour of   *)
(* a correct client.                                                        *)
StepTcp(cfg, sc, s, ev) ==
  CASE ev.e = "accept" ->
         IF s.phase = "Init"
         THEN {[s EXCEPT !.phase = "Tcp",
                         !.rbuf = IF cfg.mode = "ldaps" /\ sc.inj = "before" THEN "socket" ELSE "none"]}
         ELSE {}
    [] ev.e = "clear" ->
         (* the only cleartext PDU ever: one StartTLS request, first thing on a StartTLS connection *)
         IF s.phase = "Tcp" /\ cfg.mode = "starttls" /\ ev.k = "starttls" /\ s.sent = <<>>
         THEN {[s EXCEPT !.phase = "StartTlsSent", !.sent = Append(s.sent, "starttls"), !.held = 1,
                         !.rbuf = CASE sc.resp = "success" /\ sc.inj \in {"before", "with"} -> "framed"
                                    [] sc.resp = "success" /\ sc.inj = "after" -> "socket"
                                    [] OTHER -> "none",
                         !.stalled = (sc.resp = "stall")]}
         ELSE {}
    [] ev.e = "hello" ->
         (* ldaps: straight after the TCP connect; StartTLS: only after a success response *)
         IF \/ s.phase = "Tcp" /\ cfg.mode = "ldaps"
            \/ s.phase = "StartTlsSent" /\ sc.resp = "success"
         THEN {[s EXCEPT !.phase = "Handshake",
                         (* the pre-handshake read buffer is dropped with the cleartext framing;   *)
                         (* bytes still in the socket are the TLS layer's problem                  *)
                         !.rbuf = IF s.rbuf = "framed" THEN "none" ELSE s.rbuf,
                         !.stalled = (sc.hs = "stall")]}
         ELSE {}
    [] ev.e = "result" ->
         IF ev.late /\ cfg.timeout = "short" THEN {}          \* TimeoutBoundsAll
         ELSE CASE ev.r = "ok" ->
                     IF /\ s.phase = "Handshake" /\ sc.hs \in Certs
                        /\ (cfg.verify => Trust(cfg, sc.hs))
                        /\ ev.held <= 0                       \* the exchange is over: its ID is free again
                     THEN {[s EXCEPT !.phase = "Ready", !.tls = TRUE, !.cert = sc.hs, !.rbuf = "none", !.held = 0]}
                     ELSE {}
                [] ev.r = "err" ->
                     IF /\ s.phase \in {"Tcp", "StartTlsSent", "Handshake"}
                        /\ "err" \in Verdict(cfg, sc)
                        (* a trusted certificate and nothing injected: no reason to fail after the hello *)
                        /\ ~(s.phase = "Handshake" /\ HsResults(cfg, sc.hs) = {"ok"} /\ s.rbuf = "none")
                     THEN {[s EXCEPT !.phase = "Failed"]}
                     ELSE {}
                [] ev.r = "pending" ->
                     IF s.stalled /\ cfg.timeout = "none" /\ s.phase \in {"StartTlsSent", "Handshake"}
                     THEN {[s EXCEPT !.phase = "Pending"]}
                     ELSE {}
                [] OTHER -> {}                                 \* a panic is never a behaviour
    [] ev.e = "bindseen" ->
         IF s.phase = "Ready" /\ ev.ch = "tls" /\ s.bind = "none"
         THEN {[s EXCEPT !.bind = "sent", !.held = 1]}
         ELSE {}
    [] ev.e = "bindresult" ->
         (* the server answers invalidCredentials (49) inside TLS; the injected cleartext answer says 0 *)
         IF s.phase = "Ready" /\ s.bind = "sent" /\ ev.rc = 49
         THEN {[s EXCEPT !.phase = "Bound", !.held = 0]}
         ELSE {}
    [] OTHER -> {}

(* invariants of the machine (C17) *)
NoCleartextLdap(cfg, s) ==
  /\ \A i \in 1..Len(s.sent) : s.sent[i] = "starttls"
  /\ Len(s.sent) <= 1
  /\ cfg.mode = "ldaps" => s.sent = <<>>
  /\ s.tls => (cfg.mode = "starttls" <=> s.sent = <<"starttls">>)

ReadyImpliesProtected(cfg, s) ==
  s.phase \in {"Ready", "Bound"} => s.tls /\ (cfg.verify => Trust(cfg, s.cert))

InjectedNeverParsed(cfg, s) ==
  /\ ~s.parsed
  /\ s.phase \in {"Ready", "Bound"} => s.rbuf = "none"

TimeoutBoundsAll(cfg, s) ==
  s.phase = "Pending" => cfg.timeout = "none" /\ s.stalled

(* C13 on the establishment path: a connection handed to the caller holds no ID except that of the caller's own operation *)
EstablishedClean(s) ==
  /\ s.held \in {0, 1}
  /\ s.phase \in {"Ready", "Bound"} => s.held = IF s.bind = "sent" /\ s.phase = "Ready" THEN 1 ELSE 0
  /\ s.phase \in {"Init", "Tcp"} => s.held = 0

FaultsFail(cfg, sc, s) ==
  /\ sc.resp \in {"refuse", "garbage", "close", "hangup", "wrongid"} => s.phase \notin {"Handshake", "Ready", "Bound", "Pending"}
  /\ sc.hs \in {"close", "garbage"} => s.phase \notin {"Ready", "Bound", "Pending"}
  /\ s.phase = "Pending" => "pending" \in Verdict(cfg, sc)
  /\ s.phase \in {"Ready", "Bound"} => "ok" \in Verdict(cfg, sc)
  /\ s.phase = "Failed" => "err" \in Verdict(cfg, sc)

(* a finished observation sequence must end in one of these *)
(* a Unix-domain stream under an ldap:// / ldaps:// URL: the peer's end exists ("accept"), establishment fails, nothing else *)
Step(cfg, sc, s, ev) ==
  IF cfg.via = "unix"
  THEN CASE ev.e = "accept" -> IF s.phase = "Init" THEN {[s EXCEPT !.phase = "Tcp"]} ELSE {}
         [] ev.e = "result" -> IF ev.r = "err" /\ ~ev.late /\ s.phase \in {"Init", "Tcp"} THEN {[s EXCEPT !.phase = "Failed"]} ELSE {}
         [] OTHER -> {}
  ELSE StepTcp(cfg, sc, s, ev)

Final(s) == s.phase \in {"Bound", "Failed", "Pending"}
=============================================================================
