------------------------------ MODULE Url4516 ------------------------------
(***************************************************************************)
(* LDAP URLs (RFC 4516 section 2, with the character classes and the       *)
(* percent-encoding of RFC 3986 section 2) and the documented result of    *)
(* ldap3::get_url_params.  Written from the RFCs and the rustdoc of        *)
(* LdapUrlParams / LdapUrlExt, not from the code.                          *)
(*                                                                         *)
(* A byte is a natural 0..255; a string is a sequence of bytes.            *)
(*                                                                         *)
(* Components (already *decoded*, i.e. what the caller means):             *)
(*   base    byte string (<<>> = omitted)                                  *)
(*   attrs   sequence of byte strings (<<>> = omitted)                     *)
(*   scope   byte string: the scope word as written (<<>> = omitted)       *)
(*   filter  byte string (<<>> = omitted)                                  *)
(*   exts    sequence of [crit: BOOLEAN, name: bytes, hasval: BOOLEAN,     *)
(*           val: bytes]  (<<>> = omitted)                                 *)
(* An omitted component and an empty one are the same URL text, so         *)
(* "all subsets of omitted components" = pools that contain <<>>.          *)
(*                                                                         *)
(* Three independent definitions live here:                                *)
(*   Format / FormatWith   components -> URL bytes      (RFC 4516 s.2, 2.1)*)
(*   Expected              components -> documented get_url_params result  *)
(*   ParseUrl              URL bytes  -> result, by splitting on '?', then *)
(*                         ',', then percent-decoding   (RFC 4516 s.2)     *)
(* MCUrl checks ParseUrl(FormatWith(x)) = Expected(x), which validates the *)
(* three against each other; TraceUrl uses ParseUrl as the oracle for the  *)
(* implementation's output on URLs produced by the harness' own formatter. *)
(*                                                                         *)
(* Result records: [ok, base, attrs, scope, filter, exts] where            *)
(*   ok    \in {"yes", "no", "either"} (Expected)  plus "unspec" (ParseUrl)*)
(*   scope \in {"base", "one", "sub"}                                      *)
(*   exts  sequence of [kind, val], kind \in {"bindname", "xbindpw",       *)
(*         "credentials", "saslmech", "starttls"}, in URL order; the       *)
(*         implementation returns a set keyed by kind, so the comparison   *)
(*         is on sets of <<kind, val>> pairs.                              *)
(* RULE (duplicates): the result is a set keyed by extension kind, so a    *)
(* URL with two extensions of the same recognised kind has no documented   *)
(* result; generators never produce one and ParseUrl answers "unspec".     *)
(***************************************************************************)
EXTENDS Naturals, Sequences

(* ---------- character classes (RFC 3986 section 2.2, 2.3) ---------- *)
QM == 63  COMMA == 44  EQUALS == 61  PCT == 37  HASH == 35  SLASH == 47  BANG == 33  COLON == 58  STAR == 42

IsAlpha(b) == (b >= 65 /\ b <= 90) \/ (b >= 97 /\ b <= 122)
IsDigit(b) == b >= 48 /\ b <= 57
Unreserved(b) == IsAlpha(b) \/ IsDigit(b) \/ b \in {45, 46, 95, 126}            \* - . _ ~
GenDelims == {58, 47, 63, 35, 91, 93, 64}                                      \* : / ? # [ ] @
SubDelims == {33, 36, 38, 39, 40, 41, 42, 43, 44, 59, 61}                      \* ! $ & ' ( ) * + , ; =
Reserved(b) == b \in GenDelims \/ b \in SubDelims
IsHex(b) == IsDigit(b) \/ (b >= 65 /\ b <= 70) \/ (b >= 97 /\ b <= 102)
HexVal(b) == IF IsDigit(b) THEN b - 48 ELSE IF b >= 97 THEN b - 87 ELSE b - 55
HexDigit(n) == IF n < 10 THEN 48 + n ELSE 55 + n                                \* upper case
Lower(b) == IF b >= 65 /\ b <= 90 THEN b + 32 ELSE b
LowerStr(s) == [i \in 1..Len(s) |-> Lower(s[i])]

RECURSIVE Flat(_)
Flat(ss) == IF ss = <<>> THEN <<>> ELSE Head(ss) \o Flat(Tail(ss))
RECURSIVE Join(_, _)
Join(ss, sep) == IF ss = <<>> THEN <<>> ELSE IF Len(ss) = 1 THEN ss[1] ELSE ss[1] \o <<sep>> \o Join(Tail(ss), sep)

(* ---------- constants of the documented behaviour ---------- *)
S_base == <<98, 97, 115, 101>>                   \* "base"
S_one  == <<111, 110, 101>>                      \* "one"
S_sub  == <<115, 117, 98>>                       \* "sub"
DefaultFilter == <<40, 111, 98, 106, 101, 99, 116, 67, 108, 97, 115, 115, 61, 42, 41>>   \* the filter "( objectClass = * )" without the blanks
AllAttrs == <<STAR>>                             \* "*"
N_bindname == <<98, 105, 110, 100, 110, 97, 109, 101>>           \* "bindname"  (names recognised by the library: rustdoc of LdapUrlExt)
N_xbindpw  == <<120, 45, 98, 105, 110, 100, 112, 119>>           \* "x-bindpw"
Oid10094(n) == <<49,46,51,46,54,46,49,46,52,46,49,46,49,48,48,57,52,46,49,46,53,46>> \o <<48 + n>>   \* "1.3.6.1.4.1.10094.1.5.<n>"
N_credentials == Oid10094(1)
N_saslmech    == Oid10094(2)
N_starttls == <<49,46,51,46,54,46,49,46,52,46,49,46,49,52,54,54,46,50,48,48,51,55>>                   \* "1.3.6.1.4.1.1466.20037"

(* extension names bindname / x-bindpw are matched case-insensitively, the OIDs exactly *)
Kind(name) ==
  CASE LowerStr(name) = N_bindname -> "bindname"
    [] LowerStr(name) = N_xbindpw  -> "xbindpw"
    [] name = N_credentials        -> "credentials"
    [] name = N_saslmech           -> "saslmech"
    [] name = N_starttls           -> "starttls"
    [] OTHER                       -> "unknown"
ValuedKinds == {"bindname", "xbindpw", "credentials", "saslmech"}

(* ---------- UTF-8 well-formedness, Unicode 15 table 3-7 ---------- *)
RECURSIVE Utf8From(_, _)
Utf8From(s, p) ==
  IF p > Len(s) THEN TRUE ELSE
  LET b == s[p]
      In(i, lo, hi) == p + i <= Len(s) /\ s[p + i] >= lo /\ s[p + i] <= hi
  IN CASE b <= 127                                  -> Utf8From(s, p + 1)
       [] b >= 194 /\ b <= 223                      -> In(1, 128, 191) /\ Utf8From(s, p + 2)
       [] b = 224                                   -> In(1, 160, 191) /\ In(2, 128, 191) /\ Utf8From(s, p + 3)
       [] (b >= 225 /\ b <= 236) \/ b \in {238, 239} -> In(1, 128, 191) /\ In(2, 128, 191) /\ Utf8From(s, p + 3)
       [] b = 237                                   -> In(1, 128, 159) /\ In(2, 128, 191) /\ Utf8From(s, p + 3)
       [] b = 240                                   -> In(1, 144, 191) /\ In(2, 128, 191) /\ In(3, 128, 191) /\ Utf8From(s, p + 4)
       [] b >= 241 /\ b <= 243                      -> In(1, 128, 191) /\ In(2, 128, 191) /\ In(3, 128, 191) /\ Utf8From(s, p + 4)
       [] b = 244                                   -> In(1, 128, 143) /\ In(2, 128, 191) /\ In(3, 128, 191) /\ Utf8From(s, p + 4)
       [] OTHER                                     -> FALSE
Utf8Ok(s) == Utf8From(s, 1)

(***************************************************************************)
(* Format.  RFC 4516 s.2:                                                  *)
(*   ldapurl = scheme "://" [host [":" port]] ["/" dn ["?" [attributes]    *)
(*             ["?" [scope] ["?" [filter] ["?" extensions]]]]]             *)
(* s.2.1: an octet MUST be percent-encoded if it is not in the reserved or *)
(* unreserved set, if it is '?' inside any element, or if it is ',' inside *)
(* an exvalue ('%' itself is in neither set).  Two styles:                 *)
(*   "max": every byte outside the unreserved set is encoded;              *)
(*   "min": only what s.2.1 demands, plus '#' (RFC 3986: starts a          *)
(*          fragment), ',' inside an attribute selector (the list          *)
(*          delimiter) and '/' inside the dn (so that the path is a single *)
(*          segment: the url crate, trusted and in the path, normalises    *)
(*          dot segments).                                                 *)
(* Extension names and scope words are written as they are (their          *)
(* alphabets need no encoding).                                            *)
(***************************************************************************)
OwnDelims(comp) == {QM, HASH} \cup (IF comp = "dn" THEN {SLASH} ELSE {}) \cup (IF comp \in {"attr", "exval"} THEN {COMMA} ELSE {})
Keep(comp, style, b) == Unreserved(b) \/ (style = "min" /\ Reserved(b) /\ b \notin OwnDelims(comp))
PctEnc(b) == <<PCT, HexDigit(b \div 16), HexDigit(b % 16)>>
Enc(comp, style, s) == Flat([i \in 1..Len(s) |-> IF Keep(comp, style, s[i]) THEN <<s[i]>> ELSE PctEnc(s[i])])

FormatExt(e, style) == (IF e.crit THEN <<BANG>> ELSE <<>>) \o e.name \o (IF e.hasval THEN <<EQUALS>> \o Enc("exval", style, e.val) ELSE <<>>)

Fields(attrs, scope, filter, exts, style) ==
  << Join([i \in 1..Len(attrs) |-> Enc("attr", style, attrs[i])], COMMA),
     scope,
     Enc("filter", style, filter),
     Join([i \in 1..Len(exts) |-> FormatExt(exts[i], style)], COMMA) >>

RECURSIVE LastNonEmpty(_, _)
LastNonEmpty(fs, k) == IF k = 0 THEN 0 ELSE IF fs[k] # <<>> THEN k ELSE LastNonEmpty(fs, k - 1)
(* the least number of '?' separators this component tuple needs *)
MinQ(attrs, scope, filter, exts) == LastNonEmpty(Fields(attrs, scope, filter, exts, "max"), 4)

Scheme == <<108, 100, 97, 112, COLON, SLASH, SLASH>>      \* "ldap://"

(* nq = number of '?' written, MinQ..4: omitted components are empty fields, trailing empty fields may be cut *)
FormatWith(host, base, attrs, scope, filter, exts, style, nq) ==
  LET fs == Fields(attrs, scope, filter, exts, style)
  IN Scheme \o host \o <<SLASH>> \o Enc("dn", style, base) \o Flat([i \in 1..nq |-> <<QM>> \o fs[i]])

Format(host, base, attrs, scope, filter, exts) ==
  FormatWith(host, base, attrs, scope, filter, exts, "max", MinQ(attrs, scope, filter, exts))

(* with nothing at all to say even the "/" may go *)
FormatBare(host) == Scheme \o host

(***************************************************************************)
(* Expected: the documented result.                                        *)
(*  - attrs absent -> ["*"], scope absent -> "sub", filter absent ->       *)
(*    the match-everything presence filter on objectClass (DefaultFilter); *)
(*  - recognised extensions are returned with their (decoded) value,       *)
(*    critical or not; unknown non-critical ones are ignored;              *)
(*  - errors: unknown critical extension; scope word other than            *)
(*    base/one/sub; base, filter or the value of a value-bearing           *)
(*    recognised extension not UTF-8.                                      *)
(*  - "either" also for a case variant of a scope word (see ScopeOf).      *)
(*  - "either": the only non-UTF-8 value belongs to an extension that is   *)
(*    ignored anyway (unknown non-critical) or carries no value (StartTLS):*)
(*    "ignored" and "not UTF-8 is an error" both apply, the property does  *)
(*    not rank them.                                                       *)
(***************************************************************************)
(* RFC 4516: scope = "base" / "one" / "sub".  The library documents the lower-case words.  Literal strings of an ABNF
   grammar are case-insensitive (RFC 5234 s.2.3), so "BASE", "One" ... are not "invalid scope words" in the RFC's sense
   although the library rejects them: for a case variant the property does not decide, the answer is "either"
   (an error, or the result with the scope the word means).  Any other word is an error. *)
ScopeOf(w) == LET lw == LowerStr(w) IN
              CASE lw = <<>> -> "sub" [] lw = S_base -> "base" [] lw = S_one -> "one" [] lw = S_sub -> "sub" [] OTHER -> "bad"
ScopeCaseVariant(w) == ScopeOf(w) # "bad" /\ w # LowerStr(w)

ErrResult == [ok |-> "no", base |-> <<>>, attrs |-> <<>>, scope |-> "", filter |-> <<>>, exts |-> <<>>]

ErrorReasons(base, scope, filter, exts) ==
  (IF ~Utf8Ok(base) THEN {"utf8-base"} ELSE {}) \cup
  (IF ScopeOf(scope) = "bad" THEN {"scope"} ELSE {}) \cup
  (IF ~Utf8Ok(filter) THEN {"utf8-filter"} ELSE {}) \cup
  (IF \E i \in 1..Len(exts) : Kind(exts[i].name) = "unknown" /\ exts[i].crit THEN {"critical-extension"} ELSE {}) \cup
  (IF \E i \in 1..Len(exts) : Kind(exts[i].name) \in ValuedKinds /\ ~Utf8Ok(exts[i].val) THEN {"utf8-extension"} ELSE {})
SoftError(exts) ==
  \E i \in 1..Len(exts) : Kind(exts[i].name) \notin ValuedKinds /\ ~Utf8Ok(exts[i].val)

Expected(base, attrs, scope, filter, exts) ==
  IF ErrorReasons(base, scope, filter, exts) # {} THEN ErrResult ELSE
  [ ok     |-> IF SoftError(exts) \/ ScopeCaseVariant(scope) THEN "either" ELSE "yes",
    base   |-> base,
    attrs  |-> IF attrs = <<>> THEN <<AllAttrs>> ELSE attrs,
    scope  |-> ScopeOf(scope),
    filter |-> IF filter = <<>> THEN DefaultFilter ELSE filter,
    exts   |-> LET known == SelectSeq(exts, LAMBDA e : Kind(e.name) # "unknown")
               IN [i \in 1..Len(known) |->
                     [kind |-> Kind(known[i].name),
                      val  |-> IF Kind(known[i].name) = "starttls" THEN <<>> ELSE known[i].val]] ]

(***************************************************************************)
(* ParseUrl: reference reader, from the grammar.  Split the part after     *)
(* "scheme://hostport/" on '?' into dn and up to four fields, split        *)
(* attributes and extensions on ',', an extension on its first '=', and    *)
(* only then percent-decode (RFC 4516 s.2.1: the delimiters that belong to *)
(* the URL are the unencoded ones).                                        *)
(* "unspec" (no verdict): text outside the RFC 4516 grammar that the       *)
(* generators never produce - no "/" before the query, more than four      *)
(* '?', a '#', a '%' not followed by two hex digits, an empty list         *)
(* element, two extensions of one recognised kind.                         *)
(* attrs_raw is the attribute list as written (not decoded): the rustdoc   *)
(* promises decoding for base, filter and extension values only, so for    *)
(* attribute selectors either form is accepted by the comparison.          *)
(***************************************************************************)
RECURSIVE Find(_, _, _)
Find(s, d, p) == IF p > Len(s) THEN 0 ELSE IF s[p] = d THEN p ELSE Find(s, d, p + 1)
RECURSIVE Split(_, _)
Split(s, d) == LET i == Find(s, d, 1)
               IN IF i = 0 THEN <<s>> ELSE <<SubSeq(s, 1, i - 1)>> \o Split(SubSeq(s, i + 1, Len(s)), d)

PctWellFormed(s) == \A p \in 1..Len(s) : s[p] = PCT => (p + 2 <= Len(s) /\ IsHex(s[p + 1]) /\ IsHex(s[p + 2]))
RECURSIVE PctDecFrom(_, _)
PctDecFrom(s, p) ==
  IF p > Len(s) THEN <<>>
  ELSE IF s[p] = PCT THEN <<HexVal(s[p + 1]) * 16 + HexVal(s[p + 2])>> \o PctDecFrom(s, p + 3)
  ELSE <<s[p]>> \o PctDecFrom(s, p + 1)
PctDecode(s) == PctDecFrom(s, 1)          \* only applied to PctWellFormed strings

Unspec == [ok |-> "unspec", base |-> <<>>, attrs |-> <<>>, attrs_raw |-> <<>>, scope |-> "", filter |-> <<>>, exts |-> <<>>]
ParseErr == [Unspec EXCEPT !.ok = "no"]

ParseExt(item) ==
  LET crit == item # <<>> /\ item[1] = BANG
      body == IF crit THEN Tail(item) ELSE item
      e    == Find(body, EQUALS, 1)
  IN [crit |-> crit,
      name |-> IF e = 0 THEN body ELSE SubSeq(body, 1, e - 1),
      raw  |-> IF e = 0 THEN <<>> ELSE SubSeq(body, e + 1, Len(body))]

ParseUrl(u) ==
  LET c == Find(u, COLON, 1) IN
  IF c = 0 \/ c + 2 > Len(u) \/ u[c + 1] # SLASH \/ u[c + 2] # SLASH \/ Find(u, HASH, 1) # 0 THEN Unspec ELSE
  LET after == SubSeq(u, c + 3, Len(u))
      sl == Find(after, SLASH, 1)
      q0 == Find(after, QM, 1)
  IN
  IF q0 # 0 /\ (sl = 0 \/ q0 < sl) THEN Unspec ELSE                 \* query without "/" is not in the grammar
  LET rest  == IF sl = 0 THEN <<>> ELSE SubSeq(after, sl + 1, Len(after))
      parts == Split(rest, QM)
      F(k)  == IF Len(parts) >= k + 1 THEN parts[k + 1] ELSE <<>>
      dn    == parts[1]
      araw  == IF F(1) = <<>> THEN <<>> ELSE Split(F(1), COMMA)
      eraw  == IF F(4) = <<>> THEN <<>> ELSE Split(F(4), COMMA)
      es    == [i \in 1..Len(eraw) |-> ParseExt(eraw[i])]
      kinds == [i \in 1..Len(es) |-> Kind(es[i].name)]
  IN
  IF \/ Len(parts) > 5
     \/ ~PctWellFormed(dn) \/ ~PctWellFormed(F(3))
     \/ \E i \in 1..Len(araw) : araw[i] = <<>> \/ ~PctWellFormed(araw[i])
     \/ \E i \in 1..Len(es) : es[i].name = <<>> \/ ~PctWellFormed(es[i].raw)
     \/ \E i, j \in 1..Len(es) : i < j /\ kinds[i] = kinds[j] /\ kinds[i] # "unknown"
  THEN Unspec ELSE
  LET base   == PctDecode(dn)
      filter == IF F(3) = <<>> THEN DefaultFilter ELSE PctDecode(F(3))
      vals   == [i \in 1..Len(es) |-> PctDecode(es[i].raw)]
      hard   == \/ ~Utf8Ok(base) \/ ~Utf8Ok(filter)
                \/ ScopeOf(F(2)) = "bad"
                \/ \E i \in 1..Len(es) : \/ kinds[i] = "unknown" /\ es[i].crit
                                         \/ kinds[i] \in ValuedKinds /\ ~Utf8Ok(vals[i])
      soft   == \/ \E i \in 1..Len(es) : kinds[i] \notin ValuedKinds /\ ~Utf8Ok(vals[i])
                \/ F(2) # LowerStr(F(2))                                  \* case variant of a scope word
      idx    == SelectSeq([i \in 1..Len(es) |-> i], LAMBDA i : kinds[i] # "unknown")
  IN
  IF hard THEN ParseErr ELSE
  [ ok        |-> IF soft THEN "either" ELSE "yes",
    base      |-> base,
    attrs     |-> IF araw = <<>> THEN <<AllAttrs>> ELSE [i \in 1..Len(araw) |-> PctDecode(araw[i])],
    attrs_raw |-> IF araw = <<>> THEN <<AllAttrs>> ELSE araw,
    scope     |-> ScopeOf(F(2)),
    filter    |-> filter,
    exts      |-> [j \in 1..Len(idx) |-> [kind |-> kinds[idx[j]],
                                          val  |-> IF kinds[idx[j]] = "starttls" THEN <<>> ELSE vals[idx[j]]]] ]

(* the set view of an extension list, for comparison with the implementation's HashSet *)
ExtSet(xs) == { <<xs[i].kind, xs[i].val>> : i \in 1..Len(xs) }

(* RFC 4516 s.2.1: "A generated LDAP URL MUST consist only of ... reserved, unreserved, pct-encoded" *)
UrlAlphabetOk(u) == /\ \A i \in 1..Len(u) : Unreserved(u[i]) \/ Reserved(u[i]) \/ u[i] = PCT
                    /\ PctWellFormed(u)
=============================================================================
