SPECIFICATION Spec
CONSTANTS
  MaxFull = 2
  MaxMeta = 5
  MaxSampled = 3
  EmitVectors = TRUE
INVARIANTS WellFormed RefFilterLaws RefDnLaws AllHexLaws IdentityFilter IdentityDn Emit
CHECK_DEADLOCK FALSE
