SPECIFICATION Spec
CONSTANTS
  SoptsSurviveNonSearch = TRUE
  ModsSurviveLocalError = FALSE
  MaxLen = 2
  Wide = FALSE
  EmitVectors = FALSE
INVARIANTS ModsOneShot
CHECK_DEADLOCK FALSE
