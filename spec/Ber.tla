------------------------------- MODULE Ber -------------------------------
(***************************************************************************)
(* X.690 BER, the subset LDAP uses (RFC 4511 section 5.1): definite        *)
(* lengths, tag numbers 0..30.  Written from X.690, not from lber.          *)
(*                                                                         *)
(* A byte is a natural 0..255, a string is a sequence of bytes.  A tree is *)
(*   [c: class 0..3, n: tag number 0..30, prim: BOOLEAN,                   *)
(*    v: content octets (primitive), k: sequence of trees (constructed)]   *)
(* 64-bit integers are 8-octet big-endian two's-complement sequences:      *)
(* X.690 8.3 is stated on octets, and TLC integers are 32 bit.             *)
(***************************************************************************)
EXTENDS Naturals, Sequences

Prim(c, n, v) == [c |-> c, n |-> n, prim |-> TRUE,  v |-> v,    k |-> <<>>]
Cons(c, n, k) == [c |-> c, n |-> n, prim |-> FALSE, v |-> <<>>, k |-> k]

Universal == 0  Application == 1  Context == 2  Private == 3

(* X.690 8.1.2: identifier octet, low tag number form *)
Ident(t) == t.c * 64 + (IF t.prim THEN 0 ELSE 32) + t.n

(* minimal big-endian base-256 digits of n >= 0 (one octet for 0) *)
RECURSIVE Digits(_)
Digits(n) == IF n < 256 THEN <<n>> ELSE Digits(n \div 256) \o <<n % 256>>

RECURSIVE Zeros(_)
Zeros(k) == IF k = 0 THEN <<>> ELSE <<0>> \o Zeros(k - 1)

(* X.690 8.1.3.3 - 8.1.3.5 with the DER-style minimality C07 asks for *)
LenOct(n) == IF n < 128 THEN <<n>> ELSE LET d == Digits(n) IN <<128 + Len(d)>> \o d

(* every legal definite form of length n using at most MaxLenOct length octets *)
MaxLenOct == 4
(* ... and three padded ones beyond that: 8 length octets (the last that fits a 64-bit accumulator), 9 (the first that does
   not) and 126 (the most X.690 8.1.3.5 allows) *)
ExtraLenOct == {8, 9, 126}
Padded(n, ks) == { <<128 + k>> \o Zeros(k - Len(Digits(n))) \o Digits(n) : k \in ks }
AltLen(n) == (IF n < 128 THEN {<<n>>} ELSE {}) \cup
             { <<128 + Len(Digits(n)) + p>> \o Zeros(p) \o Digits(n) : p \in 0..(MaxLenOct - Len(Digits(n))) } \cup
             Padded(n, {9})
AltLenAll(n) == AltLen(n) \cup Padded(n, ExtraLenOct)         \* used for bare headers; trees get the 9-octet form only

RECURSIVE Flat(_)
Flat(ss) == IF ss = <<>> THEN <<>> ELSE Head(ss) \o Flat(Tail(ss))

RECURSIVE Enc(_)
Enc(t) == LET body == IF t.prim THEN t.v ELSE Flat([i \in 1..Len(t.k) |-> Enc(t.k[i])])
          IN  <<Ident(t)>> \o LenOct(Len(body)) \o body

(* header only: for run-length payloads that are never materialised *)
Header(c, n, prim, len) == <<c * 64 + (IF prim THEN 0 ELSE 32) + n>> \o LenOct(len)

(***************************************************************************)
(* Decoder accepting every definite form (X.690 8.1.3), independent of     *)
(* Enc.  Dec(s, p) decodes the element starting at position p of s and     *)
(* returns [ok, p (position after it), t].  Lengths are folded only when   *)
(* they cannot exceed 2^31 (TLC integers).                                 *)
(***************************************************************************)
RECURSIVE Fold(_, _, _)
Fold(s, p, n) == IF n = 0 THEN 0 ELSE Fold(s, p, n - 1) * 256 + s[p + n - 1]

Bad == [ok |-> FALSE, p |-> 0, t |-> Prim(0, 0, <<>>)]

RECURSIVE LeadZeros(_, _, _)
LeadZeros(s, q, n) == IF n > 0 /\ s[q] = 0 THEN 1 + LeadZeros(s, q + 1, n - 1) ELSE 0
RECURSIVE Dec(_, _), DecAll(_, _, _)
Dec(s, p) ==
  IF p + 1 > Len(s) THEN Bad ELSE
  LET id   == s[p]
      cls  == id \div 64
      cons == (id \div 32) % 2 = 1
      num  == id % 32
      l0   == s[p + 1]
      nlen == IF l0 < 128 THEN 0 ELSE l0 - 128
      \* leading zero octets of a long-form length carry no value (X.690 8.1.3.5 allows up to 126 length octets)
      z    == IF l0 >= 128 /\ p + 1 + nlen <= Len(s) THEN LeadZeros(s, p + 2, nlen) ELSE 0
      sig  == nlen - z
      okhdr == /\ num < 31
               /\ \/ l0 < 128
                  \/ /\ nlen >= 1 /\ nlen <= 126 /\ p + 1 + nlen <= Len(s) /\ sig <= MaxLenOct
                     /\ ~(sig = 4 /\ s[p + 2 + z] >= 64)
  IN IF ~okhdr THEN Bad ELSE
     LET len  == IF l0 < 128 THEN l0 ELSE IF sig = 0 THEN 0 ELSE Fold(s, p + 2 + z, sig)
         c0   == p + 2 + nlen
         cend == c0 + len
     IN IF cend - 1 > Len(s) THEN Bad
        ELSE IF ~cons THEN [ok |-> TRUE, p |-> cend, t |-> Prim(cls, num, SubSeq(s, c0, cend - 1))]
        ELSE LET kids == DecAll(s, c0, cend) IN
             IF ~kids.ok THEN Bad ELSE [ok |-> TRUE, p |-> cend, t |-> Cons(cls, num, kids.t)]
DecAll(s, p, e) ==
  IF p = e THEN [ok |-> TRUE, p |-> p, t |-> <<>>]
  ELSE LET d == Dec(SubSeq(s, 1, e - 1), p) IN
       IF ~d.ok THEN [ok |-> FALSE, p |-> 0, t |-> <<>>]
       ELSE LET r == DecAll(s, d.p, e) IN
            IF ~r.ok THEN r ELSE [ok |-> TRUE, p |-> e, t |-> <<d.t>> \o r.t]

(* decode exactly one element spanning all of s *)
DecOne(s) == LET d == Dec(s, 1) IN IF d.ok /\ d.p = Len(s) + 1 THEN d ELSE Bad

(***************************************************************************)
(* INTEGER / ENUMERATED (X.690 8.3): content = shortest two's-complement   *)
(* octets.  b8 is the 8-octet big-endian form of an i64.                   *)
(***************************************************************************)
RECURSIVE Strip(_)
Strip(s) == IF Len(s) > 1 /\ ((s[1] = 0 /\ s[2] < 128) \/ (s[1] = 255 /\ s[2] >= 128))
              THEN Strip(Tail(s)) ELSE s
IntContent(b8) == Strip(b8)

RECURSIVE Fill(_, _)
Fill(k, b) == IF k = 0 THEN <<>> ELSE <<b>> \o Fill(k - 1, b)
(* value (as 8 octets) denoted by content octets c, 1 <= Len(c) <= 8 *)
IntValue(c) == Fill(8 - Len(c), IF c[1] >= 128 THEN 255 ELSE 0) \o c

(* non-negative content octets as a natural (only where it fits in TLC's range) *)
NatOf(c) == Fold(c, 1, Len(c))
(* 8-octet form of a small natural *)
B8OfNat(n) == LET d == Digits(n) IN Zeros(8 - Len(d)) \o d

BoolContent(b) == IF b THEN <<255>> ELSE <<0>>

(* commonly used universal constructors *)
TInt(b8)   == Prim(0, 2, IntContent(b8))
TIntN(n)   == Prim(0, 2, IntContent(B8OfNat(n)))
TEnumN(n)  == Prim(0, 10, IntContent(B8OfNat(n)))
TOct(v)    == Prim(0, 4, v)
TBool(b)   == Prim(0, 1, BoolContent(b))
TSeq(k)    == Cons(0, 16, k)
TSet(k)    == Cons(0, 17, k)
=============================================================================
