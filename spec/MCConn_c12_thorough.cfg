SPECIFICATION Spec
CONSTANTS
  Ops = {"o1", "o2"}
  NoOp = "none"
  MaxId = 4
  Last0 <- LastWrap
  MaxItems = 1
  ItemTypes <- EntOnly
  MaxOrphans = 1
  Kinds <- KindsTimed
  Tmo = {0, 1, 2}
  Horizon = 4
  AllowFaults = FALSE
  OpenGarbage = FALSE
  AdapterErrors = FALSE
  AllowCancel = FALSE
  AllowStall = FALSE
  AbstractTime = FALSE
  LeakSearchIdOnDone = FALSE
  AbandonKeepsTargetId = FALSE
  DirectStaysActive = FALSE
  StaleInsertAfterScrub = FALSE
INVARIANTS TypeOK TimeoutExact Routing NoLeak Protected RoutedProtected
PROPERTIES TimeoutKeepsConn
CHECK_DEADLOCK FALSE
