SPECIFICATION Spec
CONSTANTS
  SoptsSurviveNonSearch = FALSE
  ModsSurviveLocalError = FALSE
  MaxLen = 3
  Wide = FALSE
  EmitVectors = TRUE
INVARIANTS ModsOneShot Consistent Emit
CHECK_DEADLOCK FALSE
