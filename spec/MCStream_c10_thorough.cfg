SPECIFICATION Spec
CONSTANTS
  StaleResultAfterSplice = FALSE
  Envs <- C10EnvsThorough
  SearchEnvs <- C10SearchThorough
  Alphabet <- AlphaNF
  MaxCalls = 6
  Plans <- NoPlans
INVARIANTS ItemsLaw FinishLaw StateLaw PagingLaw SearchLaw NoPanic Emit
CHECK_DEADLOCK FALSE
